#!/usr/bin/env python3
"""seedrerun.py <seed-id> <PID> [<PID>...]
Re-run the quick checks of the given properties against a change already kept under
/verif/seeded/<seed-id>/ (apply patch.diff to /repo, run, undo) and record the result
in its meta.json (field "rerun": checks, results, caught_by, head of /verif)."""
import json, os, subprocess, sys, time
sys.path.insert(0, os.path.dirname(os.path.abspath(__file__)))
import seedtest

def main():
    sid, pids = sys.argv[1], sys.argv[2:]
    d = "/verif/seeded/%s" % sid
    patch = os.path.join(d, "patch.diff")
    checks = seedtest.run_checks(patch, pids)
    caught = [p for p, r in checks.items() if isinstance(r, dict) and r.get("rc") == 1 and r.get("violations")]
    mp = os.path.join(d, "meta.json")
    meta = json.load(open(mp))
    head = subprocess.run("git -C /verif log --format=%h -1", shell=True, capture_output=True, text=True).stdout.strip()
    meta["rerun"] = dict(verif_head=head, checks=pids, results=checks, caught_by=caught)
    meta["caught_by"] = sorted(set(caught) | set(meta.get("caught_by") or [])) if caught else meta.get("caught_by")
    json.dump(meta, open(mp, "w"), indent=1)
    print("== %s rerun caught_by=%s" % (sid, caught))
    for p, r in checks.items():
        print("   ", p, r if not isinstance(r, dict) else {x: r[x] for x in r if x != "replay_excerpt"})

if __name__ == "__main__":
    main()
