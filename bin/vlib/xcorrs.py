"""CORR-sched, step-by-step part for Map (internal/xsync/map.go): the schedule the
controlled scheduler followed on the real Map code is replayed on the extracted
XMachineS; every scheduling step (thread, primitive kind, value class -- for the
Uint64 primitives the exact value of the topHashMutex word --, set of enabled
threads), every result, every user-function invocation (with the old value it was
given), every Range visit, the final Size and the final layout must coincide."""
import json
from . import common as C
from .xcorr import memhash, seeds_of, keys_of

NIL_EV = -9223372036854775808      # a nil value inside event fields (harness/README.md)

def nseeds_of(scen):
    """a bound on the table generations a scenario can allocate: the initial table, at most one
    per call of a thread (a grow, a shrink or a clear); in the sequential setup one per Clear, and
    between two Clears the doublings the stores can cause and as many halvings (the driver parses
    every HASH line, so the bound is kept small; a seed beyond it would read 0 and show up as a
    mismatch)"""
    setup = scen.get("setup", [])
    stores = sum(1 for o in setup if o["op"] not in ("Load", "Size", "Range", "Clear", "Delete", "LoadAndDelete"))
    clears = sum(1 for o in setup if o["op"] == "Clear")
    doublings = 0
    while (36 << doublings) < stores:
        doublings += 1
    return 2 + sum(len(th) for th in scen.get("threads", [])) + clears + (clears + 1) * 2 * doublings

def key_string(k):
    return "" if k == 0 else "k%d" % k

def key_hash(k, seed):
    """hashString(key, seed) of util_hash.go in the rewritten scratch copy:
    "" -> seed, otherwise vsched.Memhash over the bytes of the string"""
    s = key_string(k)
    if s == "":
        return seed
    return memhash(s.encode(), seed)

FN = {"incr": "incr", "del": "del", "noop-del-abs": "noopdelabs"}

def _v(op):
    """token of the value of an op: absent = 0, null = nil"""
    if "v" not in op:
        return "0"
    return "nil" if op["v"] is None else "%d" % op["v"]

def op_tokens(op):
    o = op["op"]; k = op.get("k", 0)
    if o == "Load": return "load %d" % k
    if o == "Store": return "store %d %s" % (k, _v(op))
    if o == "LoadOrStore": return "loadorstore %d %s" % (k, _v(op))
    if o == "LoadAndStore": return "loadandstore %d %s" % (k, _v(op))
    if o == "LoadOrCompute":
        return None if op.get("park") else "loadorcompute %d %s" % (k, _v(op))
    if o == "Compute":
        if op.get("park"): return None
        fn = op.get("fn", "")
        if fn.startswith("set:"): return "compute %d set %s" % (k, fn[4:])
        if fn.startswith("del:"): return "compute %d del 0" % k
        if fn.startswith("delif:"): return "compute %d delif %s" % (k, fn[6:])
        if fn in FN: return "compute %d %s 0" % (k, FN[fn])
        return None
    if o == "LoadAndDelete": return "loadanddelete %d" % k
    if o == "Delete": return "delete %d" % k
    if o == "Clear": return "clear"
    if o == "Size": return "size"
    if o == "Range":
        vis = op.get("visitor", "all") or "all"
        if vis == "all": return "range"
        if vis == "del": return "range del"
        if vis.startswith("store:"): return "range store %s" % vis[6:]
        if vis.startswith("ins:"): return "range ins %s" % vis[4:]
        return None                # stop:<n>, clear: visitors with a state
    return None

def model_case(scen, res):
    """-> text for xruns, or None if the scenario uses something the machine does not model
    (Park inside a user function, the Range visitors stop:<n> and clear)"""
    if scen.get("container") != "Map":
        return None
    if (scen.get("hasher") or "default") != "default":
        return None
    lines = ["XCASE %s %d" % (scen["id"], scen.get("presize", 0))]
    seeds = seeds_of(scen.get("rseed", 1) or 1, nseeds_of(scen))
    for g, s in enumerate(seeds):
        lines.append("SEED %d %d" % (g, s))
    # the driver's oracle is a list searched from the line given last: the seeds of the
    # early table generations and the keys of the threads are looked up most often
    tkeys = set(o["k"] for th in scen.get("threads", []) for o in th if "k" in o)
    allkeys = set(keys_of(scen))
    for o in scen.get("setup", []) + [o for th in scen.get("threads", []) for o in th]:
        if o["op"] == "Range" and (o.get("visitor") or "").startswith("ins:"):
            base = int(o["visitor"][4:])
            # an inserted key can be visited in a later bucket and inserted again, shifted once more
            allkeys |= set(j * base + k for k in list(allkeys) for j in range(1, 9))
    keys = sorted(k for k in allkeys if k not in tkeys) + sorted(tkeys)
    seen = set()
    for s in reversed(seeds):
        if s in seen: continue
        seen.add(s)
        for k in keys:
            lines.append("HASH %d %d %d" % (k, s, key_hash(k, s)))
    for op in scen.get("setup", []):
        t = op_tokens(op)
        if t is None: return None
        lines.append("SETUP " + t)
    for ti, th in enumerate(scen.get("threads", [])):
        for op in th:
            t = op_tokens(op)
            if t is None: return None
            lines.append("THREAD %d %s" % (ti, t))
    lines.append("NTHREADS %d" % len(scen.get("threads", [])))
    tids = [row[1] for row in res.get("trace", [])]
    lines.append("SCHED " + " ".join(map(str, tids)))
    lines.append("END")
    return "\n".join(lines)

def go_step_lines(res):
    out = []
    for step, tid, kind, cls, en in res.get("trace", []):
        if kind == "Broadcast":
            cls = "*"
        out.append("S %d %s %s en=%s" % (tid, kind, cls, ",".join(map(str, en))))
    return out

def _vs(v):
    return "nil" if v is None else "%d" % v

def go_results(res):
    """per thread, in program order: canonical result strings of the calls that returned"""
    out = {}
    for h in res.get("history", []):
        if h.get("sub") or h.get("ret", -1) < 0:
            continue
        r = h.get("res", {})
        op = h["op"]["op"]
        if op in ("Store", "Delete"):
            s = None               # the API drops doCompute's result: anything goes
        elif op in ("Clear", "Range"):
            s = "unit"
        elif op == "Size":
            s = "nat %d" % r.get("n", 0)
        else:
            s = "val %s %s" % (_vs(r.get("v")), "1" if r.get("ok") else "0")
        out.setdefault(h["t"], []).append(s)
    return out

def model_results(ml):
    out = {}
    for l in ml:
        if l.startswith("R "):
            _, t, rest = l.split(" ", 2)
            out.setdefault(int(t), []).append(rest)
    return out

def _ev(x):
    return "nil" if x == NIL_EV else "%d" % x

def go_events(res):
    """per thread, in order: user-function invocations and Range visits"""
    fn, vis = {}, {}
    for e in res.get("events", []):
        f = e.get("f", [])
        if e["kind"] == "fn":
            # Compute logs (k, old, loaded); LoadOrCompute logs (k) and is only called for an absent key
            s = "%d %s %d" % (f[0], _ev(f[1]), f[2]) if len(f) >= 3 else "%d nil 0" % f[0]
            fn.setdefault(e["t"], []).append(s)
        elif e["kind"] == "visit":
            vis.setdefault(e["t"], []).append("%d %s" % (f[0], _ev(f[1])))
    return fn, vis

def model_events(ml):
    fn, vis = {}, {}
    for l in ml:
        if l.startswith("F "):
            _, t, rest = l.split(" ", 2)
            fn.setdefault(int(t), []).append(rest)
        elif l.startswith("V "):
            _, t, rest = l.split(" ", 2)
            vis.setdefault(int(t), []).append(rest)
    return fn, vis

def go_layout_string(lay):
    g = []
    for i, chain in enumerate(lay["chains"]):
        slots = [sl for b in chain for sl in b["slots"]]
        locked = any(b.get("lock") for b in chain)
        if len(slots) == 3 and not locked and all(sl[0] is None and sl[1] == 0 and sl[2] == 0 for sl in slots):
            continue
        parts = []
        for j, sl in enumerate(slots):
            parts.append(("|" if j and j % 3 == 0 else ("," if j else "")) +
                         "%s/%d/%d" % ("-" if sl[0] is None else sl[0], sl[1], sl[2]))
        g.append("%d:%s%s;" % (i, "L" if locked else "", "".join(parts)))
    return "".join(g)

def compare(scen, res, model_text):
    """-> None if the model replays the run exactly, else a short description"""
    ml = model_text.splitlines()
    msteps = [l for l in ml if l.startswith("S ") or l.startswith("DISABLED")]
    gsteps = go_step_lines(res)
    for i, g in enumerate(gsteps):
        m = msteps[i] if i < len(msteps) else "(model has no such step)"
        if m != g:
            return "step %d: implementation [%s] model [%s]" % (i + 1, g, m)
    if len(msteps) > len(gsteps):
        return "model has extra steps: %s" % msteps[len(gsteps)]
    # results, per thread in program order
    gr, mr = go_results(res), model_results(ml)
    for t in sorted(set(gr) | set(mr)):
        g, m = gr.get(t, []), mr.get(t, [])
        if len(g) != len(m) or any(x is not None and x != y for x, y in zip(g, m)):
            if True:
                return "results of thread %d differ: implementation %s model %s" % (t, gr.get(t), mr.get(t))
    # calls made by Range visitors: how many returned, per thread
    gs, ms = {}, {}
    for h in res.get("history", []):
        if h.get("sub") and h.get("ret", -1) >= 0:
            gs[h["t"]] = gs.get(h["t"], 0) + 1
    for l in ml:
        if l.startswith("RS "):
            t = int(l.split()[1]); ms[t] = ms.get(t, 0) + 1
    if gs != ms:
        return "calls made by Range visitors differ: implementation %s model %s" % (gs, ms)
    # user-function invocations (key, old value, loaded) and Range visits, per thread in order
    gf, gv = go_events(res)
    mf, mv = model_events(ml)
    if gf != mf:
        return "user-function invocations differ: implementation %s model %s" % (gf, mf)
    if gv != mv:
        return "Range visits differ: implementation %s model %s" % (gv, mv)
    # final size, contents and layout
    fin = res.get("final")
    mfin = [l for l in ml if l.startswith("FINAL")]
    if fin and not mfin:
        return "model printed no final state"
    if fin and mfin:
        d = dict(x.split("=", 1) for x in mfin[0].split()[1:])
        if int(d["size"]) != fin.get("size"):
            return "final Size differs: implementation %s model %s" % (fin.get("size"), d["size"])
        mp = sorted((int(p.split(":")[0]), p.split(":")[1]) for p in d.get("pairs", "").split(",") if p)
        gp = sorted((k, _vs(v)) for k, v in fin.get("range", []))
        if mp != gp:
            return "final contents differ: implementation %s model %s" % (gp[:20], mp[:20])
        lay = fin.get("layout")
        if lay:
            if lay["buckets"] != int(d["len"]) or lay["seed"] != int(d["seed"]):
                return "final table differs: implementation len=%s seed=%s model len=%s seed=%s" % (lay["buckets"], lay["seed"], d["len"], d["seed"])
            if (lay["resizing"], lay["growths"], lay["shrinks"], lay["counter"]) != (int(d["resizing"]), int(d["growths"]), int(d["shrinks"]), int(d["size"])):
                return "final flags differ: implementation resizing=%s growths=%s shrinks=%s counter=%s model %s" % (
                    lay["resizing"], lay["growths"], lay["shrinks"], lay["counter"], mfin[0][:120])
            g = go_layout_string(lay)
            if g != d.get("chains", ""):
                return "final layout differs: implementation %s model %s" % (g[:300], d.get("chains", "")[:300])
    return None

# ---------------------------------------------------------------------------
# directed scenario families (the generator of harness/gen keeps rseed = 1 and three keys, so
# the chains a thread meets are always the same and a full chain -- hence a grow -- or an
# emptied table -- hence a shrink -- is never met by a thread; these families fill that gap)

def family(kind, n, seed):
    """kind: "grow"   -- a table of 32 buckets prefilled to about its grow threshold (72), threads insert new keys
             "shrink" -- a table grown to 64 buckets in the setup and emptied down to a few keys, threads delete the rest
             "chains" -- many keys, no prefill: long chains, racing updates / deletes / re-inserts in one table
    -> list of scenarios (random schedules, varying rseed, sometimes a presize)"""
    import random
    out = []
    for i in range(n):
        rnd = random.Random("%s/%d/%d" % (kind, seed, i))
        sc = dict(id="%s-%d-%d" % (kind, seed, i), container="Map", rseed=rnd.randint(1, 1 << 40), setup=[], threads=[],
                  sched=dict(kind=rnd.choice(["random", "random", "pct"]), seed=rnd.randint(1, 1 << 60), depth=3),
                  max_steps=40000, trace=True, layout=True)
        val = [100]
        def nv():
            val[0] += 1
            return val[0]
        def rw(keys, newkeys, pdel, pclear=0):
            """a random op"""
            x = rnd.random()
            if x < pclear: return dict(op="Clear")
            x = rnd.random()
            if x < pdel:
                k = rnd.choice(keys)
                return rnd.choice([dict(op="Delete", k=k), dict(op="LoadAndDelete", k=k), dict(op="Compute", k=k, fn="del"),
                                   dict(op="Compute", k=k, fn="noop-del-abs")])
            x = rnd.random()
            if x < 0.15: return dict(op="Load", k=rnd.choice(keys + newkeys))
            if x < 0.20: return dict(op="Size")
            if x < 0.24:
                return dict(op="Range", visitor=rnd.choice(["all", "all", "del", "store:%d" % nv(), "ins:3000"]))
            k = rnd.choice(newkeys)
            return rnd.choice([dict(op="Store", k=k, v=nv()), dict(op="LoadOrStore", k=k, v=nv()), dict(op="LoadAndStore", k=k, v=nv()),
                               dict(op="LoadOrCompute", k=k, v=nv()), dict(op="Compute", k=k, fn="incr"),
                               dict(op="Compute", k=k, fn="set:%d" % nv()), dict(op="Store", k=k, v=None)])
        nthr = rnd.choice([2, 3, 3, 4])
        if kind == "grow":
            pre = list(range(1000, 1000 + rnd.randint(68, 78)))
            sc["setup"] = [dict(op="Store", k=k, v=nv()) for k in pre]
            newkeys = list(range(2000, 2000 + rnd.randint(4, 12)))
            sc["threads"] = [[rw(pre, newkeys, 0.1, 0.03) for _ in range(rnd.randint(3, 5))] for _ in range(nthr)]
        elif kind == "shrink":
            if rnd.random() < 0.25:
                sc["presize"] = rnd.choice([40, 97, 100, 150])
            big = rnd.random() < 0.2
            pre = list(range(1000, 1000 + (rnd.randint(200, 230) if big else rnd.randint(96, 120))))
            sc["setup"] = [dict(op="Store", k=k, v=nv()) for k in pre]
            rnd.shuffle(pre)
            keep = pre[:rnd.randint(2, 7 if big else 4)]
            sc["setup"] += [dict(op="Delete", k=k) for k in pre[len(keep):]]
            newkeys = list(range(2000, 2003))
            sc["threads"] = [[rw(keep, newkeys, 0.75, 0.02) for _ in range(rnd.randint(2, 4))] for _ in range(nthr)]
        elif kind == "chains":
            keys = list(range(0, rnd.randint(6, 40)))
            sc["setup"] = [dict(op="Store", k=k, v=nv()) for k in keys if rnd.random() < 0.6]
            sc["threads"] = [[rw(keys, keys, 0.35, 0.01) for _ in range(rnd.randint(3, 6))] for _ in range(nthr)]
        else:
            raise ValueError(kind)
        out.append(sc)
    return out

def scenarios_of(tools, cont, cnt, seed, extra, prefix):
    """extra is the option list of harness/gen; two pseudo-options are handled here:
    "@<family>" (first element): the directed family of that name instead of harness/gen;
    "@rseed": give every generated scenario its own rseed (harness/gen leaves it at 1)"""
    from . import sched
    extra = list(extra)
    if extra and extra[0].startswith("@") and extra[0] != "@rseed":
        return family(extra[0][1:], cnt, seed)
    vary = "@rseed" in extra
    extra = [x for x in extra if x != "@rseed"]
    txt = sched.gen(tools, cont, cnt, seed, extra + ["-trace", "-prefix", prefix])
    scen = [json.loads(l) for l in txt.splitlines() if l.strip()]
    for j, sc in enumerate(scen):
        sc["layout"] = True
        if vary:
            sc["rseed"] = 1 + ((seed * 1000003 + j * 7919) % (1 << 40))
    return scen

# the sets of the acceptance run (3 x the generator) and the directed families
def default_sets(n):
    return [("Map", n, []), ("Map", n, ["-prefill", "73", "-clear", "30"]), ("Map", n, ["-threads", "4", "-ops", "4", "-sched", "mix"]),
            ("Map", n, ["-prefill", "73", "-clear", "30", "-keys", "8", "@rseed"]),
            ("Map", n, ["@grow"]), ("Map", n, ["@shrink"]), ("Map", n, ["@chains"])]

def run(ctx, tools, xruns_exe, sets, cov=None):
    """-> (n_compared, mismatches [(scenario, result, why)], skipped).
    cov: a dict; if given, it receives, per program counter of the machine (and a few
    branch outcomes), the number of scenarios that executed it and the number of steps"""
    import os
    from . import sched
    n, bad, skipped = 0, [], 0
    for i, (cont, cnt, extra) in enumerate(sets):
        scen = scenarios_of(tools, cont, cnt, ctx.seed + 31 * i, extra, "s%d_" % i)
        rc, out, err = C.sh([tools["verifsched"]], inp="\n".join(json.dumps(x) for x in scen) + "\n", timeout=C.driver_timeout())
        if rc == 124:
            bad.append((None, None, "implementation hung: the scheduler driver did not finish within %ds on set %s %s" % (C.driver_timeout(), cont, extra)))
            continue
        results = {}
        for l in out.splitlines():
            try:
                j = json.loads(l); results[j.get("id")] = j
            except ValueError:
                pass
        cases, keep = [], []
        for sc in scen:
            r = results.get(sc["id"])
            if not r or "error" in r:
                skipped += 1; continue
            mc = model_case(sc, r)
            if mc is None:
                skipped += 1; continue
            cases.append(mc); keep.append((sc, r))
        env = dict(os.environ, XRUNS_COV="1") if cov is not None else None
        rc2, out2, err2 = C.sh([xruns_exe], inp="\n".join(cases) + "\n", timeout=C.driver_timeout(), env=env)
        blocks = out2.split("XCASE ")[1:]
        for (sc, r), blk in zip(keep, blocks):
            n += 1
            if cov is not None:
                for l in blk.splitlines():
                    if l.startswith("COV "):
                        for item in l.split()[1:]:
                            name, cnt = item.rsplit("=", 1)
                            a = cov.setdefault(name, [0, 0])
                            a[0] += 1; a[1] += int(cnt)
            why = compare(sc, r, blk)
            if why:
                bad.append((sc, r, why))
        if rc2 != 0 or len(blocks) != len(keep):
            bad.append((None, None, "model driver crashed or lost cases (%d of %d): %s" % (len(blocks), len(keep), err2[-500:])))
    return n, bad, skipped
