"""One run of a check: regenerate Params.v, build Coq (full .vo), build the model
driver and the scratch copy, run the correspondences of the property, decide."""
import json, os, re, sys, time
from . import common as C
from . import gen_cache, cacheseq

class Ctx:
    def __init__(self, pid):
        self.pid, self.seed, self.tier, self.t0 = pid, C.seed(), C.tier(), time.time()
        self.notes, self.violations, self.known = [], [], []
        self.cov = {}
        self._coq = self._ocaml = self._go = None

    # ---------------- builds (memoised within one process) ----------------
    def srcfacts(self):
        out = os.path.join(C.COQ, "gen", "Params.v")
        rc, o, e = C.sh(["go", "run", ".", "-repo", C.REPO, "-out", out, "-facts", os.path.join(C.COQ, "gen", "SrcFacts.v")],
                        cwd=os.path.join(C.VERIF, "harness", "srcfacts"), env=C.GOENV, timeout=300)
        return rc == 0, (o + e).strip()

    def coq(self):
        """-> (ok, failed_files, log)"""
        if self._coq is None:
            ok_src, log_src = self.srcfacts()
            gate = C.coq_gate()
            rc, out, err = C.sh("coq_makefile -f _CoqProject -o Makefile >/dev/null && make -k -j%d 2>&1" % C.NPROC,
                                cwd=C.COQ, timeout=3000)
            log = out + err
            failed = sorted(set(re.findall(r'File "\./([^"]+\.v)", line \d+[^\n]*\n(?:[^\n]*\n)?Error', log)) |
                            set(m + ".v" for m in re.findall(r"\*\*\* \[Makefile:\d+: (\S+)\.vo\] Error", log)))
            if not ok_src:
                failed.append("gen/Params.v (srcfacts: %s)" % log_src[-300:])
            for g in gate:
                failed.append("GATE " + g)
            self._coq = (rc == 0 and ok_src and not gate, failed, log)
        return self._coq

    def ocaml(self):
        if self._ocaml is None:
            self._ocaml = C.ocaml_build()
        return self._ocaml

    def go_seq(self):
        if self._go is None:
            self._go = C.go_scratch()
        return self._go

    # ---------------- verdicts ----------------
    def violation(self, name, replay_obj, failing_input=True, what=""):
        """record a violation unless a known finding matches it"""
        for kf in C.load_findings():
            if kf.get("status") == "finding" and kf.get("property") == self.pid and match_finding(kf, replay_obj):
                line = "KNOWN-FINDING: property=%s %s" % (self.pid, kf.get("what", ""))
                if line not in self.known:
                    self.known.append(line)
                return
        replay_obj = dict(replay_obj, property=self.pid, seed=self.seed,
                          kind="failing-input" if failing_input else "no-failing-input-found", what=what)
        path = C.write_replay(self.pid, name, replay_obj)
        self.violations.append((path, failing_input, what))

    def finish(self, coverage, assumptions):
        # a broken proof obligation for which the search DID find a failing input is reported through that input
        if any(fi for _, fi, _ in self.violations):
            self.violations = [v for v in self.violations if v[1] or v[2] != "proof obligation no longer checks"]
        for line in self.known:
            print(line)
        for path, fi, what in self.violations:
            print("VIOLATION property=%s replay=%s%s" % (self.pid, path, "" if fi else " no-failing-input-found"))
        coverage = dict(coverage)
        coverage.setdefault("known_findings_reported", self.known)
        C.write_evidence(self.pid, self.tier, self.seed, coverage, time.time() - self.t0,
                         len(self.violations), assumptions)
        return 1 if self.violations else 0

def match_finding(kf, replay):
    m = kf.get("match", {})
    for k, v in m.items():
        if k == "op_regex":
            if not re.search(v, replay.get("failing_op", "")):
                return False
        elif k == "class":
            if replay.get("class") != v:
                return False
        elif replay.get(k) != v:
            return False
    return True

# ----------------------------------------------------------------------------
# proof side: which files carry a property's theorems, what they print

def count_qed(files):
    n = 0
    for f in files:
        p = os.path.join(C.COQ, f)
        if os.path.exists(p):
            n += len(re.findall(r"\b(Qed|Defined)\.", open(p).read()))
    return n

def assumptions_of(props_file):
    """re-run coqc on the property file (cheap) and collect what Print Assumptions says"""
    rc, out, err = C.sh("coqc -Q . CacheV %s 2>&1" % props_file, cwd=C.COQ, timeout=900)
    closed = out.count("Closed under the global context")
    axioms = re.findall(r"^Axioms:\n((?:.+\n)+)", out, re.M)
    thms = re.findall(r"^(?:Theorem|Example|Corollary|Definition)\s+(C\d\d\w*)", open(os.path.join(C.COQ, props_file)).read(), re.M)
    return dict(ok=(rc == 0), closed=closed, axioms=[a.strip() for a in axioms], theorems=thms, log=out[-2000:] if rc else "")

def proof_report(ctx, props_file, proof_files):
    """-> (obligations, discharged, broken list, assumptions text list)"""
    ok, failed, log = ctx.coq()
    mine = [props_file] + proof_files
    broken = [f for f in failed if any(f.startswith(m) for m in mine) or f.startswith("GATE") or f.startswith("gen/")]
    a = assumptions_of(props_file) if props_file.replace(".v", ".vo") and os.path.exists(os.path.join(C.COQ, props_file[:-2] + ".vo")) else dict(ok=False, closed=0, axioms=[], theorems=[], log="not built")
    if not a["ok"] and props_file not in broken:
        broken.append(props_file)
    obligations = count_qed(mine)
    discharged = obligations if not broken else count_qed([f for f in mine if f not in broken and os.path.exists(os.path.join(C.COQ, f[:-2] + ".vo"))])
    return obligations, discharged, broken, a

TRUSTED = [
    "Coq 8.16.1 kernel (coqc, full .vo build; vm_compute used for closed computations; no native_compute)",
    "no Axiom/Parameter/Admitted/admit, no switched-off guard/positivity/universe checks (grep gate on every run)",
    "extraction: ExtrOcamlBasic only (bool, option, list, prod, unit, sumbool); no Extract Constant; Z/N/positive/nat kept as Coq datatypes; OCaml 4.13.1; hand-written driver ocaml/modelrun.ml (parsing, printing)",
    "srcfacts (constants of /repo -> coq/gen/Params.v; constructor wiring and the call budgets of the cache methods -> coq/gen/SrcFacts.v by the translator harness/srcfacts/skeleton.go; regenerated every run)",
    "Go drivers and rewriter of the scratch copy (harness/), virtual clock",
]
