"""C16, dynamic part: on the real code under the controlled scheduler a writer /
resizer A is run alone up to a chosen point (inside its user function, after K
of its atomic or lock operations, in the middle of a table copy) and frozen
there; then a reader B runs ALONE.  B must finish (not block, not spin) and may
only perform loads.  The complete history (A is released afterwards) is also
checked for linearizability, which covers 'the value returned is the last
completely written one'."""
import json
from . import common as C

NOEXP = -2000000000
LOADS = ("start", "LoadPointer", "LoadUint64", "LoadInt64", "LoadUint32", "LoadInt32", "LoadValue", "Load")

def _containers(tier):
    out = [("Map", None), ("MapOf_int", "default"), ("MapOf_int", "sameidx"), ("MapOf_int", "const"), ("MapOf_str", "default"),
           ("Cache", None), ("CacheOf_int", None), ("CacheOf_str", None)]
    return out

def _setup(cont):
    cache = cont.startswith("Cache")
    if cache:
        s = [{"op": "Set", "k": k, "v": 10 * k + k, "d": NOEXP} for k in (1, 2, 3)]
    else:
        s = [{"op": "Store", "k": k, "v": 10 * k + k} for k in (1, 2, 3)]
    if cont == "Map":
        s.append({"op": "Store", "k": 4, "v": None})
    return s

def _prefill(cont, hasher):
    n = {"Map": 73, "Cache": 73}.get(cont, 125 if hasher == "const" else 121)
    if cont.startswith("Cache"):
        return [{"op": "Set", "k": 1000 + i, "v": 5000 + i, "d": NOEXP} for i in range(n)]
    return [{"op": "Store", "k": 1000 + i, "v": 5000 + i} for i in range(n)]

def _writers(cont):
    """(name, op, kind) kind: 'park' | 'steps' ; deleting: which key it may remove (None, k, 'all')"""
    cache = cont.startswith("Cache")
    W = []
    if cache:
        W += [("compute-present-park", {"op": "Compute", "k": 1, "fn": "set:5", "d": NOEXP, "park": "fn"}, "park", None),
              ("compute-absent-park", {"op": "Compute", "k": 9, "fn": "set:6", "d": NOEXP, "park": "fn"}, "park", None),
              ("getorcompute-absent-park", {"op": "GetOrCompute", "k": 9, "v": 7, "d": NOEXP, "park": "fn"}, "park", None),
              ("set-present", {"op": "Set", "k": 1, "v": 101, "d": NOEXP}, "steps", None),
              ("set-absent", {"op": "Set", "k": 9, "v": 109, "d": NOEXP}, "steps", None),
              ("delete", {"op": "Delete", "k": 1}, "steps", 1),
              ("getanddelete", {"op": "GetAndDelete", "k": 2}, "steps", 2),
              ("deleteexpired", {"op": "DeleteExpired"}, "steps", None),
              ("clear", {"op": "Clear"}, "steps", "all")]
    else:
        W += [("compute-present-park", {"op": "Compute", "k": 1, "fn": "set:5", "park": "fn"}, "park", None),
              ("compute-absent-park", {"op": "Compute", "k": 9, "fn": "set:6", "park": "fn"}, "park", None),
              ("loadorcompute-absent-park", {"op": "LoadOrCompute", "k": 9, "v": 7, "park": "fn"}, "park", None),
              ("store-present", {"op": "Store", "k": 1, "v": 101}, "steps", None),
              ("store-absent", {"op": "Store", "k": 9, "v": 109}, "steps", None),
              ("delete", {"op": "Delete", "k": 1}, "steps", 1),
              ("loadanddelete", {"op": "LoadAndDelete", "k": 2}, "steps", 2),
              ("clear", {"op": "Clear"}, "steps", "all")]
    return W

def _readers(cont, deleting):
    cache = cont.startswith("Cache")
    R = []
    keys = [1, 2, 3, 9] + ([4] if cont == "Map" else [])
    if cache:
        for k in keys:
            R += [{"op": "Get", "k": k}]
        R += [{"op": "GetWithExpiration", "k": 1}, {"op": "GetWithTTL", "k": 2}, {"op": "GetWithTTL", "k": 9}, {"op": "Count"}]
    else:
        for k in keys:
            R += [{"op": "Load", "k": k}]
        R += [{"op": "Size"}]
        # hit path of the load-if-exists calls: only for keys that stay present whatever A does
        for k in [3] + ([4] if cont == "Map" else []):
            if deleting not in ("all", k):
                R += [{"op": "LoadOrStore", "k": k, "v": 777}, {"op": "LoadOrCompute", "k": k, "v": 778}]
    return R

def gen(tier):
    scen = []
    n = 0
    ksteps = list(range(1, 19)) if tier == "quick" else list(range(1, 26))
    for cont, hasher in _containers(tier):
        base = dict(container=cont, layout=False)
        if hasher:
            base["hasher"] = hasher
        for name, wop, kind, deleting in _writers(cont):
            points = [dict(park="fn")] if kind == "park" else [dict(k=K) for K in ksteps]
            for pt in points:
                for rop in _readers(cont, deleting):
                    n += 1
                    sc = dict(base, id="c16_%d" % n, setup=_setup(cont), threads=[[wop], [rop]],
                              sched=dict(kind="solo-after", a=0, b=1, b_max=2000, **pt), hold=["fn"], max_steps=60000,
                              note="%s %s" % (name, json.dumps(pt)))
                    scen.append(sc)
        # hit path of the load-if-exists calls for keys in OVERFLOW buckets: a prefilled table (chains longer than one
        # bucket), A parked inside its user function on one prefilled key (it holds that root bucket), B then hits every
        # other prefilled key with LoadOrStore / LoadOrCompute / Load in one go: loads only, whatever chain a key sits in
        if not cont.startswith("Cache"):
            pre = _prefill(cont, hasher)
            pk = [o["k"] for o in pre][:-3]      # stay below the grow threshold: no resize in this family
            pre = pre[:len(pk)]
            xs = pk[::7] if tier == "quick" else pk
            for X in xs:
                for opn, extra in (("LoadOrStore", {"v": 777}), ("LoadOrCompute", {"v": 778}), ("Load", {})):
                    n += 1
                    bops = [dict({"op": opn, "k": k}, **extra) for k in pk if k != X]
                    scen.append(dict(base, id="c16_%d" % n, setup=_setup(cont) + pre,
                                     threads=[[{"op": "Compute", "k": X, "fn": "set:5", "park": "fn"}], bops],
                                     sched=dict(kind="solo-after", a=0, b=1, b_max=40000, park="fn"), hold=["fn"], max_steps=200000,
                                     note="overflow hit path: writer parked on %d, %s of every other prefilled key" % (X, opn)))
        # a grow in flight: table at its threshold, A inserts and is frozen K steps into the resize
        grow_ks = list(range(3, 420, 29 if tier == "quick" else 5))
        for K in grow_ks:
            for rop in _readers(cont, None)[:6] + [_readers(cont, None)[-1]]:
                n += 1
                wop = {"op": "Set", "k": 9, "v": 109, "d": NOEXP} if cont.startswith("Cache") else {"op": "Store", "k": 9, "v": 109}
                scen.append(dict(base, id="c16_%d" % n, setup=_setup(cont) + _prefill(cont, hasher), threads=[[wop], [rop]],
                                 sched=dict(kind="solo-after", a=0, b=1, b_max=4000, k=K), max_steps=120000,
                                 note="grow k=%d" % K))
    return scen

def judge(scen, res):
    """-> None or a description of how the reader failed to finish on its own"""
    if res is None or "error" in res:
        return None
    so = res.get("solo")
    if not so:
        return None
    if so.get("b_done"):
        bad = [l for l in so.get("b_labels", []) if l not in LOADS and not l.startswith("park") and not l.startswith("yield")]
        if bad:
            return "reader finished but performed %s" % sorted(set(bad))
        return None
    if so.get("b_blocked"):
        return "reader blocked after %d of its own steps (last: %s)" % (so.get("b_steps", 0), so.get("b_labels", [])[-3:])
    if so.get("b_spun"):
        return "reader still running after %d of its own steps (last: %s)" % (so.get("b_steps", 0), so.get("b_labels", [])[-4:])
    return "reader did not finish: %s" % {k: v for k, v in so.items() if k != "b_labels"}


# ----------------------------------------------------------------------------
# directed families for C03 / C04 / C08: a resize frozen at every point, and a writer
# parked inside its user function (holding its bucket) while another thread resizes

def _st(cont, k, v):
    return {"op": "Set", "k": k, "v": v, "d": NOEXP} if cont.startswith("Cache") else {"op": "Store", "k": k, "v": v}

def _sparse_setup(cont, hasher):
    """a table grown to 128 buckets and emptied down to just above the shrink threshold"""
    map_like = cont in ("Map", "Cache")
    n = 150 if map_like else 250
    keep = 4 if map_like else 6
    s = [_st(cont, 2000 + i, 7000 + i) for i in range(n)]
    s += [{"op": "Delete", "k": 2000 + i} for i in range(n - keep)]
    return s, [2000 + i for i in range(n - keep, n)]

def resize_families(tier, containers):
    scen, n = [], 0
    quick = tier == "quick"
    for cont, hasher in containers:
        base = dict(container=cont, layout=False)
        if hasher:
            base["hasher"] = hasher
        pre = _prefill(cont, hasher)
        # (1) a grow frozen after K of its steps; then another thread's calls, alone; then everybody
        for K in range(2, 260, 9 if quick else 2):
            for bops in ([{"op": "Clear"}, {"op": "Get" if cont.startswith("Cache") else "Load", "k": 1000}],
                         [_st(cont, 1001, 42), {"op": "Get" if cont.startswith("Cache") else "Load", "k": 1001}],
                         [{"op": "Delete", "k": 1002}, {"op": "Count" if cont.startswith("Cache") else "Size"}],
                         # C08: "0 right after Clear" -- a Clear that meets the grow in flight, then Count / Size at once
                         [{"op": "Clear"}, {"op": "Count" if cont.startswith("Cache") else "Size"}]):
                n += 1
                # whether ONE insert finds its chain full (and grows the table) depends on the hash seed; a dozen inserts
                # over the threshold make a grow within the first steps practically certain for every hasher
                scen.append(dict(base, id="rz_%d" % n, setup=pre, threads=[[_st(cont, 9, 109)] + [_st(cont, 20 + j, 120 + j) for j in range(11)], bops],
                                 sched=dict(kind="solo-after", a=0, b=1, k=K, b_max=3000), max_steps=150000, note="grow frozen k=%d" % K))
        # (2) a writer parked in its user function on an absent key while another thread grows / shrinks / clears
        if not cont.startswith("Cache"):
            sparse, left = _sparse_setup(cont, hasher)
            for k in range(1, 40 if quick else 120):
                for setup, trigger, what in ((pre, _st(cont, 9, 109), "grow"), (sparse, {"op": "Delete", "k": left[0]}, "shrink"), (pre[:20], {"op": "Clear"}, "clear")):
                    for aop in ({"op": "Compute", "k": 500 + k, "fn": "set:%d" % (600 + k), "park": "fn"},
                                {"op": "LoadOrCompute", "k": 500 + k, "v": 700 + k, "park": "fn"}):
                        n += 1
                        scen.append(dict(base, id="rz_%d" % n, setup=setup, threads=[[aop], [trigger, {"op": "Size"}]],
                                         sched=dict(kind="solo-after", a=0, b=1, park="fn", b_max=4000), max_steps=150000,
                                         note="writer parked in fn, other thread: %s" % what))
            # (3) a delete that requests a shrink, frozen after K of its steps, while the other thread clears (or grows) the
            #     table; then more writes by both: a resize that gives up must leave the flag clear and wake the waiters
            for K in range(1, 70, 3 if quick else 1):
                for bops in ([{"op": "Clear"}, _st(cont, 8, 80), {"op": "Load", "k": 8}],
                             [_st(cont, 3000 + K, 1)] + [_st(cont, 3100 + j, 2) for j in range(3)]):
                    n += 1
                    scen.append(dict(base, id="rz_%d" % n, setup=sparse, threads=[[{"op": "Delete", "k": left[0]}, _st(cont, 7, 70), {"op": "Load", "k": 7}], bops],
                                     sched=dict(kind="solo-after", a=0, b=1, k=K, b_max=4000), max_steps=150000,
                                     note="shrink request frozen k=%d" % K))
    return scen
