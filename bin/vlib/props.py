"""The checks, one function per property."""
import json, os
from . import common as C
from .engine import Ctx, proof_report, TRUSTED
from . import corr_cache, cacheseq

def N(ctx, quick, thorough):
    """case counts; the thorough tier is sized so that the sixteen thorough checks together take about one hour
    on 16 cores (VERIF_THOROUGH_SCALE=1.0 gives the full counts written at the call sites)"""
    if ctx.tier == "quick":
        return quick
    scale = float(os.environ.get("VERIF_THOROUGH_SCALE", "0.2"))
    return max(2 * quick, int(thorough * scale))

def proof_part(ctx, props_file, proof_files, cov):
    ob, di, broken, a = proof_report(ctx, props_file, proof_files)
    cov.update(obligations=ob, discharged=di,
               checker_cmd="cd coq && coq_makefile -f _CoqProject -o Makefile && make -k -j (coqc 8.16.1, full .vo build) ; coqc props/%s" % os.path.basename(props_file),
               theorems=a["theorems"],
               print_assumptions="%d of %d statements: Closed under the global context" % (a["closed"], len(a["theorems"])) + ("; AXIOMS: " + " | ".join(a["axioms"]) if a["axioms"] else ""))
    cov["trusted_base"] = TRUSTED + ["axioms reported by Print Assumptions: " + ("none" if not a["axioms"] else " | ".join(a["axioms"]))]
    if any(f.startswith("proofs/Skel") for f in proof_files):
        cov["source_translation"] = "gen/SrcFacts.v regenerated from xsync_map.go / xsync_mapof.go by harness/srcfacts/skeleton.go; proofs/Skel.v re-checked against it"
        if any(b.startswith("proofs/Skel") for b in broken):
            d = skeleton_diff()
            cov["skeleton_diff"] = d
            broken = [b + (" -- " + d if b.startswith("proofs/Skel") else "") for b in broken]
    return broken

def extra_props(ctx, props_file, cov, broken):
    """a second file of statements of the same property: its Print Assumptions output joins the first one's"""
    from .engine import assumptions_of
    if not os.path.exists(os.path.join(C.COQ, props_file[:-2] + ".vo")):
        if props_file not in broken:
            broken.append(props_file)
        return
    a = assumptions_of(props_file)
    if not a["ok"] and props_file not in broken:
        broken.append(props_file)
    cov["theorems"] = cov.get("theorems", []) + a["theorems"]
    cov["print_assumptions"] = cov.get("print_assumptions", "") + "; %s: %d statements printed, %d Closed under the global context" % (props_file, a["closed"], a["closed"]) + ("; AXIOMS: " + " | ".join(a["axioms"]) if a["axioms"] else "")

def skeleton_diff():
    """which method / primitive of the translated source no longer agrees with the model programs (evaluated
    inside Coq on the definitions of SkelDefs.v, which build also when Skel.v's theorems do not)"""
    src = ("From CacheV Require Import Base SpecMap Client CacheModel CacheOfModel Ops.\n"
           "From CacheV.gen Require Import SrcFacts.\nFrom CacheV.proofs Require Import SkelDefs.\nFrom Coq Require Import ZArith String.\nOpen Scope string_scope.\n"
           "Eval vm_compute in (exceeds budgets_map (prog_cache Z.eq_dec 0%Z), unattained budgets_map (prog_cache Z.eq_dec 0%Z)).\n"
           "Eval vm_compute in (exceeds budgets_mapof (prog_cacheof Z.eq_dec 0%Z), unattained budgets_mapof (prog_cacheof Z.eq_dec 0%Z)).\n")
    import tempfile, re
    with tempfile.TemporaryDirectory(prefix="verif-skel-") as td:
        f = os.path.join(td, "skeldiag.v")
        open(f, "w").write(src)
        rc, out, err = C.sh("coqc -Q %s CacheV %s 2>&1" % (C.COQ, f), cwd=td, timeout=600)
    if rc != 0:
        return "diagnostics unavailable: " + (out + err)[-300:]
    txt = re.sub(r"\s+", " ", out)
    parts = re.findall(r"= \((.*?)\) : list", txt)
    names = ["xsync_map.go vs prog_cache", "xsync_mapof.go vs prog_cacheof"]
    res = []
    for nm, p in zip(names, parts):
        res.append("%s: (model does what the source's budget does not allow, source budget entries no model run attains) = (%s)" % (nm, p.strip()))
    notes = re.findall(r"\(\* translator note: (.*?) \*\)", open(os.path.join(C.COQ, "gen", "SrcFacts.v")).read())
    if notes:
        res.append("translator notes: " + "; ".join(notes))
    return " || ".join(res) if res else txt[-600:]

def cache_seq_part(ctx, pid, cov, n_cases, broken_proofs, dense=False):
    """common tail of the checks tied by CORR-cache-seq"""
    res = corr_cache.run(ctx, n_cases, dense=dense)
    cov["correspondence"] = "CORR-cache-seq"
    cov["traces_validated_against_impl"] = res["n"]
    cov["input_distribution"] = res["stats"]
    if res["cases"]:
        cov["samples"] = ["\n".join(corr_cache.case_text(c)) for c in res["cases"][:2]]
    if not res["ok_build"]:
        ctx.violation("build", dict(broken=["CORR-cache-seq (does not build)"], log=res["build_log"]), failing_input=False,
                      what="the scratch copy or the model driver no longer builds")
        return res
    mine_spec = [b for b in res["spec_bad"] if pid in corr_cache.classify_spec(b)]
    mine_mism = [m for m in res["mismatches"] if pid in corr_cache.classify(m)]
    cov["spec_check_failures"] = len(mine_spec)
    cov["model_impl_disagreements"] = len(mine_mism)
    seen = set()
    for b in mine_spec[:3]:
        small = corr_cache.shrink_spec(res, b["case"])
        key = small[1][-1] if small[1] else ""
        ctx.violation("spec-%d" % b["case"],
                      dict(correspondence="CORR-cache-seq", check="implementation answer rejected by the specification (spec_okb, proved sound)",
                           failing_op=b["op"], observed=b["impl"], case=corr_cache.case_text(small),
                           how_to_replay="bin/check %s --replay <this file>" % pid),
                      failing_input=True, what="answer not admitted by SpecTTL")
        seen.add(b["case"])
    if not mine_spec:
        for m in mine_mism[:3]:
            ctx.violation("corr-%d" % m["case"],
                          dict(correspondence="CORR-cache-seq", broken=["CORR-cache-seq: model and implementation disagree"],
                               failing_op=m["op"], observed=m["impl"], model=m["model"],
                               case=corr_cache.case_text(res["cases"][m["case"]]),
                               how_to_replay="bin/check %s --replay <this file>" % pid),
                          failing_input=False, what="model no longer describes the code; the specification still admits the answers seen")
    if broken_proofs and not ctx.violations:
        ctx.violation("proof", dict(broken=broken_proofs), failing_input=False, what="proof obligation no longer checks")
    return res

# ----------------------------------------------------------------------------

def check_C01():
    ctx = Ctx("C01"); cov = {}
    broken = proof_part(ctx, "props/C01.v",
                        ["proofs/C01_sim.v", "proofs/C01_ops.v", "proofs/C07_range.v", "proofs/C12_twins.v",
                         "proofs/C01_hist.v", "proofs/SpecExec_sound.v", "Base.v"], cov)
    cache_seq_part(ctx, "C01", cov, N(ctx, 1500, 30000), broken)
    # "never dropped by internal table resizing": the cache models run over SpecMap; that the Go tables
    # behave as SpecMap is C11, whose correspondence is therefore part of this check too
    table_part(ctx, "C01", cov, N(ctx, 80, 1200), [])
    cov["rule"] = ("cases: constructor variant x 5..60 calls over <=6 keys, TTL classes incl. sentinels +-1ns, clock advances aimed at live expiry instants (e-1, e, e+1); "
                   "each case runs on the Go implementation (virtual clock) and on the extracted Coq models; every answer is also tested by the extracted specification checker")
    return ctx.finish(cov, ["clock frozen within a call, monotone between calls (vclock)", "user functions/visitors from the named family of coq/Exec.v"])

def check_C12():
    ctx = Ctx("C12"); cov = {}
    broken = proof_part(ctx, "props/C12.v", ["proofs/C12_twins.v", "proofs/C12_maps.v", "proofs/C11_table.v", "proofs/C11_lists.v", "proofs/SkelTwins.v"], cov)
    td = corr_cache.twin_diff(ctx, N(ctx, 1000, 20000))
    cov["twin_differential_cases"] = td["n"]
    cov["twin_differential_disagreements"] = len(td.get("diffs", []))
    if not td["ok_build"]:
        ctx.violation("build", dict(broken=["twin differential (does not build)"], log=td["build_log"]), failing_input=False)
    for dd in td.get("diffs", [])[:3]:
        ctx.violation("twin-%d" % dd["case"],
                      dict(check="Cache vs CacheOf[string,interface{}] on the same calls", failing_op=dd["op"],
                           observed=dict(cache=dd["cache"], cacheof=dd["cacheof"]),
                           case=corr_cache.case_text(td["cases"][dd["case"]])),
                      failing_input=True, what="the twins answer differently")
    res = cache_seq_part(ctx, "C12", cov, N(ctx, 600, 10000), broken)
    # either model failing its own Go file breaks the tie the theorem relies on
    for m in res.get("mismatches", [])[:2]:
        if not ctx.violations:
            ctx.violation("corr-%d" % m["case"], dict(broken=["CORR-cache-seq"], failing_op=m["op"], observed=m["impl"], model=m["model"],
                          case=corr_cache.case_text(res["cases"][m["case"]])), failing_input=False,
                          what="one twin's model no longer describes its Go file")
    # map level: Map vs MapOf[string, interface{}] directly, and both against the table model
    from . import tabseq
    d, exes, glog = ctx.go_seq()
    if exes.get("veriftab"):
        diffs, tcases = tabseq.twin_diff(exes["veriftab"], ctx.seed, N(ctx, 60, 800))
        cov["map_twin_differential_cases"] = len(tcases)
        cov["map_twin_differential_disagreements"] = len(diffs)
        for dd in diffs[:3]:
            ctx.violation("maptwin-%d" % dd["case"],
                          dict(check="Map vs MapOf[string,interface{}] on the same calls", failing_op=dd["op"],
                               observed=dict(map=dd["map"], mapof=dd["mapof"]),
                               case=(tcases[dd["case"]][0] + tcases[dd["case"]][1] + ["END"]) if dd["case"] >= 0 else []),
                          failing_input=True, what="the map twins answer differently")
    table_part(ctx, "C12", cov, N(ctx, 60, 600), [])
    cov["rule"] = "same generated histories on both twins (cache level and map level), outputs compared line by line (visit order of exhaustive traversals compared as sets); plus each model against its own Go file"
    return ctx.finish(cov, ["map-level twins (Map vs MapOf) are covered by C11's refinement of both to SpecMap"])

def law_part(ctx, pid, cov, res):
    """C06 / C08 stated directly on what the implementation printed (dense cases)"""
    if not res.get("ok_build") or not res.get("impl_out"):
        return
    c06, c08 = corr_cache.law_check(res["cases"], res["impl_out"])
    mine = c06 if pid == "C06" else c08
    cov["direct_law_checks_failed"] = len(mine)
    for b in mine[:3]:
        small = corr_cache.shrink_law(res, b["case"], pid)
        ctx.violation("law-%d" % b["case"],
                      dict(check="the property's own statement evaluated on the implementation's output (physical snapshot before the call vs callbacks / Count)",
                           failing_op=b["op"], observed=b["impl"], why=b["why"], case=corr_cache.case_text(small),
                           how_to_replay="bin/check %s --replay <this file>" % pid),
                      failing_input=True, what=b["why"])

def check_C09():
    ctx = Ctx("C09"); cov = {}
    broken = proof_part(ctx, "props/C09.v", ["proofs/C09_exp.v", "proofs/C01_sim.v", "proofs/C01_ops.v", "proofs/C01_hist.v"], cov)
    res = cache_seq_part(ctx, "C09", cov, N(ctx, 1500, 30000), broken)
    # the overflow branch, explicitly (finding F6): durations so large that now+d leaves int64
    if res.get("ok_build"):
        import random
        from . import gen_cache
        r = random.Random(ctx.seed)
        n_over = 0
        for j in range(N(ctx, 20, 200)):
            d = gen_cache.TTL_OVERFLOW(r)
            case = (["CASE o%d cache -1 %d" % (j, gen_cache.NOW0), "NEWDEFAULT -2000000000 0 "],
                    ["OP set 1 7 %d" % d, "OP getexp 1", "OP getttl 1"])
            rc, io, err = cacheseq.run_impl(res["exe_impl"], [case])
            want = gen_cache.NOW0 + d
            got = io[0][1][2] if io and len(io[0][1]) > 2 else "(none)"
            if ("valexp 7 %d 1" % want) not in got:
                n_over += 1
                ctx.violation("overflow-%d" % j,
                              dict(check="d > 0 must expire at call time + d", failing_op="OP set 1 7 %d" % d, observed=got,
                                   expected="valexp 7 %d 1" % want, case=corr_cache.case_text(case),
                                   **{"class": "now+d>=2^63"}),
                              failing_input=True, what="now + d overflows int64: the entry never expires")
        cov["overflow_inputs_tried"] = N(ctx, 20, 200)
        cov["overflow_inputs_deviating"] = n_over
    cov["rule"] = ("CORR-cache-seq cases (TTL classes incl. both sentinels +-1ns, 0, +-1, large; defaults changed mid-life; every constructor path) with reported instants/TTLs compared exactly; "
                   "constants regenerated from source into Params.v; a separate stream of overflowing durations (known finding F6)")
    return ctx.finish(cov, ["guard of the theorems: now + d stays within int64 (beyond it: C09_overflow_refuted, known finding)"])

def check_C06():
    ctx = Ctx("C06"); cov = {}
    broken = proof_part(ctx, "props/C06.v", ["proofs/C06_seq.v", "proofs/C06_hist.v", "proofs/C12_twins.v", "proofs/C01_ops.v", "proofs/C02_good.v", "proofs/C02_methods.v", "proofs/C02_lin.v", "proofs/CX_compose.v", "proofs/CX_product.v", "proofs/CX_mapof.v", "proofs/CX_map.v", "proofs/CX_monitor.v", "proofs/CX_monitor_inst.v", "proofs/C02_lin_gen.v", "proofs/C02_methods_of.v", "proofs/SkelDefs.v", "proofs/SkelTac.v", "proofs/SkelCb.v"], cov)
    res = cache_seq_part(ctx, "C06", cov, N(ctx, 1200, 20000), broken, dense=True)
    law_part(ctx, "C06", cov, res)
    # removals made by the janitor: real time, callback swapped after construction in half of the cases
    sched_part(ctx, "C06", cov, [("Cache", N(ctx, 2000, 30000), []), ("CacheOf_int", N(ctx, 2000, 30000), [])])
    native = run_native(ctx, "janitor")
    cov["native_janitor"] = native.get("summary")
    for prob in native.get("problems", [])[:3]:
        ctx.violation("janitor-%d" % prob["n"], dict(check="native/janitor (real time): ledger of the callback in force vs entries removed by the janitor", observed=prob["detail"]),
                      failing_input=True, what=prob["what"])
    cov["rule"] = "dense CORR-cache-seq cases (physical snapshot before every removing call); callbacks compared with the model's events and with the entries the snapshot says were removed; callbacks swapped / nil mid-life"
    return ctx.finish(cov, ["sequential histories here; interleavings: see the concurrent part when registered"])

def check_C07():
    ctx = Ctx("C07"); cov = {}
    broken = proof_part(ctx, "props/C07.v", ["proofs/C07_range.v", "proofs/C01_ops.v", "proofs/SpecExec_sound.v", "proofs/C11_table.v", "proofs/C11_lists.v",
                                             "proofs/X_basic.v", "proofs/X_inv.v", "proofs/X_c13.v", "proofs/X_own.v", "proofs/X_chain.v", "proofs/X_c04.v",
                                             "proofs/X_lin.v", "proofs/X_resize.v", "proofs/X_count.v", "proofs/X_range.v", "XMachine.v", "props/C03.v", "proofs/XS_range.v", "XMachineS.v",
                                             "proofs/CX_product2.v", "proofs/CX_mapof2.v", "proofs/CX_map2.v", "proofs/CX_range.v", "proofs/CX_range2.v", "proofs/CX_range3.v", "proofs/CX_range_ex.v", "proofs/CX_rangeS.v", "proofs/CX_rangeS_ex.v", "props/C07X.v", "proofs/CX_rangeS2.v", "proofs/CX_rangeS2_ex.v", "props/C07XS.v"], cov)
    extra_props(ctx, "props/C07X.v", cov, broken)
    extra_props(ctx, "props/C07XS.v", cov, broken)
    cache_seq_part(ctx, "C07", cov, N(ctx, 1200, 20000), broken)
    table_part(ctx, "C07", cov, N(ctx, 60, 600), [])
    # on the real code, all containers: every traversal of every schedule is checked (lincheck range-check: no key twice, only
    # pairs stored under that key by a call that began before the traversal returned, every untouched present key visited);
    # tables at the grow threshold so that traversals overlap table copies; visitors that delete / store / insert / clear
    from . import sched
    n = N(ctx, 500, 10000)
    sched_part(ctx, "C07", cov, directed=False,
               sets=[("Map", n, ["-prefill", "73", "-clear", "0"]), ("MapOf_int", n, ["-hasher", "const", "-prefill", "125", "-clear", "0"]),
                     ("MapOf_str", n, ["-prefill", "121"]), ("Map", n, []), ("MapOf_int", n, ["-threads", "4", "-ops", "4", "-sched", "mix"]),
                     ("Cache", n, []), ("CacheOf_int", n, []),
                     # cache-level traversals over a table of stable, untouched entries while other threads insert and
                     # remove other keys: every stable entry must be visited (Items / Range of the cache, not of the map)
                     ("Cache", n, ["-prefill", "20", "-clear", "0"]), ("CacheOf_int", n, ["-prefill", "20", "-clear", "0"])])
    tools, _ = sched.build(ctx)
    if all(tools.values()):
        scen = reentrant_scenarios()
        rows, err = sched.run_scenarios(tools, "\n".join(json.dumps(x) for x in scen) + "\n")
        nbad = 0
        for row in (rows or []):
            if "C07" in sched.classify(row):
                nbad += 1
                if nbad <= 2:
                    sc, res, lc = row
                    ctx.violation("reentrant-%d" % nbad, dict(correspondence="CORR-sched", scenario={k: v for k, v in (sc or {}).items() if k != "setup"},
                                  failing_op=json.dumps((sc or {}).get("threads"))[:300], checker=lc), failing_input=True,
                                  what="a traversal whose visitor mutates the container: " + "; ".join(lc.get("violations", []))[:200])
        cov["reentrant_visitor_scenarios"] = len(rows or [])
    # every schedule: the Range theorems are about XMachine; schedules of the real code that contain a traversal are replayed
    # on it step by step (mapof.go) and on XMachineS (map.go, visitors that call back into the map included)
    def sel(b):
        sc, r, why = b
        ops = json.dumps((sc or {}).get("threads", []))
        return "Range" in ops or "crashed" in why
    xcorr_part(ctx, "C07", cov, _x_sets(ctx, N(ctx, 200, 3000)), sel)
    xcorrs_part(ctx, "C07", cov, N(ctx, 100, 2000), sel)
    if broken and not ctx.violations:
        ctx.violation("proof", dict(broken=broken), failing_input=False, what="proof obligation no longer checks")
    cov["rule"] = ("sequential: every Range/Items answer of the implementation is tested by range_okb (no duplicate, only live current pairs, stops exactly when told, otherwise complete) and compared with the model visiting in the same order; "
                   "every schedule: theorems on XMachine (visits of a call have distinct keys; the pairs taken under a bucket lock are exactly the visible ones of that bucket), machine replayed step by step on schedules with traversals; "
                   "real code, all containers: range-check on every traversal of every schedule (no key twice, no phantom pair, untouched present keys all visited), traversals overlapping grows, mutating visitors")
    return ctx.finish(cov, ["cache level: sequential theorems, non-mutating visitors from the named family; interleavings searched",
                            "completeness of a concurrent traversal ('every key present throughout is visited') is searched, not proved"])

def check_C08():
    ctx = Ctx("C08"); cov = {}
    broken = proof_part(ctx, "props/C08.v", ["proofs/C08_cache.v", "proofs/C06_hist.v", "proofs/C06_seq.v", "proofs/C11_table.v", "proofs/C11_lists.v",
                                             "proofs/X_basic.v", "proofs/X_inv.v", "proofs/X_c13.v", "proofs/X_own.v", "proofs/X_chain.v", "proofs/X_c04.v",
                                             "proofs/X_lin.v", "proofs/X_resize.v", "proofs/X_read.v", "proofs/X_count.v", "XMachine.v", "props/C03.v", "proofs/XS_lock.v", "proofs/XS_own.v", "proofs/XS_count.v", "proofs/XS_size.v", "proofs/XS_inst.v", "XMachineS.v", "proofs/CX_product.v", "proofs/CX_mapof.v", "proofs/CX_map.v", "proofs/C08X_product.v", "proofs/C08X_mapof.v", "proofs/C08X_map.v", "proofs/C08X_ex.v", "props/C08X.v"], cov)
    extra_props(ctx, "props/C08X.v", cov, broken)
    res = cache_seq_part(ctx, "C08", cov, N(ctx, 1200, 20000), broken, dense=True)
    law_part(ctx, "C08", cov, res)
    table_part(ctx, "C08", cov, N(ctx, 60, 600), [])
    # on the real code, all containers: at the end of every schedule Size/Count must equal the number of pairs
    # Range visits and the successful loads (lincheck final-state); resizes frozen at every point, writers parked
    from . import solo
    n = N(ctx, 600, 12000)
    fam = solo.resize_families(ctx.tier, [("Map", None), ("MapOf_int", "const"), ("Cache", None), ("CacheOf_int", None)])
    sched_part(ctx, "C08", cov, directed=False, extra=[("resize frozen / writer parked / shrink request frozen (directed)", fam),
                                                       ("Count right after the caller's own Clear / DeleteExpired while others insert, grow or clean up", count_after_families(ctx))],
               sets=[("Map", n, ["-prefill", "73", "-clear", "30"]), ("MapOf_int", n, ["-hasher", "const", "-prefill", "125", "-clear", "30"]),
                     ("MapOf_str", n, ["-prefill", "121"]), ("MapOf_int", n, ["-threads", "4", "-ops", "4", "-sched", "mix", "-keys", "5"]),
                     ("Cache", n, []), ("CacheOf_int", n, [])])
    # every schedule: the theorems are about XMachine; it is replayed step by step against mapof.go (the AddInt64 /
    # LoadInt64 steps on the counter stripes and the final Size included), and XMachineS against map.go
    def sel(b):
        why = b[2]
        return any(x in why for x in ("AddInt64", "LoadInt64", "final Size", "final layout", "final table", "extra steps", "no such step", "crashed", "nat "))
    xcorr_part(ctx, "C08", cov, _x_sets(ctx, N(ctx, 200, 4000)), sel)
    xcorrs_part(ctx, "C08", cov, N(ctx, 100, 3000), sel)
    if broken and not ctx.violations:
        ctx.violation("proof", dict(broken=broken), failing_input=False, what="proof obligation no longer checks")
    cov["rule"] = ("theorem over every reachable state of XMachine for every schedule: visible entries = counter + additions owed, for every table ever created; "
                   "Size run from a point with no modifying call in flight returns the number of pairs of the current table. The machine is replayed step by step against the real code (counter steps, final Size, final layout). "
                   "On the real code, all containers: final Size/Count = pairs visited by Range = successful loads after every schedule, incl. resizes frozen at every point; "
                   "dense sequential cases: Count compared with the physical snapshot taken just before it, with the live entries right after DeleteExpired, with 0 right after Clear, and with the model")
    return ctx.finish(cov, ["the counter theorem is proved for the MapOf machine; the Map machine (same protocol) is tied by step correspondence and searched",
                            "cache level: sequential theorems; interleavings of cache calls are searched (final-state check)"])

def count_after_families(ctx):
    """C08's last sentence under concurrency (lincheck count-check): a thread calls Clear (DeleteExpired) and then Count,
    while another thread's Set pushes the table over its grow threshold / another thread runs a cleanup pass of its own"""
    import random
    r = random.Random(ctx.seed * 7 + 3)
    scen = []
    NOEXP = -2000000000
    nrep = N(ctx, 40, 600)
    for cont, pre in (("Cache", 73), ("CacheOf_int", 121), ("CacheOf_str", 121)):
        for i in range(nrep):
            setup = ([{"op": "Set", "k": k, "v": 10 * k + k, "d": NOEXP} for k in (1, 2, 3)] +     # as in solo.gen's grow family
                     [{"op": "Set", "k": 1000 + j, "v": 5000 + j, "d": NOEXP} for j in range(pre)])
            scen.append(dict(id="cnt_clear_%s_%d" % (cont, i), container=cont, cb=False, setup=setup,
                             threads=[[{"op": "Clear"}, {"op": "Count"}],
                                      [{"op": "Set", "k": 9, "v": 109, "d": NOEXP}] +     # key 9 on this prefill: the insert that grows the table
                                      [{"op": "Set", "k": 10 * (1 + i % 7) + j, "v": 11 + j, "d": NOEXP} for j in (1, 2, 3)],
                                      [{"op": "GetOrCompute", "k": 10 * (1 + i % 7) + 5, "v": 13, "d": NOEXP}, {"op": "Set", "k": 10 * (1 + i % 7) + 6, "v": 16, "d": NOEXP}]],
                             sched=dict(kind="random", seed=r.getrandbits(62)), max_steps=60000, layout=False))
            nexp = 6
            setup2 = ([{"op": "Set", "k": 100 + j, "v": 600 + j, "d": 1000} for j in range(nexp)] + [{"op": "Advance", "dt": 5000}]
                      + [{"op": "Set", "k": 200 + j, "v": 700 + j, "d": NOEXP} for j in range(3)])
            scen.append(dict(id="cnt_delexp_%s_%d" % (cont, i), container=cont, cb=(i % 2 == 0), setup=setup2,
                             threads=[[{"op": "DeleteExpired"}],
                                      [{"op": "DeleteExpired"}, {"op": "Count"}],
                                      [{"op": "Set", "k": 4, "v": 14, "d": NOEXP}]],
                             sched=dict(kind="random", seed=r.getrandbits(62)), max_steps=60000, layout=False))
    return scen

def check_C15():
    ctx = Ctx("C15"); cov = {}
    broken = proof_part(ctx, "props/C15.v", ["proofs/C15_life.v", "proofs/C09_exp.v", "proofs/C08_cache.v", "proofs/C06_hist.v"], cov)
    res = cache_seq_part(ctx, "C15", cov, N(ctx, 400, 4000), broken)
    native = run_native(ctx, "janitor")
    cov["native_janitor"] = native.get("summary")
    for prob in native.get("problems", [])[:3]:
        ctx.violation("janitor-%d" % prob["n"], dict(check="native/janitor (real time, real GC)", observed=prob["detail"]),
                      failing_input=True, what=prob["what"])
    cov["rule"] = "constructor variants x intervals {<0, 0, >0}: janitor started iff the model says so (goroutine inspection), real-time run of native/janitor (cleanup without user call, nothing removed otherwise, goroutines and contents released after GC), source facts of the goroutine closure and finalizer"
    return ctx.finish(cov, ["runtime behaviour the model cannot exhibit (ticker fires, GC runs the finalizer, select takes a ready case) is observed, not proved"])

def run_native(ctx, name):
    """run one of the native harnesses against a scratch copy of /repo's working tree"""
    import shutil, tempfile
    d = C.scratch_dir("verif-native-")
    repo_copy = os.path.join(d, "repo")
    shutil.copytree(C.REPO, repo_copy, ignore=shutil.ignore_patterns(".git"))
    out = os.path.join(d, "out.json")
    rc, o, e = C.sh([os.path.join(C.VERIF, "native", name, "run.sh"), repo_copy, str(ctx.seed), ctx.tier, out],
                    env=C.GOENV, timeout=1500)
    res = dict(problems=[], summary=None)
    if rc != 0 or not os.path.exists(out):
        res["problems"].append(dict(n=0, what="native/%s did not run" % name, detail=(o + e)[-1500:]))
        return res
    j = json.load(open(out))
    if name == "hasher":
        res["summary"] = dict(sessions=len(j.get("types", [])))
    if name == "janitor":
        n = 0
        for c in j.get("cases", []):
            ok = c.get("count_series_ok") and c.get("ledger_ok") and c.get("janitor_started") == c.get("expected_started")
            if not ok:
                n += 1
                res["problems"].append(dict(n=n, what="janitor case deviates", detail=c))
        if not j.get("leak", {}).get("ok", False):
            res["problems"].append(dict(n=n + 1, what="janitor goroutines or contents not released after GC", detail=j.get("leak")))
        res["summary"] = dict(cases=len(j.get("cases", [])), leak=j.get("leak"))
    res["raw"] = j
    return res

def table_part(ctx, pid, cov, n_cases, broken_proofs, impl=None):
    """CORR-table-seq: Go Map/MapOf vs extracted TableModel, results and layouts"""
    from . import tabseq
    exe_model, mlog = ctx.ocaml()
    d, exes, glog = ctx.go_seq()
    cov["correspondence"] = cov.get("correspondence", "") + " CORR-table-seq"
    if not exe_model or not exes.get("veriftab"):
        ctx.violation("build", dict(broken=["CORR-table-seq (does not build)"], log=(mlog + glog)[-1500:]), failing_input=False)
        return None
    tab = exe_model.replace("modelrun", "tabrun")
    stats = {}
    cases = tabseq.gen_cases(ctx.seed, n_cases, stats=stats)
    if impl:
        cases = [c for c in cases if (c[0][0].split()[2] == "map") == (impl == "map")]
    mism, impl, model = tabseq.check(exes["veriftab"], tab, cases)
    cov["table_cases"] = len(cases)
    cov["table_calls"] = sum(len(o) for h, o in cases)
    cov["table_input_distribution"] = stats
    cov["traces_validated_against_impl"] = cov.get("traces_validated_against_impl", 0) + len(cases)
    cov.setdefault("samples", []).append("\n".join(cases[0][0] + cases[0][1][:25] + ["..."]))
    cov["table_model_impl_disagreements"] = len(mism)
    def is_result(m):      # a call's answer differs (the model's answers ARE the builtin map's, by C11)
        return m["op"].startswith("OP") and m["op"].split()[1] not in ("layout",)
    for m in mism[:3]:
        small = tabseq.shrink(exes["veriftab"], tab, cases[m["case"]], pred=(is_result if is_result(m) else None))
        mm, _, _ = tabseq.check(exes["veriftab"], tab, [small])
        first = mm[0] if mm else m
        ctx.violation("tab-%d" % m["case"],
                      dict(correspondence="CORR-table-seq", failing_op=first["op"], observed=first["impl"], model=first["model"],
                           case=small[0] + small[1] + ["END"],
                           check="answers of the model are those of a builtin map (theorem C11_layout_independent); a differing answer of the implementation is a wrong answer",
                           how_to_replay="bin/check %s --replay <this file>" % pid),
                      failing_input=is_result(first),
                      what=("answer differs from a builtin map's" if is_result(first) else "physical layout differs from the model's (answers agree): the model no longer describes the code"))
    if broken_proofs and not ctx.violations:
        ctx.violation("proof", dict(broken=broken_proofs), failing_input=False, what="proof obligation no longer checks")
    return dict(mism=mism, cases=cases)

def check_C11():
    ctx = Ctx("C11"); cov = {}
    broken = proof_part(ctx, "props/C11.v", ["proofs/C11_lists.v", "proofs/C11_table.v", "proofs/C11_idx.v"], cov)
    table_part(ctx, "C11", cov, N(ctx, 160, 2500), broken)
    cov["rule"] = ("cases: Map, MapOf[string,any], MapOf[int,int64] with default and adversarial hashers (constant, same index, same h2, pairwise tag collisions), size hints {<0,0,1,96,97,160,161,300,1000}, "
                   "phases of bulk inserts / bulk deletes (crossing grow and shrink thresholds, up to thousands of keys), clears, deleting Computes on absent keys over every slot-occupancy pattern; "
                   "every answer AND the physical layout (table length, chains, slots, tags, counter) compared with the extracted TableModel fed with the seeds and hashes observed on the Go side")
    return ctx.finish(cov, ["the hash function and the seed stream are parameters of the theorem; the executable instance replays the values observed on the implementation",
                            "the theorem is conditional on the grow-retry loop ending within the fuel (64 doublings); the driver reports OUT-OF-FUEL otherwise (never observed)"])

def check_C10():
    ctx = Ctx("C10"); cov = {}
    broken = proof_part(ctx, "props/C10.v", ["proofs/C11_lists.v", "proofs/C11_table.v"], cov)
    table_part(ctx, "C10", cov, N(ctx, 80, 800), broken)
    native = run_native(ctx, "hasher")
    j = native.get("raw", {})
    bad = [t for t in j.get("types", []) if t.get("n_mismatches") or t.get("n_panics")]
    cov["hasher_catalogue_sessions"] = len(j.get("types", []))
    cov["hasher_catalogue_failing_sessions"] = len(bad)
    for prob in native.get("problems", []):
        ctx.violation("hasher-run", dict(check="native/hasher", observed=prob["detail"]), failing_input=False, what=prob["what"])
    for n, t in enumerate(bad[:6]):
        iface = t.get("type", "").startswith("any") or "interface" in t.get("type", "")
        ctx.violation("hasher-%d" % n,
                      dict(check="native/hasher: MapOf/CacheOf against a builtin map over the key-type catalogue",
                           failing_op="%s[%s]" % (t.get("container"), t.get("type")),
                           observed=dict(mismatches=t.get("mismatches"), panics=t.get("panics"),
                                         mismatch_key_types=t.get("mismatch_key_types"), panic_key_types=t.get("panic_key_types")),
                           **{"class": "interface-kinded K with pointer-shaped or nil dynamic value" if iface else "other"}),
                      failing_input=True, what="keys not matched by == / panic for key type %s" % t.get("type"))
    cov["rule"] = "theorem for every key type and every hasher that is a function of the key; the hypothesis about the Go default hasher is checked over a catalogue of every comparable kind against a builtin map (native/hasher), incl. +-0, padding garbage, distinct string headers, interface-typed keys, mutation of pointees"
    return ctx.finish(cov, ["PARTIAL: that runtime.typehash-based defaultHasher is a function of the key's ==-class is checked by correspondence over the catalogue, not proved"])

def sched_part(ctx, pid, cov, sets, directed=True, extra=()):
    """CORR-sched as a search: generated and directed scenarios on the real code under the
    controlled scheduler; histories checked against the sequential specification (porcupine),
    plus fn-count / callback / final-state / deadlock side checks; rows speaking against pid are violations"""
    from . import sched
    tools, log = sched.build(ctx)
    if not all(tools.values()):
        ctx.violation("build-sched", dict(broken=["CORR-sched (does not build)"], log=log[-1500:]), failing_input=False,
                      what="the rewritten scratch copy, the scheduler driver or the checker no longer builds")
        return
    total, bad, dist = 0, [], {}
    texts = []
    if directed:
        texts.append(("directed", sched.directed()))
    for name, scen in extra:
        texts.append((name, "\n".join(json.dumps(x) for x in scen) + "\n"))
    for i, (cont, n, xargs) in enumerate(sets):
        texts.append(("%s %s" % (cont, " ".join(xargs)), sched.gen(tools, cont, n, ctx.seed + i, list(xargs) + ["-prefix", "g%d_" % i])))
    for name, txt in texts:
        if not txt.strip():
            continue
        rows, err = sched.run_scenarios(tools, txt)
        if rows is None:
            if err.startswith("HANG"):
                culprit = err.split("\n", 1)[1] if "\n" in err else ""
                try:
                    cj = json.loads(culprit) if culprit else None
                except ValueError:
                    cj = None
                ctx.violation("hang", dict(correspondence="CORR-sched", scenario=cj, failing_op=json.dumps((cj or {}).get("setup", []))[-300:] + " | " + json.dumps((cj or {}).get("threads"))[:300],
                                           observed=err.split("\n")[0], how_to_replay="echo '<scenario>' | verifsched   (does not return)"),
                              failing_input=bool(cj), what="the real code does not return: a call hangs (outside the controlled scheduler, i.e. in the sequential phase, or in a spin the scheduler cannot see)")
            else:
                ctx.violation("sched-run", dict(broken=["CORR-sched run failed: " + name], log=err), failing_input=False)
            continue
        total += len(rows)
        dist[name] = len(rows)
        for row in rows:
            if pid in sched.classify(row):
                bad.append((name, row))
    cov["schedules_run"] = cov.get("schedules_run", 0) + total
    cov["traces_validated_against_impl"] = cov.get("traces_validated_against_impl", 0) + total
    cov["schedule_sets"] = dist
    cov["schedule_violations"] = len(bad)
    if texts and texts[-1][1].strip():
        cov.setdefault("samples", []).append(texts[-1][1].splitlines()[0][:1500])
    for n, (name, (scen, res, lc)) in enumerate(bad[:3]):
        ctx.violation("sched-%d" % n,
                      dict(correspondence="CORR-sched", scenario=scen, checker=lc,
                           failing_op=json.dumps((scen or {}).get("threads"))[:400],
                           history=(res or {}).get("history"), events=(res or {}).get("events"), final=(res or {}).get("final"),
                           how_to_replay="echo '<scenario>' | verifsched | lincheck   (bin/check %s --replay <this file>)" % pid),
                      failing_input=True,
                      what="under this schedule the real code %s" % ("is not linearizable" if lc.get("linearizable") is False else "; ".join(lc.get("violations", []))[:200]))

def check_C02():
    ctx = Ctx("C02"); cov = {}
    broken = proof_part(ctx, "props/C02.v", ["proofs/C02_good.v", "proofs/C02_methods.v", "proofs/C02_lin.v", "proofs/C01_sim.v", "proofs/C01_ops.v", "Lin.v", "proofs/CX_trans.v", "proofs/CX_compose.v", "proofs/CX_product.v", "proofs/CX_mapof.v", "proofs/CX_map.v", "proofs/C02_methods_of.v", "proofs/C02_lin_gen.v", "proofs/C02_lin_of.v", "proofs/CX_cacheof.v", "proofs/CX_product2.v", "proofs/CX_mapof2.v", "proofs/CX_map2.v", "proofs/X_linearizable2.v", "proofs/XS_linearizable2.v", "proofs/X_linearizable.v", "proofs/XS_linearizable.v", "XMachine.v", "XMachineS.v", "proofs/SkelDefs.v", "proofs/SkelTac.v", "proofs/Skel.v", "proofs/SkelMap.v",
                                             "LinT.v", "ConcT.v", "proofs/LinT_facts.v", "proofs/LinT_tests.v", "proofs/C02T_good.v", "proofs/C02T_methods.v", "proofs/C02T_lin.v", "proofs/C02T_main.v", "proofs/C02T_methods_of.v", "proofs/C02T_ex.v", "props/C02T.v",
                                             "proofs/CXT_compose.v", "proofs/CXT_product.v", "proofs/CXT_mapof.v", "proofs/CXT_map.v", "proofs/CXT_ex.v", "props/C02TX.v",
                                             "LinF.v", "proofs/C02F_map.v", "proofs/C02F_smap.v", "proofs/C02F_trans.v", "proofs/C02F_compose.v", "proofs/C02F_lin.v", "proofs/C02F_mapof.v", "proofs/C02F_smachine.v", "proofs/C08X_product.v", "proofs/C08X_mapof.v", "proofs/C08X_map.v", "props/C02F.v"], cov)
    extra_props(ctx, "props/C02T.v", cov, broken)
    extra_props(ctx, "props/C02TX.v", cov, broken)
    extra_props(ctx, "props/C02F.v", cov, broken)
    n = N(ctx, 2500, 40000)
    sched_part(ctx, "C02", cov, [("Cache", n, []), ("CacheOf_int", n, []), ("CacheOf_str", n // 2, ["-sched", "pct"]),
                                 ("Cache", n // 2, ["-threads", "4", "-ops", "4", "-sched", "mix"])])
    if broken and not ctx.violations:
        ctx.violation("proof", dict(broken=broken), failing_input=False, what="proof obligation no longer checks")
    cov["rule"] = "3-4 threads x 3-4 calls on <=3 keys (entries live, expired-uncleaned, absent after a sequential setup with clock advances), random / PCT schedules at the granularity of single atomic and lock operations of the real code; histories checked for linearizability against the TTL specification; directed schedules of past findings first"
    return ctx.finish(cov, ["theorem at map-call granularity over an atomic map; atomicity of the Go maps is C03/C04 (searched here on the full stack)", "clock, default and callback constant during a phase"])

def check_C05():
    ctx = Ctx("C05"); cov = {}
    broken = proof_part(ctx, "props/C05.v", ["proofs/C05_spec.v", "proofs/C05_map.v", "proofs/C02_lin.v", "proofs/C02_methods.v", "proofs/C11_table.v",
                                             "proofs/X_basic.v", "proofs/X_inv.v", "proofs/X_c13.v", "proofs/X_fn.v", "XMachine.v", "props/C03.v", "proofs/XS_fn.v", "XMachineS.v", "proofs/SkelDefs.v", "proofs/SkelTac.v", "proofs/SkelMap.v"], cov)
    n = N(ctx, 1500, 25000)
    sched_part(ctx, "C05", cov, [("Cache", n, []), ("CacheOf_int", n, []), ("Map", n, ["-prefill", "73"]),
                                 ("MapOf_int", n, ["-hasher", "const", "-prefill", "125"]), ("MapOf_str", n, ["-prefill", "121"])])
    table_part(ctx, "C05", cov, N(ctx, 80, 800), [])
    # every schedule: C05_x_fn_at_most_once is about XMachine; the schedules of the real MapOf code are replayed on it step by
    # step, user-function invocations included (and on XMachineS for map.go)
    def sel(b):
        sc, r, why = b
        ops = json.dumps((sc or {}).get("threads", []))
        return "user-function" in why or "crashed" in why or (("Compute" in ops or "LoadOrCompute" in ops) and "step" in why)
    xcorr_part(ctx, "C05", cov, _x_sets(ctx, N(ctx, 200, 3000)), sel)
    xcorrs_part(ctx, "C05", cov, N(ctx, 100, 2000), sel)
    if broken and not ctx.violations:
        ctx.violation("proof", dict(broken=broken), failing_input=False, what="proof obligation no longer checks")
    cov["rule"] = "theorem on XMachine for every schedule: a call evaluates the user function at most once whatever retries it goes through (machine replayed step by step against the real code, fn calls compared); racing get-or-create / compute calls on one key under random schedules incl. tables prefilled to the grow threshold (retry after a resize); user-function invocations counted per call; sequential fn counts compared with the table model across grow thresholds"
    return ctx.finish(cov, ["map level: 'at most once' is a theorem for the MapOf machine under every schedule; 'exactly once and atomic with the update' rests on linearizability (C03/C04), which is searched"])

def xcorr_part(ctx, pid, cov, sets, select=None):
    """CORR-sched, exact part: the schedule the controlled scheduler followed on the real
    MapOf code is replayed on the extracted XMachine, step by step (thread, primitive,
    value class, enabled set), with results, user-function calls, final size and layout"""
    from . import sched, xcorr
    tools, log = sched.build(ctx)
    exe, olog = ctx.ocaml()
    if not all(tools.values()) or not exe:
        ctx.violation("build-xcorr", dict(broken=["CORR-sched step correspondence (does not build)"], log=(log + str(olog))[-1500:]),
                      failing_input=False, what="the scratch copy or the extracted machine no longer builds")
        return
    xrun = os.path.join(os.path.dirname(exe), "xrun")
    n, bad, skipped = xcorr.run(ctx, tools, xrun, sets)
    mine = [b for b in bad if select is None or select(b)]
    cov["step_correspondence"] = dict(schedules_replayed_on_XMachine=n, skipped_unmodelled=skipped, mismatches=len(bad), mismatches_for_this_property=len(mine))
    cov["traces_validated_against_impl"] = cov.get("traces_validated_against_impl", 0) + n
    for i, (sc, r, why) in enumerate(mine[:2]):
        ctx.violation("xcorr-%d" % i,
                      dict(correspondence="CORR-sched (step by step against XMachine)",
                           broken=["CORR-sched: XMachine no longer replays the implementation: " + why],
                           scenario=sc, failing_op=json.dumps((sc or {}).get("threads"))[:400],
                           how_to_replay="echo '<scenario with trace:true>' | verifsched ; bin/vlib/xcorr.py model_case | _build/ocaml/xrun"),
                      failing_input=False, what="the machine the theorems are about no longer describes the code: " + why[:160])

def xcorrs_part(ctx, pid, cov, n, select=None):
    """CORR-sched, exact part for Map: schedules of the real map.go replayed step by step on XMachineS"""
    from . import sched, xcorrs
    tools, log = sched.build(ctx)
    exe, olog = ctx.ocaml()
    if not all(tools.values()) or not exe:
        ctx.violation("build-xcorrs", dict(broken=["CORR-sched step correspondence for Map (does not build)"], log=(log + str(olog))[-1500:]),
                      failing_input=False, what="the scratch copy or the extracted machine no longer builds")
        return
    xruns = os.path.join(os.path.dirname(exe), "xruns")
    cnt, bad, skipped = xcorrs.run(ctx, tools, xruns, xcorrs.default_sets(n))
    mine = [b for b in bad if select is None or select(b)]
    cov["step_correspondence_Map"] = dict(schedules_replayed_on_XMachineS=cnt, skipped_unmodelled=skipped, mismatches=len(bad), mismatches_for_this_property=len(mine))
    cov["traces_validated_against_impl"] = cov.get("traces_validated_against_impl", 0) + cnt
    for i, (sc, r, why) in enumerate(mine[:2]):
        ctx.violation("xcorrs-%d" % i,
                      dict(correspondence="CORR-sched (step by step against XMachineS, map.go)",
                           broken=["CORR-sched: XMachineS no longer replays the implementation: " + why],
                           scenario=sc, failing_op=json.dumps((sc or {}).get("threads"))[:400],
                           how_to_replay="echo '<scenario with trace:true>' | verifsched ; bin/vlib/xcorrs.py model_case | _build/ocaml/xruns"),
                      failing_input=False, what="the Map machine no longer describes the code: " + why[:160])

def _x_sets(ctx, n):
    return [("MapOf_int", n, ["-hasher", "const", "-prefill", "125"]), ("MapOf_int", n, ["-hasher", "sameidx"]),
            ("MapOf_str", n, ["-prefill", "121"]), ("MapOf_int", n, ["-threads", "4", "-ops", "4", "-sched", "mix"])]

def solo_part(ctx, pid, cov):
    from . import sched, solo
    tools, log = sched.build(ctx)
    if not all(tools.values()):
        ctx.violation("build-sched", dict(broken=["CORR-sched (does not build)"], log=log[-1500:]), failing_input=False,
                      what="the rewritten scratch copy, the scheduler driver or the checker no longer builds")
        return
    scen = solo.gen(ctx.tier)
    by = {sc["id"]: sc for sc in scen}
    rows, err = sched.run_scenarios(tools, "\n".join(json.dumps(x) for x in scen) + "\n")
    if rows is None:
        ctx.violation("solo-run", dict(broken=["CORR-sched run failed (solo scenarios)"], log=err), failing_input=False)
        return
    bad, notlin, dist = [], [], {}
    for sc, res, lc in rows:
        if sc is None:
            continue
        key = "%s%s" % (sc["container"], "/" + sc["hasher"] if sc.get("hasher") else "")
        dist[key] = dist.get(key, 0) + 1
        why = solo.judge(sc, res)
        if why:
            bad.append((sc, res, why))
        elif lc.get("linearizable") is False:
            notlin.append((sc, res, lc))
    cov["solo_reader_scenarios"] = len(rows)
    cov["schedules_run"] = cov.get("schedules_run", 0) + len(rows)
    cov["traces_validated_against_impl"] = cov.get("traces_validated_against_impl", 0) + len(rows)
    cov["solo_distribution"] = dist
    cov["solo_failures"] = len(bad)
    for i, (sc, res, why) in enumerate(bad[:3]):
        ctx.violation("solo-%d" % i,
                      dict(correspondence="CORR-sched", scenario={k: v for k, v in sc.items() if k != "setup" or len(v) < 12},
                           failing_op="writer %s frozen at %s ; reader %s" % (json.dumps(sc["threads"][0][0]), sc.get("note"), json.dumps(sc["threads"][1][0])),
                           observed=why, solo={k: v for k, v in (res.get("solo") or {}).items() if k != "b_labels"},
                           how_to_replay="echo '<scenario>' | verifsched   (solo-after chooser; see harness/README.md)"),
                      failing_input=True, what=why[:200])
    for i, (sc, res, lc) in enumerate(notlin[:2]):
        ctx.violation("solo-lin-%d" % i,
                      dict(correspondence="CORR-sched", scenario={k: v for k, v in sc.items() if k != "setup" or len(v) < 12}, checker=lc, history=res.get("history"),
                           failing_op="writer %s frozen at %s ; reader %s" % (json.dumps(sc["threads"][0][0]), sc.get("note"), json.dumps(sc["threads"][1][0]))),
                      failing_input=True, what="the value the reader returned while the writer was frozen is not explained by any linearization")

def reentrant_scenarios():
    """Range / Items visitors that call back into the same container (delete, store, insert, clear), alone and against a writer;
    evicted callbacks that call back into the cache (from Delete, GetAndDelete, DeleteExpired)"""
    out, n = [], 0
    for cont in ("Cache", "CacheOf_int", "CacheOf_str"):
        for nkeys in (2, 30, 100):
            setup = [{"op": "Set", "k": k, "v": 100 + k, "d": 1000} for k in range(1, nkeys + 1)] + [{"op": "Set", "k": 500, "v": 5, "d": -2000000000}, {"op": "Advance", "dt": 5000}]
            for ops in ([{"op": "DeleteExpired"}], [{"op": "Delete", "k": 500}], [{"op": "GetAndDelete", "k": 500}], [{"op": "DeleteExpired"}, {"op": "Count"}]):
                for other in (None, {"op": "Set", "k": 1, "v": 999, "d": -2000000000}, {"op": "DeleteExpired"}):
                    for seed in (1, 2):
                        n += 1
                        out.append(dict(id="recb_%d" % n, container=cont, cb=True, cb_reenter="get", setup=setup,
                                        threads=[ops] + ([[other]] if other else []), sched={"kind": "random", "seed": seed},
                                        layout=False, max_steps=60000))
                        if other is None:
                            break
    for cont in ("Map", "MapOf_int", "MapOf_str", "Cache", "CacheOf_int", "CacheOf_str"):
        cache = cont.startswith("Cache")
        st = (lambda k, v: {"op": "Set", "k": k, "v": v, "d": -2000000000}) if cache else (lambda k, v: {"op": "Store", "k": k, "v": v})
        for nkeys in (3, 40, 130):
            setup = [st(k, 100 + k) for k in range(1, nkeys + 1)]
            for vis in ("del", "store:7", "ins:5000", "clear", "stop:2"):
                for other in (None, st(2, 999), {"op": "Delete", "k": 3}, {"op": "Clear"}):
                    for seed in (1, 2, 3):
                        n += 1
                        threads = [[{"op": "Range", "visitor": vis}]] + ([[other]] if other else [])
                        out.append(dict(id="re_%d" % n, container=cont, setup=setup, threads=threads,
                                        sched={"kind": "random", "seed": seed}, layout=False, max_steps=200000))
                        if other is None:
                            break
    return out

def check_C13():
    ctx = Ctx("C13"); cov = {}
    broken = proof_part(ctx, "props/C13.v", ["proofs/X_basic.v", "proofs/X_inv.v", "proofs/X_c13.v", "proofs/X_inst.v", "proofs/X_c16.v", "proofs/X_term.v", "proofs/X_fair.v", "proofs/XS_term.v", "XMachine.v", "props/C03.v", "proofs/XS_inv.v", "proofs/XS_lock.v", "proofs/XS_inst.v", "XMachineS.v", "proofs/CX_product2.v", "proofs/CX_mapof2.v", "proofs/CX_range.v", "proofs/CX_term.v", "proofs/CX_term2.v", "proofs/CX_term_ex.v", "props/C13X.v"], cov)
    extra_props(ctx, "props/C13X.v", cov, broken)
    n = N(ctx, 1200, 20000)
    from . import solo
    fam = solo.resize_families(ctx.tier, [("Map", None), ("MapOf_int", "default"), ("MapOf_int", "const"), ("MapOf_str", "default")])
    sched_part(ctx, "C13", cov, extra=[("resize frozen / writer parked / shrink request frozen (directed)", fam)], sets=[("Map", n, ["-prefill", "73", "-clear", "40"]), ("MapOf_int", n, ["-hasher", "const", "-prefill", "125", "-clear", "40"]),
                                 ("MapOf_str", n, ["-prefill", "121"]), ("Map", n, ["-threads", "4", "-ops", "4", "-sched", "mix"]),
                                 ("MapOf_int", n, ["-hasher", "sameidx", "-threads", "4", "-ops", "4", "-sched", "pct"]),
                                 ("Cache", n, []), ("CacheOf_int", n, []), ("CacheOf_str", n // 2, ["-sched", "pct"])])
    # visitors that re-enter the container
    from . import sched
    tools, _ = sched.build(ctx)
    if all(tools.values()):
        scen = reentrant_scenarios()
        rows, err = sched.run_scenarios(tools, "\n".join(json.dumps(x) for x in scen) + "\n")
        nbad = 0
        for sc, res, lc in (rows or []):
            if (res or {}).get("outcome") != "done":
                nbad += 1
                if nbad <= 2:
                    ctx.violation("reentrant-%d" % nbad, dict(correspondence="CORR-sched", scenario={k: v for k, v in (sc or {}).items() if k != "setup"},
                                  failing_op=json.dumps((sc or {}).get("threads"))[:300], observed=(res or {}).get("outcome"), panic=(res or {}).get("panic")),
                                  failing_input=True, what="a visitor that calls back into its container: outcome %s" % (res or {}).get("outcome"))
        cov["reentrant_visitor_scenarios"] = len(rows or [])
        cov["schedules_run"] = cov.get("schedules_run", 0) + len(rows or [])
    def sel(b):
        why = b[2]
        return any(x in why for x in ("Lock", "Unlock", "Wait", "Broadcast", "Gosched", "en=", "extra steps", "no such step", "crashed"))
    xcorr_part(ctx, "C13", cov, _x_sets(ctx, N(ctx, 250, 4000)), sel)
    if broken and not ctx.violations:
        ctx.violation("proof", dict(broken=broken), failing_input=False, what="proof obligation no longer checks")
    cov["rule"] = "theorems over every reachable state of XMachine (MapOf) for every schedule; the machine is replayed step by step against the real code (enabled sets included, so a lock that is not released or a waiter that is not woken shows as a difference); on all six containers: random / PCT schedules with tables at the grow threshold and Clear, outcome deadlock / step budget / panic is a violation; Range and Items visitors that delete, store, insert and clear re-entrantly"
    return ctx.finish(cov, ["PARTIAL: fair termination of each single call (no starvation by endless resizes) is not a theorem; searched with step budgets",
                            "PARTIAL: the Map (string) variant's spin lock is covered by the schedule search and the sequential model, not by XMachine",
                            "evicted callbacks re-entering the cache are not generated by the scheduler driver (callbacks log only); that they run after the map call returned is C06"])

def check_C16():
    ctx = Ctx("C16"); cov = {}
    broken = proof_part(ctx, "props/C16.v", ["proofs/X_basic.v", "proofs/X_inv.v", "proofs/X_c13.v", "proofs/X_c16.v", "proofs/X_inst.v", "proofs/X_own.v", "proofs/X_chain.v", "proofs/X_c04.v", "proofs/X_lin.v", "proofs/X_resize.v", "proofs/X_read.v", "XMachine.v", "props/C03.v", "proofs/X_maps.v", "proofs/XS_read.v", "proofs/XS_rdinst.v", "XMachineS.v", "proofs/CX_product.v", "proofs/CX_mapof.v", "proofs/C08X_product.v", "proofs/C16X_product.v", "proofs/C16X_mapof.v", "proofs/C16X_ex.v", "props/C16X.v", "proofs/C16X_more.v", "props/C16X2.v"], cov)
    extra_props(ctx, "props/C16X.v", cov, broken)
    extra_props(ctx, "props/C16X2.v", cov, broken)
    solo_part(ctx, "C16", cov)
    def sel(b):
        sc, r, why = b
        if "step" not in why or sc is None:
            return "crashed" in why
        # the differing step belongs to a thread that is executing a read-only call, or a load became something else
        import re
        m = re.search(r"implementation \[S (\d+) (\S+)", why)
        if not m:
            return True
        tid, kind = int(m.group(1)), m.group(2)
        ops = [o["op"] for o in (sc.get("threads") or [[]])[tid]] if tid < len(sc.get("threads") or []) else []
        return bool(ops) and all(o in ("Load", "Size") for o in ops)
    xcorr_part(ctx, "C16", cov, _x_sets(ctx, N(ctx, 250, 4000)), sel)
    if broken and not ctx.violations:
        ctx.violation("proof", dict(broken=broken), failing_input=False, what="proof obligation no longer checks")
    cov["rule"] = "theorem: in every reachable state of XMachine a thread on the read path is enabled and, run alone, leaves it within rd_bound of its own steps, loads only. On the real code (all containers, MapOf also with colliding hashers): a writer is frozen inside its user function, after each of its first K atomic/lock operations (Store, insert, Delete, LoadAndDelete, Clear, DeleteExpired) or K steps into a grow, then the reader (Load/Get/GetWithExpiration/GetWithTTL of the same key, bucket mates, other and absent keys, hit path of LoadOrStore/LoadOrCompute, Size/Count) runs alone and must finish using loads only; the full history must be linearizable"
    return ctx.finish(cov, ["PARTIAL: XMachine models MapOf; the Map variant (value/key/value snapshot retry) is covered by the frozen-writer runs on the real code, its retry loop is not bounded by a theorem",
                            "expired entries are excluded (the property is about present-and-unexpired or absent keys): cache scenarios use NoExpiration"])

def check_C04():
    ctx = Ctx("C04"); cov = {}
    broken = proof_part(ctx, "props/C04.v", ["proofs/X_basic.v", "proofs/X_inv.v", "proofs/X_c13.v", "proofs/X_inst.v", "proofs/X_own.v", "proofs/X_chain.v", "proofs/X_c04.v", "proofs/X_lin.v", "proofs/X_resize.v", "proofs/X_swar.v", "proofs/X_atomic.v", "proofs/X_range.v", "proofs/X_loadhit.v", "proofs/X_stale.v", "proofs/X_linpoints.v", "proofs/X_linearizable.v", "proofs/X_linearizable2.v", "Lin.v", "proofs/C11_table.v", "proofs/C11_lists.v", "XMachine.v", "XExec.v", "TableModel.v"], cov)
    n = N(ctx, 1500, 25000)
    from . import solo
    fam = solo.resize_families(ctx.tier, [("MapOf_int", "default"), ("MapOf_int", "const"), ("MapOf_str", "default")])
    sched_part(ctx, "C04", cov, extra=[("resize frozen / writer parked (directed)", fam)], sets=[("MapOf_int", n, ["-hasher", "const", "-prefill", "125", "-clear", "30"]), ("MapOf_int", n, ["-hasher", "sameidx"]),
                                 ("MapOf_int", n, ["-hasher", "sameh2", "-prefill", "121"]), ("MapOf_str", n, ["-prefill", "121", "-clear", "30"]),
                                 ("MapOf_int", n, ["-threads", "4", "-ops", "4", "-sched", "mix", "-keys", "5"]),
                                 ("MapOf_int", n // 2, ["-hasher", "const", "-sched", "pct", "-ops", "5"])])
    xcorr_part(ctx, "C04", cov, _x_sets(ctx, N(ctx, 300, 5000)))
    table_part(ctx, "C04", cov, N(ctx, 120, 1200), [], impl="mapof")
    if broken and not ctx.violations:
        ctx.violation("proof", dict(broken=broken), failing_input=False, what="proof obligation no longer checks")
    cov["rule"] = "real MapOf code (int and string keys; default, constant, same-index and same-tag hashers) under random / PCT schedules of single atomic and lock operations, tables prefilled to the grow threshold, Clear mixed in; every history checked for linearizability against map[K]V; each schedule replayed step by step on XMachine; sequential layouts compared with the table model"
    return ctx.finish(cov, ["PARTIAL: linearizability of the concurrent machine is not yet a closed theorem (protocol invariant, sequential refinement and per-step facts are); decided by search on the real code"])

def check_C03():
    ctx = Ctx("C03"); cov = {}
    broken = proof_part(ctx, "props/C03.v", ["proofs/C11_table.v", "proofs/C11_lists.v", "proofs/X_maps.v", "proofs/XS_inv.v", "TableModel.v", "XMachineS.v", "proofs/XS_lock.v", "proofs/XS_own.v", "proofs/XS_count.v", "proofs/XS_inst.v", "proofs/XS_cells.v", "proofs/XS_vis.v", "proofs/XS_abs.v", "proofs/XS_cinst.v", "proofs/XS_resize.v", "proofs/XS_rinst.v", "proofs/XS_read.v", "proofs/XS_rdinst.v", "proofs/XS_loadhit.v", "proofs/XS_lhinst.v", "proofs/XS_loadmiss.v", "proofs/XS_lminst.v", "proofs/XS_fn.v", "proofs/XS_size.v", "proofs/XS_range.v", "proofs/LinGen.v", "proofs/XS_stale.v", "proofs/XS_linpoints.v", "proofs/XS_linearizable.v", "proofs/XS_linpoints2.v", "proofs/XS_linearizable2.v", "proofs/XS_term.v", "proofs/XS_fair.v", "proofs/XS_fair2.v", "proofs/X_linpoints.v", "Lin.v"], cov)
    n = N(ctx, 2000, 30000)
    from . import solo
    fam = solo.resize_families(ctx.tier, [("Map", None)])
    sched_part(ctx, "C03", cov, extra=[("resize frozen / writer parked (directed)", fam)], sets=[("Map", n, ["-prefill", "73", "-clear", "30"]), ("Map", n, []), ("Map", n, ["-keys", "6", "-ops", "4"]),
                                 ("Map", n, ["-threads", "4", "-ops", "4", "-sched", "mix"]), ("Map", n // 2, ["-sched", "pct", "-ops", "5", "-prefill", "73"])])
    xcorrs_part(ctx, "C03", cov, N(ctx, 150, 3000))
    table_part(ctx, "C03", cov, N(ctx, 200, 2000), [], impl="map")
    if broken and not ctx.violations:
        ctx.violation("proof", dict(broken=broken), failing_input=False, what="proof obligation no longer checks")
    cov["rule"] = "real Map code under random / PCT schedules of single atomic operations (spin lock, value/key publication, atomic snapshot reads), tables prefilled to the grow threshold, Clear mixed in; every history checked for linearizability against map[string]interface{}; sequential layouts compared with the table model"
    return ctx.finish(cov, ["PARTIAL: the concurrent behaviour of map.go is searched on the real code, not proved; the theorem is the sequential refinement for every hash / seed / policy"])

def check_C14():
    ctx = Ctx("C14"); cov = {}
    broken = proof_part(ctx, "props/C14.v", ["proofs/X_basic.v", "proofs/X_inv.v", "proofs/X_c13.v", "proofs/X_c16.v", "proofs/X_own.v", "XMachine.v", "props/C03.v", "proofs/XS_lock.v", "proofs/XS_own.v", "proofs/XS_inst.v", "XMachineS.v", "proofs/SkelDefs.v", "proofs/SkelTac.v", "proofs/SkelSet.v"], cov) if os.path.exists(os.path.join(C.COQ, "props/C14.v")) else []
    res = run_native(ctx, "race")
    j = res.get("raw") or {}
    cov["native_race"] = dict(race_enabled=j.get("race_enabled"), workloads=len(j.get("workloads", [])), race_reports=j.get("race_reports"),
                              integrity_failures=sum(w.get("integrity_failures", 0) for w in j.get("workloads", [])),
                              panics=sum(w.get("panics", 0) for w in j.get("workloads", [])))
    cov["traces_validated_against_impl"] = len(j.get("workloads", []))
    for pr in res["problems"][:2]:
        ctx.violation("native-%d" % pr["n"], dict(broken=["native/race: " + pr["what"]], detail=str(pr["detail"])[-1500:]), failing_input=False, what=pr["what"])
    if j.get("race_enabled") is False:
        ctx.violation("norace", dict(broken=["race detector not available"]), failing_input=False)
    if j.get("race_reports"):
        ctx.violation("race", dict(correspondence="native -race run", observed="%d data race reports" % j["race_reports"], failing_op="see report heads",
                                   reports=j.get("race_report_heads", [])[:3], how_to_replay="native/race/run.sh <repo copy> %d %s out.json" % (ctx.seed, ctx.tier)),
                      failing_input=True, what="the Go race detector reports a data race")
    bad = [w for w in j.get("workloads", []) if w.get("integrity_failures") or w.get("panics")]
    for i, w in enumerate(bad[:2]):
        ctx.violation("integrity-%d" % i, dict(correspondence="native -race run", observed=w, failing_op=w.get("name", "")), failing_input=True,
                      what="a payload read back from the container is torn / a workload panicked")
    inv = access_inventory(ctx)
    cov["access_inventory"] = inv.get("summary")
    for i, a in enumerate(inv.get("bad", [])[:3]):
        ctx.violation("access-%d" % i, dict(broken=["access discipline: " + a], failing_op=a), failing_input=False,
                      what="a shared slot / meta / table / flag field is accessed plainly outside the contexts the model allows: " + a[:150])
    if broken and not ctx.violations:
        ctx.violation("proof", dict(broken=broken), failing_input=False, what="proof obligation no longer checks")
    cov["rule"] = "model: every write to a bucket chain is made by the holder of that bucket's lock or goes to a table no other thread can reach yet (theorem); source: every access to a shared field of map.go / mapof.go is classified (sync/atomic vs plain; plain only inside a lock region, a constructor or the resize copy into the unpublished table) by an AST pass on every run; runtime: all four containers under the Go race detector with payload-integrity checks, janitor, settings flips, Range under writes and resizes"
    return ctx.finish(cov, ["the Go memory model itself is not modelled: happens-before is taken from the race detector's runtime and from the atomic / lock classification of the source",
                            "PARTIAL: the race detector only sees the executions it is given"])

def access_inventory(ctx):
    exe_dir = os.path.join(C.VERIF, "harness", "inventory")
    rc, o, e = C.sh(["go", "run", ".", "-repo", C.REPO], cwd=exe_dir, env=C.GOENV, timeout=300)
    if rc != 0:
        return dict(summary="inventory pass did not run: " + (o + e)[-300:], bad=["inventory pass failed to run"])
    try:
        j = json.loads(o)
    except ValueError:
        return dict(summary="inventory pass printed no JSON", bad=["inventory pass output unreadable"])
    return dict(summary=j.get("summary"), bad=j.get("bad", []))

CHECKS = {"C03": check_C03, "C04": check_C04, "C14": check_C14, "C13": check_C13, "C16": check_C16, "C02": check_C02, "C05": check_C05, "C10": check_C10, "C11": check_C11, "C01": check_C01, "C12": check_C12, "C09": check_C09, "C06": check_C06, "C07": check_C07,
          "C08": check_C08, "C15": check_C15}

def replay(pid, path):
    """re-run the case of a replay file against the current working tree"""
    obj = json.load(open(path))
    case = obj.get("case")
    if not case:
        print("replay file names no case:", obj.get("broken")); return 1
    ctx = Ctx(pid)
    exe_model, _ = ctx.ocaml(); d, exes, _ = ctx.go_seq()
    h = [l for l in case if not l.startswith("OP") and l != "END"]
    ops = [l for l in case if l.startswith("OP")]
    rc, io, err = cacheseq.run_impl(exes["verifseq"], [(h, ops)])
    bad = cacheseq.spec_check(exe_model, [(h, ops)], io)
    mism, _, mo = cacheseq.check(exes["verifseq"], exe_model, [(h, ops)])
    print("\n".join(io[0][1]) if io else err)
    print("specification rejects:", bad)
    print("model disagrees:", mism)
    return 1 if (bad or mism) else 0
