"""The checks, one function per property."""
import json, os
from . import common as C
from .engine import Ctx, proof_report, TRUSTED
from . import corr_cache, cacheseq

def N(ctx, quick, thorough):
    return quick if ctx.tier == "quick" else thorough

def proof_part(ctx, props_file, proof_files, cov):
    ob, di, broken, a = proof_report(ctx, props_file, proof_files)
    cov.update(obligations=ob, discharged=di,
               checker_cmd="cd coq && coq_makefile -f _CoqProject -o Makefile && make -k -j (coqc 8.16.1, full .vo build) ; coqc props/%s" % os.path.basename(props_file),
               theorems=a["theorems"],
               print_assumptions="%d of %d statements: Closed under the global context" % (a["closed"], len(a["theorems"])) + ("; AXIOMS: " + " | ".join(a["axioms"]) if a["axioms"] else ""))
    cov["trusted_base"] = TRUSTED + ["axioms reported by Print Assumptions: " + ("none" if not a["axioms"] else " | ".join(a["axioms"]))]
    return broken

def cache_seq_part(ctx, pid, cov, n_cases, broken_proofs, extra_concrete=None):
    """common tail of the checks tied by CORR-cache-seq"""
    res = corr_cache.run(ctx, n_cases)
    cov["correspondence"] = "CORR-cache-seq"
    cov["traces_validated_against_impl"] = res["n"]
    cov["input_distribution"] = res["stats"]
    if res["cases"]:
        cov["samples"] = ["\n".join(corr_cache.case_text(c)) for c in res["cases"][:2]]
    if not res["ok_build"]:
        ctx.violation("build", dict(broken=["CORR-cache-seq (does not build)"], log=res["build_log"]), failing_input=False,
                      what="the scratch copy or the model driver no longer builds")
        return res
    mine_spec = [b for b in res["spec_bad"] if pid in corr_cache.classify_spec(b)]
    mine_mism = [m for m in res["mismatches"] if pid in corr_cache.classify(m)]
    cov["spec_check_failures"] = len(mine_spec)
    cov["model_impl_disagreements"] = len(mine_mism)
    seen = set()
    for b in mine_spec[:3]:
        small = corr_cache.shrink_spec(res, b["case"])
        key = small[1][-1] if small[1] else ""
        ctx.violation("spec-%d" % b["case"],
                      dict(correspondence="CORR-cache-seq", check="implementation answer rejected by the specification (spec_okb, proved sound)",
                           failing_op=b["op"], observed=b["impl"], case=corr_cache.case_text(small),
                           how_to_replay="bin/check %s --replay <this file>" % pid),
                      failing_input=True, what="answer not admitted by SpecTTL")
        seen.add(b["case"])
    if not mine_spec:
        for m in mine_mism[:3]:
            ctx.violation("corr-%d" % m["case"],
                          dict(correspondence="CORR-cache-seq", broken=["CORR-cache-seq: model and implementation disagree"],
                               failing_op=m["op"], observed=m["impl"], model=m["model"],
                               case=corr_cache.case_text(res["cases"][m["case"]]),
                               how_to_replay="bin/check %s --replay <this file>" % pid),
                          failing_input=False, what="model no longer describes the code; the specification still admits the answers seen")
    if broken_proofs and not ctx.violations:
        ctx.violation("proof", dict(broken=broken_proofs), failing_input=False, what="proof obligation no longer checks")
    return res

# ----------------------------------------------------------------------------

def check_C01():
    ctx = Ctx("C01"); cov = {}
    broken = proof_part(ctx, "props/C01.v",
                        ["proofs/C01_sim.v", "proofs/C01_ops.v", "proofs/C07_range.v", "proofs/C12_twins.v",
                         "proofs/C01_hist.v", "proofs/SpecExec_sound.v", "Base.v"], cov)
    cache_seq_part(ctx, "C01", cov, N(ctx, 1500, 30000), broken)
    cov["rule"] = ("cases: constructor variant x 5..60 calls over <=6 keys, TTL classes incl. sentinels +-1ns, clock advances aimed at live expiry instants (e-1, e, e+1); "
                   "each case runs on the Go implementation (virtual clock) and on the extracted Coq models; every answer is also tested by the extracted specification checker")
    return ctx.finish(cov, ["clock frozen within a call, monotone between calls (vclock)", "user functions/visitors from the named family of coq/Exec.v"])

def check_C12():
    ctx = Ctx("C12"); cov = {}
    broken = proof_part(ctx, "props/C12.v", ["proofs/C12_twins.v"], cov)
    td = corr_cache.twin_diff(ctx, N(ctx, 1000, 20000))
    cov["twin_differential_cases"] = td["n"]
    cov["twin_differential_disagreements"] = len(td.get("diffs", []))
    if not td["ok_build"]:
        ctx.violation("build", dict(broken=["twin differential (does not build)"], log=td["build_log"]), failing_input=False)
    for dd in td.get("diffs", [])[:3]:
        ctx.violation("twin-%d" % dd["case"],
                      dict(check="Cache vs CacheOf[string,interface{}] on the same calls", failing_op=dd["op"],
                           observed=dict(cache=dd["cache"], cacheof=dd["cacheof"]),
                           case=corr_cache.case_text(td["cases"][dd["case"]])),
                      failing_input=True, what="the twins answer differently")
    res = cache_seq_part(ctx, "C12", cov, N(ctx, 600, 10000), broken)
    # either model failing its own Go file breaks the tie the theorem relies on
    for m in res.get("mismatches", [])[:2]:
        if not ctx.violations:
            ctx.violation("corr-%d" % m["case"], dict(broken=["CORR-cache-seq"], failing_op=m["op"], observed=m["impl"], model=m["model"],
                          case=corr_cache.case_text(res["cases"][m["case"]])), failing_input=False,
                          what="one twin's model no longer describes its Go file")
    cov["rule"] = "same generated histories on both twins, outputs compared line by line (visit order of exhaustive traversals compared as sets); plus each model against its own Go file"
    return ctx.finish(cov, ["map-level twins (Map vs MapOf) are covered by C11's refinement of both to SpecMap"])

CHECKS = {"C01": check_C01, "C12": check_C12}

def replay(pid, path):
    """re-run the case of a replay file against the current working tree"""
    obj = json.load(open(path))
    case = obj.get("case")
    if not case:
        print("replay file names no case:", obj.get("broken")); return 1
    ctx = Ctx(pid)
    exe_model, _ = ctx.ocaml(); d, exes, _ = ctx.go_seq()
    h = [l for l in case if not l.startswith("OP") and l != "END"]
    ops = [l for l in case if l.startswith("OP")]
    rc, io, err = cacheseq.run_impl(exes["verifseq"], [(h, ops)])
    bad = cacheseq.spec_check(exe_model, [(h, ops)], io)
    mism, _, mo = cacheseq.check(exes["verifseq"], exe_model, [(h, ops)])
    print("\n".join(io[0][1]) if io else err)
    print("specification rejects:", bad)
    print("model disagrees:", mism)
    return 1 if (bad or mism) else 0
