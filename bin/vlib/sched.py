"""CORR-sched / search: the controlled-scheduler harness (harness/overlay/internal/vsched)
driven over generated and directed scenarios, histories checked with porcupine
against the sequential specifications (harness/lincheck)."""
import json, os
from . import common as C

def build(ctx):
    """-> dict(verifsched, lincheck, gen) paths or None + log"""
    if getattr(ctx, "_sched", None) is None:
        d, exes, log = C.go_scratch(mode="sched")
        tools = dict(verifsched=exes.get("verifsched"))
        for name in ("lincheck", "gen"):
            exe = os.path.join(d, name)
            rc, o, e = C.sh(["go", "build", "-o", exe, "."], cwd=os.path.join(C.VERIF, "harness", name), env=C.GOENV, timeout=600)
            log += o + e
            tools[name] = exe if rc == 0 else None
        ctx._sched = (tools, log)
    return ctx._sched

def find_hang(tools, lines, probe_timeout=15):
    """bisect a batch on which the driver does not finish: -> the scenario line that hangs (or None)"""
    lo, hi = 0, len(lines)
    while hi - lo > 1:
        mid = (lo + hi) // 2
        rc, _, _ = C.sh([tools["verifsched"]], inp="\n".join(lines[lo:mid]) + "\n", timeout=probe_timeout)
        if rc == 124:
            hi = mid
        else:
            lo = mid
    return lines[lo] if lo < len(lines) else None

def run_scenarios(tools, scen_text, lincheck_args=(), timeout=None):
    """scenario lines -> list of (scenario dict, result dict, lincheck dict);
    (None, "HANG ...", scenario) when the driver itself does not finish"""
    timeout = timeout or C.driver_timeout()
    rc, out, err = C.sh([tools["verifsched"]], inp=scen_text, timeout=timeout)
    if rc == 124:
        lines = [l for l in scen_text.splitlines() if l.strip() and not l.startswith("#")]
        culprit = find_hang(tools, lines)
        return None, "HANG: the scheduler driver did not finish within %ds" % timeout + ("\n" + culprit if culprit else "")
    if rc != 0:
        return None, "verifsched: " + err[-1500:]
    rc2, out2, err2 = C.sh([tools["lincheck"]] + list(lincheck_args), inp=out, timeout=timeout)
    if rc2 != 0:
        return None, "lincheck: " + err2[-1500:]
    scen = {}
    for l in scen_text.splitlines():
        l = l.strip()
        if l and not l.startswith("#"):
            try:
                j = json.loads(l); scen[j.get("id")] = j
            except ValueError:
                pass
    res = {}
    for l in out.splitlines():
        try:
            j = json.loads(l); res[j.get("id")] = j
        except ValueError:
            pass
    rows = []
    for l in out2.splitlines():
        try:
            j = json.loads(l)
        except ValueError:
            continue
        rows.append((scen.get(j.get("id")), res.get(j.get("id")), j))
    return rows, ""

def gen(tools, container, n, seed, extra=()):
    rc, out, err = C.sh([tools["gen"], "-container", container, "-n", str(n), "-seed", str(seed)] + list(extra), timeout=600)
    return out if rc == 0 else ""

def directed():
    p = os.path.join(C.VERIF, "harness", "examples", "known_findings.jsonl")
    return open(p).read() if os.path.exists(p) else ""

def classify(row):
    """-> set of property ids a lincheck row speaks against (empty = fine)"""
    scen, res, lc = row
    cont = (res or {}).get("container") or (scen or {}).get("container", "")
    out = set()
    is_cache = cont.startswith("Cache")
    if lc.get("linearizable") is False:
        out.add("C02" if is_cache else ("C03" if cont == "Map" else "C04"))
        ops = json.dumps((scen or {}).get("threads", []))
        if any(x in ops for x in ("LoadOrCompute", "LoadOrStore", "GetOrSet", "GetOrCompute", "Compute", "GetAndSet", "GetAndRefresh", "LoadAndStore")):
            out.add("C05")
    for v in lc.get("violations", []):
        if v.startswith("fn-count"):
            out.add("C05")
        elif v.startswith("callback"):
            out.add("C06")
        elif v.startswith("final-state"):
            out |= {"C08", "C07"}
        elif v.startswith("range-check"):
            out.add("C07")
        elif v.startswith("count-check"):
            out.add("C08")
        elif v.startswith(("deadlock", "budget")):
            out.add("C13")
        elif v.startswith("panic"):
            out |= {"C13", "C02" if is_cache else ("C03" if cont == "Map" else "C04")}
        elif v.startswith("setup["):
            out |= {"C01" if is_cache else "C11"}
    return out
