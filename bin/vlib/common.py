"""Shared plumbing of the checks: paths, subprocesses, Coq / OCaml / Go builds,
evidence files, known findings, VIOLATION reporting."""
import atexit, json, os, re, shutil, subprocess, sys, tempfile, time

VERIF = os.path.dirname(os.path.dirname(os.path.dirname(os.path.abspath(__file__))))
REPO = os.environ.get("VERIF_REPO", "/repo")
COQ = os.path.join(VERIF, "coq")
BUILD = os.path.join(VERIF, "_build")          # ignored by git; rebuilt by setup / on demand
EVID = os.path.join(VERIF, "evidence")
REPLAY = os.path.join(VERIF, "replays")         # replay files of the last run (ignored by git)
NPROC = os.cpu_count() or 4

GOENV = dict(os.environ, GOFLAGS="-mod=mod", GOPROXY="off", GOSUMDB="off", GOTOOLCHAIN="local")

_scratch_dirs = []

def _cleanup():
    for d in _scratch_dirs:
        shutil.rmtree(d, ignore_errors=True)
atexit.register(_cleanup)

def sh(cmd, cwd=None, timeout=600, env=None, inp=None):
    """run a command; returns (rc, stdout, stderr)"""
    try:
        p = subprocess.run(cmd, cwd=cwd, env=env, input=inp, capture_output=True, text=True,
                           timeout=timeout, shell=isinstance(cmd, str))
        return p.returncode, p.stdout, p.stderr
    except subprocess.TimeoutExpired as e:
        return 124, (e.stdout or b"").decode() if isinstance(e.stdout, bytes) else (e.stdout or ""), "TIMEOUT after %ss" % timeout

def seed():
    try:
        return int(os.environ.get("VERIF_SEED", "1"))
    except ValueError:
        return 1

def tier(default="quick"):
    t = os.environ.get("VERIF_TIER", default)
    return t if t in ("quick", "thorough") else default

def driver_timeout():
    """how long one batch of the Go drivers may run before it is taken to hang"""
    return 150 if tier() == "quick" else 1200

def scratch_dir(prefix="verif-"):
    d = tempfile.mkdtemp(prefix=prefix, dir=os.environ.get("TMPDIR", "/tmp"))
    _scratch_dirs.append(d)
    return d

# ----------------------------------------------------------------------------
# Coq

FORBIDDEN = re.compile(r"\b(Admitted|admit|Axiom|Parameter|Conjecture|Unset Guard|bypass_check|Admit Obligations)\b|type-in-type|impredicative-set")

def coq_gate():
    """no admits / axioms / switched-off checks anywhere in the development"""
    bad = []
    for root, _, files in os.walk(COQ):
        for f in files:
            if f.endswith(".v"):
                p = os.path.join(root, f)
                for n, line in enumerate(open(p), 1):
                    code = re.sub(r"\(\*.*?\*\)", "", line)
                    if FORBIDDEN.search(code):
                        bad.append("%s:%d: %s" % (os.path.relpath(p, VERIF), n, line.strip()))
    cp = open(os.path.join(COQ, "_CoqProject")).read()
    if FORBIDDEN.search(cp):
        bad.append("_CoqProject passes a forbidden flag")
    return bad

def coq_build(clean=False, timeout=3000):
    """full .vo build (never -vos).  Returns (ok, log)."""
    if clean:
        sh("make clean >/dev/null 2>&1; find . -name '*.vo*' -o -name '*.glob' -o -name '.*.aux' | xargs rm -f", cwd=COQ)
    rc, out, err = sh("coq_makefile -f _CoqProject -o Makefile >/dev/null && make -j%d 2>&1" % NPROC, cwd=COQ, timeout=timeout)
    return rc == 0, out + err

def print_assumptions(theorems_file_vo_log):
    pass

# ----------------------------------------------------------------------------
# OCaml model driver

def ocaml_build(force=False):
    """extract the models (coqc Extract.v, run inside the output directory) and
    compile the driver.  Returns (path to modelrun or None, log)."""
    d = os.path.join(BUILD, "ocaml")
    exe = os.path.join(d, "modelrun")
    srcs = [os.path.join(COQ, f) for f in os.listdir(COQ) if f.endswith(".vo")] + \
           [os.path.join(VERIF, "ocaml", "modelrun.ml"), os.path.join(VERIF, "ocaml", "tabrun.ml"), os.path.join(VERIF, "ocaml", "xrun.ml"), os.path.join(VERIF, "ocaml", "xruns.ml"), os.path.join(COQ, "Extract.v")]
    if not force and os.path.exists(exe) and all(os.path.getmtime(exe) >= os.path.getmtime(s) for s in srcs if os.path.exists(s)):
        return exe, "cached"
    os.makedirs(d, exist_ok=True)
    rc, out, err = sh("coqc -Q %s CacheV %s/Extract.v" % (COQ, COQ), cwd=d, timeout=600)
    if rc != 0:
        return None, out + err
    shutil.copy(os.path.join(VERIF, "ocaml", "modelrun.ml"), d)
    shutil.copy(os.path.join(VERIF, "ocaml", "tabrun.ml"), d)
    shutil.copy(os.path.join(VERIF, "ocaml", "xrun.ml"), d)
    shutil.copy(os.path.join(VERIF, "ocaml", "xruns.ml"), d)
    rc, out2, err2 = sh("ocamlfind ocamlopt -O2 -w -a model.mli model.ml modelrun.ml -o modelrun && "
                        "ocamlfind ocamlopt -O2 -w -a model.mli model.ml tabrun.ml -o tabrun && "
                        "ocamlfind ocamlopt -O2 -w -a model.mli model.ml xrun.ml -o xrun && "
                        "ocamlfind ocamlopt -O2 -w -a model.mli model.ml xruns.ml -o xruns", cwd=d, timeout=600)
    if rc != 0:
        return None, out + err + out2 + err2
    return exe, out + err + out2 + err2

# ----------------------------------------------------------------------------
# Go scratch copy

def go_scratch(mode="seq", builds=None):
    """copy /repo's working tree to a scratch dir with the go/ast rewriter
    (harness/rewrite: clock -> vclock, sync/atomic & friends -> vsched shims, which
    pass through when no scheduler run is active), add the overlays, build drivers.
    mode "seq": the runtime's own hash functions are kept; mode "sched": they are
    replaced by deterministic ones so that schedules replay across processes.
    Returns (dir, {name: exe or None}, log)."""
    if builds is None:
        builds = (("verifseq", "./cmd/verifseq"), ("veriftab", "./cmd/veriftab")) if mode == "seq" else (("verifsched", "./cmd/verifsched"),)
    d = scratch_dir("verif-go-")
    dst = os.path.join(d, "src")
    tmp_ov = os.path.join(d, "overlay")
    shutil.copytree(os.path.join(VERIF, "harness", "overlay"), tmp_ov)
    shutil.copytree(os.path.join(VERIF, "harness", "overlay_seq"), tmp_ov, dirs_exist_ok=True)
    cmd = ["go", "run", ".", "-src", REPO, "-dst", dst, "-overlay", tmp_ov]
    if mode == "seq":
        cmd.append("-keep-runtime-hash")
    rc, out, err = sh(cmd, cwd=os.path.join(VERIF, "harness", "rewrite"), env=GOENV, timeout=300)
    log = out + err
    exes = {}
    if rc != 0 or "UNSHIMMED" in out:
        return d, {n: None for n, _ in builds}, log
    for name, pkg in builds:
        exe = os.path.join(d, name)
        rc, out, err = sh(["go", "build", "-tags", "verif", "-o", exe, pkg], cwd=dst, env=GOENV, timeout=600)
        log += out + err
        exes[name] = exe if rc == 0 else None
    return d, exes, log

# ----------------------------------------------------------------------------
# evidence / findings / verdicts

def load_findings():
    p = os.path.join(VERIF, "known_findings.json")
    if not os.path.exists(p):
        return []
    return json.load(open(p))

def write_evidence(pid, tier_, seed_, coverage, wall_s, violations, assumptions):
    os.makedirs(EVID, exist_ok=True)
    ev = {"property_id": pid, "tier": tier_, "seed": seed_, "level": "proof", "coverage": coverage,
          "assumptions": assumptions, "wall_s": round(wall_s, 2), "violations": violations}
    json.dump(ev, open(os.path.join(EVID, pid + ".json"), "w"), indent=1)

def write_replay(pid, name, obj):
    os.makedirs(REPLAY, exist_ok=True)
    p = os.path.join(REPLAY, "%s-%s.json" % (pid, name))
    json.dump(obj, open(p, "w"), indent=1)
    return p
