"""CORR-sched, step-by-step part: the schedule the controlled scheduler followed on
the real MapOf code is replayed on the extracted XMachine; every scheduling step
(thread, primitive kind, value class, set of enabled threads), every result, every
user-function invocation and the final layout must coincide."""
import json, struct
from . import common as C

M64 = (1 << 64) - 1

def mix64(z):
    z = ((z ^ (z >> 30)) * 0xBF58476D1CE4E5B9) & M64
    z = ((z ^ (z >> 27)) * 0x94D049BB133111EB) & M64
    return z ^ (z >> 31)

def memhash(data, seed):
    x = (seed ^ 0xcbf29ce484222325) & M64
    for c in data:
        x ^= c
        x = (x * 0x100000001b3) & M64
    return mix64((x + 0x9E3779B97F4A7C15 * (len(data) + 1)) & M64)

def seeds_of(rseed, n):
    r = rseed & M64
    out = []
    def nxt():
        nonlocal r
        r = (r + 0x9E3779B97F4A7C15) & M64
        return mix64(r)
    for _ in range(n):
        s1 = 0
        while s1 == 0:
            s1 = nxt() >> 32
        s2 = nxt() >> 32
        out.append((s1 << 32) | s2)
    return out

def key_hash(container, hasher, k, seed):
    if hasher == "const":
        return 0x9E3779B97F4A7C15
    if hasher == "sameidx":
        return ((0x1234567 << 7) | (k & 0x7f)) & M64
    if hasher == "sameh2":
        return ((k << 7) | 0x2a) & M64
    if container == "MapOf_int":
        return memhash(struct.pack("<q", k), seed)
    if container == "MapOf_str":
        return memhash(("" if k == 0 else "k%d" % k).encode(), seed)
    raise ValueError(container)

FN = {"incr": ("incr", 0), "del": ("del", 0), "noop-del-abs": ("noopdelabs", 0)}

def op_tokens(op):
    o = op["op"]; k = op.get("k", 0); v = op.get("v", 0)
    if o == "Load": return "load %d" % k
    if o == "Store": return "store %d %d" % (k, v)
    if o == "LoadOrStore": return "loadorstore %d %d" % (k, v)
    if o == "LoadAndStore": return "loadandstore %d %d" % (k, v)
    if o == "LoadOrCompute":
        return None if op.get("park") else "loadorcompute %d %d" % (k, v)
    if o == "Compute":
        if op.get("park"): return None
        fn = op.get("fn", "")
        if fn.startswith("set:"): return "compute %d set %s" % (k, fn[4:])
        if fn.startswith("del:"): return "compute %d del 0" % k
        if fn.startswith("delif:"): return "compute %d delif %s" % (k, fn[6:])
        if fn in FN: return "compute %d %s %d" % (k, FN[fn][0], FN[fn][1])
        return None
    if o == "LoadAndDelete": return "loadanddelete %d" % k
    if o == "Delete": return "delete %d" % k
    if o == "Clear": return "clear"
    if o == "Size": return "size"
    if o == "Range":
        return "range" if op.get("visitor", "all") in ("", "all") else None
    return None

def keys_of(scen):
    ks = set()
    for op in scen.get("setup", []) + [o for th in scen.get("threads", []) for o in th]:
        if "k" in op: ks.add(op["k"])
    return sorted(ks)

def model_case(scen, res):
    """-> text for xrun, or None if the scenario uses something the machine does not model"""
    cont = scen.get("container")
    if cont not in ("MapOf_int", "MapOf_str"):
        return None
    hasher = scen.get("hasher", "default") or "default"
    lines = ["XCASE %s %d" % (scen["id"], scen.get("presize", 0))]
    seeds = seeds_of(scen.get("rseed", 1) or 1, 10)
    for g, s in enumerate(seeds):
        lines.append("SEED %d %d" % (g, s))
    for k in keys_of(scen):
        for s in sorted(set(seeds)):
            lines.append("HASH %d %d %d" % (k, s, key_hash(cont, hasher, k, s)))
    for op in scen.get("setup", []):
        t = op_tokens(op)
        if t is None: return None
        lines.append("SETUP " + t)
    for ti, th in enumerate(scen.get("threads", [])):
        for op in th:
            t = op_tokens(op)
            if t is None: return None
            lines.append("THREAD %d %s" % (ti, t))
    lines.append("NTHREADS %d" % len(scen.get("threads", [])))
    tids = [row[1] for row in res.get("trace", [])]
    lines.append("SCHED " + " ".join(map(str, tids)))
    lines.append("END")
    return "\n".join(lines)

def go_step_lines(res):
    out = []
    for step, tid, kind, cls, en in res.get("trace", []):
        if kind == "Broadcast":
            cls = "*"
        out.append("S %d %s %s en=%s" % (tid, kind, cls, ",".join(map(str, en))))
    return out

def go_results(res):
    """per thread, in program order: canonical result strings"""
    out = {}
    for h in res.get("history", []):
        if h.get("sub"):
            continue
        r = h.get("res", {})
        op = h["op"]["op"]
        if h.get("ret", -1) < 0:
            continue
        if op in ("Store", "Delete", "Clear"):
            s = "unit"
        elif op == "Size":
            s = "nat %d" % r.get("n", 0)
        elif op == "Range":
            s = "unit"
        else:
            v = r.get("v")
            s = "val %s %s" % ("nil" if (not r.get("ok") and not _present(op, r)) else v, "1" if r.get("ok") else "0")
        out.setdefault(h["t"], []).append(s)
    return out

def _present(op, r):
    # for ok=false the library returns the zero value except where the old value is handed back
    return op in ("Compute",) and r.get("v") not in (None, 0)

def compare(scen, res, model_text):
    """-> None if the model replays the run exactly, else a short description"""
    ml = model_text.splitlines()
    msteps = [l for l in ml if l.startswith("S ") or l.startswith("DISABLED")]
    gsteps = go_step_lines(res)
    for i, g in enumerate(gsteps):
        m = msteps[i] if i < len(msteps) else "(model has no such step)"
        if m != g:
            return "step %d: implementation [%s] model [%s]" % (i + 1, g, m)
    if len(msteps) > len(gsteps):
        return "model has extra steps: %s" % msteps[len(gsteps)]
    # user-function invocations, per thread
    gf = {}
    for e in res.get("events", []):
        if e["kind"] == "fn":
            gf[e["t"]] = gf.get(e["t"], 0) + 1
    mf = {}
    for l in ml:
        if l.startswith("F "):
            t = int(l.split()[1]); mf[t] = mf.get(t, 0) + 1
    if gf != mf:
        return "user-function invocations differ: implementation %s model %s" % (gf, mf)
    # final size and layout
    fin = res.get("final")
    mfin = [l for l in ml if l.startswith("FINAL")]
    if fin and mfin:
        d = dict(x.split("=", 1) for x in mfin[0].split()[1:])
        if int(d["size"]) != fin.get("size"):
            return "final Size differs: implementation %s model %s" % (fin.get("size"), d["size"])
        lay = fin.get("layout")
        if lay:
            if lay["buckets"] != int(d["len"]) or lay["seed"] != int(d["seed"]):
                return "final table differs: implementation len=%s seed=%s model len=%s seed=%s" % (lay["buckets"], lay["seed"], d["len"], d["seed"])
            g = []
            for i, chain in enumerate(lay["chains"]):
                slots = [sl for b in chain for sl in b["slots"]]
                if all(sl[0] is None and sl[1] == 128 for sl in slots) and len(slots) == 5:
                    continue
                parts = []
                for j, sl in enumerate(slots):
                    parts.append(("|" if j and j % 5 == 0 else ("," if j else "")) + "%s/%d" % ("-" if sl[0] is None else sl[0], sl[1]))
                g.append("%d:%s;" % (i, "".join(parts)))
            if "".join(g) != d.get("chains", ""):
                return "final layout differs: implementation %s model %s" % ("".join(g)[:300], d.get("chains", "")[:300])
    return None

def run(ctx, tools, xrun_exe, sets):
    """-> (n_compared, mismatches [(scenario, result, why)], skipped)"""
    from . import sched
    n, bad, skipped = 0, [], 0
    for i, (cont, cnt, extra) in enumerate(sets):
        txt = sched.gen(tools, cont, cnt, ctx.seed + 31 * i, list(extra) + ["-trace", "-prefix", "x%d_" % i])
        scen = [json.loads(l) for l in txt.splitlines() if l.strip()]
        for sc in scen:
            sc["layout"] = True
        rc, out, err = C.sh([tools["verifsched"]], inp="\n".join(json.dumps(x) for x in scen) + "\n", timeout=C.driver_timeout())
        if rc == 124:
            bad.append((None, None, "implementation hung: the scheduler driver did not finish within %ds on set %s" % (C.driver_timeout(), cont)))
            continue
        results = {}
        for l in out.splitlines():
            try:
                j = json.loads(l); results[j.get("id")] = j
            except ValueError:
                pass
        cases, keep = [], []
        for sc in scen:
            r = results.get(sc["id"])
            if not r or "error" in r:
                skipped += 1; continue
            mc = model_case(sc, r)
            if mc is None:
                skipped += 1; continue
            cases.append(mc); keep.append((sc, r))
        rc2, out2, err2 = C.sh([xrun_exe], inp="\n".join(cases) + "\n", timeout=C.driver_timeout())
        blocks = out2.split("XCASE ")[1:]
        for (sc, r), blk in zip(keep, blocks):
            n += 1
            why = compare(sc, r, blk)
            if why:
                bad.append((sc, r, why))
        if rc2 != 0:
            bad.append((None, None, "model driver crashed: " + err2[-500:]))
    return n, bad, skipped
