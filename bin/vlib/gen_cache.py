"""Generator of sequential cache cases (CORR-cache-seq).  Every random choice
comes from one random.Random(seed).  A case is (header_lines, op_lines)."""
import random

NOEXP = -2_000_000_000
DEFEXP = -1_000_000_000
NOW0 = 1_000_000_000_000_000_000
HOUR = 3_600_000_000_000
MAXI = (1 << 63) - 1

TTL_CLASSES = {
    "default": lambda r: DEFEXP,
    "noexp": lambda r: NOEXP,
    "around-2s": lambda r: NOEXP + r.choice([-1, 1]),
    "around-1s": lambda r: DEFEXP + r.choice([-1, 1]),
    "neg1": lambda r: -1,
    "zero": lambda r: 0,
    "one": lambda r: 1,
    "small": lambda r: r.randint(2, 50),
    "medium": lambda r: r.randint(51, 5000),
    "large": lambda r: r.choice([HOUR, 365 * 24 * HOUR, 10**17]),
    "negbig": lambda r: -r.randint(2, 10**12),
}
# durations so large that now+d wraps: finding F6 (known), generated only on request
TTL_OVERFLOW = lambda r: MAXI - NOW0 + r.randint(-3, 10**6)

DFLT_CLASSES = [NOEXP, DEFEXP, 0, -1, 1, 7, 100, 5000, HOUR, -5]

FNS = ["set", "incr", "delret", "delifloaded", "delifabsent"]

class Shadow:
    """rough bookkeeping of expiry instants, used only to aim clock advances"""
    def __init__(self, now, dflt):
        self.now, self.dflt, self.e = now, dflt, {}
    def arm(self, k, d):
        if d == DEFEXP:
            d = self.dflt
        self.e[k] = self.now + d if d > 0 else 0
    def live_instants(self):
        return [e for e in self.e.values() if e > 0 and e >= self.now - 2]

def gen_case(r, cid, impl, nops, allow_overflow=False, stats=None):
    zero = 0 if impl == "cacheof_ii" else -1
    now0 = NOW0 + r.choice([0, 0, r.randint(0, 10**9)])
    head = ["CASE %s %s %d %d" % (cid, impl, zero, now0)]
    # constructor
    cbs = ["-", "1", "2"]
    dflt = r.choice(DFLT_CLASSES)
    interval = r.choice([0, 0, 0, -1, -HOUR, HOUR, 24 * HOUR, -5])
    if r.random() < 0.5:
        ncb = r.choice([0, 1, 1, 2])
        cbl = [r.choice(cbs) for _ in range(ncb)]
        head.append("NEWDEFAULT %d %d %s" % (dflt, interval, " ".join(cbl)))
        cb0 = cbl[0] if cbl else "-"
        if stats is not None: stats["ctor:newdefault"] = stats.get("ctor:newdefault", 0) + 1
    else:
        head.append("NEW")
        cb0 = "-"
        use_dflt = None
        for _ in range(r.choice([0, 1, 2, 3, 4])):
            w = r.choice(["dflt", "interval", "cb", "mincap"])
            if w == "dflt":
                use_dflt = r.choice(DFLT_CLASSES); head.append("OPT dflt %d" % use_dflt)
            elif w == "interval":
                head.append("OPT interval %d" % r.choice([0, -1, HOUR, -HOUR]))
            elif w == "cb":
                cb0 = r.choice(cbs); head.append("OPT cb %s" % cb0)
            else:
                head.append("OPT mincap %d" % r.choice([-1, 0, 1, 95, 96, 97, 500]))
        dflt = use_dflt if use_dflt is not None else NOEXP
        if stats is not None: stats["ctor:new"] = stats.get("ctor:new", 0) + 1
    eff_dflt = dflt if dflt >= 1 else NOEXP
    sh = Shadow(now0, eff_dflt)
    nkeys = r.choice([1, 2, 3, 4, 6, 6, 200])       # 200: bucket chains overflow, the table below grows
    keys = list(range(0, nkeys))
    nextv = [1]
    def val():
        if r.random() < 0.06:
            return zero                      # store nil / the zero value
        nextv[0] += 1
        return nextv[0]
    def ttl():
        if allow_overflow and r.random() < 0.05:
            return TTL_OVERFLOW(r)
        name = r.choice(list(TTL_CLASSES))
        if stats is not None: stats["ttl:" + name] = stats.get("ttl:" + name, 0) + 1
        return TTL_CLASSES[name](r)
    ops = []
    weights = [("set", 10), ("setdefault", 3), ("setforever", 2), ("get", 8), ("getexp", 5), ("getttl", 5),
               ("getorset", 6), ("getandset", 6), ("getandrefresh", 6), ("getorcompute", 5), ("compute", 8),
               ("getanddelete", 6), ("delete", 4), ("deleteexpired", 4), ("range", 4), ("items", 3),
               ("clear", 1), ("count", 4), ("getdflt", 1), ("setdflt", 2), ("getcb", 1), ("setcb", 2),
               ("advance", 22), ("dump", 3)]
    names = [w[0] for w in weights]; ws = [w[1] for w in weights]
    for _ in range(nops):
        op = r.choices(names, ws)[0]
        k = r.choice(keys)
        if stats is not None: stats["op:" + op] = stats.get("op:" + op, 0) + 1
        if op == "set":
            d = ttl(); ops.append("OP set %d %d %d" % (k, val(), d)); sh.arm(k, d)
        elif op == "setdefault":
            ops.append("OP setdefault %d %d" % (k, val())); sh.arm(k, DEFEXP)
        elif op == "setforever":
            ops.append("OP setforever %d %d" % (k, val())); sh.arm(k, NOEXP)
        elif op in ("get", "getexp", "getttl", "getanddelete", "delete"):
            ops.append("OP %s %d" % (op, k))
        elif op in ("getorset", "getandset", "getorcompute"):
            d = ttl(); ops.append("OP %s %d %d %d" % (op, k, val(), d)); sh.arm(k, d)
        elif op == "getandrefresh":
            d = ttl(); ops.append("OP getandrefresh %d %d" % (k, d)); sh.arm(k, d)
        elif op == "compute":
            d = ttl(); fn = r.choice(FNS)
            ops.append("OP compute %d %s %d %d" % (k, fn, val(), d)); sh.arm(k, d)
        elif op == "range":
            vis = r.choice(["all", "all", "nil", "stopkey", "stopvalge"])
            arg = r.choice(keys) if vis == "stopkey" else r.randint(0, nextv[0] + 1)
            ops.append("OP range %s %d" % (vis, arg))
        elif op == "setdflt":
            d = r.choice(DFLT_CLASSES); ops.append("OP setdflt %d" % d); sh.dflt = d
        elif op == "setcb":
            ops.append("OP setcb %s" % r.choice(cbs))
        elif op == "advance":
            inst = sh.live_instants()
            c = r.random()
            if inst and c < 0.7:
                e = r.choice(inst)
                dt = max(0, e - sh.now + r.choice([-1, 0, 0, 1, 1, 2]))
                cls = "at-instant"
            elif c < 0.85:
                dt = r.choice([0, 1, 2, 3]); cls = "tiny"
            else:
                dt = r.choice([10, 1000, 10**6, HOUR]); cls = "jump"
            if stats is not None: stats["adv:" + cls] = stats.get("adv:" + cls, 0) + 1
            ops.append("OP advance %d" % dt); sh.now += dt
        else:
            ops.append("OP " + op)
    ops.append("OP dump")
    return head, ops

def gen_bulk_case(r, cid, impl, stats=None):
    """a table filled to just under a grow threshold (long bucket chains), thinned out by deletes and expiries, then grown by
    fresh inserts, then read back key by key: entries that sit in overflow buckets behind emptied root slots, entries that
    survive a resize, expired-uncleaned entries carried across a resize"""
    zero = 0 if impl == "cacheof_ii" else -1
    head = ["CASE %s %s %d %d" % (cid, impl, zero, NOW0), "NEWDEFAULT %d 0 " % NOEXP]
    n1 = r.choice([118, 235, 235, 470]) if impl != "cache" else r.choice([70, 142, 142, 286])
    ops = []
    v = 1
    ttl_keys = set()
    for k in range(n1):
        v += 1
        if r.random() < 0.25:
            ops.append("OP set %d %d %d" % (k, v, 1000)); ttl_keys.add(k)
        else:
            ops.append("OP setforever %d %d" % (k, v))
    ops.append("OP advance 2000")                    # a quarter of the entries is now expired and not cleaned
    ks = list(range(n1)); r.shuffle(ks)
    for k in ks[:int(n1 * r.choice([0.5, 0.6, 0.7]))]:
        ops.append("OP %s %d" % (r.choice(["delete", "getanddelete", "delete"]), k))
    if r.random() < 0.5:
        ops.append("OP deleteexpired")
    for k in range(n1, n1 + n1):
        v += 1
        ops.append("OP setforever %d %d" % (k, v))
    for k in range(2 * n1):
        ops.append("OP get %d" % k)
    ops += ["OP count", "OP items", "OP dump"]
    if stats is not None:
        stats["case:bulk"] = stats.get("case:bulk", 0) + 1
    return head, ops

def densify(case):
    """physical snapshot before every removing call and every Count, and a Count
    right after every DeleteExpired / Clear (used by the C06 / C08 / C15 checks)"""
    h, ops = case
    out = []
    for op in ops:
        name = op.split()[1]
        if name in ("delete", "getanddelete", "deleteexpired", "count"):
            out.append("OP dump")
        out.append(op)
        if name in ("deleteexpired", "clear"):
            out += ["OP dump", "OP count"]
    return h, out

def gen_cases(seed, n, impls=("cache", "cacheof_sa", "cacheof_ii"), nops=(5, 60), allow_overflow=False, stats=None, dense=False):
    r = random.Random(seed)
    cases = []
    for i in range(n):
        impl = impls[i % len(impls)]
        k = r.randint(*nops)
        if i % 25 == 24:
            k = k * 25                     # a long history now and then (hundreds of keys in play)
        if i % 20 == 13 and not dense:
            cases.append(gen_bulk_case(r, "c%d" % i, impl, stats))
            continue
        c = gen_case(r, "c%d" % i, impl, k, allow_overflow, stats)
        cases.append(densify(c) if dense else c)
    return cases
