"""CORR-table-seq: sequential call sequences on Map / MapOf (Go) and on the
extracted TableModel, with the hash values and table seeds observed on the Go
side fed to the model as its oracle; results AND physical layouts compared."""
import random
from . import common as C

FNS = ["set", "incr", "delret", "delifloaded", "delifabsent"]
PRESIZE = [0, 0, 0, -5, 1, 96, 97, 160, 161, 300, 1000]

def gen_case(r, cid, impl, hasher, big, stats=None):
    zero = 0 if impl == "mapof_ii" else -1
    presize = r.choice(PRESIZE)
    head = ["CASE %s %s %d %s %d" % (cid, impl, zero, hasher, presize)]
    ops = []
    nextv = [1]
    def val():
        if r.random() < 0.05:
            return zero
        nextv[0] += 1
        return nextv[0]
    def st(name):
        if stats is not None:
            stats[name] = stats.get(name, 0) + 1
    pool = r.choice([8, 30, 120]) if not big else r.choice([300, 1200, 3000])
    if hasher != "default":
        pool = min(pool, r.choice([12, 40, 200]))
    nphases = r.randint(2, 6)
    for ph in range(nphases):
        kind = r.choice(["bulk_ins", "bulk_del", "mixed", "mixed", "clear", "compute_abs", "fn_ins", "drain_head"])
        st("phase:" + kind)
        if kind == "bulk_ins":
            ks = list(range(pool)); r.shuffle(ks)
            for k in ks[: r.randint(1, pool)]:
                ops.append("OP %s %d %d" % (r.choice(["store", "store", "loadorstore", "loadandstore", "loadorcompute"]), k, val()))
        elif kind == "fn_ins":
            # fresh keys inserted through the function-taking calls, in numbers that cross the grow
            # thresholds: the function must run exactly once per call even when the insert has to
            # grow the table first (values are positional, so a second invocation shows)
            base = 100000 + ph * 10000
            for j in range(r.choice([40, 90, 140, 260]) if big else r.choice([10, 80, 130])):
                if r.random() < 0.5:
                    ops.append("OP loadorcompute %d %d" % (base + j, val()))
                else:
                    ops.append("OP compute %d %s %d" % (base + j, r.choice(["set", "incr", "delifloaded"]), val()))
        elif kind == "drain_head":
            # fill chains beyond one bucket (below the grow threshold), empty their leading buckets by
            # deleting in insertion order, then look every survivor up again (plain Load and the others)
            base = 200000 + ph * 10000
            n = r.choice([60, 70, 110]) if not big else r.choice([70, 140, 280])
            for j in range(n):
                ops.append("OP store %d %d" % (base + j, val()))
            cut = r.randint(n // 2, n - 3)
            for j in range(cut):
                ops.append("OP %s %d" % (r.choice(["delete", "loadanddelete"]), base + j))
            for j in range(cut - 2, n):
                ops.append("OP load %d" % (base + j))
            for j in range(cut, min(n, cut + 6)):
                ops.append("OP loadorstore %d %d" % (base + j, val()))
        elif kind == "bulk_del":
            ks = list(range(pool)); r.shuffle(ks)
            for k in ks[: r.randint(1, pool)]:
                ops.append("OP %s %d" % (r.choice(["delete", "loadanddelete"]), k))
        elif kind == "clear":
            ops.append("OP clear")
        elif kind == "compute_abs":
            # deleting Compute on keys that are mostly absent: every slot-occupancy pattern of the chain
            for _ in range(r.randint(3, 40)):
                ops.append("OP compute %d %s %d" % (r.randint(0, 2 * pool), r.choice(["delret", "delifloaded", "delifabsent"]), 40000 + r.randint(0, 99)))
        else:
            for _ in range(r.randint(5, 60)):
                k = r.randrange(pool)
                o = r.choice(["load", "store", "loadorstore", "loadandstore", "loadorcompute", "compute", "loadanddelete", "delete", "size"])
                st("op:" + o)
                if o in ("load", "loadanddelete", "delete"):
                    ops.append("OP %s %d" % (o, k))
                elif o == "size":
                    ops.append("OP size")
                elif o == "compute":
                    ops.append("OP compute %d %s %d" % (k, r.choice(FNS), val()))
                else:
                    ops.append("OP %s %d %d" % (o, k, val()))
        ops.append("OP size")
        if r.random() < 0.7:
            ops.append("OP layout")
        if r.random() < 0.4:
            ops.append("OP range all 0" if r.random() < 0.7 else "OP range stopkey %d" % r.randrange(pool))
    ops.append("OP layout")
    return head, ops

def gen_cases(seed, n, stats=None, big_every=12):
    r = random.Random(seed)
    combos = [("map", "default"), ("mapof_sa", "default"), ("mapof_ii", "default"), ("mapof_ii", "const"),
              ("mapof_sa", "sameidx"), ("mapof_ii", "sameh2"), ("mapof_ii", "h2coll"), ("map", "default")]
    cases = []
    for i in range(n):
        impl, hasher = combos[i % len(combos)]
        if stats is not None:
            stats["impl:%s/%s" % (impl, hasher)] = stats.get("impl:%s/%s" % (impl, hasher), 0) + 1
        cases.append(gen_case(r, "t%d" % i, impl, hasher, big=(i % big_every == big_every - 1), stats=stats))
    return cases

def render(cases, oracles=None):
    out = []
    for ci, (h, ops) in enumerate(cases):
        out += h
        if oracles is not None:
            out += oracles[ci]
        out += ops + ["END"]
    return "\n".join(out) + "\n"

def split_output(text):
    out, cur = [], None
    for line in text.splitlines():
        if line.startswith("CASE "):
            cur = [line.split()[1], [], []]       # id, lines, oracle
            out.append(cur)
        elif cur is None or line == "END":
            continue
        elif line.startswith("SEED ") or line.startswith("HASH "):
            cur[2].append(line)
        else:
            cur[1].append(line)
    return out

def check(exe_impl, exe_model, cases, timeout=None):
    timeout = timeout or C.driver_timeout()
    rc, out, err = C.sh([exe_impl], inp=render(cases), timeout=timeout)
    impl = split_output(out)
    if rc != 0 or len(impl) < len(cases):
        ci = max(0, len(impl) - 1)
        return [dict(case=ci, index=len(impl[ci][1]) - 1 if impl else -1, op="(crash)", impl=err[-2000:], model="")], impl, []
    oracles = [c[2] for c in impl]
    rc2, out2, err2 = C.sh([exe_model], inp=render(cases, oracles), timeout=timeout)
    model = split_output(out2)
    mism = []
    if rc2 != 0:
        mism.append(dict(case=len(model) - 1, index=-1, op="(model crash)", impl="", model=err2[-2000:]))
    for ci, ((h, ops), ic, mc) in enumerate(zip(cases, impl, model)):
        il, ml = ic[1], mc[1]
        if not il or not ml or il[0] != ml[0]:
            mism.append(dict(case=ci, index=-1, op="(constructor)", impl=il[0] if il else "", model=ml[0] if ml else ""))
            continue
        for i, op in enumerate(ops):
            a = il[1 + i].rstrip() if 1 + i < len(il) else "(missing)"
            b = ml[1 + i].rstrip() if 1 + i < len(ml) else "(missing)"
            if a != b:
                mism.append(dict(case=ci, index=i, op=op, impl=a[:600], model=b[:600]))
                break
    return mism, impl, model

def shrink(exe_impl, exe_model, case, pred=None, quick_timeout=20):
    h, ops = case
    def bad(o):
        m, _, _ = check(exe_impl, exe_model, [(h, o)], timeout=quick_timeout)
        return bool(m) if pred is None else any(pred(x) for x in m)
    if not bad(ops):
        return case
    # chunked removal first (cases can be thousands of ops long), then single ops
    chunk = max(1, len(ops) // 2)
    while chunk >= 1:
        i = 0
        while i < len(ops):
            cand = ops[:i] + ops[i + chunk:]
            if cand and bad(cand):
                ops = cand
            else:
                i += chunk
        chunk //= 2
    return (h, ops)

def twin_diff(exe_impl, seed, n):
    """C12, direct: the same calls on Map and on MapOf[string, interface{}]"""
    import re
    r = random.Random(seed + 104729)
    cases = []
    for i in range(n):
        h, ops = gen_case(r, "w%d" % i, "map", "default", big=(i % 10 == 9))
        ops = [o for o in ops if o != "OP layout" and not o.startswith("OP range stopkey")]
        cases.append((h, ops))
    twin = [([h[0].replace(" map ", " mapof_sa ", 1)], o) for h, o in cases]
    rc1, o1, e1 = C.sh([exe_impl], inp=render(cases), timeout=C.driver_timeout())
    rc2, o2, e2 = C.sh([exe_impl], inp=render(twin), timeout=C.driver_timeout())
    a, b = split_output(o1), split_output(o2)
    def canon(line):
        m = re.match(r"(\d+ list )(\S*)( ;.*)", line)
        if m:
            return m.group(1) + ",".join(sorted(m.group(2).split(","))) + m.group(3)
        return line
    diffs = []
    for ci, (ca, cb) in enumerate(zip(a, b)):
        la, lb = ca[1][1:], cb[1][1:]          # skip the 'built' line (bucket sizes differ: 3 vs 5 slots)
        for i in range(max(len(la), len(lb))):
            x = canon(la[i]) if i < len(la) else "(missing)"
            y = canon(lb[i]) if i < len(lb) else "(missing)"
            if x != y:
                diffs.append(dict(case=ci, index=i, op=cases[ci][1][i] if i < len(cases[ci][1]) else "?", map=x[:300], mapof=y[:300]))
                break
    if rc1 != 0 or rc2 != 0:
        diffs.append(dict(case=-1, index=-1, op="(crash)", map=e1[-500:], mapof=e2[-500:]))
    return diffs, cases
