"""CORR-cache-seq as used by the checks: generate, run implementation and model,
run the specification checker, classify disagreements per property, shrink."""
import re
from . import common as C
from . import gen_cache, cacheseq

def opname(op):
    f = op.split()
    return f[1] if len(f) > 1 and f[0] == "OP" else op

def classify(m):
    """which properties a model/implementation disagreement speaks about"""
    op = opname(m["op"])
    if op in ("(constructor)",):
        return {"C09", "C15"}
    if op.startswith("("):
        return {"C01", "C06", "C07", "C08", "C09", "C12", "C15"}
    a, b = m.get("impl", ""), m.get("model", "")
    ra, ea = (a.split(" ; ", 1) + [""])[:2] if " ;" in a else (a, "")
    rb, eb = (b.split(" ; ", 1) + [""])[:2] if " ;" in b else (b, "")
    ra, rb = ra.rstrip(" ;"), rb.rstrip(" ;")
    out = set()
    if op == "dump":
        return {"C01", "C08", "C09"}
    if ra != rb:
        if op in ("range", "items"):
            out |= {"C07", "C01"}
        elif op == "count":
            out |= {"C08"}
        elif op in ("getexp", "getttl"):
            out |= {"C09", "C01"}
        elif op in ("getdflt", "getcb"):
            out |= {"C09", "C06"}
        else:
            out |= {"C01"}
    if ea.strip() != eb.strip():
        evs = ea + " " + eb
        if "fire:" in evs:
            out.add("C06")
        if "fn:" in evs:
            out.add("C05")
        if "visit:" in evs:
            out.add("C07")
    return out or {"C01"}

def classify_spec(b):
    op = opname(b["op"])
    if op in ("range", "items"):
        return {"C07", "C01"}
    if op == "count":
        return {"C08"}
    if op in ("getexp", "getttl"):
        return {"C09", "C01"}
    if op in ("getdflt",):
        return {"C09"}
    return {"C01"}

def case_text(case):
    return case[0] + case[1] + ["END"]

def run(ctx, n_cases, impls=("cache", "cacheof_sa", "cacheof_ii"), nops=(5, 60)):
    """-> dict(ok_build, mismatches, spec_bad, cases, stats, impl_out)"""
    exe_model, mlog = ctx.ocaml()
    d, exes, glog = ctx.go_seq()
    res = dict(ok_build=True, build_log="", mismatches=[], spec_bad=[], cases=[], stats={}, n=0)
    if not exe_model:
        res.update(ok_build=False, build_log="model driver: " + mlog[-1500:])
        return res
    if not exes.get("verifseq"):
        res.update(ok_build=False, build_log="scratch copy / Go driver: " + glog[-1500:])
        return res
    stats = {}
    cases = gen_cache.gen_cases(ctx.seed, n_cases, impls=impls, nops=nops, stats=stats)
    mism, impl_out, model_out = cacheseq.check(exes["verifseq"], exe_model, cases)
    bad = cacheseq.spec_check(exe_model, cases, impl_out) if impl_out and len(impl_out) == len(cases) else []
    res.update(mismatches=mism, spec_bad=bad, cases=cases, stats=stats, n=len(cases),
               impl_out=impl_out, exe_impl=exes["verifseq"], exe_model=exe_model)
    return res

def shrink_spec(res, ci):
    """shrink case ci while the specification checker still rejects it"""
    exe_impl, exe_model = res["exe_impl"], res["exe_model"]
    h, ops = res["cases"][ci]
    def bad(o):
        rc, io, err = cacheseq.run_impl(exe_impl, [(h, o)])
        if not io:
            return False
        return bool(cacheseq.spec_check(exe_model, [(h, o)], io))
    if not bad(ops):
        return (h, ops)
    i = 0
    while i < len(ops):
        cand = ops[:i] + ops[i + 1:]
        if cand and bad(cand):
            ops = cand
        else:
            i += 1
    return (h, ops)

def twin_diff(ctx, n_cases, nops=(5, 60)):
    """C12, direct differential that needs no model: the same cases on Cache
    and on CacheOf[string, interface{}] must print the same lines."""
    d, exes, glog = ctx.go_seq()
    if not exes.get("verifseq"):
        return dict(ok_build=False, build_log=glog[-1500:], diffs=[], n=0)
    cases = gen_cache.gen_cases(ctx.seed + 7919, n_cases, impls=("cache",), nops=nops)
    # a stopping visitor stops wherever the map's (unspecified) order puts it: the twins use
    # different hash functions, so only exhaustive traversals are comparable directly
    cases = [(h, [re.sub(r"^OP range stop\w+ -?\d+", "OP range all 0", o) for o in ops]) for h, ops in cases]
    twin = [([h[0].replace(" cache ", " cacheof_sa ", 1)] + h[1:], o) for h, o in cases]
    _, a, _ = cacheseq.run_impl(exes["verifseq"], cases)
    _, b, _ = cacheseq.run_impl(exes["verifseq"], twin)
    diffs = []
    for ci, ((_, la), (_, lb)) in enumerate(zip(a, b)):
        ops = cases[ci][1]
        for i in range(max(len(la), len(lb))):
            x = la[i] if i < len(la) else "(missing)"
            y = lb[i] if i < len(lb) else "(missing)"
            op = ops[i - 1] if 0 < i <= len(ops) else "(constructor)"
            if i > 0:
                x, y = cacheseq.canon(op, x), cacheseq.canon(op, y)
                if opname(op) == "range":     # visit order is the map's: compare as sets when nobody stops
                    x, y = canon_range(x), canon_range(y)
            if x != y:
                diffs.append(dict(case=ci, index=i - 1, op=op, cache=x, cacheof=y))
                break
    return dict(ok_build=True, diffs=diffs, n=len(cases), cases=cases, exe_impl=exes["verifseq"])

def canon_range(line):
    m = re.match(r"(\d+ list )(\S*)( ; ?)(.*)", line)
    if not m:
        return line
    return m.group(1) + ",".join(sorted(p for p in m.group(2).split(",") if p)) + " ; " + " ".join(sorted(m.group(4).split()))
