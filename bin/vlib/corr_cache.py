"""CORR-cache-seq as used by the checks: generate, run implementation and model,
run the specification checker, classify disagreements per property, shrink."""
import re
from . import common as C
from . import gen_cache, cacheseq

def opname(op):
    f = op.split()
    return f[1] if len(f) > 1 and f[0] == "OP" else op

def classify(m):
    """which properties a model/implementation disagreement speaks about"""
    op = opname(m["op"])
    if op in ("(constructor)",):
        return {"C09", "C15"}
    if op.startswith("("):
        return {"C01", "C06", "C07", "C08", "C09", "C12", "C15"}
    a, b = m.get("impl", ""), m.get("model", "")
    ra, ea = (a.split(" ; ", 1) + [""])[:2] if " ;" in a else (a, "")
    rb, eb = (b.split(" ; ", 1) + [""])[:2] if " ;" in b else (b, "")
    ra, rb = ra.rstrip(" ;"), rb.rstrip(" ;")
    out = set()
    if op == "dump":
        return {"C01", "C08", "C09"}
    if ra != rb:
        if op in ("range", "items"):
            out |= {"C07", "C01"}
        elif op == "count":
            out |= {"C08"}
        elif op in ("getexp", "getttl"):
            out |= {"C09", "C01"}
        elif op in ("getdflt", "getcb"):
            out |= {"C09", "C06"}
        else:
            out |= {"C01"}
    if ea.strip() != eb.strip():
        evs = ea + " " + eb
        if "fire:" in evs:
            out.add("C06")
        if "fn:" in evs:
            out.add("C05")
        if "visit:" in evs:
            out.add("C07")
    return out or {"C01"}

def classify_spec(b):
    op = opname(b["op"])
    if op in ("range", "items"):
        return {"C07", "C01"}
    if op == "count":
        return {"C08"}
    if op in ("getexp", "getttl"):
        return {"C09", "C01"}
    if op in ("getdflt",):
        return {"C09"}
    return {"C01"}

def case_text(case):
    return case[0] + case[1] + ["END"]

def run(ctx, n_cases, impls=("cache", "cacheof_sa", "cacheof_ii"), nops=(5, 60), dense=False):
    """-> dict(ok_build, mismatches, spec_bad, cases, stats, impl_out)"""
    exe_model, mlog = ctx.ocaml()
    d, exes, glog = ctx.go_seq()
    res = dict(ok_build=True, build_log="", mismatches=[], spec_bad=[], cases=[], stats={}, n=0)
    if not exe_model:
        res.update(ok_build=False, build_log="model driver: " + mlog[-1500:])
        return res
    if not exes.get("verifseq"):
        res.update(ok_build=False, build_log="scratch copy / Go driver: " + glog[-1500:])
        return res
    stats = {}
    cases = gen_cache.gen_cases(ctx.seed, n_cases, impls=impls, nops=nops, stats=stats, dense=dense)
    mism, impl_out, model_out = cacheseq.check(exes["verifseq"], exe_model, cases)
    bad = cacheseq.spec_check(exe_model, cases, impl_out) if impl_out and len(impl_out) == len(cases) else []
    res.update(mismatches=mism, spec_bad=bad, cases=cases, stats=stats, n=len(cases),
               impl_out=impl_out, exe_impl=exes["verifseq"], exe_model=exe_model)
    return res

def shrink_spec(res, ci):
    """shrink case ci while the specification checker still rejects it"""
    exe_impl, exe_model = res["exe_impl"], res["exe_model"]
    h, ops = res["cases"][ci]
    def bad(o):
        rc, io, err = cacheseq.run_impl(exe_impl, [(h, o)])
        if not io:
            return False
        return bool(cacheseq.spec_check(exe_model, [(h, o)], io))
    if not bad(ops):
        return (h, ops)
    i = 0
    while i < len(ops):
        cand = ops[:i] + ops[i + 1:]
        if cand and bad(cand):
            ops = cand
        else:
            i += 1
    return (h, ops)

def twin_diff(ctx, n_cases, nops=(5, 60)):
    """C12, direct differential that needs no model: the same cases on Cache
    and on CacheOf[string, interface{}] must print the same lines."""
    d, exes, glog = ctx.go_seq()
    if not exes.get("verifseq"):
        return dict(ok_build=False, build_log=glog[-1500:], diffs=[], n=0)
    cases = gen_cache.gen_cases(ctx.seed + 7919, n_cases, impls=("cache",), nops=nops)
    # a stopping visitor stops wherever the map's (unspecified) order puts it: the twins use
    # different hash functions, so only exhaustive traversals are comparable directly
    cases = [(h, [re.sub(r"^OP range stop\w+ -?\d+", "OP range all 0", o) for o in ops]) for h, ops in cases]
    twin = [([h[0].replace(" cache ", " cacheof_sa ", 1)] + h[1:], o) for h, o in cases]
    _, a, _ = cacheseq.run_impl(exes["verifseq"], cases)
    _, b, _ = cacheseq.run_impl(exes["verifseq"], twin)
    diffs = []
    for ci, ((_, la), (_, lb)) in enumerate(zip(a, b)):
        ops = cases[ci][1]
        for i in range(max(len(la), len(lb))):
            x = la[i] if i < len(la) else "(missing)"
            y = lb[i] if i < len(lb) else "(missing)"
            op = ops[i - 1] if 0 < i <= len(ops) else "(constructor)"
            if i > 0:
                x, y = cacheseq.canon(op, x), cacheseq.canon(op, y)
                if opname(op) == "range":     # visit order is the map's: compare as sets when nobody stops
                    x, y = canon_range(x), canon_range(y)
            if x != y:
                diffs.append(dict(case=ci, index=i - 1, op=op, cache=x, cacheof=y))
                break
    return dict(ok_build=True, diffs=diffs, n=len(cases), cases=cases, exe_impl=exes["verifseq"])

def canon_range(line):
    m = re.match(r"(\d+ list )(\S*)( ; ?)(.*)", line)
    if not m:
        return line
    return m.group(1) + ",".join(sorted(p for p in m.group(2).split(",") if p)) + " ; " + " ".join(sorted(m.group(4).split()))


# ----------------------------------------------------------------------------
# direct checks of C06 / C08 on the implementation's own output (dense cases)

def parse_dump(line):
    """'<i> dump now=.. dflt=.. cb=.. n=.. k:v:e,...' -> (now, cb, {k:(v,e)})"""
    f = line.split()
    d = dict(x.split("=") for x in f[2:6])
    ents = {}
    if len(f) > 6:
        for t in f[6].split(","):
            k, v, e = t.split(":")
            ents[int(k)] = (int(v), int(e))
    return int(d["now"]), d["cb"], ents

def events_of(line):
    return line.split(" ; ", 1)[1].split() if " ; " in line else []

def law_check(cases, impl_out):
    """-> (c06 failures, c08 failures) as lists of dict(case, index, op, why, impl)"""
    c06, c08 = [], []
    for ci, ((h, ops), (_, il)) in enumerate(zip(cases, impl_out)):
        res = il[1:]
        for i, op in enumerate(ops):
            if i >= len(res) or i == 0:
                continue
            name = op.split()[1]
            prev = ops[i - 1].split()[1]
            fires = [e for e in events_of(res[i]) if e.startswith("fire:")]
            fcnts = [int(e.split(":")[1]) for e in events_of(res[i]) if e.startswith("firecnt:")]
            if name in ("delete", "getanddelete", "deleteexpired") and prev == "dump":
                now, cb, ents = parse_dump(res[i - 1])
                # C06: the callback runs only when the entry HAS BEEN removed: what it sees of the cache (Count, read
                # by the driver's callback while it runs) no longer contains the entry it is told about
                n_exp = sum(1 for v, e in ents.values() if 0 < e < now)
                lo, hi = (len(ents) - n_exp, len(ents) - 1) if name == "deleteexpired" else (len(ents) - 1, len(ents) - 1)
                if fcnts and any(not (lo <= c <= hi) for c in fcnts):
                    c06.append(dict(case=ci, index=i, op=op, impl=res[i],
                                    why="a callback ran while the cache still held its entry: Count seen inside the callbacks %s, %d entries before the call, expected %d..%d" % (fcnts, len(ents), lo, hi)))
                if name == "deleteexpired":
                    removed = [(k, v) for k, (v, e) in ents.items() if 0 < e < now]
                else:
                    k = int(op.split()[2])
                    removed = [(k, ents[k][0])] if k in ents else []
                want = sorted("fire:%s:%d:%d" % (cb, k, v) for k, v in removed) if cb != "-" else []
                if sorted(fires) != want:
                    c06.append(dict(case=ci, index=i, op=op, impl=res[i], why="fired %s, removed %s" % (sorted(fires), want)))
                if name == "deleteexpired" and i + 2 < len(res) and ops[i + 1].split()[1] == "dump":
                    _, _, after = parse_dump(res[i + 1])
                    exp_after = {k: ve for k, ve in ents.items() if not (0 < ve[1] < now)}
                    if after != exp_after:
                        c06.append(dict(case=ci, index=i, op=op, impl=res[i + 1], why="contents after the pass are not the unexpired entries"))
                    cnt = res[i + 2].split()
                    if ops[i + 2].split()[1] == "count" and cnt[1:3] != ["nat", str(len(exp_after))]:
                        c08.append(dict(case=ci, index=i + 2, op=ops[i + 2], impl=res[i + 2], why="Count after DeleteExpired is not the number of live entries"))
            elif fires and name not in ("delete", "getanddelete", "deleteexpired"):
                c06.append(dict(case=ci, index=i, op=op, impl=res[i], why="a call that removes nothing fired a callback"))
            if name == "count" and prev == "dump":
                now, cb, ents = parse_dump(res[i - 1])
                cnt = res[i].split()
                live = sum(1 for v, e in ents.values() if not (0 < e < now))
                if cnt[1:3] != ["nat", str(len(ents))] or live > len(ents):
                    c08.append(dict(case=ci, index=i, op=op, impl=res[i], why="Count differs from the number of keys physically present (%d)" % len(ents)))
            if name == "clear" and i + 2 < len(res) and ops[i + 2].split()[1] == "count":
                if res[i + 2].split()[1:3] != ["nat", "0"]:
                    c08.append(dict(case=ci, index=i + 2, op=ops[i + 2], impl=res[i + 2], why="Count after Clear is not 0"))
    return c06, c08


def shrink_by(case, bad):
    h, ops = case
    if not bad((h, ops)):
        return case
    i = 0
    while i < len(ops):
        cand = ops[:i] + ops[i + 1:]
        if cand and bad((h, cand)):
            ops = cand
        else:
            i += 1
    return (h, ops)

def shrink_law(res, ci, which):
    exe = res["exe_impl"]
    def bad(c):
        rc, io, err = cacheseq.run_impl(exe, [c])
        if not io:
            return False
        c06, c08 = law_check([c], io)
        return bool(c06 if which == "C06" else c08)
    return shrink_by(res["cases"][ci], bad)
