"""CORR-cache-seq: run sequential cases on the implementation (Go, virtual
clock) and on the extracted Coq models; compare canonical lines."""
import re
from . import common as C

def render(cases):
    return "\n".join("\n".join(h + o + ["END"]) for h, o in cases) + "\n"

def split_output(text):
    """-> list of (id, [lines]) per case"""
    out, cur = [], None
    for line in text.splitlines():
        if line.startswith("CASE "):
            cur = (line.split()[1], [])
            out.append(cur)
        elif cur is not None and line != "END":
            cur[1].append(line)
    return out

def run_impl(exe, cases, timeout=None):
    rc, out, err = C.sh([exe], inp=render(cases), timeout=timeout or C.driver_timeout())
    return rc, split_output(out), err

HINT_OPS = ("range", "items")

def add_hints(cases, impl_out):
    """insert the visit order observed on the implementation as the model's
    ordering hint for Range (the order in which a map hands out pairs is
    unspecified; everything else about the visit is checked)."""
    hinted = []
    for (h, ops), (_, lines) in zip(cases, impl_out):
        res = lines[1:]            # lines[0] is the 'built' line
        nops = []
        for i, op in enumerate(ops):
            f = op.split()
            if f[1] == "range" and i < len(res):
                m = re.match(r"\d+ list (\S*) ;", res[i])
                keys = [p.split(":")[0] for p in m.group(1).split(",") if p] if m else []
                nops.append(" ".join(f[:4] + keys))
            else:
                nops.append(op)
        hinted.append((h, nops))
    return hinted

def norm_built(line):
    d = dict(kv.split("=") for kv in line.split()[1:])
    return "built janitor=%s dflt=%s cb=%s" % (d.get("janitor"), d.get("dflt"), d.get("cb"))

def canon(op, line):
    """the order in which DeleteExpired meets the expired entries (hence the order
    of its callbacks) is the map's iteration order: unspecified, compared sorted"""
    # what a callback observed of the cache while it ran (Count at that moment) is checked by the direct law
    # checks of C06, not compared with the model (whose events carry no such observation)
    if "firecnt:" in line:
        line = re.sub(r" ?firecnt:-?\d+", "", line)
    if op.split()[1:2] == ["deleteexpired"] and " ; " in line:
        head, evs = line.split(" ; ", 1)
        return head + " ; " + " ".join(sorted(evs.split()))
    return line

def compare(cases, impl_out, model_out):
    """-> list of mismatches: dict(case, index, op, impl, model)"""
    mism = []
    for ci, ((h, ops), (iid, il), (mid, ml)) in enumerate(zip(cases, impl_out, model_out)):
        if not il or not ml:
            mism.append(dict(case=ci, index=-1, op="(build)", impl="\n".join(il), model="\n".join(ml)))
            continue
        if norm_built(il[0]) != norm_built(ml[0]):
            mism.append(dict(case=ci, index=-1, op="(constructor)", impl=il[0], model=ml[0]))
            continue
        ir, mr = il[1:], ml[1:]
        for i, op in enumerate(ops):
            a = ir[i].rstrip() if i < len(ir) else "(missing)"
            b = mr[i].rstrip() if i < len(mr) else "(missing)"
            a, b = canon(op, a), canon(op, b)
            if a != b:
                mism.append(dict(case=ci, index=i, op=op, impl=a, model=b))
                break
    return mism

def check(exe_impl, exe_model, cases):
    rc, impl_out, err = run_impl(exe_impl, cases)
    if rc != 0 and len(impl_out) < len(cases):
        # the implementation driver died (panic): report the case it died in
        ci = max(0, len(impl_out) - 1)
        return [dict(case=ci, index=len(impl_out[ci][1]) - 1 if impl_out else -1, op="(crash)",
                     impl=err[-2000:], model="")], impl_out, []
    hinted = add_hints(cases, impl_out)
    rc2, out2, err2 = C.sh([exe_model], inp=render(hinted), timeout=600)
    model_out = split_output(out2)
    if rc2 != 0:
        return [dict(case=len(model_out) - 1, index=-1, op="(model crash)", impl="", model=err2[-2000:])], impl_out, model_out
    return compare(hinted, impl_out, model_out), impl_out, model_out

def shrink(exe_impl, exe_model, case):
    """greedy removal of ops while the case still disagrees"""
    h, ops = case
    def bad(o):
        m, _, _ = check(exe_impl, exe_model, [(h, o)])
        return bool(m)
    if not bad(ops):
        return case
    i = 0
    while i < len(ops):
        cand = ops[:i] + ops[i + 1:]
        if cand and bad(cand):
            ops = cand
        else:
            i += 1
    return (h, ops)

def spec_check(exe_model, cases, impl_out):
    """run the implementation's answers through the extracted specification
    checker (spec_okb, proved sound w.r.t. spec_ok).  -> list of (case, index, op, impl line)"""
    lines = []
    for (h, ops), (_, il) in zip(cases, impl_out):
        lines += h
        res = il[1:]
        for i, op in enumerate(ops):
            lines.append(op)
            if op.split()[1] == "dump":
                continue
            if i >= len(res):
                break
            body = res[i].split(" ", 1)[1].split(" ;")[0]
            lines.append("RES " + body)
        lines.append("END")
    rc, out, err = C.sh([exe_model, "--check"], inp="\n".join(lines) + "\n", timeout=600)
    bad = []
    per = split_output(out)
    for ci, ((h, ops), (_, ml)) in enumerate(zip(cases, per)):
        for line in ml[1:]:
            f = line.split()
            if len(f) == 2 and f[1] == "BAD":
                i = int(f[0])
                bad.append(dict(case=ci, index=i, op=ops[i], impl=impl_out[ci][1][1 + i]))
                break
    if rc != 0:
        bad.append(dict(case=len(per) - 1, index=-1, op="(spec checker crashed)", impl=err[-1000:]))
    return bad
