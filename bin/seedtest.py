#!/usr/bin/env python3
"""seedtest.py <seedwork-dir> <name-prefix> <PID> [<PID>...]
For each numbered change in <seedwork-dir>: (1) confirm it in a scratch worktree
(builds, suite passes, demo fails with / passes without), (2) apply it to /repo,
run the quick checks of the given properties, undo it, (3) if confirmed, keep it
under /verif/seeded/<name-prefix>-<k>/ with meta.json saying which checks caught it."""
import json, os, shutil, subprocess, sys, time

ENV = dict(os.environ, GOFLAGS="-mod=mod", GOPROXY="off", GOSUMDB="off", GOTOOLCHAIN="local")

def sh(cmd, cwd=None, timeout=1800):
    p = subprocess.run(cmd, cwd=cwd, shell=isinstance(cmd, str), capture_output=True, text=True, env=ENV, timeout=timeout)
    return p.returncode, p.stdout + p.stderr

def confirm(patch, demo, race=False):
    rflag = "-race " if race else ""
    wt = "/tmp/seedconfirm-%d" % os.getpid()
    sh("git -C /repo worktree remove --force %s" % wt)
    rc, out = sh("git -C /repo worktree add -q --detach %s HEAD" % wt)
    res = dict(applies=False)
    try:
        rc, out = sh("git apply %s" % patch, cwd=wt)
        if rc != 0:
            rc, out = sh("git apply --3way %s" % patch, cwd=wt)
        res["applies"] = rc == 0
        if rc != 0:
            res["apply_log"] = out[-500:]
            return res
        rc, out = sh("go build ./...", cwd=wt)
        res["builds"] = rc == 0
        rc, out = sh("go test -vet=off -count=1 ./...", cwd=wt)
        res["suite_passes_with_change"] = rc == 0
        if demo and os.path.exists(demo):
            shutil.copy(demo, os.path.join(wt, "zz_demo_test.go"))
            rc, out = sh("go test %s-vet=off -count=1 -run TestSeedDemo ./" % rflag, cwd=wt)
            res["demo_fails_with_change"] = rc != 0
            res["demo_output_with_change"] = out[-600:]
            sh("git checkout -- . ", cwd=wt)
            rc, out = sh("go test %s-vet=off -count=1 -run TestSeedDemo ./" % rflag, cwd=wt)
            res["demo_passes_without_change"] = rc == 0
    finally:
        sh("git -C /repo worktree remove --force %s" % wt)
    return res

def run_checks(patch, pids):
    out = {}
    rc, log = sh("git -C /repo apply %s || git -C /repo apply --3way %s" % (patch, patch))
    if rc != 0:
        return {"apply_failed": log[-300:]}
    try:
        for pid in pids:
            t = time.time()
            rc, log = sh(["/verif/bin/check", pid, "--tier", "quick"], cwd="/verif")
            viol = [l for l in log.splitlines() if l.startswith("VIOLATION")]
            out[pid] = dict(rc=rc, violations=viol[:3], wall_s=round(time.time() - t, 1))
            if viol:
                rp = viol[0].split("replay=")[1].split()[0]
                try:
                    j = json.load(open(rp))
                    out[pid]["replay_excerpt"] = {k: j.get(k) for k in ("what", "failing_op", "observed", "why", "kind", "broken") if j.get(k) is not None}
                    if "case" in j:
                        out[pid]["replay_excerpt"]["case"] = j["case"][:14]
                except Exception as e:
                    pass
    finally:
        sh("git -C /repo checkout -- . && git -C /repo clean -fdq")
    return out

def main():
    d, prefix, pids = sys.argv[1], sys.argv[2], sys.argv[3:]
    for k in sorted(os.listdir(d)):
        kd = os.path.join(d, k)
        patch = os.path.join(kd, "patch.diff")
        if not os.path.isfile(patch):
            continue
        demo = os.path.join(kd, "demo_test.go")
        meta = json.load(open(os.path.join(kd, "meta.json"))) if os.path.exists(os.path.join(kd, "meta.json")) else {}
        conf = confirm(patch, demo, bool(meta.get("needs_race")))
        if meta.get("needs_race"):
            conf["demo_run_with_race_detector"] = True
        ok = conf.get("applies") and conf.get("builds") and conf.get("suite_passes_with_change") and conf.get("demo_fails_with_change") and conf.get("demo_passes_without_change")
        checks = run_checks(patch, pids) if conf.get("applies") else {}
        caught = [p for p, r in checks.items() if isinstance(r, dict) and r.get("rc") == 1 and r.get("violations")]
        print("== %s-%s confirmed=%s caught_by=%s  :: %s" % (prefix, k, bool(ok), caught, meta.get("summary", "")[:150]))
        for p, r in checks.items():
            print("   ", p, r if not isinstance(r, dict) else {x: r[x] for x in r if x != "replay_excerpt"})
        if ok:
            dst = "/verif/seeded/%s-%s" % (prefix, k)
            os.makedirs(dst, exist_ok=True)
            shutil.copy(patch, dst)
            if os.path.exists(demo):
                shutil.copy(demo, dst)
            meta2 = dict(property=meta.get("property"), summary=meta.get("summary"), needs=meta.get("needs"), files=meta.get("files"),
                         based_on=subprocess.run("git -C /repo log --format=%h -1", shell=True, capture_output=True, text=True).stdout.strip(),
                         confirmed=conf, ran=dict(checks=pids, results=checks), caught_by=caught)
            json.dump(meta2, open(os.path.join(dst, "meta.json"), "w"), indent=1)
        else:
            print("    NOT CONFIRMED:", {k2: v for k2, v in conf.items() if k2 != "demo_output_with_change"})

if __name__ == "__main__":
    main()
