#!/usr/bin/env python3
"""mkscratch.py <dst> : copy /repo's working tree to <dst> (outside /repo and
/verif), redirect the clock of package cache to vclock, add the verif overlays.
Fallback used until/unless the go/ast rewriter (harness/rewrite) is available."""
import os, re, shutil, sys

REPO = os.environ.get("VERIF_REPO", "/repo")
VERIF = os.path.dirname(os.path.dirname(os.path.abspath(__file__)))

def main(dst, overlays):
    if os.path.exists(dst):
        shutil.rmtree(dst)
    shutil.copytree(REPO, dst, ignore=shutil.ignore_patterns(".git"))
    for fn in os.listdir(dst):
        if not fn.endswith(".go") or fn.endswith("_test.go"):
            continue
        p = os.path.join(dst, fn)
        s = open(p).read()
        s2 = re.sub(r"\btime\.(Now|Until|Since)\(", r"vclock.\1(", s)
        if s2 != s:
            s2 = re.sub(r'import \(\n', 'import (\n\t"github.com/fufuok/cache/internal/vclock"\n', s2, count=1)
            if not re.search(r"\btime\.", s2.replace('"time"', "")):
                s2 = s2.replace('\t"time"\n', "")
            open(p, "w").write(s2)
    for ov in overlays:
        shutil.copytree(ov, dst, dirs_exist_ok=True)

if __name__ == "__main__":
    main(sys.argv[1], sys.argv[2:] or [os.path.join(VERIF, "harness", "overlay_seq")])
