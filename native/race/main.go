// Native harness "race": concurrent use of the whole public API of
// github.com/fufuok/cache under the Go race detector, with an integrity check
// on every value obtained from a container.
//
// usage (orchestrator): race <seed> <quick|thorough> <out.json>
//
// The orchestrator re-executes itself once per workload
// (race -worker <index> <seed> <tier> <result.json>) with
// GORACE="halt_on_error=0 exitcode=0 atexit_sleep_ms=20 log_path=<tmp>/race-<index>", collects the
// workers' results and the race detector's log files and writes one JSON
// document.
package main

import (
	"bytes"
	"encoding/json"
	"fmt"
	"math/rand"
	"os"
	"os/exec"
	"path/filepath"
	"runtime"
	"sort"
	"strconv"
	"strings"
	"sync"
	"sync/atomic"
	"time"

	"github.com/fufuok/cache"
)

// ---------------------------------------------------------------------------
// payload

// payload is initialised with plain stores right before it is handed to a
// container and only read (with plain loads) afterwards.
type payload struct {
	a, b, c int64
	sum     int64
}

func newPayload(rng *rand.Rand) *payload {
	p := new(payload)
	p.a = rng.Int63n(1 << 40)
	p.b = rng.Int63n(1 << 40)
	p.c = rng.Int63n(1 << 40)
	p.sum = p.a + p.b + p.c
	return p
}

// derive builds a fresh payload from an old one (read-modify-write in Compute).
func derive(old *payload) *payload {
	p := new(payload)
	p.a = old.a + 1
	p.b = old.b + 2
	p.c = old.c + 3
	p.sum = p.a + p.b + p.c
	return p
}

type stats struct {
	ops            atomic.Int64
	integrity      atomic.Int64
	panics         atomic.Int64
	callbacks      atomic.Int64
	mu             sync.Mutex
	panicSamples   []string
	integritySites map[string]int
}

func (s *stats) fail(where string) {
	s.integrity.Add(1)
	s.mu.Lock()
	if s.integritySites == nil {
		s.integritySites = map[string]int{}
	}
	s.integritySites[where]++
	s.mu.Unlock()
}

// check verifies a payload that a container handed out as present.
func (s *stats) check(p *payload, where string) {
	if p == nil {
		s.fail(where + ": nil payload reported as present")
		return
	}
	if p.sum != p.a+p.b+p.c {
		s.fail(where + ": sum != a+b+c")
	}
}

func (s *stats) recovered(where string, r any) {
	s.panics.Add(1)
	s.mu.Lock()
	if len(s.panicSamples) < 5 {
		buf := make([]byte, 2048)
		buf = buf[:runtime.Stack(buf, false)]
		s.panicSamples = append(s.panicSamples, fmt.Sprintf("%s: %T: %v\n%s", where, r, r, buf))
	}
	s.mu.Unlock()
}

// ---------------------------------------------------------------------------
// adapters: give the interface{}-valued Map / Cache the shape of
// MapOf[string,*payload] / CacheOf[string,*payload]

type anyMap struct {
	m  cache.Map
	st *stats
}

func (a anyMap) conv(v interface{}, ok bool, where string) *payload {
	if v == nil {
		return nil
	}
	p, isP := v.(*payload)
	if !isP {
		a.st.fail(where + ": value of foreign type " + fmt.Sprintf("%T", v))
		return nil
	}
	return p
}

func (a anyMap) Load(k string) (*payload, bool) {
	v, ok := a.m.Load(k)
	return a.conv(v, ok, "Map.Load"), ok
}
func (a anyMap) Store(k string, v *payload) { a.m.Store(k, v) }
func (a anyMap) LoadOrStore(k string, v *payload) (*payload, bool) {
	r, ok := a.m.LoadOrStore(k, v)
	return a.conv(r, ok, "Map.LoadOrStore"), ok
}
func (a anyMap) LoadAndStore(k string, v *payload) (*payload, bool) {
	r, ok := a.m.LoadAndStore(k, v)
	return a.conv(r, ok, "Map.LoadAndStore"), ok
}
func (a anyMap) LoadOrCompute(k string, f func() *payload) (*payload, bool) {
	r, ok := a.m.LoadOrCompute(k, func() interface{} { return f() })
	return a.conv(r, ok, "Map.LoadOrCompute"), ok
}
func (a anyMap) Compute(k string, f func(*payload, bool) (*payload, bool)) (*payload, bool) {
	r, ok := a.m.Compute(k, func(o interface{}, l bool) (interface{}, bool) {
		n, del := f(a.conv(o, l, "Map.Compute(old)"), l)
		if del {
			return nil, true
		}
		return n, false
	})
	return a.conv(r, ok, "Map.Compute"), ok
}
func (a anyMap) LoadAndDelete(k string) (*payload, bool) {
	r, ok := a.m.LoadAndDelete(k)
	return a.conv(r, ok, "Map.LoadAndDelete"), ok
}
func (a anyMap) Delete(k string) { a.m.Delete(k) }
func (a anyMap) Range(f func(string, *payload) bool) {
	a.m.Range(func(k string, v interface{}) bool { return f(k, a.conv(v, true, "Map.Range")) })
}
func (a anyMap) Clear()    { a.m.Clear() }
func (a anyMap) Size() int { return a.m.Size() }

var _ cache.MapOf[string, *payload] = anyMap{}

type anyCache struct {
	c  cache.Cache
	st *stats
}

func (a anyCache) conv(v interface{}, where string) *payload {
	if v == nil {
		return nil
	}
	p, isP := v.(*payload)
	if !isP {
		a.st.fail(where + ": value of foreign type " + fmt.Sprintf("%T", v))
		return nil
	}
	return p
}

func (a anyCache) Set(k string, v *payload, d time.Duration) { a.c.Set(k, v, d) }
func (a anyCache) SetDefault(k string, v *payload)           { a.c.SetDefault(k, v) }
func (a anyCache) SetForever(k string, v *payload)           { a.c.SetForever(k, v) }
func (a anyCache) Get(k string) (*payload, bool) {
	v, ok := a.c.Get(k)
	return a.conv(v, "Cache.Get"), ok
}
func (a anyCache) GetWithExpiration(k string) (*payload, time.Time, bool) {
	v, t, ok := a.c.GetWithExpiration(k)
	return a.conv(v, "Cache.GetWithExpiration"), t, ok
}
func (a anyCache) GetWithTTL(k string) (*payload, time.Duration, bool) {
	v, t, ok := a.c.GetWithTTL(k)
	return a.conv(v, "Cache.GetWithTTL"), t, ok
}
func (a anyCache) GetOrSet(k string, v *payload, d time.Duration) (*payload, bool) {
	r, ok := a.c.GetOrSet(k, v, d)
	return a.conv(r, "Cache.GetOrSet"), ok
}
func (a anyCache) GetAndSet(k string, v *payload, d time.Duration) (*payload, bool) {
	r, ok := a.c.GetAndSet(k, v, d)
	return a.conv(r, "Cache.GetAndSet"), ok
}
func (a anyCache) GetAndRefresh(k string, d time.Duration) (*payload, bool) {
	r, ok := a.c.GetAndRefresh(k, d)
	return a.conv(r, "Cache.GetAndRefresh"), ok
}
func (a anyCache) GetOrCompute(k string, f func() *payload, d time.Duration) (*payload, bool) {
	r, ok := a.c.GetOrCompute(k, func() interface{} { return f() }, d)
	return a.conv(r, "Cache.GetOrCompute"), ok
}
func (a anyCache) Compute(k string, f func(*payload, bool) (*payload, bool), d time.Duration) (*payload, bool) {
	r, ok := a.c.Compute(k, func(o interface{}, l bool) (interface{}, bool) {
		n, del := f(a.conv(o, "Cache.Compute(old)"), l)
		if del {
			return nil, true
		}
		return n, false
	}, d)
	return a.conv(r, "Cache.Compute"), ok
}
func (a anyCache) GetAndDelete(k string) (*payload, bool) {
	r, ok := a.c.GetAndDelete(k)
	return a.conv(r, "Cache.GetAndDelete"), ok
}
func (a anyCache) Delete(k string) { a.c.Delete(k) }
func (a anyCache) DeleteExpired()  { a.c.DeleteExpired() }
func (a anyCache) Range(f func(string, *payload) bool) {
	a.c.Range(func(k string, v interface{}) bool { return f(k, a.conv(v, "Cache.Range")) })
}
func (a anyCache) Items() map[string]*payload {
	items := a.c.Items()
	out := make(map[string]*payload, len(items))
	for k, v := range items {
		out[k] = a.conv(v, "Cache.Items")
	}
	return out
}
func (a anyCache) Clear()                               { a.c.Clear() }
func (a anyCache) Count() int                           { return a.c.Count() }
func (a anyCache) DefaultExpiration() time.Duration     { return a.c.DefaultExpiration() }
func (a anyCache) SetDefaultExpiration(d time.Duration) { a.c.SetDefaultExpiration(d) }
func (a anyCache) EvictedCallback() cache.EvictedCallbackOf[string, *payload] {
	cb := a.c.EvictedCallback()
	if cb == nil {
		return nil
	}
	return func(k string, v *payload) { cb(k, v) }
}
func (a anyCache) SetEvictedCallback(cb cache.EvictedCallbackOf[string, *payload]) {
	if cb == nil {
		a.c.SetEvictedCallback(nil) // stores a typed nil func: legal
		return
	}
	a.c.SetEvictedCallback(func(k string, v interface{}) { cb(k, a.conv(v, "Cache.callback")) })
}

var _ cache.CacheOf[string, *payload] = anyCache{}

// ---------------------------------------------------------------------------
// workloads

type spec struct {
	Name       string `json:"name"`
	Container  string `json:"container"`
	Goroutines int    `json:"goroutines"`
	kind       string
	dur        time.Duration
}

func specs(tier string) []spec {
	gs := []int{2, 16}
	dMap, dCache := 350*time.Millisecond, 450*time.Millisecond
	if tier == "thorough" {
		gs = []int{2, 8, 64}
		dMap, dCache = 3*time.Second, 4*time.Second
	}
	var out []spec
	for _, g := range gs {
		out = append(out,
			spec{"map-mixed-grow-shrink", "NewMap()", g, "map-any", dMap},
			spec{"map-mixed-grow-shrink", "NewMapOf[int,*payload]()", g, "mapof-int", dMap},
			spec{"map-mixed-grow-shrink", "NewMapOf[string,*payload]()", g, "mapof-string", dMap},
			spec{"cache-mixed-ttl-janitor-flippers", "New(5ms janitor, callback)", g, "cache-any", dCache},
			spec{"cache-mixed-ttl-janitor-flippers", "NewOf[int,*payload](5ms janitor, callback)", g, "cacheof-int", dCache},
			spec{"cache-mixed-ttl-janitor-flippers", "NewOf[string,*payload](5ms janitor, callback)", g, "cacheof-string", dCache},
		)
	}
	return out
}

const (
	mapKeySpace   = 8192
	cacheKeySpace = 8192
)

var strKeys = func() []string {
	ks := make([]string, mapKeySpace)
	for i := range ks {
		ks[i] = "key-" + strconv.Itoa(i)
	}
	return ks
}()

func intKey(i int) int    { return i*7919 - 1000 }
func strKey(i int) string { return strKeys[i] }

type sizeTrace struct {
	Max       int `json:"size_max"`
	Hi        int `json:"hi"`
	Lo        int `json:"lo"`
	Ups       int `json:"rises_above_hi"`
	Downs     int `json:"falls_below_lo"`
	NSamples  int `json:"size_samples"`
	lastState int
}

// sample records Size()/Count() samples; rises_above_hi / falls_below_lo count
// how often the container filled up and drained again (table growth and
// shrinking happen on the way).
func (t *sizeTrace) sample(n int) {
	t.NSamples++
	if n > t.Max {
		t.Max = n
	}
	if n > t.Hi && t.lastState != 1 {
		t.lastState = 1
		t.Ups++
	} else if n < t.Lo && t.lastState == 1 {
		t.lastState = -1
		t.Downs++
	}
}

// phase reports whether op number i of a worker falls into a bulk-insert phase.
func growPhase(i, phaseLen int) bool { return (i/phaseLen)&1 == 0 }

func phaseLenFor(g int) int {
	n := 40000 / g
	if n < 600 {
		n = 600
	}
	return n
}

// --- maps

func mapWorker[K comparable](m cache.MapOf[K, *payload], keyOf func(int) K, st *stats, rng *rand.Rand, g int, stop *atomic.Bool) {
	phaseLen := phaseLenFor(g)
	i := 0
	loop := func() {
		defer func() {
			if r := recover(); r != nil {
				st.recovered("map worker", r)
			}
		}()
		for !stop.Load() {
			i++
			st.ops.Add(1)
			k := keyOf(rng.Intn(mapKeySpace))
			r := rng.Intn(1000)
			// special, rare operations
			switch {
			case r < 1:
				if rng.Intn(8) == 0 {
					m.Clear()
					continue
				}
				n := 0
				limit := -1
				if rng.Intn(2) == 0 {
					limit = rng.Intn(500)
				}
				m.Range(func(_ K, v *payload) bool {
					st.check(v, "Range")
					n++
					return n != limit
				})
				continue
			case r < 20:
				_ = m.Size()
				continue
			}
			grow := growPhase(i, phaseLen)
			r = rng.Intn(100)
			var class int // 0 insert, 1 delete, 2 read
			switch {
			case r < 70:
				if grow {
					class = 0
				} else {
					class = 1
				}
			case r < 78:
				if grow {
					class = 1
				} else {
					class = 0
				}
			default:
				class = 2
			}
			switch class {
			case 0:
				switch rng.Intn(6) {
				case 0, 1:
					m.Store(k, newPayload(rng))
				case 2:
					v, _ := m.LoadOrStore(k, newPayload(rng))
					st.check(v, "LoadOrStore")
				case 3:
					v, _ := m.LoadAndStore(k, newPayload(rng))
					st.check(v, "LoadAndStore")
				case 4:
					v, _ := m.LoadOrCompute(k, func() *payload { return newPayload(rng) })
					st.check(v, "LoadOrCompute")
				default:
					v, ok := m.Compute(k, func(old *payload, loaded bool) (*payload, bool) {
						if loaded {
							st.check(old, "Compute(old)")
							if old != nil {
								return derive(old), false
							}
						}
						return newPayload(rng), false
					})
					if ok {
						st.check(v, "Compute")
					} else {
						st.fail("Compute(store) returned ok=false")
					}
				}
			case 1:
				switch rng.Intn(3) {
				case 0:
					m.Delete(k)
				case 1:
					if v, ok := m.LoadAndDelete(k); ok {
						st.check(v, "LoadAndDelete")
					}
				default:
					m.Compute(k, func(old *payload, loaded bool) (*payload, bool) {
						if loaded {
							st.check(old, "Compute(old,delete)")
						}
						return nil, true
					})
				}
			default:
				if v, ok := m.Load(k); ok {
					st.check(v, "Load")
				}
			}
		}
	}
	for !stop.Load() {
		loop()
	}
}

func runMap[K comparable](m cache.MapOf[K, *payload], keyOf func(int) K, sp spec, seed int64, st *stats) *sizeTrace {
	var stop atomic.Bool
	var wg sync.WaitGroup
	for g := 0; g < sp.Goroutines; g++ {
		wg.Add(1)
		rng := rand.New(rand.NewSource(seed*1000003 + int64(g)*7919 + 1))
		go func() {
			defer wg.Done()
			mapWorker(m, keyOf, st, rng, sp.Goroutines, &stop)
		}()
	}
	tr := &sizeTrace{Hi: 3000, Lo: 700}
	wg.Add(1)
	go func() { // sampler: one more concurrent Size() caller
		defer wg.Done()
		for !stop.Load() {
			tr.sample(m.Size())
			time.Sleep(200 * time.Microsecond)
		}
	}()
	time.Sleep(sp.dur)
	stop.Store(true)
	wg.Wait()
	// quiescent final check: everything still in the map is intact
	m.Range(func(_ K, v *payload) bool { st.check(v, "final Range"); return true })
	return tr
}

// --- caches

var ttls = []time.Duration{time.Millisecond, 2 * time.Millisecond, 3 * time.Millisecond}

func pickTTL(rng *rand.Rand) time.Duration {
	switch r := rng.Intn(100); {
	case r < 80:
		return ttls[rng.Intn(len(ttls))]
	case r < 97:
		return cache.DefaultExpiration
	default:
		return cache.NoExpiration
	}
}

func cacheWorker[K comparable](c cache.CacheOf[K, *payload], keyOf func(int) K, st *stats, rng *rand.Rand, g int, stop *atomic.Bool) {
	phaseLen := phaseLenFor(g)
	i := 0
	loop := func() {
		defer func() {
			if r := recover(); r != nil {
				st.recovered("cache worker", r)
			}
		}()
		for !stop.Load() {
			i++
			st.ops.Add(1)
			k := keyOf(rng.Intn(cacheKeySpace))
			d := pickTTL(rng)
			r := rng.Intn(2000)
			switch {
			case r < 1:
				c.Clear()
				continue
			case r < 4:
				n := 0
				limit := -1
				if rng.Intn(2) == 0 {
					limit = rng.Intn(500)
				}
				c.Range(func(_ K, v *payload) bool {
					st.check(v, "Cache.Range")
					n++
					return n != limit
				})
				continue
			case r < 6:
				for _, v := range c.Items() {
					st.check(v, "Cache.Items")
				}
				continue
			case r < 10:
				c.DeleteExpired()
				continue
			case r < 40:
				_ = c.Count()
				continue
			case r < 70:
				_ = c.DefaultExpiration()
				continue
			case r < 100:
				_ = c.EvictedCallback()
				continue
			}
			grow := growPhase(i, phaseLen)
			r = rng.Intn(100)
			var class int
			switch {
			case r < 65:
				if grow {
					class = 0
				} else {
					class = 1
				}
			case r < 75:
				if grow {
					class = 1
				} else {
					class = 0
				}
			default:
				class = 2
			}
			switch class {
			case 0:
				switch rng.Intn(8) {
				case 0, 1:
					c.Set(k, newPayload(rng), d)
				case 2:
					c.SetDefault(k, newPayload(rng))
				case 3:
					if rng.Intn(20) == 0 {
						c.SetForever(k, newPayload(rng))
					} else {
						c.Set(k, newPayload(rng), d)
					}
				case 4:
					v, _ := c.GetOrSet(k, newPayload(rng), d)
					st.check(v, "GetOrSet")
				case 5:
					v, _ := c.GetAndSet(k, newPayload(rng), d)
					st.check(v, "GetAndSet")
				case 6:
					v, _ := c.GetOrCompute(k, func() *payload { return newPayload(rng) }, d)
					st.check(v, "GetOrCompute")
				default:
					v, ok := c.Compute(k, func(old *payload, loaded bool) (*payload, bool) {
						if loaded {
							st.check(old, "Cache.Compute(old)")
							if old != nil {
								return derive(old), false
							}
						}
						return newPayload(rng), false
					}, d)
					if ok {
						st.check(v, "Cache.Compute")
					} else {
						st.fail("Cache.Compute(store) returned ok=false")
					}
				}
			case 1:
				switch rng.Intn(3) {
				case 0:
					c.Delete(k)
				case 1:
					if v, ok := c.GetAndDelete(k); ok {
						st.check(v, "GetAndDelete")
					}
				default:
					c.Compute(k, func(old *payload, loaded bool) (*payload, bool) {
						if loaded {
							st.check(old, "Cache.Compute(old,delete)")
						}
						return nil, true
					}, d)
				}
			default:
				switch rng.Intn(4) {
				case 0:
					if v, ok := c.Get(k); ok {
						st.check(v, "Get")
					}
				case 1:
					if v, _, ok := c.GetWithExpiration(k); ok {
						st.check(v, "GetWithExpiration")
					}
				case 2:
					if v, _, ok := c.GetWithTTL(k); ok {
						st.check(v, "GetWithTTL")
					}
				default:
					if v, ok := c.GetAndRefresh(k, d); ok {
						st.check(v, "GetAndRefresh")
					}
				}
			}
		}
	}
	for !stop.Load() {
		loop()
	}
}

func runCache[K comparable](mk func(cb cache.EvictedCallbackOf[K, *payload]) cache.CacheOf[K, *payload],
	keyOf func(int) K, sp spec, seed int64, st *stats) *sizeTrace {

	cbA := cache.EvictedCallbackOf[K, *payload](func(_ K, v *payload) { st.callbacks.Add(1); st.check(v, "callback A") })
	cbB := cache.EvictedCallbackOf[K, *payload](func(_ K, v *payload) { st.callbacks.Add(1); st.check(v, "callback B") })
	c := mk(cbA)

	var stop atomic.Bool
	var wg sync.WaitGroup
	for g := 0; g < sp.Goroutines; g++ {
		wg.Add(1)
		rng := rand.New(rand.NewSource(seed*1000003 + int64(g)*7919 + 2))
		go func() {
			defer wg.Done()
			cacheWorker(c, keyOf, st, rng, sp.Goroutines, &stop)
		}()
	}
	// flippers
	wg.Add(2)
	go func() {
		defer wg.Done()
		defer func() {
			if r := recover(); r != nil {
				st.recovered("SetDefaultExpiration flipper", r)
			}
		}()
		ds := []time.Duration{time.Millisecond, 3 * time.Millisecond, cache.NoExpiration, 2 * time.Millisecond, 0}
		for i := 0; !stop.Load(); i++ {
			c.SetDefaultExpiration(ds[i%len(ds)])
			st.ops.Add(1)
			time.Sleep(20 * time.Microsecond)
		}
	}()
	go func() {
		defer wg.Done()
		defer func() {
			if r := recover(); r != nil {
				st.recovered("SetEvictedCallback flipper", r)
			}
		}()
		cbs := []cache.EvictedCallbackOf[K, *payload]{cbA, cbB, nil, cbB, cbA}
		for i := 0; !stop.Load(); i++ {
			c.SetEvictedCallback(cbs[i%len(cbs)])
			st.ops.Add(1)
			time.Sleep(20 * time.Microsecond)
		}
	}()
	tr := &sizeTrace{Hi: 800, Lo: 200}
	wg.Add(1)
	go func() {
		defer wg.Done()
		for !stop.Load() {
			tr.sample(c.Count())
			time.Sleep(200 * time.Microsecond)
		}
	}()
	time.Sleep(sp.dur)
	stop.Store(true)
	wg.Wait()
	// let the janitor run alone over what is left, then look at it quiescently
	c.SetEvictedCallback(cbA)
	time.Sleep(15 * time.Millisecond)
	c.Range(func(_ K, v *payload) bool { st.check(v, "final Cache.Range"); return true })
	runtime.KeepAlive(c)
	return tr
}

// ---------------------------------------------------------------------------
// worker process

type WorkerResult struct {
	spec
	Extra        int            `json:"extra_goroutines"`
	Ops          int64          `json:"ops"`
	Integrity    int64          `json:"integrity_failures"`
	Panics       int64          `json:"panics"`
	Callbacks    int64          `json:"callbacks"`
	Size         *sizeTrace     `json:"size_trace"`
	PanicSamples []string       `json:"panic_samples,omitempty"`
	Sites        map[string]int `json:"integrity_failure_sites,omitempty"`
	RaceReports  int            `json:"race_reports"`
	ExitCode     int            `json:"exit_code"`
	Completed    bool           `json:"completed"`
	StderrTail   string         `json:"stderr_tail,omitempty"`
}

func worker(idx int, seed int64, tier, out string) {
	sp := specs(tier)[idx]
	st := &stats{}
	wseed := seed*131 + int64(idx)
	var tr *sizeTrace
	janitor := 5 * time.Millisecond
	switch sp.kind {
	case "map-any":
		tr = runMap[string](anyMap{cache.NewMap(), st}, strKey, sp, wseed, st)
	case "mapof-int":
		tr = runMap[int](cache.NewMapOf[int, *payload](), intKey, sp, wseed, st)
	case "mapof-string":
		tr = runMap[string](cache.NewMapOf[string, *payload](), strKey, sp, wseed, st)
	case "cache-any":
		tr = runCache[string](func(cb cache.EvictedCallbackOf[string, *payload]) cache.CacheOf[string, *payload] {
			a := anyCache{st: st}
			a.c = cache.New(
				cache.WithDefaultExpiration(2*time.Millisecond),
				cache.WithCleanupInterval(janitor),
				cache.WithEvictedCallback(func(k string, v interface{}) { cb(k, anyCache{st: st}.conv(v, "Cache.callback")) }),
			)
			return a
		}, strKey, sp, wseed, st)
	case "cacheof-int":
		tr = runCache[int](func(cb cache.EvictedCallbackOf[int, *payload]) cache.CacheOf[int, *payload] {
			return cache.NewOf[int, *payload](
				cache.WithDefaultExpirationOf[int, *payload](2*time.Millisecond),
				cache.WithCleanupIntervalOf[int, *payload](janitor),
				cache.WithEvictedCallbackOf[int, *payload](cb),
			)
		}, intKey, sp, wseed, st)
	case "cacheof-string":
		tr = runCache[string](func(cb cache.EvictedCallbackOf[string, *payload]) cache.CacheOf[string, *payload] {
			return cache.NewOfDefault[string, *payload](2*time.Millisecond, janitor, cb)
		}, strKey, sp, wseed, st)
	default:
		fmt.Fprintln(os.Stderr, "unknown workload kind", sp.kind)
		os.Exit(2)
	}
	res := WorkerResult{spec: sp, Ops: st.ops.Load(), Integrity: st.integrity.Load(), Panics: st.panics.Load(),
		Callbacks: st.callbacks.Load(), Size: tr, PanicSamples: st.panicSamples, Sites: st.integritySites, Completed: true}
	if strings.HasPrefix(sp.kind, "cache") {
		res.Extra = 3
	} else {
		res.Extra = 1
	}
	b, _ := json.Marshal(&res)
	if err := os.WriteFile(out, b, 0o644); err != nil {
		fmt.Fprintln(os.Stderr, "write:", err)
		os.Exit(3)
	}
}

// ---------------------------------------------------------------------------
// race log parsing

type report struct {
	text string
	key  string
}

// stripGenerics removes [...] instantiation lists from a function name, so
// that the same source location in different instantiations dedupes.
func stripGenerics(fn string) string {
	var sb strings.Builder
	depth := 0
	for _, r := range fn {
		switch {
		case r == '[':
			depth++
		case r == ']':
			if depth > 0 {
				depth--
			}
		case depth == 0:
			sb.WriteRune(r)
		}
	}
	return sb.String()
}

func isAccessHeader(l string) bool {
	for _, p := range []string{"Read at", "Write at", "Previous read at", "Previous write at",
		"Atomic read at", "Atomic write at", "Previous atomic read at", "Previous atomic write at"} {
		if strings.HasPrefix(l, p) {
			return true
		}
	}
	return false
}

// parseReports splits a race detector log into reports.  The dedupe key of a
// report is the unordered pair of the top frames (function@file:line, skipping
// sync/atomic and runtime frames, generic instantiations stripped) of the two
// conflicting accesses.
func parseReports(log string) []report {
	var out []report
	for _, blk := range strings.Split(log, "==================") {
		if !strings.Contains(blk, "WARNING: DATA RACE") {
			continue
		}
		blk = strings.Trim(blk, "\n")
		lines := strings.Split(blk, "\n")
		var key []string
		for i := 0; i < len(lines); i++ {
			if !isAccessHeader(lines[i]) {
				continue
			}
			top := "?"
			for j := i + 1; j < len(lines); j++ {
				f := lines[j]
				if f == "" {
					break
				}
				if !strings.HasPrefix(f, "  ") || strings.HasPrefix(f, "   ") {
					continue // a file:line row
				}
				fn := strings.TrimSpace(f)
				if p := strings.LastIndex(fn, "("); p > 0 {
					fn = fn[:p]
				}
				if strings.HasPrefix(fn, "sync/atomic.") || strings.HasPrefix(fn, "runtime.") || strings.HasPrefix(fn, "internal/race.") {
					continue
				}
				loc := ""
				if j+1 < len(lines) {
					loc = strings.TrimSpace(lines[j+1])
					if sp := strings.Index(loc, " "); sp > 0 {
						loc = loc[:sp]
					}
					loc = filepath.Base(loc)
				}
				top = stripGenerics(fn) + "@" + loc
				break
			}
			key = append(key, top)
		}
		sort.Strings(key)
		out = append(out, report{text: blk, key: strings.Join(key, " <-> ")})
	}
	return out
}

func head(s string, n int) string {
	lines := strings.Split(s, "\n")
	if len(lines) > n {
		lines = lines[:n]
	}
	return strings.Join(lines, "\n")
}

func tail(s string, n int) string {
	lines := strings.Split(strings.TrimRight(s, "\n"), "\n")
	if len(lines) > n {
		lines = lines[len(lines)-n:]
	}
	return strings.Join(lines, "\n")
}

// ---------------------------------------------------------------------------
// orchestrator

type Output struct {
	Seed              int64           `json:"seed"`
	Tier              string          `json:"tier"`
	RaceEnabled       bool            `json:"race_enabled"`
	GoVersion         string          `json:"go_version"`
	GOMAXPROCS        int             `json:"gomaxprocs"`
	ElapsedMs         int64           `json:"elapsed_ms"`
	Workloads         []*WorkerResult `json:"workloads"`
	TotalOps          int64           `json:"total_ops"`
	IntegrityFailures int64           `json:"integrity_failures"`
	Panics            int64           `json:"panics"`
	Incomplete        int             `json:"workloads_not_completed"`
	RaceReports       int             `json:"race_reports"`
	DistinctReports   int             `json:"race_reports_distinct"`
	ReportCounts      map[string]int  `json:"race_report_counts,omitempty"`
	RaceReportHeads   []string        `json:"race_report_heads"`
}

func orchestrate(seed int64, tier, outPath string) int {
	start := time.Now()
	self, err := os.Executable()
	if err != nil {
		fmt.Fprintln(os.Stderr, "os.Executable:", err)
		return 3
	}
	tmp, err := os.MkdirTemp("", "nat-race-logs.")
	if err != nil {
		fmt.Fprintln(os.Stderr, "mkdtemp:", err)
		return 3
	}
	defer os.RemoveAll(tmp)

	out := Output{Seed: seed, Tier: tier, RaceEnabled: raceEnabled, GoVersion: runtime.Version(),
		GOMAXPROCS: runtime.GOMAXPROCS(0), RaceReportHeads: []string{}}
	seen := map[string]int{}
	var order []string
	first := map[string]string{}

	for idx, sp := range specs(tier) {
		resFile := filepath.Join(tmp, fmt.Sprintf("res-%d.json", idx))
		logPrefix := filepath.Join(tmp, fmt.Sprintf("race-%d", idx))
		cmd := exec.Command(self, "-worker", strconv.Itoa(idx), strconv.FormatInt(seed, 10), tier, resFile)
		cmd.Env = append(os.Environ(), "GORACE=halt_on_error=0 exitcode=0 atexit_sleep_ms=20 log_path="+logPrefix)
		var stderr bytes.Buffer
		cmd.Stderr = &stderr
		cmd.Stdout = &stderr
		runErr := cmd.Run()
		wr := &WorkerResult{spec: sp}
		if b, err := os.ReadFile(resFile); err == nil {
			if err := json.Unmarshal(b, wr); err != nil {
				wr.Completed = false
			}
			wr.spec = sp
		}
		if runErr != nil {
			wr.ExitCode = -1
			if ee, ok := runErr.(*exec.ExitError); ok {
				wr.ExitCode = ee.ExitCode()
			}
		}
		if !wr.Completed || wr.ExitCode != 0 {
			wr.Completed = false
			wr.StderrTail = tail(stderr.String(), 40)
			out.Incomplete++
		}
		// race logs: <prefix>.<pid>
		logs, _ := filepath.Glob(logPrefix + ".*")
		sort.Strings(logs)
		var all string
		for _, lf := range logs {
			if b, err := os.ReadFile(lf); err == nil {
				all += string(b)
			}
		}
		// without log_path support (or non-race build) reports would be on stderr
		all += stderr.String()
		for _, r := range parseReports(all) {
			wr.RaceReports++
			if _, ok := seen[r.key]; !ok {
				order = append(order, r.key)
				first[r.key] = fmt.Sprintf("[workload %d: %s %s G=%d]\n%s", idx, sp.Name, sp.Container, sp.Goroutines, head(r.text, 30))
			}
			seen[r.key]++
		}
		out.RaceReports += wr.RaceReports
		out.TotalOps += wr.Ops
		out.IntegrityFailures += wr.Integrity
		out.Panics += wr.Panics
		out.Workloads = append(out.Workloads, wr)
	}
	out.DistinctReports = len(order)
	if len(seen) > 0 {
		out.ReportCounts = seen
	}
	for i, k := range order {
		if i >= 5 {
			break
		}
		out.RaceReportHeads = append(out.RaceReportHeads, first[k])
	}
	out.ElapsedMs = time.Since(start).Milliseconds()
	b, err := json.MarshalIndent(&out, "", " ")
	if err != nil {
		fmt.Fprintln(os.Stderr, "marshal:", err)
		return 3
	}
	if err := os.WriteFile(outPath, append(b, '\n'), 0o644); err != nil {
		fmt.Fprintln(os.Stderr, "write:", err)
		return 3
	}
	fmt.Fprintf(os.Stderr, "race: race_enabled=%v workloads=%d ops=%d integrity_failures=%d panics=%d not_completed=%d race_reports=%d (distinct %d)\n",
		out.RaceEnabled, len(out.Workloads), out.TotalOps, out.IntegrityFailures, out.Panics, out.Incomplete, out.RaceReports, out.DistinctReports)
	return 0
}

func main() {
	args := os.Args[1:]
	if len(args) == 5 && args[0] == "-worker" {
		idx, err1 := strconv.Atoi(args[1])
		seed, err2 := strconv.ParseInt(args[2], 10, 64)
		if err1 != nil || err2 != nil || idx < 0 || idx >= len(specs(args[3])) {
			fmt.Fprintln(os.Stderr, "bad worker arguments")
			os.Exit(2)
		}
		worker(idx, seed, args[3], args[4])
		return
	}
	if len(args) != 3 {
		fmt.Fprintln(os.Stderr, "usage: race <seed> <quick|thorough> <out.json>")
		os.Exit(2)
	}
	seed, err := strconv.ParseInt(args[0], 10, 64)
	if err != nil {
		fmt.Fprintln(os.Stderr, "bad seed:", err)
		os.Exit(2)
	}
	if args[1] != "quick" && args[1] != "thorough" {
		fmt.Fprintln(os.Stderr, "tier must be quick or thorough")
		os.Exit(2)
	}
	os.Exit(orchestrate(seed, args[1], args[2]))
}
