#!/bin/sh
# usage: run.sh <path-to-repo-copy> <seed> <quick|thorough> <out.json>
# Builds the harness with the race detector against the given copy of
# github.com/fufuok/cache, runs it and writes ONE JSON document to <out.json>.
# Exit status: 0 if the run completed (whatever it found); non-zero only on
# harness/build failure.
set -u
if [ $# -ne 4 ]; then
	echo "usage: $0 <path-to-repo-copy> <seed> <quick|thorough> <out.json>" >&2
	exit 2
fi
HERE=$(cd "$(dirname "$0")" && pwd)
REPO=$(cd "$1" && pwd) || { echo "no such repo copy: $1" >&2; exit 2; }
SEED=$2
TIER=$3
case "$4" in /*) OUT=$4 ;; *) OUT=$(pwd)/$4 ;; esac
case "$TIER" in quick|thorough) ;; *) echo "tier must be quick or thorough" >&2; exit 2 ;; esac

export GOFLAGS=-mod=mod GOPROXY=off GOSUMDB=off GOTOOLCHAIN=local
export CGO_ENABLED=1
TMP=$(mktemp -d /tmp/nat-race.XXXXXX) || exit 3
trap 'rm -rf "$TMP"' EXIT INT TERM

cp "$HERE"/*.go "$HERE/go.mod" "$TMP/" || exit 3
sed -i "s#=> REPO_COPY#=> $REPO#" "$TMP/go.mod" || exit 3
if ! ( cd "$TMP" && go build -race -o harness . ) 2>"$TMP/build.err"; then
	cat "$TMP/build.err" >&2
	echo "race: 'go build -race' FAILED: the race runtime (cgo + runtime/race syso) is not usable here." >&2
	echo "race: falling back to a build WITHOUT the race detector; the JSON will say race_enabled=false." >&2
	( cd "$TMP" && go build -o harness . ) || { echo "race: build failed" >&2; exit 4; }
fi
rm -f "$OUT"
# the harness re-executes itself per workload with
# GORACE="halt_on_error=0 exitcode=0 atexit_sleep_ms=20 log_path=<tmp>/race-<n>" and collects the logs
( cd "$TMP" && TMPDIR="$TMP" GORACE="atexit_sleep_ms=0" ./harness "$SEED" "$TIER" "$OUT" )
RC=$?
if [ $RC -ne 0 ] || [ ! -s "$OUT" ]; then
	echo "race: harness failed (rc=$RC)" >&2
	exit 5
fi
exit 0
