module native/race

go 1.23

require github.com/fufuok/cache v0.0.0

replace github.com/fufuok/cache => REPO_COPY
