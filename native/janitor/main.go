// Native harness "janitor": background cleanup, evicted callback, and janitor
// goroutine lifetime of github.com/fufuok/cache caches, in real time with the
// real garbage collector.
//
// usage: janitor <seed> <quick|thorough> <out.json>
package main

import (
	"encoding/json"
	"fmt"
	"math/rand"
	"os"
	"runtime"
	"sort"
	"strconv"
	"strings"
	"sync"
	"sync/atomic"
	"time"

	"github.com/fufuok/cache"
)

const (
	ttl            = 10 * time.Millisecond
	posInterval    = 20 * time.Millisecond
	pollEvery      = 5 * time.Millisecond
	budgetTicks    = 50                     // budget, in cleanup intervals
	hardLimitTicks = 400                    // keep watching (for the report only) up to this many intervals
	quietWindow    = 600 * time.Millisecond // observation window when interval <= 0
)

// ---------------------------------------------------------------------------
// counting library background goroutines

// libGoroutines returns the number of goroutines (other than the caller and
// the runtime's finalizer goroutine) that have a frame of, or were created by,
// package github.com/fufuok/cache.  While no harness goroutine is inside a
// library call these are exactly the janitor goroutines, i.e. frames like
//
//	github.com/fufuok/cache.newXsyncMap.func1()
//	github.com/fufuok/cache.newXsyncMapOf[...].func1()
//	created by github.com/fufuok/cache.newXsyncMap in goroutine 1
func libGoroutines() (n int, sample string) {
	buf := make([]byte, 1<<20)
	for {
		m := runtime.Stack(buf, true)
		if m < len(buf) {
			buf = buf[:m]
			break
		}
		buf = make([]byte, 2*len(buf))
	}
	blocks := strings.Split(string(buf), "\n\n")
	for i, b := range blocks {
		if i == 0 {
			continue // the calling goroutine comes first
		}
		if !strings.Contains(b, "github.com/fufuok/cache.") {
			continue
		}
		if strings.Contains(b, "runtime.runfinq") || strings.Contains(b, "runtime.runFinalizers") {
			continue // finalizer goroutine executing the cache's finalizer
		}
		n++
		if sample == "" {
			for _, l := range strings.Split(b, "\n") {
				if strings.Contains(l, "github.com/fufuok/cache.newXsync") && !strings.HasPrefix(l, "created by") {
					sample = strings.TrimSpace(l)
					break
				}
			}
		}
	}
	return
}

// ---------------------------------------------------------------------------
// ledger

type kv struct {
	k string
	v int
}

type ledger struct {
	mu      sync.Mutex
	entries []kv
	bad     int // callback invocations with a value of unexpected type
}

func (l *ledger) add(k string, v int) {
	l.mu.Lock()
	l.entries = append(l.entries, kv{k, v})
	l.mu.Unlock()
}

func (l *ledger) length() int {
	l.mu.Lock()
	defer l.mu.Unlock()
	return len(l.entries) + l.bad
}

func (l *ledger) snapshot() ([]kv, int) {
	l.mu.Lock()
	defer l.mu.Unlock()
	return append([]kv(nil), l.entries...), l.bad
}

// ---------------------------------------------------------------------------
// reference ticker: "intervals" are counted by a ticker of the same period
// living in this very process, so that a starved process does not make the
// harness report a failure: if our ticker could not fire, neither could the
// janitor's.

type refClock struct {
	ticks atomic.Int64
	stop  chan struct{}
}

func newRefClock(d time.Duration) *refClock {
	rc := &refClock{stop: make(chan struct{})}
	go func() {
		t := time.NewTicker(d)
		defer t.Stop()
		for {
			select {
			case <-t.C:
				rc.ticks.Add(1)
			case <-rc.stop:
				return
			}
		}
	}()
	return rc
}

// ---------------------------------------------------------------------------
// cases

type CaseResult struct {
	Ctor                   string `json:"ctor"`
	CbSwapped              bool   `json:"cb_swapped"`
	KeyType                string `json:"key_type"`
	IntervalNs             int64  `json:"interval_ns"`
	NExpiring              int    `json:"n_expiring"`
	NForever               int    `json:"n_forever"`
	CleanedWithinIntervals *int   `json:"cleaned_within_intervals"`
	CleanedAfterMs         *int64 `json:"cleaned_after_ms"`
	CountSeriesOK          bool   `json:"count_series_ok"`
	LedgerOK               bool   `json:"ledger_ok"`
	LedgerLen              int    `json:"ledger_len"`
	LedgerDups             int    `json:"ledger_dups"`
	LedgerMissing          int    `json:"ledger_missing"`
	LedgerExtra            int    `json:"ledger_extra"`
	JanitorStarted         bool   `json:"janitor_started"`
	ExpectedStarted        bool   `json:"expected_started"`
	OK                     bool   `json:"ok"`
	Detail                 string `json:"detail"`
}

// handle hides the four constructor variants behind closures.
type handle struct {
	setExpiring   func(i, v int)
	setForever    func(i, v int)
	keyName       func(i int) string
	count         func() int
	deleteExpired func()
	keep          any
}

func expKey(i int) int     { return i }
func foreverKey(i int) int { return 1000000 + i }

// swap: the cache is constructed with a decoy callback (every call of it is
// counted as a bad ledger entry) and the real one is installed afterwards with
// SetEvictedCallback: removals must report to the callback in force at that time.
func construct(ctor string, interval time.Duration, led *ledger, swap bool) *handle {
	decoyStr := func(k string, v interface{}) { led.mu.Lock(); led.bad++; led.mu.Unlock() }
	cbStr := func(k string, v interface{}) {
		if n, ok := v.(int); ok {
			led.add(k, n)
		} else {
			led.mu.Lock()
			led.bad++
			led.mu.Unlock()
		}
	}
	skey := func(i int) string { return "k" + strconv.Itoa(i) }
	h := &handle{}
	switch ctor {
	case "New":
		// expiring entries use the cache-wide default expiration
		first := cache.EvictedCallback(cbStr)
		if swap {
			first = decoyStr
		}
		c := cache.New(
			cache.WithDefaultExpiration(ttl),
			cache.WithCleanupInterval(interval),
			cache.WithEvictedCallback(first),
			cache.WithMinCapacity(64),
		)
		if swap {
			c.SetEvictedCallback(cbStr)
		}
		h.setExpiring = func(i, v int) { c.SetDefault(skey(i), v) }
		h.setForever = func(i, v int) { c.SetForever(skey(i), v) }
		h.keyName = skey
		h.count = c.Count
		h.deleteExpired = c.DeleteExpired
		h.keep = c
	case "NewDefault":
		var c cache.Cache
		if swap {
			c = cache.NewDefault(cache.NoExpiration, interval) // no callback at construction
			c.SetEvictedCallback(cbStr)
		} else {
			c = cache.NewDefault(cache.NoExpiration, interval, cbStr)
		}
		h.setExpiring = func(i, v int) { c.Set(skey(i), v, ttl) }
		h.setForever = func(i, v int) { c.SetDefault(skey(i), v) } // default is NoExpiration
		h.keyName = skey
		h.count = c.Count
		h.deleteExpired = c.DeleteExpired
		h.keep = c
	case "NewOf":
		realOf := func(k string, v int) { led.add(k, v) }
		firstOf := cache.EvictedCallbackOf[string, int](realOf)
		if swap {
			firstOf = func(k string, v int) { led.mu.Lock(); led.bad++; led.mu.Unlock() }
		}
		c := cache.NewOf[string, int](
			cache.WithDefaultExpirationOf[string, int](ttl),
			cache.WithCleanupIntervalOf[string, int](interval),
			cache.WithEvictedCallbackOf[string, int](firstOf),
			cache.WithMinCapacityOf[string, int](64),
		)
		if swap {
			c.SetEvictedCallback(realOf)
		}
		h.setExpiring = func(i, v int) { c.Set(skey(i), v, cache.DefaultExpiration) }
		h.setForever = func(i, v int) { c.Set(skey(i), v, cache.NoExpiration) }
		h.keyName = skey
		h.count = c.Count
		h.deleteExpired = c.DeleteExpired
		h.keep = c
	case "NewOfDefault":
		realII := func(k int, v int) { led.add(strconv.Itoa(k), v) }
		var c cache.CacheOf[int, int]
		if swap {
			c = cache.NewOfDefault[int, int](ttl, interval, func(k int, v int) { led.mu.Lock(); led.bad++; led.mu.Unlock() })
			c.SetEvictedCallback(realII)
		} else {
			c = cache.NewOfDefault[int, int](ttl, interval, realII)
		}
		h.setExpiring = func(i, v int) { c.SetDefault(i, v) }
		h.setForever = func(i, v int) { c.SetForever(i, v) }
		h.keyName = func(i int) string { return strconv.Itoa(i) }
		h.count = c.Count
		h.deleteExpired = c.DeleteExpired
		h.keep = c
	default:
		panic("unknown ctor " + ctor)
	}
	return h
}

type caseRun struct {
	res *CaseResult
	h   *handle
	led *ledger
	rng *rand.Rand
}

func (cr *caseRun) checkLedger(expect map[kv]bool) {
	r := cr.res
	entries, bad := cr.led.snapshot()
	seen := map[kv]int{}
	for _, e := range entries {
		seen[e]++
	}
	r.LedgerLen = len(entries) + bad
	r.LedgerDups, r.LedgerMissing, r.LedgerExtra = 0, 0, bad
	for e, n := range seen {
		if !expect[e] {
			r.LedgerExtra += n
			continue
		}
		if n > 1 {
			r.LedgerDups += n - 1
		}
	}
	for e := range expect {
		if seen[e] == 0 {
			r.LedgerMissing++
		}
	}
	r.LedgerOK = r.LedgerDups == 0 && r.LedgerMissing == 0 && r.LedgerExtra == 0
}

func (cr *caseRun) run(interval time.Duration, rc *refClock) {
	r := cr.res
	var details []string
	defer func() {
		if p := recover(); p != nil {
			details = append(details, fmt.Sprintf("PANIC: %v", p))
			r.OK = false
		}
		r.Detail = strings.Join(details, "; ")
	}()
	h := cr.h
	N, M := r.NExpiring, r.NForever
	expect := map[kv]bool{}

	// populate in a seeded random interleaving of expiring and forever entries
	order := cr.rng.Perm(N + M)
	for _, j := range order {
		v := cr.rng.Intn(1 << 30)
		if j < N {
			h.setExpiring(expKey(j), v)
			expect[kv{h.keyName(expKey(j)), v}] = true
		} else {
			h.setForever(foreverKey(j-N), v)
		}
	}
	start := time.Now()
	tick0 := rc.ticks.Load()

	if interval > 0 {
		// --- the janitor has to do it, no key is touched
		seriesOK := true
		prev := N + M
		cleanedTick := int64(-1)
		var samples []int
		for {
			c := h.count()
			if len(samples) == 0 || samples[len(samples)-1] != c {
				samples = append(samples, c)
			}
			if c > prev || c > N+M || c < M {
				seriesOK = false
				details = append(details, fmt.Sprintf("Count()=%d after %d (N+M=%d, M=%d)", c, prev, N+M, M))
			}
			prev = c
			ticks := rc.ticks.Load() - tick0
			if c <= M {
				cleanedTick = ticks + 1 // within this many intervals (rounded up)
				ms := time.Since(start).Milliseconds()
				r.CleanedAfterMs = &ms
				break
			}
			if ticks >= hardLimitTicks {
				break
			}
			time.Sleep(pollEvery)
		}
		if cleanedTick >= 0 {
			n := int(cleanedTick)
			r.CleanedWithinIntervals = &n
			if n > budgetTicks {
				seriesOK = false
				details = append(details, fmt.Sprintf("cleaned only after %d intervals (budget %d)", n, budgetTicks))
			}
		} else {
			seriesOK = false
			details = append(details, fmt.Sprintf("not cleaned after %d intervals (%v): Count()=%d, want %d",
				hardLimitTicks, time.Since(start).Round(time.Millisecond), prev, M))
		}
		// callbacks run after the deletions of one DeleteExpired pass: give them time
		t1 := rc.ticks.Load()
		for cr.led.length() < N && rc.ticks.Load()-t1 < budgetTicks {
			time.Sleep(pollEvery)
		}
		// and make sure that nothing else arrives (duplicates, forever entries)
		t2 := rc.ticks.Load()
		for rc.ticks.Load()-t2 < 3 {
			time.Sleep(pollEvery)
		}
		if c := h.count(); c != M {
			seriesOK = false
			details = append(details, fmt.Sprintf("Count()=%d at the end, want %d", c, M))
		}
		r.CountSeriesOK = seriesOK
		cr.checkLedger(expect)
		details = append(details, fmt.Sprintf("count series %v", samples))
	} else {
		// --- nothing may happen on its own
		seriesOK := true
		nSamples := 0
		for time.Since(start) < quietWindow {
			c := h.count()
			nSamples++
			if c != N+M {
				seriesOK = false
				details = append(details, fmt.Sprintf("Count()=%d at %v without any call, want %d",
					c, time.Since(start).Round(time.Millisecond), N+M))
				break
			}
			if l := cr.led.length(); l != 0 {
				seriesOK = false
				details = append(details, fmt.Sprintf("callback fired %d times at %v without any call",
					l, time.Since(start).Round(time.Millisecond)))
				break
			}
			time.Sleep(pollEvery)
		}
		details = append(details, fmt.Sprintf("%d samples over %v all N+M", nSamples, time.Since(start).Round(time.Millisecond)))
		h.deleteExpired()
		if c := h.count(); c != M {
			seriesOK = false
			details = append(details, fmt.Sprintf("Count()=%d after DeleteExpired, want %d", c, M))
		}
		r.CountSeriesOK = seriesOK
		cr.checkLedger(expect) // DeleteExpired calls the callbacks synchronously
	}
	if !r.LedgerOK {
		details = append(details, fmt.Sprintf("ledger: len=%d want=%d dups=%d missing=%d extra=%d",
			r.LedgerLen, N, r.LedgerDups, r.LedgerMissing, r.LedgerExtra))
	}
	r.OK = r.CountSeriesOK && r.LedgerOK && r.JanitorStarted == r.ExpectedStarted
	runtime.KeepAlive(h)
}

// ---------------------------------------------------------------------------
// leak part

type LeakResult struct {
	Created            int    `json:"created"`
	CaseJanitorsLeft   int    `json:"case_janitors_left"` // janitors of the (dropped) caches of the cases part still alive at baseline time
	JanitorsBefore     int    `json:"janitors_before"`
	JanitorsPeak       int    `json:"janitors_peak"`
	JanitorsAfter      int    `json:"janitors_after"`
	BigValuesFinalized int    `json:"big_values_finalized"`
	GCRounds           int    `json:"gc_rounds"`
	NoJanitorNonPos    bool   `json:"no_janitor_for_nonpositive_interval"`
	JanitorFrame       string `json:"janitor_frame_sample"`
	OK                 bool   `json:"ok"`
	Detail             string `json:"detail"`
}

type big struct {
	buf [1 << 20]byte
}

var finalized atomic.Int64

func newBig(i int) *big {
	b := &big{}
	b.buf[0], b.buf[len(b.buf)-1] = byte(i), byte(i)
	runtime.SetFinalizer(b, func(*big) { finalized.Add(1) })
	return b
}

// createAndDrop creates n caches with a positive cleanup interval, each
// holding a 1 MB value, and returns the janitor count while they are alive.
// It runs on its own goroutine so that no stale stack slot keeps a cache alive.
func createAndDrop(n int, rng *rand.Rand) (peak int, frame string) {
	done := make(chan struct{})
	variants := make([]int, n)
	for i := range variants {
		variants[i] = rng.Intn(4)
	}
	go func() {
		defer close(done)
		keep := make([]any, 0, n)
		for i := 0; i < n; i++ {
			iv := time.Duration(5+i%20) * time.Millisecond
			switch variants[i] {
			case 0:
				c := cache.New(cache.WithCleanupInterval(iv), cache.WithEvictedCallback(func(string, interface{}) {}))
				c.Set("big", newBig(i), cache.NoExpiration)
				c.Set("gone", i, time.Millisecond)
				keep = append(keep, c)
			case 1:
				c := cache.NewDefault(time.Hour, iv)
				c.SetDefault("big", newBig(i))
				keep = append(keep, c)
			case 2:
				c := cache.NewOf[string, *big](cache.WithCleanupIntervalOf[string, *big](iv))
				c.SetForever("big", newBig(i))
				keep = append(keep, c)
			default:
				c := cache.NewOfDefault[int, *big](cache.NoExpiration, iv, func(int, *big) {})
				c.Set(i, newBig(i), time.Hour)
				c.Set(-i-1, nil, time.Millisecond)
				keep = append(keep, c)
			}
		}
		time.Sleep(30 * time.Millisecond) // let the janitors tick at least once
		peak, frame = libGoroutines()
		runtime.KeepAlive(keep)
		for i := range keep {
			keep[i] = nil
		}
	}()
	<-done
	return
}

func settle(wantJanitors int, wantFinalized int64) (rounds, janitors int) {
	for rounds = 1; rounds <= 100; rounds++ {
		runtime.GC()
		time.Sleep(20 * time.Millisecond)
		janitors, _ = libGoroutines()
		if janitors <= wantJanitors && finalized.Load() >= wantFinalized {
			return
		}
	}
	return 100, janitors
}

func leakPart(rng *rand.Rand) *LeakResult {
	const n = 50
	lr := &LeakResult{Created: n}
	// baseline: the caches of the cases part have been dropped by now
	_, left := settle(0, 0)
	lr.CaseJanitorsLeft = left
	lr.JanitorsBefore = left

	// interval <= 0: no janitor at all
	lr.NoJanitorNonPos = true
	func() {
		var keep []any
		for i := 0; i < 8; i++ {
			iv := time.Duration(-i%2) * time.Second
			keep = append(keep,
				cache.New(cache.WithCleanupInterval(iv)),
				cache.NewDefault(time.Minute, iv),
				cache.NewOf[string, int](cache.WithCleanupIntervalOf[string, int](iv)),
				cache.NewOfDefault[int, int](time.Minute, iv))
		}
		time.Sleep(5 * time.Millisecond)
		if j, _ := libGoroutines(); j != lr.JanitorsBefore {
			lr.NoJanitorNonPos = false
			lr.Detail += fmt.Sprintf("%d library goroutines after creating caches with interval<=0 (baseline %d); ", j, lr.JanitorsBefore)
		}
		runtime.KeepAlive(keep)
	}()

	finalized.Store(0)
	lr.JanitorsPeak, lr.JanitorFrame = createAndDrop(n, rng)
	rounds, after := settle(lr.JanitorsBefore, n)
	lr.GCRounds = rounds
	lr.JanitorsAfter = after
	lr.BigValuesFinalized = int(finalized.Load())
	if lr.JanitorsPeak != lr.JanitorsBefore+n {
		lr.Detail += fmt.Sprintf("expected %d janitors while the caches were alive, saw %d; ", lr.JanitorsBefore+n, lr.JanitorsPeak)
	}
	lr.OK = lr.JanitorsAfter <= lr.JanitorsBefore && lr.BigValuesFinalized == n &&
		lr.JanitorsPeak == lr.JanitorsBefore+n && lr.CaseJanitorsLeft == 0 && lr.NoJanitorNonPos
	if lr.JanitorsAfter > lr.JanitorsBefore {
		lr.Detail += fmt.Sprintf("%d janitor goroutines still alive after %d GC rounds; ", lr.JanitorsAfter-lr.JanitorsBefore, rounds)
	}
	if lr.BigValuesFinalized != n {
		lr.Detail += fmt.Sprintf("only %d of %d big values collected after %d GC rounds; ", lr.BigValuesFinalized, n, rounds)
	}
	if lr.CaseJanitorsLeft != 0 {
		lr.Detail += fmt.Sprintf("%d janitors of the dropped case caches never stopped; ", lr.CaseJanitorsLeft)
	}
	if lr.Detail == "" {
		lr.Detail = fmt.Sprintf("all janitors stopped and all big values were collected after %d GC rounds", rounds)
	}
	return lr
}

// ---------------------------------------------------------------------------

type Output struct {
	Seed      int64         `json:"seed"`
	Tier      string        `json:"tier"`
	GoVersion string        `json:"go_version"`
	ElapsedMs int64         `json:"elapsed_ms"`
	AllOK     bool          `json:"all_ok"`
	Cases     []*CaseResult `json:"cases"`
	Leak      *LeakResult   `json:"leak"`
}

// casesPart constructs every cache sequentially (so that the janitor count
// can be attributed) and then observes all of them concurrently.
func casesPart(seed int64, tier string) []*CaseResult {
	rng := rand.New(rand.NewSource(seed))
	reps, nLo, nSpan, mLo, mSpan := 1, 100, 200, 20, 60
	if tier == "thorough" {
		reps, nLo, nSpan, mLo, mSpan = 3, 500, 4000, 100, 900
	}
	rc := newRefClock(posInterval)
	defer close(rc.stop)

	var runs []*caseRun
	var intervals []time.Duration
	for rep := 0; rep < reps; rep++ {
		for _, ctor := range []string{"New", "NewDefault", "NewOf", "NewOfDefault"} {
			for _, iv := range []time.Duration{-time.Second, 0, posInterval} {
				res := &CaseResult{
					Ctor: ctor, IntervalNs: int64(iv),
					NExpiring: nLo + rng.Intn(nSpan), NForever: mLo + rng.Intn(mSpan),
					ExpectedStarted: iv > 0, KeyType: "string",
				}
				if ctor == "NewOfDefault" {
					res.KeyType = "int"
				}
				led := &ledger{}
				before, _ := libGoroutines()
				swap := (len(runs)+rep)%2 == 1
				res.CbSwapped = swap
				h := construct(ctor, iv, led, swap)
				after, _ := libGoroutines()
				res.JanitorStarted = after > before
				if after-before > 1 || after < before {
					res.Detail = fmt.Sprintf("library goroutines %d -> %d at construction", before, after)
				}
				runs = append(runs, &caseRun{res: res, h: h, led: led, rng: rand.New(rand.NewSource(rng.Int63()))})
				intervals = append(intervals, iv)
			}
		}
	}
	var wg sync.WaitGroup
	for i, cr := range runs {
		wg.Add(1)
		go func(cr *caseRun, iv time.Duration) {
			defer wg.Done()
			pre := cr.res.Detail
			cr.run(iv, rc)
			if pre != "" {
				cr.res.Detail = pre + "; " + cr.res.Detail
			}
		}(cr, intervals[i])
	}
	wg.Wait()
	out := make([]*CaseResult, len(runs))
	for i, cr := range runs {
		out[i] = cr.res
		cr.h, cr.led = nil, nil // drop the caches
	}
	return out
}

func main() {
	if len(os.Args) != 4 {
		fmt.Fprintln(os.Stderr, "usage: janitor <seed> <quick|thorough> <out.json>")
		os.Exit(2)
	}
	seed, err := strconv.ParseInt(os.Args[1], 10, 64)
	if err != nil {
		fmt.Fprintln(os.Stderr, "bad seed:", err)
		os.Exit(2)
	}
	tier := os.Args[2]
	if tier != "quick" && tier != "thorough" {
		fmt.Fprintln(os.Stderr, "tier must be quick or thorough")
		os.Exit(2)
	}
	start := time.Now()

	// run the cases on a separate goroutine: its stack (and with it every
	// stale reference to a cache) is gone when the leak part starts
	var cases []*CaseResult
	done := make(chan struct{})
	go func() { defer close(done); cases = casesPart(seed, tier) }()
	<-done

	leak := leakPart(rand.New(rand.NewSource(seed ^ 0x5eed)))

	out := Output{Seed: seed, Tier: tier, GoVersion: runtime.Version(), Cases: cases, Leak: leak, AllOK: leak.OK}
	var bad []string
	for _, c := range cases {
		if !c.OK {
			out.AllOK = false
			bad = append(bad, fmt.Sprintf("%s/%dns", c.Ctor, c.IntervalNs))
		}
	}
	sort.Strings(bad)
	out.ElapsedMs = time.Since(start).Milliseconds()
	b, err := json.MarshalIndent(&out, "", " ")
	if err != nil {
		fmt.Fprintln(os.Stderr, "marshal:", err)
		os.Exit(3)
	}
	if err := os.WriteFile(os.Args[3], append(b, '\n'), 0o644); err != nil {
		fmt.Fprintln(os.Stderr, "write:", err)
		os.Exit(3)
	}
	fmt.Fprintf(os.Stderr, "janitor: %d cases, failing: %v, leak ok: %v (%s)\n", len(cases), bad, leak.OK, leak.Detail)
}
