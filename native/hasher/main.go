// Native harness "hasher": key identity of MapOf / CacheOf versus Go's builtin map.
//
// For every catalogued comparable key type K a seeded random operation sequence
// is executed against cache.NewMapOf[K,int]() (and, shorter, against
// cache.NewOfDefault[K,int](NoExpiration, 0)) and against a builtin map[K]int;
// every observable result is compared.  Every library call is wrapped in
// recover(), so that a panicking key is recorded instead of killing the run.
//
// usage: hasher <seed> <quick|thorough> <out.json>
package main

import (
	"encoding/json"
	"fmt"
	"hash/fnv"
	"math"
	"math/rand"
	"os"
	"runtime"
	"runtime/debug"
	"strconv"
	"strings"
	"sync"
	"time"
	"unsafe"

	"github.com/fufuok/cache"
)

// ---------------------------------------------------------------------------
// result records

const maxDetail = 5

type Mismatch struct {
	Op          string `json:"op"`
	Key         string `json:"key"`
	Got         string `json:"got"`
	Want        string `json:"want"`
	AfterMutate bool   `json:"after_mutate"`
}

type PanicRec struct {
	Op    string `json:"op"`
	Key   string `json:"key"`
	Panic string `json:"panic"`
}

type TypeResult struct {
	mu sync.Mutex

	Type        string     `json:"type"`
	Container   string     `json:"container"`
	Ops         int        `json:"ops"`
	Keys        int        `json:"keys"`
	Mutations   int        `json:"mutations"`
	Mismatches  []Mismatch `json:"mismatches"`
	NMismatches int        `json:"n_mismatches"`
	// how many of n_mismatches were found by the re-check right after mutate()
	NAfterMutate int        `json:"n_mismatches_after_mutate"`
	Panics       []PanicRec `json:"panics"`
	NPanics      int        `json:"n_panics"`
	// Histograms over ALL mismatches / panics (not only the first 5):
	// dynamic type of the offending key -> count.
	MismatchKeyTypes map[string]int `json:"mismatch_key_types,omitempty"`
	PanicKeyTypes    map[string]int `json:"panic_key_types,omitempty"`
	Notes            []string       `json:"notes,omitempty"`
}

func newResult(typ, container string) *TypeResult {
	return &TypeResult{
		Type: typ, Container: container,
		Mismatches: []Mismatch{}, Panics: []PanicRec{},
	}
}

func (r *TypeResult) addMismatch(m Mismatch, keyType string) {
	r.mu.Lock()
	defer r.mu.Unlock()
	r.NMismatches++
	if m.AfterMutate {
		r.NAfterMutate++
	}
	if len(r.Mismatches) < maxDetail {
		r.Mismatches = append(r.Mismatches, m)
	}
	if r.MismatchKeyTypes == nil {
		r.MismatchKeyTypes = map[string]int{}
	}
	r.MismatchKeyTypes[keyType]++
}

func (r *TypeResult) addPanic(p PanicRec, keyType string) {
	r.mu.Lock()
	defer r.mu.Unlock()
	r.NPanics++
	if len(r.Panics) < maxDetail {
		r.Panics = append(r.Panics, p)
	}
	if r.PanicKeyTypes == nil {
		r.PanicKeyTypes = map[string]int{}
	}
	r.PanicKeyTypes[keyType]++
}

func (r *TypeResult) note(s string) {
	r.mu.Lock()
	defer r.mu.Unlock()
	for _, n := range r.Notes {
		if n == s {
			return
		}
	}
	r.Notes = append(r.Notes, s)
}

func (r *TypeResult) incOps(n int) {
	r.mu.Lock()
	r.Ops += n
	r.mu.Unlock()
}

// snapshot returns a deep copy that is safe to marshal while a hung session
// goroutine might still be alive.
func (r *TypeResult) snapshot() *TypeResult {
	r.mu.Lock()
	defer r.mu.Unlock()
	c := &TypeResult{
		Type: r.Type, Container: r.Container, Ops: r.Ops, Keys: r.Keys, Mutations: r.Mutations,
		NMismatches: r.NMismatches, NPanics: r.NPanics, NAfterMutate: r.NAfterMutate,
		Mismatches: append([]Mismatch{}, r.Mismatches...),
		Panics:     append([]PanicRec{}, r.Panics...),
		Notes:      append([]string(nil), r.Notes...),
	}
	if r.MismatchKeyTypes != nil {
		c.MismatchKeyTypes = map[string]int{}
		for k, v := range r.MismatchKeyTypes {
			c.MismatchKeyTypes[k] = v
		}
	}
	if r.PanicKeyTypes != nil {
		c.PanicKeyTypes = map[string]int{}
		for k, v := range r.PanicKeyTypes {
			c.PanicKeyTypes[k] = v
		}
	}
	return c
}

// ---------------------------------------------------------------------------
// globals (set in main)

var (
	gSeed    int64
	gTier    string
	gResults []*TypeResult
	gTimeout = 120 * time.Second
)

func nOpsMap() int {
	if gTier == "thorough" {
		return 20000
	}
	return 600
}

func nOpsCache() int {
	if gTier == "thorough" {
		return 5000
	}
	return 250
}

func poolSize() int {
	if gTier == "thorough" {
		return 3000
	}
	return 200
}

func rngFor(name string) *rand.Rand {
	h := fnv.New64a()
	h.Write([]byte(name))
	return rand.New(rand.NewSource(gSeed ^ int64(h.Sum64())))
}

// ---------------------------------------------------------------------------
// key description

func keyType[K comparable](k K) string {
	v := any(k)
	if v == nil {
		return "nil"
	}
	return fmt.Sprintf("%T", v)
}

func keyDesc[K comparable](k K) (s string) {
	v := any(k)
	if v == nil {
		return "nil"
	}
	defer func() {
		if r := recover(); r != nil {
			s = fmt.Sprintf("%T(?)", v)
		}
	}()
	switch x := v.(type) {
	case float64:
		return fmt.Sprintf("float64(%v bits=%#x)", x, math.Float64bits(x))
	case float32:
		return fmt.Sprintf("float32(%v bits=%#x)", x, math.Float32bits(x))
	case string:
		if len(x) > 40 {
			return fmt.Sprintf("string(len=%d %q...)", len(x), x[:40])
		}
		return fmt.Sprintf("string(%q)", x)
	}
	s = fmt.Sprintf("%T(%+v)", v, v)
	if len(s) > 160 {
		s = s[:160] + "..."
	}
	return s
}

func describePanic(r any) string {
	s := fmt.Sprintf("%T: %v", r, r)
	if len(s) > 300 {
		s = s[:300] + "..."
	}
	return s
}

func res2(v int, ok bool) string { return "(" + strconv.Itoa(v) + "," + strconv.FormatBool(ok) + ")" }

// ---------------------------------------------------------------------------
// generic session state

type sess[K comparable] struct {
	res      *TypeResult
	keys     []K
	model    map[K]int
	rng      *rand.Rand
	dirty    bool
	afterMut bool
}

// call runs one library call under recover; a panic is recorded.
func (s *sess[K]) call(op string, k K, hasKey bool, f func()) (ok bool) {
	defer func() {
		if r := recover(); r != nil {
			kd, kt := "-", "-"
			if hasKey {
				kd, kt = keyDesc(k), keyType(k)
			}
			s.res.addPanic(PanicRec{Op: op, Key: kd, Panic: describePanic(r)}, kt)
			ok = false
		}
	}()
	f()
	return true
}

func (s *sess[K]) mismatch(op string, k K, hasKey bool, got, want string) {
	kd, kt := "-", "-"
	if hasKey {
		kd, kt = keyDesc(k), keyType(k)
	}
	s.res.addMismatch(Mismatch{Op: op, Key: kd, Got: got, Want: want, AfterMutate: s.afterMut}, kt)
	s.dirty = true
}

func (s *sess[K]) expect(op string, k K, gotV int, gotOK bool, wantV int, wantOK bool) {
	if gotV != wantV || gotOK != wantOK {
		s.mismatch(op, k, true, res2(gotV, gotOK), res2(wantV, wantOK))
	}
}

func (s *sess[K]) pick() K { return s.keys[s.rng.Intn(len(s.keys))] }

func distinct[K comparable](keys []K) int {
	m := make(map[K]struct{}, len(keys))
	for _, k := range keys {
		m[k] = struct{}{}
	}
	return len(m)
}

// compareSnapshot compares a key->value snapshot (with per-key visit counts)
// obtained from the container with the model.
func (s *sess[K]) compareSnapshot(op string, seen map[K]int, visits map[K]int) {
	var zero K
	for _, k := range s.keys {
		want, present := s.model[k]
		got, ok := seen[k]
		if ok != present || got != want {
			s.mismatch(op, k, true, res2(got, ok), res2(want, present))
		}
		if visits != nil && visits[k] > 1 {
			s.mismatch(op+"(dup-visit)", k, true, strconv.Itoa(visits[k]), "1")
			visits[k] = 1 // report once
		}
	}
	if len(seen) != len(s.model) {
		// some key outside the pool, or counted above already; report the size
		s.mismatch(op+"(len)", zero, false, strconv.Itoa(len(seen)), strconv.Itoa(len(s.model)))
	}
}

// ---------------------------------------------------------------------------
// MapOf session

type mapSess[K comparable] struct {
	sess[K]
	m cache.MapOf[K, int]
}

func (s *mapSess[K]) rebuild() {
	var zero K
	s.call("NewMapOf", zero, false, func() { s.m = cache.NewMapOf[K, int]() })
	for _, k := range s.keys {
		v, present := s.model[k]
		if !present {
			continue
		}
		k := k
		if !s.call("Store(rebuild)", k, true, func() { s.m.Store(k, v) }) {
			delete(s.model, k)
		}
	}
	s.dirty = false
}

func (s *mapSess[K]) fullCheck() {
	var zero K
	for _, k := range s.keys {
		k := k
		want, present := s.model[k]
		var got int
		var ok bool
		if !s.call("Load", k, true, func() { got, ok = s.m.Load(k) }) {
			continue
		}
		s.expect("Load", k, got, ok, want, present)
	}
	seen := map[K]int{}
	visits := map[K]int{}
	if s.call("Range", zero, false, func() {
		s.m.Range(func(k K, v int) bool {
			seen[k] = v
			visits[k]++
			return true
		})
	}) {
		s.compareSnapshot("Range", seen, visits)
	}
	var n int
	if s.call("Size", zero, false, func() { n = s.m.Size() }) && n != len(s.model) {
		s.mismatch("Size", zero, false, strconv.Itoa(n), strconv.Itoa(len(s.model)))
	}
	s.res.incOps(len(s.keys) + 2)
}

// session runs the seeded random op sequence on a MapOf[K,int] (and a shorter
// one on a CacheOf[K,int]) against builtin map[K]int.  mutate (may be nil)
// changes memory that keys merely point to.
func session[K comparable](name string, keys []K, mutate func()) (mres, cres *TypeResult) {
	mres = newResult(name, "MapOf")
	cres = newResult(name, "CacheOf")
	mres.Keys = distinct(keys)
	cres.Keys = mres.Keys
	guarded(mres, func() { mapSession(mres, name, keys, mutate) })
	guarded(cres, func() { cacheSession(cres, name, keys, mutate) })
	gResults = append(gResults, mres, cres)
	return
}

// guarded runs f on its own goroutine with fault->panic conversion and a
// watchdog, so a deadlocked container cannot hang the harness.
func guarded(res *TypeResult, f func()) {
	done := make(chan struct{})
	go func() {
		defer close(done)
		debug.SetPanicOnFault(true)
		defer func() {
			if r := recover(); r != nil {
				res.addPanic(PanicRec{Op: "HARNESS(outside library call)", Key: "-", Panic: describePanic(r)}, "-")
			}
		}()
		f()
	}()
	select {
	case <-done:
	case <-time.After(gTimeout):
		res.addPanic(PanicRec{Op: "TIMEOUT", Key: "-", Panic: "session did not finish within " + gTimeout.String() + " (deadlock?)"}, "-")
	}
}

func mapSession[K comparable](res *TypeResult, name string, keys []K, mutate func()) {
	s := &mapSess[K]{}
	s.res = res
	s.keys = keys
	s.model = map[K]int{}
	s.rng = rngFor(name + "/MapOf")
	s.rebuild()
	var zero K

	nOps := nOpsMap()
	mutEvery := nOps / 5
	val := 0
	for i := 1; i <= nOps; i++ {
		val++
		v := val
		k := s.pick()
		old, present := s.model[k]
		var got int
		var ok bool
		switch op := s.rng.Intn(100); {
		case op < 22: // Store
			if s.call("Store", k, true, func() { s.m.Store(k, v) }) {
				s.model[k] = v
			}
		case op < 42: // Load
			if s.call("Load", k, true, func() { got, ok = s.m.Load(k) }) {
				s.expect("Load", k, got, ok, old, present)
			}
		case op < 50: // LoadOrStore
			if s.call("LoadOrStore", k, true, func() { got, ok = s.m.LoadOrStore(k, v) }) {
				if present {
					s.expect("LoadOrStore", k, got, ok, old, true)
				} else {
					s.expect("LoadOrStore", k, got, ok, v, false)
					s.model[k] = v
				}
			}
		case op < 57: // LoadAndStore
			if s.call("LoadAndStore", k, true, func() { got, ok = s.m.LoadAndStore(k, v) }) {
				if present {
					s.expect("LoadAndStore", k, got, ok, old, true)
				} else {
					s.expect("LoadAndStore", k, got, ok, v, false)
				}
				s.model[k] = v
			}
		case op < 62: // LoadOrCompute
			called := false
			if s.call("LoadOrCompute", k, true, func() {
				got, ok = s.m.LoadOrCompute(k, func() int { called = true; return v })
			}) {
				if present {
					s.expect("LoadOrCompute", k, got, ok, old, true)
				} else {
					s.expect("LoadOrCompute", k, got, ok, v, false)
					s.model[k] = v
				}
				if called == present {
					s.mismatch("LoadOrCompute(fn-called)", k, true, strconv.FormatBool(called), strconv.FormatBool(!present))
				}
			}
		case op < 72: // LoadAndDelete
			if s.call("LoadAndDelete", k, true, func() { got, ok = s.m.LoadAndDelete(k) }) {
				s.expect("LoadAndDelete", k, got, ok, old, present)
				delete(s.model, k)
			}
		case op < 80: // Delete
			if s.call("Delete", k, true, func() { s.m.Delete(k) }) {
				delete(s.model, k)
			}
		case op < 88: // Compute: update-or-insert
			var sawOld int
			var sawLoaded bool
			if s.call("Compute(store)", k, true, func() {
				got, ok = s.m.Compute(k, func(o int, l bool) (int, bool) {
					sawOld, sawLoaded = o, l
					return v, false
				})
			}) {
				s.expect("Compute(store)", k, got, ok, v, true)
				s.expect("Compute(store):fn-args", k, sawOld, sawLoaded, old, present)
				s.model[k] = v
			}
		case op < 93: // Compute: delete.  fn returns the zero value when
			// deleting so that an unrelated known quirk (value returned for a
			// deleting fn on an absent key) cannot show up here.
			var sawOld int
			var sawLoaded bool
			if s.call("Compute(delete)", k, true, func() {
				got, ok = s.m.Compute(k, func(o int, l bool) (int, bool) {
					sawOld, sawLoaded = o, l
					return 0, true
				})
			}) {
				s.expect("Compute(delete)", k, got, ok, old, false)
				s.expect("Compute(delete):fn-args", k, sawOld, sawLoaded, old, present)
				delete(s.model, k)
			}
		case op < 97: // Size
			var n int
			if s.call("Size", zero, false, func() { n = s.m.Size() }) && n != len(s.model) {
				s.mismatch("Size", zero, false, strconv.Itoa(n), strconv.Itoa(len(s.model)))
			}
		default: // Range
			seen := map[K]int{}
			visits := map[K]int{}
			if s.call("Range", zero, false, func() {
				s.m.Range(func(k K, v int) bool {
					seen[k] = v
					visits[k]++
					return true
				})
			}) {
				s.compareSnapshot("Range", seen, visits)
			}
		}
		s.res.incOps(1)
		if s.dirty {
			s.rebuild()
		}
		if i%mutEvery == 0 {
			// first a check without mutation (must be clean), ...
			s.fullCheck()
			if s.dirty {
				s.rebuild()
			}
			// ... then mutate what keys merely point to and re-check.
			if mutate != nil {
				mutate()
				s.res.Mutations++
				s.afterMut = true
				s.fullCheck()
				s.afterMut = false
				if s.dirty {
					s.rebuild()
				}
			}
		}
	}
}

// ---------------------------------------------------------------------------
// CacheOf session

type cacheSess[K comparable] struct {
	sess[K]
	c cache.CacheOf[K, int]
}

func (s *cacheSess[K]) rebuild() {
	var zero K
	s.call("NewOfDefault", zero, false, func() { s.c = cache.NewOfDefault[K, int](cache.NoExpiration, 0) })
	for _, k := range s.keys {
		v, present := s.model[k]
		if !present {
			continue
		}
		k := k
		if !s.call("Set(rebuild)", k, true, func() { s.c.Set(k, v, cache.NoExpiration) }) {
			delete(s.model, k)
		}
	}
	s.dirty = false
}

func (s *cacheSess[K]) fullCheck() {
	var zero K
	for _, k := range s.keys {
		k := k
		want, present := s.model[k]
		var got int
		var ok bool
		if !s.call("Get", k, true, func() { got, ok = s.c.Get(k) }) {
			continue
		}
		s.expect("Get", k, got, ok, want, present)
	}
	var items map[K]int
	if s.call("Items", zero, false, func() { items = s.c.Items() }) {
		s.compareSnapshot("Items", items, nil)
	}
	var n int
	if s.call("Count", zero, false, func() { n = s.c.Count() }) && n != len(s.model) {
		s.mismatch("Count", zero, false, strconv.Itoa(n), strconv.Itoa(len(s.model)))
	}
	s.res.incOps(len(s.keys) + 2)
}

func cacheSession[K comparable](res *TypeResult, name string, keys []K, mutate func()) {
	s := &cacheSess[K]{}
	s.res = res
	s.keys = keys
	s.model = map[K]int{}
	s.rng = rngFor(name + "/CacheOf")
	s.rebuild()
	var zero K

	nOps := nOpsCache()
	mutEvery := nOps / 3
	val := 1000000
	for i := 1; i <= nOps; i++ {
		val++
		v := val
		k := s.pick()
		old, present := s.model[k]
		var got int
		var ok bool
		switch op := s.rng.Intn(100); {
		case op < 25:
			if s.call("Set", k, true, func() { s.c.Set(k, v, cache.NoExpiration) }) {
				s.model[k] = v
			}
		case op < 30:
			if s.call("SetForever", k, true, func() { s.c.SetForever(k, v) }) {
				s.model[k] = v
			}
		case op < 55:
			if s.call("Get", k, true, func() { got, ok = s.c.Get(k) }) {
				s.expect("Get", k, got, ok, old, present)
			}
		case op < 62:
			if s.call("GetOrSet", k, true, func() { got, ok = s.c.GetOrSet(k, v, cache.NoExpiration) }) {
				if present {
					s.expect("GetOrSet", k, got, ok, old, true)
				} else {
					s.expect("GetOrSet", k, got, ok, v, false)
					s.model[k] = v
				}
			}
		case op < 68:
			if s.call("GetAndSet", k, true, func() { got, ok = s.c.GetAndSet(k, v, cache.NoExpiration) }) {
				if present {
					s.expect("GetAndSet", k, got, ok, old, true)
				} else {
					s.expect("GetAndSet", k, got, ok, v, false)
				}
				s.model[k] = v
			}
		case op < 82:
			if s.call("GetAndDelete", k, true, func() { got, ok = s.c.GetAndDelete(k) }) {
				s.expect("GetAndDelete", k, got, ok, old, present)
				delete(s.model, k)
			}
		case op < 90:
			if s.call("Delete", k, true, func() { s.c.Delete(k) }) {
				delete(s.model, k)
			}
		case op < 96:
			var n int
			if s.call("Count", zero, false, func() { n = s.c.Count() }) && n != len(s.model) {
				s.mismatch("Count", zero, false, strconv.Itoa(n), strconv.Itoa(len(s.model)))
			}
		default:
			var items map[K]int
			if s.call("Items", zero, false, func() { items = s.c.Items() }) {
				s.compareSnapshot("Items", items, nil)
			}
		}
		s.res.incOps(1)
		if s.dirty {
			s.rebuild()
		}
		if i%mutEvery == 0 {
			s.fullCheck()
			if s.dirty {
				s.rebuild()
			}
			if mutate != nil {
				mutate()
				s.res.Mutations++
				s.afterMut = true
				s.fullCheck()
				s.afterMut = false
				if s.dirty {
					s.rebuild()
				}
			}
		}
	}
}

// ---------------------------------------------------------------------------
// explicit checks for ==-equal keys with distinct representation

// pairCheck: k1 == k2 in Go but they are represented differently.  Whatever
// is stored under k1 must be found under k2 and vice versa.
func pairCheck[K comparable](mres, cres *TypeResult, label string, k1, k2 K) {
	if k1 != k2 {
		mres.note("HARNESS BUG: pair " + label + " is not == in Go")
		return
	}
	guarded(mres, func() {
		s := &mapSess[K]{}
		s.res = mres
		s.keys = []K{k1, k2}
		s.model = map[K]int{}
		var zero K
		var got int
		var ok bool
		var n int
		p := "pair[" + label + "]:"
		if !s.call(p+"NewMapOf", zero, false, func() { s.m = cache.NewMapOf[K, int]() }) {
			return
		}
		if !s.call(p+"Store(k1)", k1, true, func() { s.m.Store(k1, 7) }) {
			return
		}
		if s.call(p+"Store(k1);Load(k2)", k2, true, func() { got, ok = s.m.Load(k2) }) {
			s.expect(p+"Store(k1);Load(k2)", k2, got, ok, 7, true)
		}
		if s.call(p+"Store(k1);LoadOrStore(k2)", k2, true, func() { got, ok = s.m.LoadOrStore(k2, 9) }) {
			s.expect(p+"Store(k1);LoadOrStore(k2)", k2, got, ok, 7, true)
		}
		if s.call(p+"Size", zero, false, func() { n = s.m.Size() }) && n != 1 {
			s.mismatch(p+"Size after Store(k1);LoadOrStore(k2)", k2, true, strconv.Itoa(n), "1")
		}
		if s.call(p+"Store(k2)", k2, true, func() { s.m.Store(k2, 11) }) {
			if s.call(p+"Store(k2);Load(k1)", k1, true, func() { got, ok = s.m.Load(k1) }) {
				s.expect(p+"Store(k2);Load(k1)", k1, got, ok, 11, true)
			}
			if s.call(p+"Size", zero, false, func() { n = s.m.Size() }) && n != 1 {
				s.mismatch(p+"Size after Store(k1);Store(k2)", k2, true, strconv.Itoa(n), "1")
			}
		}
		if s.call(p+"LoadAndDelete(k2)", k2, true, func() { got, ok = s.m.LoadAndDelete(k2) }) {
			s.expect(p+"LoadAndDelete(k2)", k2, got, ok, 11, true)
			if s.call(p+"Delete(k2);Load(k1)", k1, true, func() { got, ok = s.m.Load(k1) }) {
				s.expect(p+"Delete(k2);Load(k1)", k1, got, ok, 0, false)
			}
			if s.call(p+"Size", zero, false, func() { n = s.m.Size() }) && n != 0 {
				s.mismatch(p+"Size after delete", k2, true, strconv.Itoa(n), "0")
			}
		}
		s.res.incOps(10)
	})
	guarded(cres, func() {
		s := &cacheSess[K]{}
		s.res = cres
		s.keys = []K{k1, k2}
		s.model = map[K]int{}
		var zero K
		var got int
		var ok bool
		var n int
		p := "pair[" + label + "]:"
		if !s.call(p+"NewOfDefault", zero, false, func() { s.c = cache.NewOfDefault[K, int](cache.NoExpiration, 0) }) {
			return
		}
		if !s.call(p+"Set(k1)", k1, true, func() { s.c.Set(k1, 7, cache.NoExpiration) }) {
			return
		}
		if s.call(p+"Set(k1);Get(k2)", k2, true, func() { got, ok = s.c.Get(k2) }) {
			s.expect(p+"Set(k1);Get(k2)", k2, got, ok, 7, true)
		}
		if s.call(p+"Set(k1);GetOrSet(k2)", k2, true, func() { got, ok = s.c.GetOrSet(k2, 9, cache.NoExpiration) }) {
			s.expect(p+"Set(k1);GetOrSet(k2)", k2, got, ok, 7, true)
		}
		if s.call(p+"Count", zero, false, func() { n = s.c.Count() }) && n != 1 {
			s.mismatch(p+"Count after Set(k1);GetOrSet(k2)", k2, true, strconv.Itoa(n), "1")
		}
		if s.call(p+"GetAndDelete(k2)", k2, true, func() { got, ok = s.c.GetAndDelete(k2) }) {
			s.expect(p+"GetAndDelete(k2)", k2, got, ok, 7, true)
			if s.call(p+"Count", zero, false, func() { n = s.c.Count() }) && n != 0 {
				s.mismatch(p+"Count after delete", k2, true, strconv.Itoa(n), "0")
			}
		}
		s.res.incOps(6)
	})
}

// distinctCheck: k1 != k2 in Go: they must be two entries.
func distinctCheck[K comparable](mres *TypeResult, label string, k1, k2 K) {
	if k1 == k2 {
		mres.note("HARNESS BUG: pair " + label + " is == in Go")
		return
	}
	guarded(mres, func() {
		s := &mapSess[K]{}
		s.res = mres
		s.keys = []K{k1, k2}
		s.model = map[K]int{}
		var zero K
		var got int
		var ok bool
		var n int
		p := "distinct[" + label + "]:"
		if !s.call(p+"NewMapOf", zero, false, func() { s.m = cache.NewMapOf[K, int]() }) {
			return
		}
		if !s.call(p+"Store(k1)", k1, true, func() { s.m.Store(k1, 7) }) {
			return
		}
		if s.call(p+"Store(k1);Load(k2)", k2, true, func() { got, ok = s.m.Load(k2) }) {
			s.expect(p+"Store(k1);Load(k2)", k2, got, ok, 0, false)
		}
		if s.call(p+"Store(k1);LoadOrStore(k2)", k2, true, func() { got, ok = s.m.LoadOrStore(k2, 9) }) {
			s.expect(p+"Store(k1);LoadOrStore(k2)", k2, got, ok, 9, false)
		}
		if s.call(p+"Load(k1)", k1, true, func() { got, ok = s.m.Load(k1) }) {
			s.expect(p+"Load(k1)", k1, got, ok, 7, true)
		}
		if s.call(p+"Size", zero, false, func() { n = s.m.Size() }) && n != 2 {
			s.mismatch(p+"Size", k2, true, strconv.Itoa(n), "2")
		}
		s.res.incOps(5)
	})
}

// ---------------------------------------------------------------------------
// key types of the catalogue

type padS struct {
	a int8
	b int64
}

// padBigS has padding after a (7 bytes) and after c (2 bytes); because of the
// array field it is not passed in registers, so garbage in the padding bytes
// has a chance to travel with by-value copies.
type padBigS struct {
	a int8
	b int64
	c [3]int16
	d int64
}

type strS struct {
	s string
	n int
}

type nestS struct {
	in struct{ a, b int }
	f  float64
}

type fltS struct {
	f float32
	g float64
}

type ptrS struct{ p *int }

type ifS struct{ i any }

type myInt int
type myString string

// method-bearing interface and its implementations
type M interface{ M() }

type mPtr struct{ x int }

func (*mPtr) M() {}

type mStruct struct{ a, b int }

func (mStruct) M() {}

type mInt int

func (mInt) M() {}

type mPtrStruct struct{ p *int } // pointer-shaped struct

func (mPtrStruct) M() {}

type mString string

func (mString) M() {}

//go:noinline
func box[T any](v T) any { return v }

//go:noinline
func boxM[T M](v T) M { return v }

func negZero() float64 { return math.Copysign(0, -1) }

// fillGarbage overwrites all bytes of *p with g (used before setting the
// fields, so that padding bytes keep the garbage).
func fillGarbage[T any](p *T, g byte) {
	b := unsafe.Slice((*byte)(unsafe.Pointer(p)), unsafe.Sizeof(*p))
	for i := range b {
		b[i] = g
	}
}

func paddingBytes(p *padS) []byte {
	b := unsafe.Slice((*byte)(unsafe.Pointer(p)), unsafe.Sizeof(*p))
	return append([]byte(nil), b[1:8]...)
}

type integer interface {
	~int | ~int8 | ~int16 | ~int32 | ~int64 | ~uint | ~uint8 | ~uint16 | ~uint32 | ~uint64 | ~uintptr
}

func intKeys[T integer](name string) []T {
	rng := rngFor("keys/" + name)
	var one T = 1
	bitsz := uint(unsafe.Sizeof(one) * 8)
	keys := []T{0, 1, 2, ^T(0), one << (bitsz - 1), ^(one << (bitsz - 1)), ^T(0) - 1}
	n := poolSize()
	for i := 0; i < n/2; i++ {
		keys = append(keys, T(i))
	}
	for i := 0; i < n/2; i++ {
		keys = append(keys, T(rng.Uint64()))
	}
	// powers of two and bucket-index-like patterns
	for s := uint(0); s < bitsz; s++ {
		keys = append(keys, one<<s)
	}
	return keys
}

func randString(rng *rand.Rand, n int) string {
	b := make([]byte, n)
	for i := range b {
		b[i] = byte(rng.Intn(256))
	}
	return string(b)
}

func stringKeys() []string {
	rng := rngFor("keys/string")
	keys := []string{"", "a", "b", "ab", "ba", "\x00", "\x00\x00", "a\x00", "héllo", "日本語",
		strings.Repeat("x", 1024), strings.Repeat("x", 1025), strings.Repeat("y", 70000)}
	n := poolSize()
	for i := 0; i < n; i++ {
		keys = append(keys, randString(rng, rng.Intn(40)))
	}
	for i := 0; i < n/4; i++ {
		keys = append(keys, "key-"+strconv.Itoa(i))
	}
	// same contents, different backing arrays
	for i := 0; i < 20; i++ {
		keys = append(keys, string([]byte(keys[i])))
	}
	return keys
}

func float64Keys() []float64 {
	rng := rngFor("keys/float64")
	keys := []float64{0, negZero(), 1, -1, math.Inf(1), math.Inf(-1),
		math.SmallestNonzeroFloat64, -math.SmallestNonzeroFloat64, 3 * math.SmallestNonzeroFloat64,
		math.Float64frombits(0x000fffffffffffff), // largest subnormal
		math.Float64frombits(0x0010000000000000), // smallest normal
		math.MaxFloat64, -math.MaxFloat64, 0.1, 0.5, math.Pi, 1e-300, 1e300}
	n := poolSize()
	for i := 0; i < n; i++ {
		f := math.Float64frombits(rng.Uint64())
		if f != f {
			continue // NaN excluded
		}
		keys = append(keys, f)
	}
	for i := 0; i < n/4; i++ {
		keys = append(keys, float64(i))
	}
	return keys
}

func float32Keys() []float32 {
	rng := rngFor("keys/float32")
	nz := float32(negZero())
	keys := []float32{0, nz, 1, -1, float32(math.Inf(1)), float32(math.Inf(-1)),
		math.SmallestNonzeroFloat32, -math.SmallestNonzeroFloat32,
		math.Float32frombits(0x007fffff), math.Float32frombits(0x00800000),
		math.MaxFloat32, -math.MaxFloat32, 0.1, 0.5}
	n := poolSize()
	for i := 0; i < n; i++ {
		f := math.Float32frombits(rng.Uint32())
		if f != f {
			continue
		}
		keys = append(keys, f)
	}
	return keys
}

// ---------------------------------------------------------------------------
// the catalogue

func catalogue() {
	nz := negZero()
	pz := 0.0
	nz32 := float32(nz)
	pz32 := float32(0)

	// --- strings
	{
		keys := stringKeys()
		m, c := session("string", keys, nil)
		a := string([]byte("same contents, different header"))
		b := string([]byte("same contents, different header"))
		if unsafe.StringData(a) == unsafe.StringData(b) {
			m.note("string pair shares its backing array (harness could not build distinct headers)")
		}
		pairCheck(m, c, "string: two headers, same contents", a, b)
		e1 := string([]byte{})
		pairCheck(m, c, "string: empty literal vs empty converted", "", e1)
		distinctCheck(m, "string: \"\" vs \"\\x00\"", "", "\x00")
		distinctCheck(m, "string: prefix", "ab", "abc")
	}
	{
		keys := []myString{"", "a", "b", myString(string([]byte("a")))}
		session("named string type", keys, nil)
	}

	// --- integers
	session("int", intKeys[int]("int"), nil)
	session("int8", intKeys[int8]("int8"), nil)
	session("int16", intKeys[int16]("int16"), nil)
	session("int32", intKeys[int32]("int32"), nil)
	session("int64", intKeys[int64]("int64"), nil)
	session("uint", intKeys[uint]("uint"), nil)
	session("uint8", intKeys[uint8]("uint8"), nil)
	session("uint16", intKeys[uint16]("uint16"), nil)
	session("uint32", intKeys[uint32]("uint32"), nil)
	session("uint64", intKeys[uint64]("uint64"), nil)
	session("uintptr", intKeys[uintptr]("uintptr"), nil)
	session("named int type", intKeys[myInt]("myInt"), nil)

	// --- floats
	{
		m, c := session("float64", float64Keys(), nil)
		pairCheck(m, c, "float64 +0 vs -0", pz, nz)
		distinctCheck(m, "float64 +Inf vs -Inf", math.Inf(1), math.Inf(-1))
		distinctCheck(m, "float64 0 vs smallest subnormal", 0, math.SmallestNonzeroFloat64)
	}
	{
		m, c := session("float32", float32Keys(), nil)
		pairCheck(m, c, "float32 +0 vs -0", pz32, nz32)
		distinctCheck(m, "float32 0 vs smallest subnormal", float32(0), float32(math.SmallestNonzeroFloat32))
	}

	// --- bool
	session("bool", []bool{false, true, true, false}, nil)

	// --- complex
	{
		keys := []complex128{complex(pz, pz), complex(nz, pz), complex(pz, nz), complex(nz, nz),
			complex(1, pz), complex(1, nz), complex(pz, 1), complex(nz, 1), complex(1, 1), complex(-1, -1),
			complex(math.Inf(1), 0), complex(0, math.Inf(-1)), complex(math.SmallestNonzeroFloat64, 0), complex(0.5, 0.25)}
		rng := rngFor("keys/complex128")
		for i := 0; i < poolSize()/2; i++ {
			re, im := math.Float64frombits(rng.Uint64()), math.Float64frombits(rng.Uint64())
			if re != re || im != im {
				continue
			}
			keys = append(keys, complex(re, im))
		}
		m, c := session("complex128", keys, nil)
		pairCheck(m, c, "complex128 (+0,+0) vs (-0,+0)", complex(pz, pz), complex(nz, pz))
		pairCheck(m, c, "complex128 (+0,+0) vs (+0,-0)", complex(pz, pz), complex(pz, nz))
		pairCheck(m, c, "complex128 (-0,+0) vs (+0,-0)", complex(nz, pz), complex(pz, nz))
		pairCheck(m, c, "complex128 (+0,+0) vs (-0,-0)", complex(pz, pz), complex(nz, nz))
		pairCheck(m, c, "complex128 (1,+0) vs (1,-0)", complex(1, pz), complex(1, nz))
		distinctCheck(m, "complex128 (1,0) vs (0,1)", complex(1, 0), complex(0, 1))
	}
	{
		keys := []complex64{complex(pz32, pz32), complex(nz32, pz32), complex(pz32, nz32), complex(nz32, nz32),
			complex(1, pz32), complex(1, nz32), complex(pz32, 1), complex(nz32, 1), complex(1, 1), complex(-1, -1)}
		rng := rngFor("keys/complex64")
		for i := 0; i < poolSize()/2; i++ {
			re, im := math.Float32frombits(rng.Uint32()), math.Float32frombits(rng.Uint32())
			if re != re || im != im {
				continue
			}
			keys = append(keys, complex(re, im))
		}
		m, c := session("complex64", keys, nil)
		pairCheck(m, c, "complex64 (+0,+0) vs (-0,+0)", complex(pz32, pz32), complex(nz32, pz32))
		pairCheck(m, c, "complex64 (+0,+0) vs (+0,-0)", complex(pz32, pz32), complex(pz32, nz32))
		pairCheck(m, c, "complex64 (+0,+0) vs (-0,-0)", complex(pz32, pz32), complex(nz32, nz32))
	}

	// --- pointers
	ints := make([]int, 64) // pointees; element i starts as i%4 so that several pointees are equal
	for i := range ints {
		ints[i] = i % 4
	}
	mutateInts := func() {
		for i := range ints {
			ints[i] = ints[i]*3 + i + 1
		}
	}
	intPtrs := func(n int) []*int {
		ps := []*int{nil}
		for i := 0; i < n; i++ {
			ps = append(ps, &ints[i])
		}
		return ps
	}
	{
		m, _ := session("*int", intPtrs(48), mutateInts)
		distinctCheck(m, "*int: two pointers to equal ints", &ints[0], &ints[4])
	}
	{
		keys := []unsafe.Pointer{nil}
		for i := 0; i < 48; i++ {
			keys = append(keys, unsafe.Pointer(&ints[i]))
		}
		session("unsafe.Pointer", keys, mutateInts)
	}
	chans := []chan int{nil}
	for i := 0; i < 24; i++ {
		chans = append(chans, make(chan int, 64))
	}
	mutateChans := func() {
		for _, ch := range chans {
			if ch != nil && len(ch) < cap(ch) {
				ch <- 1
			}
		}
	}
	session("chan int", chans, mutateChans)

	// --- arrays
	{
		rng := rngFor("keys/[4]int")
		keys := [][4]int{{}, {1, 0, 0, 0}, {0, 1, 0, 0}, {0, 0, 1, 0}, {0, 0, 0, 1}, {1, 2, 3, 4}, {4, 3, 2, 1}}
		for i := 0; i < poolSize(); i++ {
			keys = append(keys, [4]int{rng.Intn(3), rng.Intn(3), rng.Intn(3), rng.Int()})
		}
		m, _ := session("[4]int", keys, nil)
		distinctCheck(m, "[4]int permutation", [4]int{1, 2, 3, 4}, [4]int{4, 3, 2, 1})
	}
	{
		keys := [][2]string{{"", ""}, {"a", ""}, {"", "a"}, {"a", "b"}, {"b", "a"}, {"ab", ""}, {"a", "b"}}
		rng := rngFor("keys/[2]string")
		for i := 0; i < poolSize()/2; i++ {
			keys = append(keys, [2]string{randString(rng, rng.Intn(4)), randString(rng, rng.Intn(4))})
		}
		m, c := session("[2]string", keys, nil)
		pairCheck(m, c, "[2]string: different headers", [2]string{string([]byte("foo")), string([]byte("bar"))},
			[2]string{string([]byte("foo")), string([]byte("bar"))})
		distinctCheck(m, "[2]string: {ab,\"\"} vs {a,b}", [2]string{"ab", ""}, [2]string{"a", "b"})
	}
	session("[0]int", [][0]int{{}, {}}, nil)

	// --- structs
	{
		n := poolSize() / 2
		keys := make([]padS, 0, 2*n+4)
		for i := 0; i < n; i++ {
			// two ==-equal values with different padding bytes
			keys = append(keys, padS{}, padS{})
			p1, p2 := &keys[len(keys)-2], &keys[len(keys)-1]
			fillGarbage(p1, 0xAA)
			fillGarbage(p2, 0x55)
			p1.a, p1.b = int8(i%5), int64(i/5)
			p2.a, p2.b = int8(i%5), int64(i/5)
		}
		m, c := session("struct{a int8; b int64} (padding garbage)", keys, nil)
		if fmt.Sprint(paddingBytes(&keys[0])) == fmt.Sprint(paddingBytes(&keys[1])) {
			m.note("padding bytes of the pool pair are identical (garbage did not survive)")
		} else {
			m.note(fmt.Sprintf("pool[0] padding=%x pool[1] padding=%x, pool[0]==pool[1]: %v",
				paddingBytes(&keys[0]), paddingBytes(&keys[1]), keys[0] == keys[1]))
		}
		pairCheck(m, c, "padS: equal fields, different padding", keys[2], keys[3])
		distinctCheck(m, "padS: a differs", padS{1, 0}, padS{2, 0})
	}
	{
		n := poolSize() / 2
		keys := make([]padBigS, 0, 2*n)
		for i := 0; i < n; i++ {
			keys = append(keys, padBigS{}, padBigS{})
			p1, p2 := &keys[len(keys)-2], &keys[len(keys)-1]
			fillGarbage(p1, 0xAA)
			fillGarbage(p2, 0x55)
			for _, p := range []*padBigS{p1, p2} {
				p.a, p.b, p.c, p.d = int8(i%3), int64(i/3), [3]int16{int16(i), 0, 1}, int64(-i)
			}
		}
		m, c := session("struct{a int8; b int64; c [3]int16; d int64} (padding garbage, stack-passed)", keys, nil)
		pairCheck(m, c, "padBigS: equal fields, different padding", keys[2], keys[3])
	}
	{
		rng := rngFor("keys/strS")
		keys := []strS{{}, {"", 1}, {"a", 0}, {"a", 1}, {"b", 1}}
		for i := 0; i < poolSize(); i++ {
			keys = append(keys, strS{randString(rng, rng.Intn(6)), rng.Intn(4)})
		}
		m, c := session("struct{s string; n int}", keys, nil)
		pairCheck(m, c, "strS: different string headers", strS{string([]byte("hello")), 3}, strS{string([]byte("hello")), 3})
	}
	{
		rng := rngFor("keys/nestS")
		keys := []nestS{{}, {f: nz}, {f: 1}}
		for i := 0; i < poolSize(); i++ {
			var k nestS
			k.in.a, k.in.b, k.f = rng.Intn(5), rng.Intn(5), float64(rng.Intn(3))
			keys = append(keys, k)
		}
		m, c := session("struct{in struct{a,b int}; f float64}", keys, nil)
		var k1, k2 nestS
		k1.in.a, k2.in.a = 3, 3
		k1.f, k2.f = pz, nz
		pairCheck(m, c, "nestS: f +0 vs -0", k1, k2)
	}
	{
		keys := []fltS{{pz32, pz}, {nz32, pz}, {pz32, nz}, {nz32, nz}, {1, pz}, {1, nz}, {pz32, 1}, {nz32, 1}, {1, 1}, {2, 1}, {1, 2}}
		m, c := session("struct{f float32; g float64} (signed zeros)", keys, nil)
		pairCheck(m, c, "fltS {+0,+0} vs {-0,-0}", fltS{pz32, pz}, fltS{nz32, nz})
		pairCheck(m, c, "fltS {+0,1} vs {-0,1}", fltS{pz32, 1}, fltS{nz32, 1})
		pairCheck(m, c, "fltS {1,+0} vs {1,-0}", fltS{1, pz}, fltS{1, nz})
	}
	{
		keys := []ptrS{{nil}}
		for _, p := range intPtrs(32)[1:] {
			keys = append(keys, ptrS{p})
		}
		session("struct{p *int}", keys, mutateInts)
	}
	{
		keys := []ifS{{nil}, {1}, {int64(1)}, {int8(1)}, {uint(1)}, {"1"}, {""}, {1.0}, {pz}, {nz}, {float32(1)},
			{true}, {false}, {[2]int{1, 2}}, {[2]int{2, 1}}, {padS{1, 2}}, {strS{"a", 1}}, {myInt(1)},
			{(*int)(nil)}, {ptrS{nil}}, {ptrS{&ints[3]}}, {box(int64(1000))}, {box(int64(1000))}}
		for _, p := range intPtrs(16)[1:] {
			keys = append(keys, ifS{p})
		}
		m, c := session("struct{i any}", keys, mutateInts)
		x := int64(100000) + gSeed%7
		pairCheck(m, c, "ifS: separately boxed equal int64", ifS{box(x)}, ifS{box(x)})
		pairCheck(m, c, "ifS: boxed +0 vs -0", ifS{box(pz)}, ifS{box(nz)})
		pairCheck(m, c, "ifS: boxed strings, different headers", ifS{box(string([]byte("boxed")))}, ifS{box(string([]byte("boxed")))})
		distinctCheck(m, "ifS: int(1) vs int64(1)", ifS{1}, ifS{int64(1)})
		distinctCheck(m, "ifS: nil vs (*int)(nil)", ifS{nil}, ifS{(*int)(nil)})
	}

	// --- any as K
	anyKeys := func() []any {
		keys := []any{
			nil,
			int(1), int8(1), int16(1), int32(1), int64(1), uint(1), uint8(1), uint16(1), uint32(1), uint64(1), uintptr(1),
			myInt(1), float32(1), float64(1), complex64(1), complex128(1),
			int(0), int64(0), uint8(0), float64(0), nz, float32(0), nz32, complex(pz, pz), complex(nz, nz),
			true, false,
			"", "a", "1", myString("a"), string([]byte("a")),
			math.Inf(1), math.Inf(-1), math.SmallestNonzeroFloat64,
			[4]int{1, 2, 3, 4}, [4]int{4, 3, 2, 1}, [2]string{"a", "b"}, [0]int{}, [1]int{1},
			padS{1, 2}, padS{2, 1}, strS{"a", 1}, strS{"", 0}, fltS{pz32, pz}, fltS{nz32, nz}, nestS{f: 1}, struct{}{},
			ifS{nil}, ifS{1}, ifS{"1"},
			int(300), int64(300), uint16(300), box(int64(70000)), box(int64(70000)),
			// pointer-shaped dynamic values
			(*int)(nil), unsafe.Pointer(nil), (chan int)(nil), ptrS{nil}, [1]*int{nil},
			ptrS{&ints[40]}, ptrS{&ints[41]}, [1]*int{&ints[42]}, [1]*int{&ints[43]},
			unsafe.Pointer(&ints[44]), unsafe.Pointer(&ints[45]),
			struct{ p unsafe.Pointer }{unsafe.Pointer(&ints[46])},
		}
		for _, p := range intPtrs(24)[1:] {
			keys = append(keys, p)
		}
		for _, ch := range chans[1:6] {
			keys = append(keys, ch)
		}
		for i := 0; i < 40; i++ {
			keys = append(keys, i, int64(i), uint8(i), float64(i), strconv.Itoa(i))
		}
		// a padded struct with garbage in its padding, boxed from memory
		g := make([]padS, 2)
		fillGarbage(&g[0], 0xAA)
		fillGarbage(&g[1], 0x55)
		g[0].a, g[0].b, g[1].a, g[1].b = 9, 9, 9, 9
		keys = append(keys, any(g[0]), any(g[1]))
		return keys
	}
	mutateAll := func() { mutateInts(); mutateChans() }
	{
		m, c := session("any", anyKeys(), mutateAll)
		x := int64(100000) + gSeed%7
		pairCheck(m, c, "any: separately boxed equal int64", box(x), box(x))
		pairCheck(m, c, "any: float64 +0 vs -0", box(pz), box(nz))
		pairCheck(m, c, "any: float32 +0 vs -0", box(pz32), box(nz32))
		pairCheck(m, c, "any: complex128 (+0,+0) vs (-0,-0)", box(complex(pz, pz)), box(complex(nz, nz)))
		pairCheck(m, c, "any: strings, different headers", box(string([]byte("boxed"))), box(string([]byte("boxed"))))
		pairCheck(m, c, "any: fltS {+0,+0} vs {-0,-0}", box(fltS{pz32, pz}), box(fltS{nz32, nz}))
		pairCheck(m, c, "any: same *int boxed twice", box(&ints[50]), box(&ints[50]))
		g := make([]padS, 2)
		fillGarbage(&g[0], 0xAA)
		fillGarbage(&g[1], 0x55)
		g[0].a, g[0].b, g[1].a, g[1].b = 9, 9, 9, 9
		pairCheck(m, c, "any: padS equal fields, different padding", any(g[0]), any(g[1]))
		distinctCheck[any](m, "any: int(1) vs int64(1)", int(1), int64(1))
		distinctCheck[any](m, "any: int(1) vs \"1\"", int(1), "1")
		distinctCheck[any](m, "any: uint8(0) vs false", uint8(0), false)
		distinctCheck[any](m, "any: int(1) vs myInt(1)", int(1), myInt(1))
		distinctCheck[any](m, "any: two *int to equal ints", &ints[51], &ints[52])
		distinctCheck[any](m, "any: [4]int vs [4]int permuted", [4]int{1, 2, 3, 4}, [4]int{4, 3, 2, 1})
	}
	// the same pool without nil and without pointer-shaped values: must be clean
	{
		var keys []any
		for _, k := range anyKeys() {
			if k == nil {
				continue
			}
			switch k.(type) {
			case *int, unsafe.Pointer, chan int, ptrS, [1]*int, struct{ p unsafe.Pointer }:
				continue
			}
			keys = append(keys, k)
		}
		session("any (only non-nil, non-pointer-shaped dynamic values)", keys, mutateAll)
	}

	// --- method-bearing interface as K
	{
		mps := make([]*mPtr, 16)
		for i := range mps {
			mps[i] = &mPtr{x: i % 3}
		}
		mutateM := func() {
			for i, p := range mps {
				p.x = p.x*5 + i + 1
			}
			mutateInts()
		}
		keys := []M{nil, (*mPtr)(nil), mStruct{1, 2}, mStruct{1, 2}, mStruct{2, 1}, mStruct{}, mInt(0), mInt(1), mInt(2),
			boxM(mInt(70000)), boxM(mInt(70000)), mString(""), mString("a"), mString(string([]byte("a"))),
			mPtrStruct{nil}, mPtrStruct{&ints[60]}, mPtrStruct{&ints[61]}}
		for _, p := range mps {
			keys = append(keys, p)
		}
		m, c := session("interface{ M() }", keys, mutateM)
		pairCheck[M](m, c, "M: separately boxed equal mInt", boxM(mInt(123456)), boxM(mInt(123456)))
		pairCheck[M](m, c, "M: separately boxed equal mStruct", boxM(mStruct{7, 8}), boxM(mStruct{7, 8}))
		pairCheck[M](m, c, "M: same *mPtr boxed twice", boxM(mps[0]), boxM(mps[0]))
		distinctCheck[M](m, "M: two *mPtr with equal contents", mps[0], mps[3])
		distinctCheck[M](m, "M: mInt(1) vs mStruct{1,0}", mInt(1), mStruct{1, 0})

		var clean []M
		for _, k := range keys {
			switch k.(type) {
			case nil, *mPtr, mPtrStruct:
				continue
			}
			clean = append(clean, k)
		}
		session("interface{ M() } (only non-nil, non-pointer-shaped implementations)", clean, mutateM)
	}
	// error / fmt.Stringer-like std interface
	{
		keys := []error{errString("a"), errString("b"), errString(string([]byte("a"))), errCode(1), errCode(2), errPair{1, "x"}, errPair{1, "y"}}
		session("error (non-nil, non-pointer implementations)", keys, nil)
	}
}

type errString string

func (e errString) Error() string { return string(e) }

type errCode int

func (e errCode) Error() string { return strconv.Itoa(int(e)) }

type errPair struct {
	c int
	s string
}

func (e errPair) Error() string { return e.s }

// ---------------------------------------------------------------------------

type Output struct {
	Seed            int64         `json:"seed"`
	Tier            string        `json:"tier"`
	GoVersion       string        `json:"go_version"`
	ElapsedMs       int64         `json:"elapsed_ms"`
	TotalMismatches int           `json:"total_mismatches"`
	TotalPanics     int           `json:"total_panics"`
	FailingTypes    []string      `json:"failing_types"`
	Types           []*TypeResult `json:"types"`
}

func goVersion() string { return runtime.Version() }

func main() {
	if len(os.Args) != 4 {
		fmt.Fprintln(os.Stderr, "usage: hasher <seed> <quick|thorough> <out.json>")
		os.Exit(2)
	}
	seed, err := strconv.ParseInt(os.Args[1], 10, 64)
	if err != nil {
		fmt.Fprintln(os.Stderr, "bad seed:", err)
		os.Exit(2)
	}
	gSeed = seed
	gTier = os.Args[2]
	if gTier != "quick" && gTier != "thorough" {
		fmt.Fprintln(os.Stderr, "tier must be quick or thorough")
		os.Exit(2)
	}
	start := time.Now()
	catalogue()

	out := Output{Seed: seed, Tier: gTier, GoVersion: goVersion(), FailingTypes: []string{}}
	for _, r := range gResults {
		s := r.snapshot()
		out.Types = append(out.Types, s)
		out.TotalMismatches += s.NMismatches
		out.TotalPanics += s.NPanics
		if s.NMismatches > 0 || s.NPanics > 0 {
			out.FailingTypes = append(out.FailingTypes, s.Container+"["+s.Type+"]")
		}
	}
	out.ElapsedMs = time.Since(start).Milliseconds()
	b, err := json.MarshalIndent(&out, "", " ")
	if err != nil {
		fmt.Fprintln(os.Stderr, "marshal:", err)
		os.Exit(3)
	}
	if err := os.WriteFile(os.Args[3], append(b, '\n'), 0o644); err != nil {
		fmt.Fprintln(os.Stderr, "write:", err)
		os.Exit(3)
	}
	fmt.Fprintf(os.Stderr, "hasher: %d type sessions, %d mismatches, %d panics, failing: %v\n",
		len(out.Types), out.TotalMismatches, out.TotalPanics, out.FailingTypes)
}
