(* xrun.ml -- replays a schedule on the extracted XMachine (MapOf) and prints one
   line per scheduling step: thread, primitive kind, value class, and the set of
   threads enabled before the step; plus invocation / response / user-function /
   visit events and the final layout.  Hand-written glue only. *)
open Model

(* ---------- Z / nat conversion ---------- *)
let rec nat_of_int n = if n <= 0 then O else S (nat_of_int (n - 1))
let rec int_of_nat = function O -> 0 | S n -> 1 + int_of_nat n

let rec pos_of_int n =
  if n = 1 then XH else if n land 1 = 0 then XO (pos_of_int (n lsr 1)) else XI (pos_of_int (n lsr 1))
let z_of_small n = if n = 0 then Z0 else if n > 0 then Zpos (pos_of_int n) else Zneg (pos_of_int (-n))
let zneg = function Z0 -> Z0 | Zpos p -> Zneg p | Zneg p -> Zpos p

let z_of_string s =
  let neg = String.length s > 0 && s.[0] = '-' in
  let acc = ref Z0 in
  String.iteri (fun i c ->
    if i = 0 && c = '-' then ()
    else if c >= '0' && c <= '9' then acc := z_push_digit !acc (z_of_small (Char.code c - 48))
    else failwith ("bad integer: " ^ s)) s;
  if neg then zneg !acc else !acc

let string_of_z z =
  let ds = z_digits z in
  let b = Buffer.create 20 in
  if z_is_neg z then Buffer.add_char b '-';
  List.iter (fun d -> Buffer.add_char b (Char.chr (48 + int_of_nat (z_small d)))) ds;
  Buffer.contents b

let cb_of_string s = if s = "-" then None else Some (nat_of_int (int_of_string s))
let string_of_cb = function None -> "-" | Some n -> string_of_int (int_of_nat n)

(* ---------- printing ---------- *)
let b01 b = if b then "1" else "0"
let pairs l = String.concat "," (List.map (fun (k, v) -> string_of_z k ^ ":" ^ string_of_z v) l)

let string_of_res = function
  | CUnit -> "unit"
  | CVal (v, ok) -> Printf.sprintf "val %s %s" (string_of_z v) (b01 ok)
  | CValExp (v, e, ok) -> Printf.sprintf "valexp %s %s %s" (string_of_z v) (string_of_z e) (b01 ok)
  | CValTTL (v, t, ok) -> Printf.sprintf "valttl %s %s %s" (string_of_z v) (string_of_z t) (b01 ok)
  | CNat n -> Printf.sprintf "nat %d" (int_of_nat n)
  | CDur d -> Printf.sprintf "dur %s" (string_of_z d)
  | CCb c -> Printf.sprintf "cb %s" (string_of_cb c)
  | CList l -> Printf.sprintf "list %s" (pairs l)

let string_of_event = function
  | EFire (c, k, v) -> Printf.sprintf "fire:%d:%s:%s" (int_of_nat c) (string_of_z k) (string_of_z v)
  | EFn k -> Printf.sprintf "fn:%s" (string_of_z k)
  | EVisit (k, v) -> Printf.sprintf "visit:%s:%s" (string_of_z k) (string_of_z v)

(* compare Z values through their decimal form (only used to sort output) *)
let zcmp a b =
  let sa = string_of_z a and sb = string_of_z b in
  let na = sa.[0] = '-' and nb = sb.[0] = '-' in
  if na && not nb then -1 else if nb && not na then 1
  else
    let c = compare (String.length sa) (String.length sb) in
    let c = if c <> 0 then c else compare sa sb in
    if na then -c else c



let n_of_string s = match z_of_string s with Z0 -> N0 | Zpos p -> Npos p | Zneg _ -> failwith "negative N"
let string_of_n = function N0 -> "0" | Npos p -> string_of_z (Zpos p)
let split s = List.filter (fun t -> t <> "") (String.split_on_char ' ' s)

let op_of_tokens toks : xop_z =
  let z = z_of_string in
  match toks with
  | ["load"; k] -> XLoad (z k)
  | ["store"; k; v] -> x_store (z k) (z v)
  | ["loadorstore"; k; v] -> x_loadorstore (z k) (z v)
  | ["loadandstore"; k; v] -> x_loadandstore (z k) (z v)
  | ["loadorcompute"; k; v] -> x_loadorcompute (z k) (z v)
  | ["compute"; k; "set"; v] -> x_compute (z k) (XFSet (z v))
  | ["compute"; k; "incr"; _] -> x_compute (z k) XFIncr
  | ["compute"; k; "del"; _] -> x_compute (z k) XFDel
  | ["compute"; k; "delif"; v] -> x_compute (z k) (XFDelIf (z v))
  | ["compute"; k; "noopdelabs"; _] -> x_compute (z k) XFNoopDelAbs
  | ["loadanddelete"; k] | ["delete"; k] -> x_loadanddelete (z k)
  | ["clear"] -> XClear
  | ["size"] -> XSize
  | ["range"] -> XRange
  | _ -> failwith ("bad op: " ^ String.concat " " toks)

let opt_z = function Some v -> string_of_z v | None -> "nil"

let string_of_kind = function
  | KLoadPtr nil -> "LoadPointer " ^ (if nil then "nil" else "nonnil")
  | KStorePtr nil -> "StorePointer " ^ (if nil then "nil" else "nonnil")
  | KLoadU64 tags -> "LoadUint64 " ^ string_of_n (pack_meta tags)
  | KStoreU64 tags -> "StoreUint64 " ^ string_of_n (pack_meta tags)
  | KCASU64 ok -> "CASUint64 " ^ (if ok then "ok" else "fail")
  | KLoadI64 v -> "LoadInt64 " ^ string_of_z v
  | KStoreI64 v -> "StoreInt64 " ^ string_of_z v
  | KAddI64 v -> "AddInt64 " ^ string_of_z v
  | KCASI64 ok -> "CASInt64 " ^ (if ok then "ok" else "fail")
  | KLock relock -> "Lock " ^ (if relock then "relock" else "acq")
  | KUnlock -> "Unlock -"
  | KWait -> "Wait -"
  | KBcast _ -> "Broadcast *"
  | KGosched -> "Gosched -"
  | KStart -> "start -"

let string_of_xres = function
  | XRVal (v, ok) -> Printf.sprintf "val %s %s" (opt_z v) (b01 ok)
  | XRNat n -> "nat " ^ string_of_z n
  | XRList l -> "list " ^ pairs l
  | XRUnit -> "unit"

let () =
  let oracle = ref [] and seeds = ref [] and hint = ref Z0 in
  let setup = ref [] and threads = Hashtbl.create 8 and sched = ref [] in
  let nthreads = ref 0 in
  let flush_case id =
    let thr t = if t = 999 then List.rev !setup else (try List.rev (Hashtbl.find threads t) with Not_found -> []) in
    let todo n = thr (int_of_nat n) in
    let st = ref (x_machine_init (List.rev !seeds) !hint todo) in
    let step t = x_machine_step !oracle (List.rev !seeds) !hint !st (nat_of_int t) in
    Printf.printf "XCASE %s\n" id;
    (* the sequential setup: thread 999 runs alone until it has nothing to do *)
    let continue = ref true in
    while !continue do
      match step 999 with
      | Some (s', _) -> st := s'
      | None -> continue := false
    done;
    (* the schedule *)
    (try
      List.iter (fun t ->
        let en = List.filter (fun u -> match step u with Some _ -> true | None -> false)
                   (List.init !nthreads (fun i -> i)) in
        let ens = String.concat "," (List.map string_of_int en) in
        match step t with
        | None -> Printf.printf "DISABLED %d en=%s\n" t ens; raise Exit
        | Some (s', ls) ->
            st := s';
            List.iter (function
              | XInv (_, _) -> Printf.printf "I %d\n" t
              | XRes (_, r) -> Printf.printf "R %d %s\n" t (string_of_xres r)
              | XStep (_, k) -> Printf.printf "S %d %s en=%s\n" t (string_of_kind k) ens
              | XFn (_, k) -> Printf.printf "F %d %s\n" t (string_of_z k)
              | XVisit (_, k, v) -> Printf.printf "V %d %s %s\n" t (string_of_z k) (string_of_z v)) ls)
        (List.rev !sched)
    with Exit -> ());
    (* quiescent layout of the current table *)
    let tb = x_cur_table !st in
    let b = Buffer.create 256 in
    Buffer.add_string b (Printf.sprintf "FINAL len=%d seed=%s size=%s chains="
      (List.length tb.x_chains) (string_of_n tb.x_seed)
      (string_of_z (List.fold_left (fun a x -> Z.add a x) Z0 tb.x_size)));
    List.iteri (fun i ch ->
      if List.for_all (fun s -> s.s_tag = None && s.s_ent = None) ch && List.length ch = 5 then ()
      else begin
        Buffer.add_string b (Printf.sprintf "%d:" i);
        List.iteri (fun j s ->
          if j > 0 then Buffer.add_char b (if j mod 5 = 0 then '|' else ',');
          (match s.s_ent with Some (k, _) -> Buffer.add_string b (string_of_z k) | None -> Buffer.add_char b '-');
          Buffer.add_char b '/';
          (match s.s_tag with Some t -> Buffer.add_string b (string_of_n t) | None -> Buffer.add_string b "128")) ch;
        Buffer.add_char b ';'
      end) tb.x_chains;
    print_endline (Buffer.contents b);
    print_endline "END" in
  let cur_id = ref "" in
  (try
    while true do
      let line = input_line stdin in
      match split line with
      | [] -> ()
      | "XCASE" :: id :: presize :: _ ->
          cur_id := id; hint := z_of_string presize; oracle := []; seeds := []; setup := [];
          Hashtbl.reset threads; sched := []; nthreads := 0
      | ["SEED"; _g; s] -> seeds := n_of_string s :: !seeds
      | ["HASH"; k; s; h] -> oracle := ((z_of_string k, n_of_string s), n_of_string h) :: !oracle
      | "SETUP" :: toks -> setup := op_of_tokens toks :: !setup
      | "THREAD" :: t :: toks ->
          let t = int_of_string t in
          if t + 1 > !nthreads then nthreads := t + 1;
          let old = try Hashtbl.find threads t with Not_found -> [] in
          Hashtbl.replace threads t (op_of_tokens toks :: old)
      | "NTHREADS" :: n :: _ -> nthreads := int_of_string n
      | "SCHED" :: ts -> sched := List.rev_append (List.map int_of_string ts) !sched
      | ["END"] -> flush_case !cur_id
      | _ -> failwith ("bad line: " ^ line)
    done
  with End_of_file -> ())
