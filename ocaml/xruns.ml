(* xruns.ml -- replays a schedule on the extracted XMachineS (Map, map.go) and
   prints one line per scheduling step: thread, primitive kind, value class (for
   the Uint64 primitives the exact value of the topHashMutex word), and the set
   of threads enabled before the step; plus invocation / response /
   user-function / visit events and the final layout.  Hand-written glue only.
   Input as for xrun; a value is a decimal integer or "nil". *)
open Model

(* ---------- Z / nat conversion ---------- *)
let rec nat_of_int n = if n <= 0 then O else S (nat_of_int (n - 1))
let rec int_of_nat = function O -> 0 | S n -> 1 + int_of_nat n

let rec pos_of_int n =
  if n = 1 then XH else if n land 1 = 0 then XO (pos_of_int (n lsr 1)) else XI (pos_of_int (n lsr 1))
let z_of_small n = if n = 0 then Z0 else if n > 0 then Zpos (pos_of_int n) else Zneg (pos_of_int (-n))
let zneg = function Z0 -> Z0 | Zpos p -> Zneg p | Zneg p -> Zpos p

let z_of_string s =
  let neg = String.length s > 0 && s.[0] = '-' in
  let acc = ref Z0 in
  String.iteri (fun i c ->
    if i = 0 && c = '-' then ()
    else if c >= '0' && c <= '9' then acc := z_push_digit !acc (z_of_small (Char.code c - 48))
    else failwith ("bad integer: " ^ s)) s;
  if neg then zneg !acc else !acc

let string_of_z z =
  let ds = z_digits z in
  let b = Buffer.create 20 in
  if z_is_neg z then Buffer.add_char b '-';
  List.iter (fun d -> Buffer.add_char b (Char.chr (48 + int_of_nat (z_small d)))) ds;
  Buffer.contents b

let n_of_string s = match z_of_string s with Z0 -> N0 | Zpos p -> Npos p | Zneg _ -> failwith "negative N"
let string_of_n = function N0 -> "0" | Npos p -> string_of_z (Zpos p)
let split s = List.filter (fun t -> t <> "") (String.split_on_char ' ' s)
let b01 b = if b then "1" else "0"

(* ---------- values: option Z, None = nil interface ---------- *)
let v_of_string s : sval = if s = "nil" then None else Some (z_of_string s)
let string_of_v (v : sval) = match v with None -> "nil" | Some z -> string_of_z z

let op_of_tokens toks : sop_z =
  let z = z_of_string and v = v_of_string in
  match toks with
  | ["load"; k] -> SLoad (z k)
  | ["store"; k; x] -> s_store (z k) (v x)
  | ["loadorstore"; k; x] -> s_loadorstore (z k) (v x)
  | ["loadandstore"; k; x] -> s_loadandstore (z k) (v x)
  | ["loadorcompute"; k; x] -> s_loadorcompute (z k) (v x)
  | ["compute"; k; "set"; x] -> s_compute (z k) (XFSet (z x))
  | ["compute"; k; "incr"; _] -> s_compute (z k) XFIncr
  | ["compute"; k; "del"; _] -> s_compute (z k) XFDel
  | ["compute"; k; "delif"; x] -> s_compute (z k) (XFDelIf (z x))
  | ["compute"; k; "noopdelabs"; _] -> s_compute (z k) XFNoopDelAbs
  | ["loadanddelete"; k] | ["delete"; k] -> s_loadanddelete (z k)
  | ["clear"] -> SClear
  | ["size"] -> SSize
  | ["range"] -> s_range_all
  | ["range"; "del"] -> s_range_del
  | ["range"; "store"; x] -> s_range_store (z x)
  | ["range"; "ins"; x] -> s_range_ins (z x)
  | _ -> failwith ("bad op: " ^ String.concat " " toks)

let string_of_kind = function
  | SKLoadPtr nil -> "LoadPointer " ^ (if nil then "nil" else "nonnil")
  | SKStorePtr nil -> "StorePointer " ^ (if nil then "nil" else "nonnil")
  | SKLoadU64 w -> "LoadUint64 " ^ string_of_n w
  | SKStoreU64 w -> "StoreUint64 " ^ string_of_n w
  | SKCASU64 ok -> "CASUint64 " ^ (if ok then "ok" else "fail")
  | SKLoadI64 v -> "LoadInt64 " ^ string_of_z v
  | SKStoreI64 v -> "StoreInt64 " ^ string_of_z v
  | SKAddI64 v -> "AddInt64 " ^ string_of_z v
  | SKCASI64 ok -> "CASInt64 " ^ (if ok then "ok" else "fail")
  | SKLock relock -> "Lock " ^ (if relock then "relock" else "acq")
  | SKUnlock -> "Unlock -"
  | SKWait -> "Wait -"
  | SKBcast _ -> "Broadcast *"
  | SKGosched -> "Gosched -"
  | SKStart -> "start -"

(* a result: the zero value (absent) and a stored nil both print as nil *)
let string_of_sres = function
  | SRVal (v, ok) -> Printf.sprintf "val %s %s" (match v with Some x -> string_of_v x | None -> "nil") (b01 ok)
  | SRNat n -> "nat " ^ string_of_z n
  | SRUnit -> "unit"

(* names of the program counters, for the coverage line (XRUNS_COV=1) *)
let pc_name = function
  | QStart -> "Start" | QIdle -> "Idle" | QRet _ -> "Ret"
  | QL_Table _ -> "L_Table" | QL_Top _ -> "L_Top" | QL_Val _ -> "L_Val" | QL_Key _ -> "L_Key"
  | QL_Val2 _ -> "L_Val2" | QL_Next _ -> "L_Next"
  | QK_Load (_, _, lk) | QK_Spin (_, _, lk) | QK_CAS (_, _, _, lk) | QK_Yield (_, _, lk) as p ->
      (match p with QK_Load _ -> "K_Load" | QK_Spin _ -> "K_Spin" | QK_CAS _ -> "K_CAS" | _ -> "K_Yield")
      ^ (match lk with LKCompute _ -> "/compute" | LKCopy _ -> "/copy" | LKRange _ -> "/range")
  | QU_Load _ -> "U_Load" | QU_Store _ -> "U_Store"
  | QW_Table _ -> "W_Table" | QW_ChkRes _ -> "W_ChkRes" | QW_ChkTab _ -> "W_ChkTab" | QW_Scan _ -> "W_Scan"
  | QW_D1 _ -> "W_D1" | QW_D2 _ -> "W_D2" | QW_D3 _ -> "W_D3" | QW_U1 _ -> "W_U1"
  | QW_I0 _ -> "W_I0" | QW_I1 _ -> "W_I1" | QW_I2 _ -> "W_I2" | QW_I3 _ -> "W_I3"
  | QW_Sum _ -> "W_Sum" | QW_N1 _ -> "W_N1" | QA_Add _ -> "A_Add"
  | QR_FastSum _ -> "R_FastSum" | QR_CAS (h, _) -> "R_CAS" ^ (match h with SHGrow -> "/grow" | SHShrink -> "/shrink" | SHClear -> "/clear")
  | QR_Table _ -> "R_Table" | QR_ShSum _ -> "R_ShSum"
  | QR_Stat (h, _, _) -> "R_Stat" ^ (match h with SHGrow -> "/grow" | _ -> "/shrink")
  | QR_Publish _ -> "R_Publish" | QR_FinLock _ -> "R_FinLock" | QR_FinStore _ -> "R_FinStore"
  | QR_FinBcast _ -> "R_FinBcast" | QR_FinUnlock _ -> "R_FinUnlock"
  | QT_Lock (h, _) -> "T_Lock" ^ (match h with None -> "/compute" | Some SHClear -> "/clear" | Some _ -> "/resize")
  | QT_Load _ -> "T_Load" | QT_Wait _ -> "T_Wait" | QT_Waiting _ -> "T_Waiting" | QT_Relock _ -> "T_Relock" | QT_Unlock _ -> "T_Unlock"
  | QG_Table _ -> "G_Table" | QS_Table -> "S_Table" | QS_Sum _ -> "S_Sum" | QC_Table -> "C_Table"

let nslots = 3
(* the sequential setup runs as a thread of its own; a small id, thread ids are unary numbers *)
let setup_tid = 64

let want_cov = (try Sys.getenv "XRUNS_COV" = "1" with Not_found -> false)

let () =
  let oracle = ref [] and seeds = ref [] and hint = ref Z0 in
  let setup = ref [] and threads = Hashtbl.create 8 and sched = ref [] in
  let nthreads = ref 0 in
  let flush_case id =
    let thr t = if t = setup_tid then List.rev !setup else (try List.rev (Hashtbl.find threads t) with Not_found -> []) in
    let todo n = thr (int_of_nat n) in
    let st = ref (s_machine_init (List.rev !seeds) !hint todo) in
    let step t = s_machine_step !oracle (List.rev !seeds) !hint !st (nat_of_int t) in
    Printf.printf "XCASE %s\n" id;
    (* the sequential setup: thread setup_tid runs alone until it has nothing to do *)
    let continue = ref true in
    while !continue do
      match step setup_tid with
      | Some (s', _) -> st := s'
      | None -> continue := false
    done;
    (* the schedule *)
    let cov = Hashtbl.create 64 in
    let note n = Hashtbl.replace cov n (1 + try Hashtbl.find cov n with Not_found -> 0) in
    (try
      List.iter (fun t ->
        if want_cov then begin
          let p = !st.h_pc (nat_of_int t) in
          note (pc_name p);
          if !st.h_frame (nat_of_int t) <> None then note "in-visitor-call";
          (* the reader's snapshot: did the second value load see another pointer? CAS lost? *)
          (match p, step t with
           | QL_Val2 _, Some (s', _) -> (match s'.h_pc (nat_of_int t) with QL_Val _ -> note "L_Val2:retry" | _ -> ())
           | QL_Key (_, _, _, _, _, _, vp), Some (s', _) ->
               (match s'.h_pc (nat_of_int t) with
                | QL_Val2 _ -> ()
                | _ -> note (if vp = None then "L_Key:value-nil" else "L_Key:miss"))
           | QK_CAS _, Some (s', _) -> (match s'.h_pc (nat_of_int t) with QK_Yield _ -> note "K_CAS:fail" | _ -> ())
           | QW_Scan (_, _, bi, _, _), _ -> if bi <> O then note "W_Scan:chained"
           | QL_Top (_, _, _, _, bi), _ -> if bi <> O then note "L_Top:chained"
           | _ -> ())
        end;
        let en = List.filter (fun u -> match step u with Some _ -> true | None -> false)
                   (List.init !nthreads (fun i -> i)) in
        let ens = String.concat "," (List.map string_of_int en) in
        match step t with
        | None -> Printf.printf "DISABLED %d en=%s\n" t ens; raise Exit
        | Some (s', ls) ->
            st := s';
            List.iter (function
              | SInv (_, _) -> Printf.printf "I %d\n" t
              | SRes (_, r) -> Printf.printf "R %d %s\n" t (string_of_sres r)
              | SStep (_, k) -> Printf.printf "S %d %s en=%s\n" t (string_of_kind k) ens
              | SFn (_, k, old) ->
                  Printf.printf "F %d %s %s\n" t (string_of_z k)
                    (match old with Some v -> string_of_v v ^ " 1" | None -> "nil 0")
              | SVisit (_, k, v) -> Printf.printf "V %d %s %s\n" t (string_of_z k) (string_of_v v)
              | SSubInv (_, k) -> Printf.printf "IS %d %s\n" t (string_of_z k)
              | SSubRes (_, r) -> Printf.printf "RS %d %s\n" t (string_of_sres r)) ls)
        (List.rev !sched)
    with Exit -> ());
    if want_cov then
      Printf.printf "COV %s\n" (String.concat " " (Hashtbl.fold (fun k v acc -> Printf.sprintf "%s=%d" k v :: acc) cov []));
    (* quiescent layout of the current table: per chain, per slot key/presence bit/top hash *)
    let tb = s_cur_table !st in
    let b = Buffer.create 256 in
    Buffer.add_string b (Printf.sprintf "FINAL len=%d seed=%s size=%s resizing=%s growths=%s shrinks=%s chains="
      (List.length tb.m_chains) (string_of_n tb.m_seed)
      (string_of_z (List.fold_left (fun a x -> Z.add a x) Z0 tb.m_size))
      (b01 !st.h_resizing) (string_of_z !st.h_growths) (string_of_z !st.h_shrinks));
    let pairs = ref [] in
    List.iteri (fun i ch ->
      let ws = try List.nth tb.m_words i with _ -> [] in
      let tops = List.concat (List.map (fun w -> w.w_top) ws) in
      let locked = List.exists (fun w -> w.w_lock <> None) ws in
      List.iter (fun s -> match s.ms_key, s.ms_val with
        | Some k, Some (v, _) -> pairs := (string_of_z k ^ ":" ^ string_of_v v) :: !pairs
        | Some k, None -> pairs := (string_of_z k ^ ":NOVALUE") :: !pairs
        | _ -> ()) ch;
      if List.length ch = nslots && not locked && List.for_all (fun s -> s.ms_key = None) ch
         && List.for_all (fun (p, th) -> not p && th = N0) tops then ()
      else begin
        Buffer.add_string b (Printf.sprintf "%d:" i);
        if locked then Buffer.add_char b 'L';
        List.iteri (fun j s ->
          if j > 0 then Buffer.add_char b (if j mod nslots = 0 then '|' else ',');
          (match s.ms_key with Some k -> Buffer.add_string b (string_of_z k) | None -> Buffer.add_char b '-');
          let (p, th) = try List.nth tops j with _ -> (false, N0) in
          Buffer.add_string b (Printf.sprintf "/%s/%s" (b01 p) (string_of_n th))) ch;
        Buffer.add_char b ';'
      end) tb.m_chains;
    Buffer.add_string b " pairs=";
    Buffer.add_string b (String.concat "," (List.rev !pairs));
    print_endline (Buffer.contents b);
    print_endline "END" in
  let cur_id = ref "" in
  (try
    while true do
      let line = input_line stdin in
      match split line with
      | [] -> ()
      | "XCASE" :: id :: presize :: _ ->
          cur_id := id; hint := z_of_string presize; oracle := []; seeds := []; setup := [];
          Hashtbl.reset threads; sched := []; nthreads := 0
      | ["SEED"; _g; s] -> seeds := n_of_string s :: !seeds
      | ["HASH"; k; s; h] -> oracle := ((z_of_string k, n_of_string s), n_of_string h) :: !oracle
      | "SETUP" :: toks -> setup := op_of_tokens toks :: !setup
      | "THREAD" :: t :: toks ->
          let t = int_of_string t in
          if t + 1 > !nthreads then nthreads := t + 1;
          let old = try Hashtbl.find threads t with Not_found -> [] in
          Hashtbl.replace threads t (op_of_tokens toks :: old)
      | "NTHREADS" :: n :: _ -> nthreads := int_of_string n
      | "SCHED" :: ts -> sched := List.rev_append (List.map int_of_string ts) !sched
      | ["END"] -> flush_case !cur_id
      | _ -> failwith ("bad line: " ^ line)
    done
  with End_of_file -> ())
