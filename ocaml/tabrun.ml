(* tabrun.ml -- runs the extracted TableModel on a table case file (with the
   seed / hash oracle observed on the implementation) and prints one canonical
   line per call, and the physical layout on request.  Hand-written glue only. *)
open Model

(* ---------- Z / nat conversion ---------- *)
let rec nat_of_int n = if n <= 0 then O else S (nat_of_int (n - 1))
let rec int_of_nat = function O -> 0 | S n -> 1 + int_of_nat n

let rec pos_of_int n =
  if n = 1 then XH else if n land 1 = 0 then XO (pos_of_int (n lsr 1)) else XI (pos_of_int (n lsr 1))
let z_of_small n = if n = 0 then Z0 else if n > 0 then Zpos (pos_of_int n) else Zneg (pos_of_int (-n))
let zneg = function Z0 -> Z0 | Zpos p -> Zneg p | Zneg p -> Zpos p

let z_of_string s =
  let neg = String.length s > 0 && s.[0] = '-' in
  let acc = ref Z0 in
  String.iteri (fun i c ->
    if i = 0 && c = '-' then ()
    else if c >= '0' && c <= '9' then acc := z_push_digit !acc (z_of_small (Char.code c - 48))
    else failwith ("bad integer: " ^ s)) s;
  if neg then zneg !acc else !acc

let string_of_z z =
  let ds = z_digits z in
  let b = Buffer.create 20 in
  if z_is_neg z then Buffer.add_char b '-';
  List.iter (fun d -> Buffer.add_char b (Char.chr (48 + int_of_nat (z_small d)))) ds;
  Buffer.contents b

let cb_of_string s = if s = "-" then None else Some (nat_of_int (int_of_string s))
let string_of_cb = function None -> "-" | Some n -> string_of_int (int_of_nat n)

(* ---------- printing ---------- *)
let b01 b = if b then "1" else "0"
let pairs l = String.concat "," (List.map (fun (k, v) -> string_of_z k ^ ":" ^ string_of_z v) l)

let string_of_res = function
  | CUnit -> "unit"
  | CVal (v, ok) -> Printf.sprintf "val %s %s" (string_of_z v) (b01 ok)
  | CValExp (v, e, ok) -> Printf.sprintf "valexp %s %s %s" (string_of_z v) (string_of_z e) (b01 ok)
  | CValTTL (v, t, ok) -> Printf.sprintf "valttl %s %s %s" (string_of_z v) (string_of_z t) (b01 ok)
  | CNat n -> Printf.sprintf "nat %d" (int_of_nat n)
  | CDur d -> Printf.sprintf "dur %s" (string_of_z d)
  | CCb c -> Printf.sprintf "cb %s" (string_of_cb c)
  | CList l -> Printf.sprintf "list %s" (pairs l)

let string_of_event = function
  | EFire (c, k, v) -> Printf.sprintf "fire:%d:%s:%s" (int_of_nat c) (string_of_z k) (string_of_z v)
  | EFn k -> Printf.sprintf "fn:%s" (string_of_z k)
  | EVisit (k, v) -> Printf.sprintf "visit:%s:%s" (string_of_z k) (string_of_z v)

(* compare Z values through their decimal form (only used to sort output) *)
let zcmp a b =
  let sa = string_of_z a and sb = string_of_z b in
  let na = sa.[0] = '-' and nb = sb.[0] = '-' in
  if na && not nb then -1 else if nb && not na then 1
  else
    let c = compare (String.length sa) (String.length sb) in
    let c = if c <> 0 then c else compare sa sb in
    if na then -c else c


let n_of_string s = match z_of_string s with Z0 -> N0 | Zpos p -> Npos p | Zneg _ -> failwith "negative N"
let string_of_n = function N0 -> "0" | Npos p -> string_of_z (Zpos p)

let fnid_of name arg = match name with
  | "set" -> FnSet (z_of_string arg)
  | "incr" -> FnIncr
  | "delret" -> FnDelRet (z_of_string arg)
  | "delifloaded" -> FnDelIfLoaded (z_of_string arg)
  | "delifabsent" -> FnDelIfAbsent (z_of_string arg)
  | _ -> failwith ("bad fn " ^ name)

let split s = List.filter (fun t -> t <> "") (String.split_on_char ' ' s)

let layout_string nslots (t : (z, z) table) =
  let b = Buffer.create 256 in
  Buffer.add_string b (Printf.sprintf "layout len=%d seed=%s size=%d chains="
    (List.length t.t_chains) (string_of_n t.t_seed) (int_of_nat t.t_size));
  List.iteri (fun i ch ->
    let empty = List.for_all (fun s -> s = None) ch in
    if empty && List.length ch = nslots then ()
    else begin
      Buffer.add_string b (Printf.sprintf "%d:" i);
      List.iteri (fun j s ->
        if j > 0 then Buffer.add_char b (if j mod nslots = 0 then '|' else ',');
        match s with
        | None -> Buffer.add_char b '-'
        | Some ((tg, k), _) -> Buffer.add_string b (string_of_z k ^ "/" ^ string_of_n tg)) ch;
      Buffer.add_char b ';'
    end) t.t_chains;
  Buffer.contents b

let () =
  let variant = ref false and zero = ref Z0 and hint = ref Z0 in
  let oracle = ref [] and seeds = ref [] in
  let st = ref None and idx = ref 0 in
  let nslots () = if !variant then 5 else 3 in
  let ensure () = match !st with
    | Some _ -> ()
    | None ->
        let m = x_tab_new !variant (List.rev !seeds) !hint in
        st := Some m;
        Printf.printf "built minlen=%d\n" (int_of_nat m.tm_minlen) in
  (try
    while true do
      let line = input_line stdin in
      match split line with
      | [] -> ()
      | "CASE" :: id :: impl :: zs :: _hasher :: presize :: _ ->
          variant := (impl <> "map"); zero := z_of_string zs; hint := z_of_string presize;
          oracle := []; seeds := []; st := None; idx := 0;
          Printf.printf "CASE %s\n" id
      | ["SEED"; _g; s] -> seeds := n_of_string s :: !seeds
      | ["HASH"; k; s; h] -> oracle := ((z_of_string k, n_of_string s), n_of_string h) :: !oracle
      | ["END"] -> ensure (); print_string "END\n"
      | "OP" :: toks ->
          ensure ();
          let m = match !st with Some m -> m | None -> assert false in
          let z = z_of_string in
          let run op =
            match x_tab_step !variant !oracle (List.rev !seeds) m op with
            | Some (m', r) -> st := Some m'; Some r
            | None -> None in
          let show = function
            | Some (RVal (v, ok, a)) ->
                Printf.sprintf "val %s %s" (match v with Some v -> string_of_z v | None -> string_of_z !zero) (b01 ok)
            | Some RUnit -> "unit"
            | Some (RSize n) -> Printf.sprintf "nat %d" (int_of_nat n)
            | Some (RSnap l) -> "list " ^ pairs l
            | None -> "OUT-OF-FUEL" in
          let fn_ev k = function Some (RVal (_, _, Some _)) -> "fn:" ^ k | _ -> "" in
          let line = match toks with
            | ["load"; k] -> show (run (MLoad (z k))) ^ " ; "
            | ["store"; k; v] -> show (run (MStore (z k, z v))) ^ " ; "
            | ["loadorstore"; k; v] -> show (run (MLoadOrStore (z k, z v))) ^ " ; "
            | ["loadandstore"; k; v] -> show (run (MLoadAndStore (z k, z v))) ^ " ; "
            | ["loadorcompute"; k; v] -> let r = run (x_loadorcompute_op (z k) (z v)) in show r ^ " ; " ^ fn_ev k r
            | ["compute"; k; fn; arg] -> let r = run (x_compute_op !zero (z k) (fnid_of fn arg)) in show r ^ " ; " ^ fn_ev k r
            | ["loadanddelete"; k] -> show (run (MLoadAndDelete (z k))) ^ " ; "
            | ["delete"; k] -> show (run (MDelete (z k))) ^ " ; "
            | ["clear"] -> show (run MClear) ^ " ; "
            | ["size"] -> show (run MSize) ^ " ; "
            | "range" :: vis :: rest ->
                (match run MSnapshot with
                 | Some (RSnap l) ->
                     let l = match vis, rest with
                       | "stopkey", k :: _ ->
                           let kz = z k in
                           let rec upto = function [] -> [] | (k', v) :: t -> if k' = kz then [(k', v)] else (k', v) :: upto t in
                           upto l
                       | _ -> l in
                     "list " ^ pairs l ^ " ; "
                 | _ -> "OUT-OF-FUEL ; ")
            | ["layout"] -> layout_string (nslots ()) (x_tab_cur (match !st with Some m -> m | None -> m))
            | _ -> failwith ("bad op: " ^ line) in
          Printf.printf "%d %s\n" !idx line;
          incr idx
      | _ -> failwith ("bad line: " ^ line)
    done
  with End_of_file -> ())
