(* modelrun.ml -- runs the extracted cache models on a case file and prints one
   canonical line per call.  Hand-written glue: parsing, decimal <-> Z, printing.
   Everything that decides behaviour is in Model (extracted from Coq). *)
open Model

(* ---------- Z / nat conversion ---------- *)
let rec nat_of_int n = if n <= 0 then O else S (nat_of_int (n - 1))
let rec int_of_nat = function O -> 0 | S n -> 1 + int_of_nat n

let rec pos_of_int n =
  if n = 1 then XH else if n land 1 = 0 then XO (pos_of_int (n lsr 1)) else XI (pos_of_int (n lsr 1))
let z_of_small n = if n = 0 then Z0 else if n > 0 then Zpos (pos_of_int n) else Zneg (pos_of_int (-n))
let zneg = function Z0 -> Z0 | Zpos p -> Zneg p | Zneg p -> Zpos p

let z_of_string s =
  let neg = String.length s > 0 && s.[0] = '-' in
  let acc = ref Z0 in
  String.iteri (fun i c ->
    if i = 0 && c = '-' then ()
    else if c >= '0' && c <= '9' then acc := z_push_digit !acc (z_of_small (Char.code c - 48))
    else failwith ("bad integer: " ^ s)) s;
  if neg then zneg !acc else !acc

let string_of_z z =
  let ds = z_digits z in
  let b = Buffer.create 20 in
  if z_is_neg z then Buffer.add_char b '-';
  List.iter (fun d -> Buffer.add_char b (Char.chr (48 + int_of_nat (z_small d)))) ds;
  Buffer.contents b

let cb_of_string s = if s = "-" then None else Some (nat_of_int (int_of_string s))
let string_of_cb = function None -> "-" | Some n -> string_of_int (int_of_nat n)

(* ---------- printing ---------- *)
let b01 b = if b then "1" else "0"
let pairs l = String.concat "," (List.map (fun (k, v) -> string_of_z k ^ ":" ^ string_of_z v) l)

let string_of_res = function
  | CUnit -> "unit"
  | CVal (v, ok) -> Printf.sprintf "val %s %s" (string_of_z v) (b01 ok)
  | CValExp (v, e, ok) -> Printf.sprintf "valexp %s %s %s" (string_of_z v) (string_of_z e) (b01 ok)
  | CValTTL (v, t, ok) -> Printf.sprintf "valttl %s %s %s" (string_of_z v) (string_of_z t) (b01 ok)
  | CNat n -> Printf.sprintf "nat %d" (int_of_nat n)
  | CDur d -> Printf.sprintf "dur %s" (string_of_z d)
  | CCb c -> Printf.sprintf "cb %s" (string_of_cb c)
  | CList l -> Printf.sprintf "list %s" (pairs l)

let string_of_event = function
  | EFire (c, k, v) -> Printf.sprintf "fire:%d:%s:%s" (int_of_nat c) (string_of_z k) (string_of_z v)
  | EFn k -> Printf.sprintf "fn:%s" (string_of_z k)
  | EVisit (k, v) -> Printf.sprintf "visit:%s:%s" (string_of_z k) (string_of_z v)

(* compare Z values through their decimal form (only used to sort output) *)
let zcmp a b =
  let sa = string_of_z a and sb = string_of_z b in
  let na = sa.[0] = '-' and nb = sb.[0] = '-' in
  if na && not nb then -1 else if nb && not na then 1
  else
    let c = compare (String.length sa) (String.length sb) in
    let c = if c <> 0 then c else compare sa sb in
    if na then -c else c

(* ---------- parsing ops ---------- *)
let fn_of_tokens zero name arg =
  let f = match name with
    | "set" -> FnSet (z_of_string arg)
    | "incr" -> FnIncr
    | "delret" -> FnDelRet (z_of_string arg)
    | "delifloaded" -> FnDelIfLoaded (z_of_string arg)
    | "delifabsent" -> FnDelIfAbsent (z_of_string arg)
    | _ -> failwith ("bad fn " ^ name) in
  fn_of zero f

let vis_of_tokens name arg =
  vis_of (match name with
    | "nil" -> VNil
    | "all" -> VAll
    | "stopkey" -> VStopKey (z_of_string arg)
    | "stopvalge" -> VStopValGe (z_of_string arg)
    | _ -> failwith ("bad visitor " ^ name))

let op_of_tokens zero toks : (z, z) cop =
  let z = z_of_string in
  match toks with
  | ["set"; k; v; d] -> OSet (z k, z v, z d)
  | ["setdefault"; k; v] -> OSetDefault (z k, z v)
  | ["setforever"; k; v] -> OSetForever (z k, z v)
  | ["get"; k] -> OGet (z k)
  | ["getexp"; k] -> OGetWithExpiration (z k)
  | ["getttl"; k] -> OGetWithTTL (z k)
  | ["getorset"; k; v; d] -> OGetOrSet (z k, z v, z d)
  | ["getandset"; k; v; d] -> OGetAndSet (z k, z v, z d)
  | ["getandrefresh"; k; d] -> OGetAndRefresh (z k, z d)
  | ["getorcompute"; k; v; d] -> OGetOrCompute (z k, z v, z d)
  | ["compute"; k; fn; arg; d] -> OCompute (z k, fn_of_tokens zero fn arg, z d)
  | ["getanddelete"; k] -> OGetAndDelete (z k)
  | ["delete"; k] -> ODelete (z k)
  | ["deleteexpired"] -> ODeleteExpired
  | "range" :: vis :: arg :: hint -> ORange (vis_of_tokens vis arg, List.map z hint)
  | "items" :: hint -> OItems (List.map z hint)
  | ["clear"] -> OClear
  | ["count"] -> OCount
  | ["getdflt"] -> OGetDflt
  | ["setdflt"; d] -> OSetDflt (z d)
  | ["getcb"] -> OGetCb
  | ["setcb"; c] -> OSetCb (cb_of_string c)
  | ["advance"; dt] -> OAdvance (z dt)
  | _ -> failwith ("bad op: " ^ String.concat " " toks)

(* ---------- parsing results (check mode) ---------- *)
let res_of_tokens toks : (z, z) cres =
  let z = z_of_string in
  let b s = (s = "1") in
  match toks with
  | ["unit"] -> CUnit
  | ["val"; v; ok] -> CVal (z v, b ok)
  | ["valexp"; v; e; ok] -> CValExp (z v, z e, b ok)
  | ["valttl"; v; t; ok] -> CValTTL (z v, z t, b ok)
  | ["nat"; n] -> CNat (nat_of_int (int_of_string n))
  | ["dur"; d] -> CDur (z d)
  | ["cb"; c] -> CCb (cb_of_string c)
  | "list" :: rest ->
      let ps = match rest with [] -> [] | [s] -> String.split_on_char ',' s | _ -> failwith "bad list" in
      CList (List.map (fun p -> match String.split_on_char ':' p with
                                | [k; v] -> (z k, z v) | _ -> failwith "bad pair") (List.filter (fun p -> p <> "") ps))
  | _ -> failwith ("bad result: " ^ String.concat " " toks)

(* ---------- main loop ---------- *)
let split s = List.filter (fun t -> t <> "") (String.split_on_char ' ' s)

let dump_state st =
  let l = List.sort (fun (a, _) (b, _) -> zcmp a b) st.st_map in
  Printf.printf "dump now=%s dflt=%s cb=%s n=%d %s\n" (string_of_z st.st_now) (string_of_z st.st_dflt)
    (string_of_cb st.st_cb) (List.length l)
    (String.concat "," (List.map (fun (k, i) ->
       string_of_z k ^ ":" ^ string_of_z i.iv ^ ":" ^ string_of_z i.ie) l))

let () =
  let generic = ref false and zero = ref Z0 and now0 = ref Z0 in
  let opts = ref [] in
  let st = ref None in
  let idx = ref 0 in
  let check_mode = Array.length Sys.argv > 1 && Sys.argv.(1) = "--check" in
  let pending = ref None in
  let start b =
    st := Some b.xb_state; idx := 0;
    Printf.printf "built janitor=%s interval=%s presize=%s dflt=%s cb=%s\n" (b01 b.xb_janitor)
      (string_of_z b.xb_interval) (string_of_z b.xb_presize) (string_of_z b.xb_state.st_dflt)
      (string_of_cb b.xb_state.st_cb) in
  let ensure_started () =
    match !st with
    | Some _ -> ()
    | None -> start (x_new !generic !now0 (List.rev !opts)) in
  (try
    while true do
      let line = input_line stdin in
      match split line with
      | [] -> ()
      | "CASE" :: id :: impl :: zs :: ns :: _ ->
          generic := (impl = "cacheof"); zero := z_of_string zs; now0 := z_of_string ns;
          opts := []; st := None;
          Printf.printf "CASE %s\n" id
      | ["NEW"] -> ()
      | ["OPT"; "dflt"; d] -> opts := XDflt (z_of_string d) :: !opts
      | ["OPT"; "interval"; d] -> opts := XInterval (z_of_string d) :: !opts
      | ["OPT"; "cb"; c] -> opts := XCb (cb_of_string c) :: !opts
      | ["OPT"; "mincap"; n] -> opts := XMinCap (z_of_string n) :: !opts
      | "NEWDEFAULT" :: d :: i :: cbs ->
          start (x_newdefault !generic !now0 (z_of_string d) (z_of_string i) (List.map cb_of_string cbs))
      | ["OP"; "dump"] when check_mode -> ensure_started (); Printf.printf "%d ok\n" !idx; incr idx
      | ["OP"; "dump"] ->
          ensure_started ();
          (match !st with Some s -> Printf.printf "%d " !idx; dump_state s | None -> ());
          incr idx
      | "OP" :: toks when check_mode ->
          ensure_started ();
          pending := Some (op_of_tokens !zero toks)
      | "RES" :: toks ->
          (match !st, !pending with
           | Some s, Some op ->
               let r = res_of_tokens toks in
               Printf.printf "%d %s\n" !idx (if x_spec_okb !zero s op r then "ok" else "BAD");
               st := Some (x_spec_next !zero s op);
               pending := None; incr idx
           | _ -> failwith "RES without OP")
      | "OP" :: toks ->
          ensure_started ();
          (match !st with
           | Some s ->
               let op = op_of_tokens !zero toks in
               let ((s', r), evs) = x_step !generic !zero s op in
               st := Some s';
               let r = match op, r with
                 | OItems _, CList l -> CList (List.sort (fun (a, _) (b, _) -> zcmp a b) l)
                 | _, r -> r in
               let evs = match op with OItems _ -> [] | _ -> evs in
               Printf.printf "%d %s ; %s\n" !idx (string_of_res r)
                 (String.concat " " (List.map string_of_event evs));
               incr idx
           | None -> ())
      | ["END"] -> ensure_started (); print_string "END\n"
      | _ -> failwith ("bad line: " ^ line)
    done
  with End_of_file -> ())
