// Command gen prints random scenarios for cmd/verifsched, one JSON object per
// line. Deterministic: same flags => same output. Every written value is
// unique within a scenario (needed by the callback checks of lincheck), except
// for the "incr" compute function which is only generated for maps.
package main

import (
	"bufio"
	"encoding/json"
	"flag"
	"fmt"
	"os"
)

type rng uint64

func (r *rng) next() uint64 {
	*r += 0x9E3779B97F4A7C15
	z := uint64(*r)
	z = (z ^ (z >> 30)) * 0xBF58476D1CE4E5B9
	z = (z ^ (z >> 27)) * 0x94D049BB133111EB
	return z ^ (z >> 31)
}

func (r *rng) intn(n int) int { return int(r.next() % uint64(n)) }

type op map[string]interface{}

type sched struct {
	Kind  string `json:"kind"`
	Seed  uint64 `json:"seed"`
	Depth int    `json:"depth,omitempty"`
}

type scenario struct {
	ID        string `json:"id"`
	Container string `json:"container"`
	Hasher    string `json:"hasher,omitempty"`
	Presize   int    `json:"presize,omitempty"`
	Dflt      int64  `json:"dflt,omitempty"`
	Cb        bool   `json:"cb,omitempty"`
	Setup     []op   `json:"setup"`
	Threads   [][]op `json:"threads"`
	Sched     sched  `json:"sched"`
	MaxSteps  int    `json:"max_steps"`
	Layout    bool   `json:"layout"`
	Trace     bool   `json:"trace,omitempty"`
}

type gen struct {
	r       rng
	cache   bool
	keys    int
	nextVal int64
	clearP  int // per-mille probability of Clear
}

func (g *gen) val() int64 { g.nextVal++; return g.nextVal }

func (g *gen) key() int { return g.r.intn(g.keys) }

var durations = []int64{0, -1_000_000_000, -2_000_000_000, 1000, 1_000_000_000}

func (g *gen) dur() int64 { return durations[g.r.intn(len(durations))] }

func (g *gen) mapOp() op {
	if g.r.intn(1000) < g.clearP {
		return op{"op": "Clear"}
	}
	k := g.key()
	switch g.r.intn(14) {
	case 0, 1:
		return op{"op": "Load", "k": k}
	case 2, 3:
		return op{"op": "Store", "k": k, "v": g.val()}
	case 4:
		return op{"op": "LoadOrStore", "k": k, "v": g.val()}
	case 5:
		return op{"op": "LoadAndStore", "k": k, "v": g.val()}
	case 6:
		return op{"op": "LoadOrCompute", "k": k, "v": g.val()}
	case 7, 8:
		fns := []string{"incr", "del", fmt.Sprintf("set:%d", g.val()), fmt.Sprintf("delif:%d", 1+g.r.intn(int(g.nextVal)+1)),
			"noop-del-abs", fmt.Sprintf("del:%d", g.val())}
		return op{"op": "Compute", "k": k, "fn": fns[g.r.intn(len(fns))]}
	case 9:
		return op{"op": "LoadAndDelete", "k": k}
	case 10:
		return op{"op": "Delete", "k": k}
	case 11:
		return op{"op": "Size"}
	case 12:
		if g.r.intn(4) == 0 {
			return op{"op": "Range", "visitor": "del"}
		}
		return op{"op": "Range", "visitor": "all"}
	}
	return op{"op": "Load", "k": k}
}

func (g *gen) cacheOp() op {
	if g.r.intn(1000) < g.clearP {
		return op{"op": "Clear"}
	}
	k := g.key()
	switch g.r.intn(20) {
	case 0, 1:
		return op{"op": "Get", "k": k}
	case 2:
		return op{"op": "GetWithExpiration", "k": k}
	case 3:
		return op{"op": "GetWithTTL", "k": k}
	case 4, 5:
		return op{"op": "Set", "k": k, "v": g.val(), "d": g.dur()}
	case 6:
		return op{"op": "SetDefault", "k": k, "v": g.val()}
	case 7:
		return op{"op": "SetForever", "k": k, "v": g.val()}
	case 8:
		return op{"op": "GetOrSet", "k": k, "v": g.val(), "d": g.dur()}
	case 9:
		return op{"op": "GetAndSet", "k": k, "v": g.val(), "d": g.dur()}
	case 10:
		return op{"op": "GetAndRefresh", "k": k, "d": g.dur()}
	case 11:
		return op{"op": "GetOrCompute", "k": k, "v": g.val(), "d": g.dur()}
	case 12:
		fns := []string{"del", fmt.Sprintf("set:%d", g.val()), fmt.Sprintf("delif:%d", g.val()), "noop-del-abs", fmt.Sprintf("del:%d", g.val())}
		return op{"op": "Compute", "k": k, "fn": fns[g.r.intn(len(fns))], "d": g.dur()}
	case 13:
		return op{"op": "GetAndDelete", "k": k}
	case 14:
		return op{"op": "Delete", "k": k}
	case 15, 16:
		return op{"op": "DeleteExpired"}
	case 17:
		if g.r.intn(2) == 0 {
			return op{"op": "Items"}
		}
		return op{"op": "Range", "visitor": "all"}
	case 18:
		if g.r.intn(2) == 0 {
			return op{"op": "Count"}
		}
		return op{"op": "DefaultExpiration"}
	}
	return op{"op": "Get", "k": k}
}

func main() {
	container := flag.String("container", "Map", "Map | MapOf_str | MapOf_int | Cache | CacheOf_str | CacheOf_int")
	hasher := flag.String("hasher", "", "MapOf_* only: default | const | sameidx | sameh2")
	n := flag.Int("n", 1000, "number of scenarios")
	seed := flag.Uint64("seed", 1, "generator seed")
	threads := flag.Int("threads", 3, "threads per scenario")
	nops := flag.Int("ops", 3, "ops per thread")
	keys := flag.Int("keys", 3, "number of distinct keys")
	schedKind := flag.String("sched", "random", "random | pct | mix")
	depth := flag.Int("depth", 3, "pct depth")
	clearP := flag.Int("clear", 30, "per-mille probability that an op is Clear")
	prefill := flag.Int("prefill", 0, "setup: store this many extra keys 1000.. first (e.g. 72 for Map, 120 for MapOf to sit at the grow threshold)")
	maxSteps := flag.Int("max-steps", 20000, "step budget")
	prefix := flag.String("prefix", "", "id prefix (default: container name)")
	trace := flag.Bool("trace", false, "ask for traces")
	flag.Parse()
	if *prefix == "" {
		*prefix = *container
	}
	isCache := *container == "Cache" || *container == "CacheOf_str" || *container == "CacheOf_int"
	w := bufio.NewWriter(os.Stdout)
	defer w.Flush()
	enc := json.NewEncoder(w)
	r := rng(*seed)
	for i := 0; i < *n; i++ {
		g := &gen{r: rng(r.next()), cache: isCache, keys: *keys, clearP: *clearP}
		sc := scenario{
			ID: fmt.Sprintf("%s-%d-%d", *prefix, *seed, i), Container: *container, Hasher: *hasher,
			MaxSteps: *maxSteps, Layout: false, Trace: *trace, Setup: []op{},
		}
		for j := 0; j < *prefill; j++ {
			if isCache {
				sc.Setup = append(sc.Setup, op{"op": "SetForever", "k": 1000 + j, "v": g.val()})
			} else {
				sc.Setup = append(sc.Setup, op{"op": "Store", "k": 1000 + j, "v": g.val()})
			}
		}
		if isCache {
			sc.Cb = true
			sc.Dflt = []int64{0, 1000, 1_000_000_000}[g.r.intn(3)]
			// some entries that will be expired, then the clock moves, then some fresh ones
			for k := 0; k < *keys; k++ {
				if g.r.intn(3) > 0 {
					sc.Setup = append(sc.Setup, op{"op": "Set", "k": k, "v": g.val(), "d": 1000})
				}
			}
			sc.Setup = append(sc.Setup, op{"op": "Advance", "dt": 5000})
			for k := 0; k < *keys; k++ {
				if g.r.intn(4) == 0 {
					sc.Setup = append(sc.Setup, op{"op": "Set", "k": k, "v": g.val(), "d": g.dur()})
				}
			}
		} else {
			for k := 0; k < *keys; k++ {
				if g.r.intn(2) == 0 {
					sc.Setup = append(sc.Setup, op{"op": "Store", "k": k, "v": g.val()})
				}
			}
		}
		for t := 0; t < *threads; t++ {
			var ops []op
			for j := 0; j < *nops; j++ {
				if isCache {
					ops = append(ops, g.cacheOp())
				} else {
					ops = append(ops, g.mapOp())
				}
			}
			sc.Threads = append(sc.Threads, ops)
		}
		kind := *schedKind
		if kind == "mix" {
			kind = []string{"random", "pct"}[g.r.intn(2)]
		}
		sc.Sched = sched{Kind: kind, Seed: g.r.next() >> 1}
		if kind == "pct" {
			sc.Sched.Depth = *depth
		}
		if err := enc.Encode(&sc); err != nil {
			fmt.Fprintln(os.Stderr, err)
			os.Exit(1)
		}
	}
}
