module veriflincheck

go 1.21

require github.com/anishathalye/porcupine v1.3.0
