// Command lincheck reads result lines of verifsched on stdin and checks every
// history for linearizability (porcupine) against a sequential specification,
// plus a few non-linearizability facts. One JSON line out per line in.
// Formats and the specification: see harness/README.md.
package main

import (
	"bufio"
	"bytes"
	"encoding/json"
	"flag"
	"fmt"
	"os"
	"sort"
	"strconv"
	"strings"
	"time"

	"github.com/anishathalye/porcupine"
)

const (
	noExpiration      = -2_000_000_000
	defaultExpiration = -1_000_000_000
	nilField          = -9223372036854775808 // nil value inside event fields
)

// ---- input ---------------------------------------------------------------------

type Val struct {
	Set bool
	Nil bool
	I   int64
}

func (v *Val) UnmarshalJSON(b []byte) error {
	v.Set = true
	if string(b) == "null" {
		v.Nil = true
		return nil
	}
	return json.Unmarshal(b, &v.I)
}

func (v Val) String() string {
	if v.Nil {
		return "nil"
	}
	return strconv.FormatInt(v.I, 10)
}

func (v Val) eq(o Val) bool { return v.Nil == o.Nil && (v.Nil || v.I == o.I) }

func iv(i int64) Val { return Val{Set: true, I: i} }

var nilVal = Val{Set: true, Nil: true}

type Op struct {
	Op      string `json:"op"`
	K       int    `json:"k"`
	V       Val    `json:"v"`
	D       int64  `json:"d"`
	Fn      string `json:"fn"`
	Visitor string `json:"visitor"`
	Cb      int    `json:"cb"`
	Dt      int64  `json:"dt"`
}

type Res struct {
	Items [][2]Val `json:"items"`
	V   Val    `json:"v"`
	Ok  *bool  `json:"ok"`
	N   *int64 `json:"n"`
	E   *int64 `json:"e"`
	TTL *int64 `json:"ttl"`
}

type HEntry struct {
	T   int `json:"t"`
	I   int `json:"i"`
	Sub int `json:"sub"`
	Op  Op  `json:"op"`
	Inv int `json:"inv"`
	Ret int `json:"ret"`
	Res Res `json:"res"`
}

type Event struct {
	S    int     `json:"s"`
	T    int     `json:"t"`
	Kind string  `json:"kind"`
	F    []int64 `json:"f"`
}

type Final struct {
	Size   int             `json:"size"`
	Loads  [][2]Val        `json:"loads"`
	Range  [][2]Val        `json:"range"`
	Ledger []Event         `json:"ledger"`
	Layout json.RawMessage `json:"layout"`
}

type Line struct {
	ID           string   `json:"id"`
	Error        string   `json:"error"`
	Container    string   `json:"container"`
	Dflt         int64    `json:"dflt"`
	Now          int64    `json:"now"`
	Outcome      string   `json:"outcome"`
	Steps        int      `json:"steps"`
	History      []HEntry `json:"history"`
	SetupHistory []HEntry `json:"setup_history"`
	Events       []Event  `json:"events"`
	SetupEvents  []Event  `json:"setup_events"`
	Final        *Final   `json:"final"`
}

// ---- compute functions (must mirror cmd/verifsched) -------------------------------

type fnSpec struct {
	kind string
	v    int64
}

func parseFn(s string) (fnSpec, bool) {
	name, arg, hasArg := strings.Cut(s, ":")
	f := fnSpec{kind: name}
	if hasArg {
		n, err := strconv.ParseInt(arg, 10, 64)
		if err != nil {
			return f, false
		}
		f.v = n
		if name == "del" {
			f.kind = "delv"
		}
	}
	switch f.kind {
	case "set", "delv", "delif":
		return f, hasArg
	case "incr", "del", "noop-del-abs":
		return f, true
	}
	return f, false
}

func (f fnSpec) apply(old Val, loaded bool, zero Val) (Val, bool) {
	switch f.kind {
	case "set":
		return iv(f.v), false
	case "incr":
		if !loaded || old.Nil {
			return iv(1), false
		}
		return iv(old.I + 1), false
	case "del":
		return old, true
	case "delv":
		return iv(f.v), true
	case "delif":
		if loaded {
			if !old.Nil && old.I == f.v {
				return old, true
			}
			return old, false
		}
		return iv(f.v), false
	case "noop-del-abs":
		if loaded {
			return old, false
		}
		return zero, true
	}
	panic("unreachable")
}

// ---- sequential specification -------------------------------------------------------

type entry struct {
	k int
	v Val
	e int64 // caches: expiration (0 = never); maps: 0
}

// state is immutable once built.
type state struct {
	ents []entry // sorted by k; for caches these are the PHYSICAL entries
	dflt int64   // caches only
}

func (s *state) find(k int) (int, bool) {
	i := sort.Search(len(s.ents), func(i int) bool { return s.ents[i].k >= k })
	return i, i < len(s.ents) && s.ents[i].k == k
}

func (s *state) with(k int, v Val, e int64) *state {
	i, ok := s.find(k)
	n := &state{dflt: s.dflt}
	if ok {
		n.ents = append([]entry(nil), s.ents...)
		n.ents[i] = entry{k, v, e}
		return n
	}
	n.ents = make([]entry, 0, len(s.ents)+1)
	n.ents = append(n.ents, s.ents[:i]...)
	n.ents = append(n.ents, entry{k, v, e})
	n.ents = append(n.ents, s.ents[i:]...)
	return n
}

func (s *state) without(k int) *state {
	i, ok := s.find(k)
	if !ok {
		return s
	}
	n := &state{dflt: s.dflt, ents: make([]entry, 0, len(s.ents)-1)}
	n.ents = append(n.ents, s.ents[:i]...)
	n.ents = append(n.ents, s.ents[i+1:]...)
	return n
}

func stateEqual(a, b *state) bool {
	if a.dflt != b.dflt || len(a.ents) != len(b.ents) {
		return false
	}
	for i := range a.ents {
		x, y := a.ents[i], b.ents[i]
		if x.k != y.k || x.e != y.e || !x.v.eq(y.v) {
			return false
		}
	}
	return true
}

func stateHash(s *state) uint64 {
	h := uint64(s.dflt) * 0x9E3779B97F4A7C15
	for _, e := range s.ents {
		h = (h ^ uint64(e.k)) * 0x100000001b3
		h = (h ^ uint64(e.v.I)) * 0x100000001b3
		h = (h ^ uint64(e.e)) * 0x100000001b3
		if e.v.Nil {
			h ^= 0xabcdef
		}
	}
	return h
}

func (s *state) String() string {
	var b strings.Builder
	b.WriteByte('{')
	for i, e := range s.ents {
		if i > 0 {
			b.WriteByte(' ')
		}
		fmt.Fprintf(&b, "%d:%s", e.k, e.v)
		if e.e != 0 {
			fmt.Fprintf(&b, "@%d", e.e)
		}
	}
	b.WriteByte('}')
	return b.String()
}

// out is the specified result of an op; has* say which members are specified.
type out struct {
	hasVO, hasN, hasE, hasTTL bool
	v                         Val
	ok                        bool
	n, e, ttl                 int64
}

type spec struct {
	cache         bool
	zero          Val
	now           int64
	gadRetExpired bool // GetAndDelete returns an expired-uncleaned value with true
}

func (sp *spec) exp(s *state, d int64) int64 {
	if d == defaultExpiration {
		d = s.dflt
	}
	if d > 0 {
		return sp.now + d
	}
	return 0
}

func (sp *spec) live(e entry) bool { return e.e == 0 || sp.now <= e.e }

// checked reports whether the op takes part in the linearizability check.
func checked(op string) bool {
	switch op {
	case "Range", "Size", "Count", "Items", "SetEvictedCallback", "Advance":
		return false
	}
	return true
}

// step applies op to s. known == false when the op name is not part of the spec.
func (sp *spec) step(s *state, op *Op) (o out, ns *state, known bool) {
	if sp.cache {
		return sp.stepCache(s, op)
	}
	return sp.stepMap(s, op)
}

func vo(v Val, ok bool) out { return out{hasVO: true, v: v, ok: ok} }

func (sp *spec) stepMap(s *state, op *Op) (out, *state, bool) {
	i, present := s.find(op.K)
	var old Val
	if present {
		old = s.ents[i].v
	}
	switch op.Op {
	case "Load":
		if present {
			return vo(old, true), s, true
		}
		return vo(sp.zero, false), s, true
	case "Store":
		return out{}, s.with(op.K, op.V, 0), true
	case "LoadOrStore", "LoadOrCompute":
		if present {
			return vo(old, true), s, true
		}
		return vo(op.V, false), s.with(op.K, op.V, 0), true
	case "LoadAndStore":
		if present {
			return vo(old, true), s.with(op.K, op.V, 0), true
		}
		return vo(op.V, false), s.with(op.K, op.V, 0), true
	case "Compute":
		f, ok := parseFn(op.Fn)
		if !ok {
			return out{}, s, false
		}
		if present {
			nv, del := f.apply(old, true, sp.zero)
			if del {
				return vo(old, false), s.without(op.K), true
			}
			return vo(nv, true), s.with(op.K, nv, 0), true
		}
		nv, del := f.apply(sp.zero, false, sp.zero)
		if del {
			return vo(sp.zero, false), s, true
		}
		return vo(nv, true), s.with(op.K, nv, 0), true
	case "LoadAndDelete":
		if present {
			return vo(old, true), s.without(op.K), true
		}
		return vo(sp.zero, false), s, true
	case "Delete":
		return out{}, s.without(op.K), true
	case "Clear":
		return out{}, &state{dflt: s.dflt}, true
	}
	return out{}, s, false
}

func (sp *spec) stepCache(s *state, op *Op) (out, *state, bool) {
	i, phys := s.find(op.K)
	var ent entry
	live := false
	if phys {
		ent = s.ents[i]
		live = sp.live(ent)
	}
	switch op.Op {
	case "Set":
		return out{}, s.with(op.K, op.V, sp.exp(s, op.D)), true
	case "SetDefault":
		return out{}, s.with(op.K, op.V, sp.exp(s, defaultExpiration)), true
	case "SetForever":
		return out{}, s.with(op.K, op.V, 0), true
	case "Get", "GetWithExpiration", "GetWithTTL":
		o := vo(sp.zero, false)
		ns := s
		if live {
			o = vo(ent.v, true)
		} else if phys {
			ns = s.without(op.K) // get() removes an expired entry it finds
		}
		switch op.Op {
		case "GetWithExpiration":
			o.hasE = true
			if live {
				o.e = ent.e
			}
		case "GetWithTTL":
			o.hasTTL = true
			if live {
				o.ttl = noExpiration
				if ent.e > 0 {
					o.ttl = ent.e - sp.now
				}
			}
		}
		return o, ns, true
	case "GetOrSet", "GetOrCompute":
		if live {
			return vo(ent.v, true), s, true
		}
		return vo(op.V, false), s.with(op.K, op.V, sp.exp(s, op.D)), true
	case "GetAndSet":
		ns := s.with(op.K, op.V, sp.exp(s, op.D))
		if live {
			return vo(ent.v, true), ns, true
		}
		return vo(op.V, false), ns, true
	case "GetAndRefresh":
		if live {
			return vo(ent.v, true), s.with(op.K, ent.v, sp.exp(s, op.D)), true
		}
		return vo(sp.zero, false), s.without(op.K), true
	case "Compute":
		f, ok := parseFn(op.Fn)
		if !ok {
			return out{}, s, false
		}
		old := sp.zero
		if live {
			old = ent.v
		}
		nv, del := f.apply(old, live, sp.zero)
		if del {
			return vo(old, false), s.without(op.K), true
		}
		return vo(nv, true), s.with(op.K, nv, sp.exp(s, op.D)), true
	case "GetAndDelete":
		if live || (phys && sp.gadRetExpired) {
			return vo(ent.v, true), s.without(op.K), true
		}
		return vo(sp.zero, false), s.without(op.K), true
	case "Delete":
		return out{}, s.without(op.K), true
	case "DeleteExpired":
		n := &state{dflt: s.dflt}
		for _, e := range s.ents {
			if sp.live(e) {
				n.ents = append(n.ents, e)
			}
		}
		if len(n.ents) == len(s.ents) {
			return out{}, s, true
		}
		return out{}, n, true
	case "Clear":
		return out{}, &state{dflt: s.dflt}, true
	case "DefaultExpiration":
		return out{hasN: true, n: s.dflt}, s, true
	case "SetDefaultExpiration":
		n := &state{dflt: op.D, ents: s.ents}
		return out{}, n, true
	}
	return out{}, s, false
}

// match compares the specified result with the observed one.
func match(o out, r *Res) bool {
	if o.hasVO {
		if r.Ok == nil || *r.Ok != o.ok || !r.V.Set || !r.V.eq(o.v) {
			return false
		}
	}
	if o.hasN && (r.N == nil || *r.N != o.n) {
		return false
	}
	if o.hasE && (r.E == nil || *r.E != o.e) {
		return false
	}
	if o.hasTTL && (r.TTL == nil || *r.TTL != o.ttl) {
		return false
	}
	return true
}

func (o out) String() string {
	var p []string
	if o.hasVO {
		p = append(p, fmt.Sprintf("v=%s ok=%v", o.v, o.ok))
	}
	if o.hasN {
		p = append(p, fmt.Sprintf("n=%d", o.n))
	}
	if o.hasE {
		p = append(p, fmt.Sprintf("e=%d", o.e))
	}
	if o.hasTTL {
		p = append(p, fmt.Sprintf("ttl=%d", o.ttl))
	}
	return strings.Join(p, " ")
}

// ---- per line ----------------------------------------------------------------------

type opInput struct {
	op      *Op
	res     *Res
	pending bool
}

func keyed(op string) bool {
	switch op {
	case "Clear", "Size", "Range", "DeleteExpired", "Items", "Count", "DefaultExpiration",
		"SetDefaultExpiration", "SetEvictedCallback", "Advance":
		return false
	}
	return true
}

type result struct {
	ID           string      `json:"id"`
	Linearizable interface{} `json:"linearizable"`
	Ops          int         `json:"ops"`
	Violations   []string    `json:"violations"`
	Error        string      `json:"error,omitempty"`
}

type options struct {
	timeout       time.Duration
	gadRetExpired bool
	cbUnique      bool
	finalLoads    bool
}

func isGetLike(op string) bool {
	switch op {
	case "Get", "GetWithExpiration", "GetWithTTL", "GetAndRefresh", "GetOrSet", "GetOrCompute",
		"GetAndSet", "GetAndDelete":
		return true
	}
	return false
}

func checkLine(ln *Line, o options) result {
	res := result{ID: ln.ID, Violations: []string{}}
	if ln.Error != "" {
		res.Error = "input line carries an error: " + ln.Error
		res.Linearizable = "unknown"
		return res
	}
	sp := &spec{now: 1_000_000_000_000_000_000, gadRetExpired: o.gadRetExpired}
	switch ln.Container {
	case "Map":
		sp.zero = nilVal
	case "MapOf_str", "MapOf_int":
		sp.zero = iv(0)
	case "Cache":
		sp.cache, sp.zero = true, nilVal
	case "CacheOf_str", "CacheOf_int":
		sp.cache, sp.zero = true, iv(0)
	default:
		res.Error = fmt.Sprintf("unknown container %q", ln.Container)
		res.Linearizable = "unknown"
		return res
	}
	viol := func(format string, a ...interface{}) {
		res.Violations = append(res.Violations, fmt.Sprintf(format, a...))
	}
	if ln.Outcome != "done" {
		viol("%s", ln.Outcome)
	}

	// Replay the setup phase on the spec: yields the initial state of the
	// concurrent phase and doubles as a sequential conformance check.
	st := &state{}
	if sp.cache {
		st.dflt = ln.Dflt
		if st.dflt < 1 {
			st.dflt = noExpiration
		}
	}
	setupFnWant := 0
	for idx := range ln.SetupHistory {
		h := &ln.SetupHistory[idx]
		if h.Op.Op == "Advance" {
			sp.now += h.Op.Dt
			continue
		}
		if !checked(h.Op.Op) {
			continue
		}
		ov, ns, known := sp.step(st, &h.Op)
		if !known {
			viol("setup[%d]: op %s not in the specification", h.I, h.Op.Op)
			continue
		}
		if !match(ov, &h.Res) {
			viol("setup[%d] %s k=%d: result differs from the sequential specification (want %s)", h.I, h.Op.Op, h.Op.K, ov)
		}
		switch h.Op.Op {
		case "Compute":
			setupFnWant++
		case "LoadOrCompute", "GetOrCompute":
			if h.Res.Ok != nil && !*h.Res.Ok {
				setupFnWant++
			}
		}
		st = ns
	}
	if ln.Now != 0 && ln.Now != sp.now {
		viol("clock: result line says now=%d, setup replay gives %d", ln.Now, sp.now)
	}
	got := 0
	for _, e := range ln.SetupEvents {
		if e.Kind == "fn" {
			got++
		}
	}
	if got != setupFnWant {
		viol("fn-count: setup phase ran %d user functions, want %d", got, setupFnWant)
	}
	init := st

	// History for porcupine.
	var ops []porcupine.Operation
	maxT := int64(0)
	hasClear, hasSetDflt, hasDelExp, hasPending := false, false, false, false
	for idx := range ln.History {
		h := &ln.History[idx]
		if int64(h.Ret) > maxT {
			maxT = int64(h.Ret)
		}
		if int64(h.Inv) > maxT {
			maxT = int64(h.Inv)
		}
	}
	for idx := range ln.History {
		h := &ln.History[idx]
		if !checked(h.Op.Op) {
			continue
		}
		switch h.Op.Op {
		case "Clear":
			hasClear = true
		case "SetDefaultExpiration":
			hasSetDflt = true
		case "DeleteExpired":
			hasDelExp = true
		}
		in := &opInput{op: &h.Op, res: &h.Res, pending: h.Ret < 0}
		ret := int64(h.Ret)
		if in.pending {
			hasPending = true
			ret = maxT + 1
		}
		ops = append(ops, porcupine.Operation{ClientId: h.T, Input: in, Call: int64(h.Inv), Output: in, Return: ret})
	}
	res.Ops = len(ops)

	// Keys mentioned anywhere (the driver loads exactly these in the final phase).
	keyset := map[int]bool{}
	for _, hs := range [][]HEntry{ln.SetupHistory, ln.History} {
		for i := range hs {
			if hs[i].Sub == 0 && keyed(hs[i].Op.Op) {
				keyset[hs[i].Op.K] = true
			}
		}
	}
	// The final loads are observations made after everything: add them as
	// ops so that the final state must agree with some linearization.
	if o.finalLoads && ln.Final != nil && ln.Outcome == "done" && !hasPending {
		name := "Load"
		if sp.cache {
			name = "Get"
		}
		loaded := map[int]Val{}
		for _, p := range ln.Final.Loads {
			loaded[int(p[0].I)] = p[1]
		}
		keys := make([]int, 0, len(keyset))
		for k := range keyset {
			keys = append(keys, k)
		}
		sort.Ints(keys)
		t := maxT + 2
		for _, k := range keys {
			r := &Res{V: sp.zero, Ok: new(bool)}
			if v, ok := loaded[k]; ok {
				r.V = v
				*r.Ok = true
			}
			in := &opInput{op: &Op{Op: name, K: k}, res: r}
			ops = append(ops, porcupine.Operation{ClientId: 1 << 20, Input: in, Call: t, Output: in, Return: t})
			t++
		}
	}

	model := porcupine.Model{
		Init: func() interface{} { return init },
		Step: func(s, input, output interface{}) (bool, interface{}) {
			in := input.(*opInput)
			ov, ns, known := sp.step(s.(*state), in.op)
			if !known {
				return true, s // unknown ops are ignored (reported separately)
			}
			if in.pending {
				return true, ns
			}
			return match(ov, in.res), ns
		},
		Equal: func(a, b interface{}) bool { return stateEqual(a.(*state), b.(*state)) },
		Hash:  func(s interface{}) uint64 { return stateHash(s.(*state)) },
	}
	canPartition := !hasClear && !hasSetDflt && !(hasDelExp && sp.gadRetExpired)
	if canPartition {
		model.Partition = func(history []porcupine.Operation) [][]porcupine.Operation {
			parts := map[int][]porcupine.Operation{}
			var order []int
			for _, op := range history {
				in := op.Input.(*opInput)
				k := in.op.K
				switch in.op.Op {
				case "DeleteExpired":
					continue // invisible when GetAndDelete follows the view
				case "DefaultExpiration":
					k = -1
				}
				if _, ok := parts[k]; !ok {
					order = append(order, k)
				}
				parts[k] = append(parts[k], op)
			}
			sort.Ints(order)
			out := make([][]porcupine.Operation, 0, len(order))
			for _, k := range order {
				out = append(out, parts[k])
			}
			return out
		}
	}
	for idx := range ln.History {
		h := &ln.History[idx]
		if checked(h.Op.Op) {
			if _, _, known := sp.step(init, &h.Op); !known {
				viol("history t%d[%d]: op %s (fn %q) not in the specification", h.T, h.I, h.Op.Op, h.Op.Fn)
			}
		}
	}
	switch porcupine.CheckOperationsTimeout(model, ops, o.timeout) {
	case porcupine.Ok:
		res.Linearizable = true
	case porcupine.Illegal:
		res.Linearizable = false
	default:
		res.Linearizable = "unknown"
	}

	// fn-count
	for idx := range ln.History {
		h := &ln.History[idx]
		if h.Ret < 0 {
			continue
		}
		want := -1
		switch h.Op.Op {
		case "Compute":
			want = 1
		case "LoadOrCompute", "GetOrCompute":
			want = 0
			if h.Res.Ok != nil && !*h.Res.Ok {
				want = 1
			}
		}
		if want < 0 {
			continue
		}
		n := 0
		for _, e := range ln.Events {
			if e.Kind == "fn" && e.T == h.T && e.S >= h.Inv && e.S <= h.Ret {
				n++
			}
		}
		if n != want {
			viol("fn-count: t%d[%d] %s k=%d ran the user function %d times, want %d", h.T, h.I, h.Op.Op, h.Op.K, n, want)
		}
	}

	// range-check (C07): every completed top-level Range / Items of the concurrent phase
	//   (1) hands out no key twice;
	//   (2) hands out only pairs (k, v) such that v was stored under k: by the setup (and still
	//       live when the concurrent phase began) or by a call that began before the traversal
	//       returned;
	//   (3) with the visit-everything visitor, hands out every key that the setup left live and
	//       without expiry, and that no call of the concurrent phase could have touched (no keyed
	//       call on it, no Clear, no DeleteExpired, no mutating visitor anywhere), with its value.
	{
		touched := map[int]bool{}
		global := false
		for idx := range ln.History {
			h := &ln.History[idx]
			switch h.Op.Op {
			case "Clear":
				global = true
			case "Range", "Items":
				if h.Op.Visitor != "" && h.Op.Visitor != "all" && !strings.HasPrefix(h.Op.Visitor, "stop") {
					global = true
				}
			}
			if keyed(h.Op.Op) {
				touched[h.Op.K] = true
			}
		}
		for idx := range ln.History {
			h := &ln.History[idx]
			if h.Sub != 0 || h.Ret < 0 || (h.Op.Op != "Range" && h.Op.Op != "Items") || h.Res.Items == nil {
				continue
			}
			seen := map[int64]Val{}
			for _, p := range h.Res.Items {
				k := p[0].I
				if _, dup := seen[k]; dup {
					viol("range-check: t%d[%d] %s visited key %d twice", h.T, h.I, h.Op.Op, k)
				}
				seen[k] = p[1]
				ok := false
				if i, found := init.find(int(k)); found && sp.live(init.ents[i]) && init.ents[i].v.eq(p[1]) {
					ok = true
				}
				for j := range ln.History {
					w := &ln.History[j]
					if ok {
						break
					}
					if !keyed(w.Op.Op) || int64(w.Op.K) != k || w.Inv > h.Ret {
						continue
					}
					if w.Op.V.Set && w.Op.V.eq(p[1]) {
						ok = true
					}
					if f, good := parseFn(w.Op.Fn); good && w.Op.Fn != "" && !p[1].Nil && f.v == p[1].I {
						ok = true
					}
					// load-or-compute style calls without an explicit value store what they return
					if w.Res.V.Set && w.Res.V.eq(p[1]) {
						ok = true
					}
				}
				if !ok {
					viol("range-check: t%d[%d] %s visited (%d,%s): no call that began before it returned stored that value under that key", h.T, h.I, h.Op.Op, k, p[1])
				}
			}
			vis := h.Op.Visitor
			if global || (h.Op.Op == "Range" && vis != "" && vis != "all") {
				continue
			}
			for _, e := range init.ents {
				if touched[e.k] || e.e != 0 {
					continue
				}
				v, found := seen[int64(e.k)]
				if !found {
					viol("range-check: t%d[%d] %s did not visit key %d, present and untouched during the whole call", h.T, h.I, h.Op.Op, e.k)
				} else if !v.eq(e.v) {
					viol("range-check: t%d[%d] %s visited key %d with %s, it holds %s throughout", h.T, h.I, h.Op.Op, e.k, v, e.v)
				}
			}
		}
	}

	// count-check (C08, caches): "Count equals the live-entry count right after DeleteExpired and is 0 right after
	// Clear" under concurrency, in the only form that is sound while other calls are in flight: a Count that a thread
	// makes as its very next call after its own Clear / DeleteExpired may report at most
	//   after Clear:         one entry per call of ANOTHER thread that can store an entry and had not returned when the
	//                        Clear was invoked;
	//   after DeleteExpired: everything that can possibly be present (entries of the setup + keys other calls can
	//                        insert) MINUS the entries that had expired before the concurrent phase began and whose key
	//                        no call of the phase names (the pass must have removed those: nobody else touches them).
	{
		stores := func(op string) bool {
			switch op {
			case "Set", "SetDefault", "SetForever", "GetOrSet", "GetAndSet", "GetOrCompute", "Compute", "GetAndRefresh",
				"Store", "LoadOrStore", "LoadAndStore", "LoadOrCompute":
				return true
			}
			return false
		}
		named := map[int]bool{}
		for idx := range ln.History {
			if keyed(ln.History[idx].Op.Op) {
				named[ln.History[idx].Op.K] = true
			}
		}
		for idx := range ln.History {
			c := &ln.History[idx]
			if c.Sub != 0 || (c.Op.Op != "Count" && c.Op.Op != "Size") || c.Ret < 0 || c.Res.N == nil || c.I == 0 {
				continue
			}
			var prev *HEntry
			for j := range ln.History {
				h := &ln.History[j]
				if h.Sub == 0 && h.T == c.T && h.I == c.I-1 {
					prev = h
				}
			}
			if prev == nil || prev.Ret < 0 {
				continue
			}
			switch prev.Op.Op {
			case "Clear":
				ub := int64(0)
				for j := range ln.History {
					w := &ln.History[j]
					if w.Sub == 0 && w.T != c.T && stores(w.Op.Op) && (w.Ret < 0 || w.Ret > prev.Inv) && w.Inv < c.Ret {
						ub++
					}
				}
				if *c.Res.N > ub {
					viol("count-check: t%d[%d] %s = %d right after its own Clear, but at most %d entries can have been stored since", c.T, c.I, c.Op.Op, *c.Res.N, ub)
				}
			case "DeleteExpired":
				if !sp.cache {
					continue
				}
				possible := map[int]bool{}
				gone := 0
				for _, e := range init.ents {
					possible[e.k] = true
					if !sp.live(e) && !named[e.k] {
						gone++
					}
				}
				for j := range ln.History {
					w := &ln.History[j]
					if stores(w.Op.Op) {
						possible[w.Op.K] = true
					}
				}
				ub := int64(len(possible) - gone)
				if *c.Res.N > ub {
					viol("count-check: t%d[%d] Count = %d right after its own DeleteExpired, but %d entries that had expired before and that nobody touches must be gone (at most %d present)", c.T, c.I, *c.Res.N, gone, ub)
				}
			}
		}
	}

	// final-state (maps): size, range and loads must agree
	if ln.Final != nil && !sp.cache {
		f := ln.Final
		if f.Size != len(f.Range) {
			viol("final-state: size %d but range has %d entries", f.Size, len(f.Range))
		}
		rg := map[int]Val{}
		for _, p := range f.Range {
			if _, dup := rg[int(p[0].I)]; dup {
				viol("final-state: range visited key %d twice", p[0].I)
			}
			rg[int(p[0].I)] = p[1]
		}
		ld := map[int]Val{}
		for _, p := range f.Loads {
			ld[int(p[0].I)] = p[1]
			if v, ok := rg[int(p[0].I)]; !ok || !v.eq(p[1]) {
				viol("final-state: load of key %d gives %s but range does not", p[0].I, p[1])
			}
		}
		for _, p := range f.Range {
			k := int(p[0].I)
			if _, ok := ld[k]; keyset[k] && !ok {
				viol("final-state: range has key %d (%s) but load misses it", k, p[1])
			}
		}
	}

	// callbacks (caches)
	if sp.cache {
		var ledger []Event
		if ln.Final != nil {
			ledger = ln.Final.Ledger
		} else {
			for _, evs := range [][]Event{ln.SetupEvents, ln.Events} {
				for _, e := range evs {
					if e.Kind == "cb" {
						ledger = append(ledger, e)
					}
				}
			}
		}
		type kv struct{ k, v int64 }
		firstFire := map[kv]int{}
		for _, e := range ledger {
			if len(e.F) < 2 {
				continue
			}
			p := kv{e.F[0], e.F[1]}
			if _, dup := firstFire[p]; dup {
				if o.cbUnique {
					viol("callback: (%d,%s) fired more than once", p.k, fieldStr(p.v))
				}
				continue
			}
			firstFire[p] = e.S
		}
		for idx := range ln.History {
			h := &ln.History[idx]
			if h.Ret < 0 || !isGetLike(h.Op.Op) || h.Res.Ok == nil || !*h.Res.Ok {
				continue
			}
			p := kv{int64(h.Op.K), valField(h.Res.V)}
			if s, ok := firstFire[p]; ok && h.Inv > s {
				viol("callback: (%d,%s) fired at step %d but t%d[%d] %s invoked at %d still returned it", p.k, fieldStr(p.v), s, h.T, h.I, h.Op.Op, h.Inv)
			}
		}
		if ln.Final != nil {
			for _, l := range ln.Final.Loads {
				p := kv{l[0].I, valField(l[1])}
				if _, ok := firstFire[p]; ok {
					viol("callback: (%d,%s) was evicted but is in the final loads", p.k, fieldStr(p.v))
				}
			}
		}
	}
	return res
}

func valField(v Val) int64 {
	if v.Nil {
		return nilField
	}
	return v.I
}

func fieldStr(f int64) string {
	if f == nilField {
		return "nil"
	}
	return strconv.FormatInt(f, 10)
}

func main() {
	timeout := flag.Duration("timeout", 5*time.Second, "porcupine timeout per history")
	gad := flag.Bool("getanddelete-returns-expired", false, "specification variant: GetAndDelete returns an expired-but-uncleaned value with loaded=true")
	cbu := flag.Bool("cb-unique", true, "report a (k,v) callback firing twice (assumes every written value is unique)")
	fl := flag.Bool("final-loads", true, "append the final loads as observations after the history")
	summary := flag.Bool("summary", false, "print a summary on stderr at the end")
	flag.Parse()
	o := options{timeout: *timeout, gadRetExpired: *gad, cbUnique: *cbu, finalLoads: *fl}

	in := bufio.NewScanner(os.Stdin)
	in.Buffer(make([]byte, 1<<20), 1<<30)
	w := bufio.NewWriterSize(os.Stdout, 1<<20)
	defer w.Flush()
	enc := json.NewEncoder(w)
	var nLines, nLin, nNonLin, nUnknown, nViol, nErr int
	for in.Scan() {
		line := bytes.TrimSpace(in.Bytes())
		if len(line) == 0 {
			continue
		}
		var ln Line
		var r result
		if err := json.Unmarshal(line, &ln); err != nil {
			r = result{ID: ln.ID, Linearizable: "unknown", Violations: []string{}, Error: "bad input line: " + err.Error()}
		} else {
			r = checkLine(&ln, o)
		}
		nLines++
		switch r.Linearizable {
		case true:
			nLin++
		case false:
			nNonLin++
		default:
			nUnknown++
		}
		if len(r.Violations) > 0 {
			nViol++
		}
		if r.Error != "" {
			nErr++
		}
		enc.Encode(&r)
	}
	if *summary {
		fmt.Fprintf(os.Stderr, "lincheck: %d histories: %d linearizable, %d NOT linearizable, %d unknown, %d with violations, %d errors\n",
			nLines, nLin, nNonLin, nUnknown, nViol, nErr)
	}
}
