//go:build verif

package cache

// Hooks for the verification harness (scratch copy only): physical contents.

type VerifEntry struct {
	K string
	V interface{}
	E int64
}

func VerifDump(c Cache) []VerifEntry {
	w := c.(*xsyncMapWrapper)
	var out []VerifEntry
	w.items.Range(func(k string, v interface{}) bool {
		i := v.(item)
		out = append(out, VerifEntry{k, i.v, i.e})
		return true
	})
	return out
}

type VerifEntryOf[K comparable, V any] struct {
	K K
	V V
	E int64
}

func VerifDumpOf[K comparable, V any](c CacheOf[K, V]) []VerifEntryOf[K, V] {
	w := c.(*xsyncMapOfWrapper[K, V])
	var out []VerifEntryOf[K, V]
	w.items.Range(func(k K, i itemOf[V]) bool {
		out = append(out, VerifEntryOf[K, V]{k, i.v, i.e})
		return true
	})
	return out
}
