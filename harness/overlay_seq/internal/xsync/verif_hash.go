//go:build verif

package xsync

// Hash of a key under an arbitrary seed, as the maps compute it (oracle for the
// table model, which treats the hash function as a parameter).

func VerifHashString(key string, seed uint64) uint64 { return hashString(key, seed) }

func VerifHashOf[K comparable, V any](m *MapOf[K, V], key K, seed uint64) uint64 {
	return m.hasher(key, seed)
}

func VerifMinTableLen2(m *Map) int                              { return m.minTableLen }
func VerifMinTableLenOf[K comparable, V any](m *MapOf[K, V]) int { return m.minTableLen }
