//go:build verif

// Package vclock is the virtual clock that replaces time.Now/Until/Since in
// package cache of the scratch copy.
package vclock

import (
	"sync/atomic"
	"time"
)

var cur int64 = 1_000_000_000_000_000_000

func NowNano() int64        { return atomic.LoadInt64(&cur) }
func Now() time.Time        { return time.Unix(0, atomic.LoadInt64(&cur)) }
func Until(t time.Time) time.Duration { return t.Sub(Now()) }
func Since(t time.Time) time.Duration { return Now().Sub(t) }
func Set(ns int64)          { atomic.StoreInt64(&cur, ns) }
func Advance(dt int64)      { atomic.AddInt64(&cur, dt) }
