//go:build verif

// veriftab runs sequential case files against Map / MapOf and prints one
// canonical line per call, the physical layout on request, and at the end the
// oracle the table model needs: the seed of every table generation seen and
// hash(key, seed) for every key of the case under each of those seeds.
package main

import (
	"bufio"
	"fmt"
	"os"
	"sort"
	"strconv"
	"strings"

	"github.com/fufuok/cache/internal/xsync"
)

func strKey(k int64) string {
	if k == 0 {
		return ""
	}
	return "k" + strconv.FormatInt(k, 10)
}
func keyOfStr(s string) int64 {
	if s == "" {
		return 0
	}
	n, _ := strconv.ParseInt(s[1:], 10, 64)
	return n
}

type kv struct{ k, v int64 }

type slotD struct {
	used bool
	key  int64
	tag  uint64
}

type layoutD struct {
	tlen   int
	seed   uint64
	size   int64
	chains [][]slotD // flat per chain
	nslots int
}

type target interface {
	Load(k int64) (int64, bool)
	Store(k, v int64)
	LoadOrStore(k, v int64) (int64, bool)
	LoadAndStore(k, v int64) (int64, bool)
	LoadOrCompute(k, v int64) (int64, bool)
	Compute(k int64, fn func(int64, bool) (int64, bool)) (int64, bool)
	LoadAndDelete(k int64) (int64, bool)
	Delete(k int64)
	Clear()
	Size() int
	Range(f func(k, v int64) bool)
	Layout() layoutD
	Hash(k int64, seed uint64) uint64
	MinLen() int
}

var events []string

func logf(format string, a ...interface{}) { events = append(events, fmt.Sprintf(format, a...)) }

// ---- Map ----
type mapT struct {
	m    *xsync.Map
	zero int64
}

func (t *mapT) val(v int64) interface{} {
	if v == t.zero {
		return nil
	}
	return v
}
func (t *mapT) code(v interface{}) int64 {
	if v == nil {
		return t.zero
	}
	return v.(int64)
}
func (t *mapT) Load(k int64) (int64, bool) { v, ok := t.m.Load(strKey(k)); return t.code(v), ok }
func (t *mapT) Store(k, v int64)          { t.m.Store(strKey(k), t.val(v)) }
func (t *mapT) LoadOrStore(k, v int64) (int64, bool) {
	r, ok := t.m.LoadOrStore(strKey(k), t.val(v))
	return t.code(r), ok
}
func (t *mapT) LoadAndStore(k, v int64) (int64, bool) {
	r, ok := t.m.LoadAndStore(strKey(k), t.val(v))
	return t.code(r), ok
}
func (t *mapT) LoadOrCompute(k, v int64) (int64, bool) {
	r, ok := t.m.LoadOrCompute(strKey(k), func() interface{} { logf("fn:%d", k); return t.val(v) })
	return t.code(r), ok
}
func (t *mapT) Compute(k int64, fn func(int64, bool) (int64, bool)) (int64, bool) {
	r, ok := t.m.Compute(strKey(k), func(old interface{}, loaded bool) (interface{}, bool) {
		logf("fn:%d", k)
		nv, del := fn(t.code(old), loaded)
		return t.val(nv), del
	})
	return t.code(r), ok
}
func (t *mapT) LoadAndDelete(k int64) (int64, bool) {
	r, ok := t.m.LoadAndDelete(strKey(k))
	return t.code(r), ok
}
func (t *mapT) Delete(k int64) { t.m.Delete(strKey(k)) }
func (t *mapT) Clear()         { t.m.Clear() }
func (t *mapT) Size() int      { return t.m.Size() }
func (t *mapT) Range(f func(k, v int64) bool) {
	t.m.Range(func(k string, v interface{}) bool { return f(keyOfStr(k), t.code(v)) })
}
func (t *mapT) Layout() layoutD {
	d := xsync.DumpLayoutMap(t.m)
	l := layoutD{tlen: d.TableLen, seed: d.Seed, size: d.CounterSum, nslots: xsync.VerifEntriesPerMapBucket}
	for _, ch := range d.Chains {
		var flat []slotD
		for _, b := range ch {
			for _, s := range b.Slots {
				sd := slotD{used: s.Used}
				if s.Used {
					sd.key = keyOfStr(s.Key)
					sd.tag = uint64(s.TopHash)
					if !s.Present {
						sd.tag = 1 << 40 // marks an inconsistent slot: key without presence bit
					}
				}
				flat = append(flat, sd)
			}
		}
		l.chains = append(l.chains, flat)
	}
	return l
}
func (t *mapT) Hash(k int64, seed uint64) uint64 { return xsync.VerifHashString(strKey(k), seed) }
func (t *mapT) MinLen() int                      { return xsync.VerifMinTableLen2(t.m) }

// ---- MapOf ----
type mapOfT[K comparable, V any] struct {
	m     *xsync.MapOf[K, V]
	key   func(int64) K
	unkey func(K) int64
	val   func(int64) V
	code  func(V) int64
}

func (t *mapOfT[K, V]) Load(k int64) (int64, bool) { v, ok := t.m.Load(t.key(k)); return t.code(v), ok }
func (t *mapOfT[K, V]) Store(k, v int64)          { t.m.Store(t.key(k), t.val(v)) }
func (t *mapOfT[K, V]) LoadOrStore(k, v int64) (int64, bool) {
	r, ok := t.m.LoadOrStore(t.key(k), t.val(v))
	return t.code(r), ok
}
func (t *mapOfT[K, V]) LoadAndStore(k, v int64) (int64, bool) {
	r, ok := t.m.LoadAndStore(t.key(k), t.val(v))
	return t.code(r), ok
}
func (t *mapOfT[K, V]) LoadOrCompute(k, v int64) (int64, bool) {
	r, ok := t.m.LoadOrCompute(t.key(k), func() V { logf("fn:%d", k); return t.val(v) })
	return t.code(r), ok
}
func (t *mapOfT[K, V]) Compute(k int64, fn func(int64, bool) (int64, bool)) (int64, bool) {
	r, ok := t.m.Compute(t.key(k), func(old V, loaded bool) (V, bool) {
		logf("fn:%d", k)
		nv, del := fn(t.code(old), loaded)
		return t.val(nv), del
	})
	return t.code(r), ok
}
func (t *mapOfT[K, V]) LoadAndDelete(k int64) (int64, bool) {
	r, ok := t.m.LoadAndDelete(t.key(k))
	return t.code(r), ok
}
func (t *mapOfT[K, V]) Delete(k int64) { t.m.Delete(t.key(k)) }
func (t *mapOfT[K, V]) Clear()         { t.m.Clear() }
func (t *mapOfT[K, V]) Size() int      { return t.m.Size() }
func (t *mapOfT[K, V]) Range(f func(k, v int64) bool) {
	t.m.Range(func(k K, v V) bool { return f(t.unkey(k), t.code(v)) })
}
func (t *mapOfT[K, V]) Layout() layoutD {
	d := xsync.DumpLayoutMapOf(t.m)
	l := layoutD{tlen: d.TableLen, seed: d.Seed, size: d.CounterSum, nslots: xsync.VerifEntriesPerMapOfBucket}
	for _, ch := range d.Chains {
		var flat []slotD
		for _, b := range ch {
			for _, s := range b.Slots {
				sd := slotD{used: s.Used}
				if s.Used {
					sd.key = t.unkey(s.Key)
					sd.tag = uint64(s.Meta)
				} else if s.Meta != 0x80 {
					sd.used, sd.key, sd.tag = true, -999, uint64(s.Meta) // meta byte set without an entry
				}
				flat = append(flat, sd)
			}
		}
		l.chains = append(l.chains, flat)
	}
	return l
}
func (t *mapOfT[K, V]) Hash(k int64, seed uint64) uint64 { return xsync.VerifHashOf(t.m, t.key(k), seed) }
func (t *mapOfT[K, V]) MinLen() int                      { return xsync.VerifMinTableLenOf(t.m) }

// ---- user functions (coq/Exec.v) ----
func fnOf(zero int64, name string, arg int64) func(int64, bool) (int64, bool) {
	switch name {
	case "set":
		return func(old int64, loaded bool) (int64, bool) { return arg, false }
	case "incr":
		return func(old int64, loaded bool) (int64, bool) {
			if loaded && old != zero {
				return old + 1, false
			}
			return 1, false
		}
	case "delret":
		return func(old int64, loaded bool) (int64, bool) { return arg, true }
	case "delifloaded":
		return func(old int64, loaded bool) (int64, bool) { return arg, loaded }
	case "delifabsent":
		return func(old int64, loaded bool) (int64, bool) {
			if loaded {
				if old == zero {
					return arg, false
				}
				return old + arg, false
			}
			return arg, true
		}
	}
	panic("bad fn " + name)
}

func pint(s string) int64 {
	n, err := strconv.ParseInt(s, 10, 64)
	if err != nil {
		panic("bad int " + s)
	}
	return n
}
func b01(b bool) string {
	if b {
		return "1"
	}
	return "0"
}

func hasherOf(name string) func(int64) uint64 {
	switch name {
	case "const":
		return func(k int64) uint64 { return 0x5555_5555_5555_5555 }
	case "sameidx": // same bucket index in every table (h>>7 equal), h2 differs
		return func(k int64) uint64 { return 0x1234_5678_9abc_de00&^0x7f | uint64(k)&0x7f }
	case "sameh2": // same h2, bucket indices differ
		return func(k int64) uint64 { return uint64(k)*0x9e3779b97f4a7c15&^0x7f | 0x2a }
	case "h2coll": // pairs of keys share index and h2 (tag collisions inside a chain)
		return func(k int64) uint64 { return uint64(k/2)*0x9e3779b97f4a7c15&^0x7f | 0x11 }
	}
	return nil
}

func build(impl, hasher string, presize int, zero int64) target {
	var opts []func(*xsync.MapConfig)
	if presize != 0 {
		opts = append(opts, xsync.WithPresize(presize))
	}
	switch impl {
	case "map":
		return &mapT{m: xsync.NewMap(opts...), zero: zero}
	case "mapof_sa":
		t := &mapOfT[string, any]{key: strKey, unkey: keyOfStr,
			val: func(v int64) any {
				if v == zero {
					return nil
				}
				return v
			},
			code: func(v any) int64 {
				if v == nil {
					return zero
				}
				return v.(int64)
			}}
		if h := hasherOf(hasher); h != nil {
			t.m = xsync.NewMapOfHashed[string, any](func(k string) uint64 { return h(keyOfStr(k)) }, opts...)
		} else {
			t.m = xsync.NewMapOf[string, any](opts...)
		}
		return t
	case "mapof_ii":
		t := &mapOfT[int, int64]{key: func(k int64) int { return int(k) }, unkey: func(k int) int64 { return int64(k) },
			val: func(v int64) int64 { return v }, code: func(v int64) int64 { return v }}
		if h := hasherOf(hasher); h != nil {
			t.m = xsync.NewMapOfHashed[int, int64](func(k int) uint64 { return h(int64(k)) }, opts...)
		} else {
			t.m = xsync.NewMapOf[int, int64](opts...)
		}
		return t
	}
	panic("bad impl " + impl)
}

func layoutString(l layoutD) string {
	var sb strings.Builder
	fmt.Fprintf(&sb, "layout len=%d seed=%d size=%d chains=", l.tlen, l.seed, l.size)
	for i, ch := range l.chains {
		empty := true
		for _, s := range ch {
			if s.used {
				empty = false
			}
		}
		if empty && len(ch) == l.nslots {
			continue
		}
		fmt.Fprintf(&sb, "%d:", i)
		for j, s := range ch {
			if j > 0 {
				if j%l.nslots == 0 {
					sb.WriteByte('|')
				} else {
					sb.WriteByte(',')
				}
			}
			if s.used {
				fmt.Fprintf(&sb, "%d/%d", s.key, s.tag)
			} else {
				sb.WriteByte('-')
			}
		}
		sb.WriteByte(';')
	}
	return sb.String()
}

func main() {
	in := bufio.NewScanner(os.Stdin)
	in.Buffer(make([]byte, 1<<20), 1<<26)
	out := bufio.NewWriter(os.Stdout)
	defer out.Flush()
	var t target
	var zero int64
	idx := 0
	keys := map[int64]bool{}
	var seeds []uint64
	noteSeed := func() {
		s := t.Layout().seed
		if len(seeds) == 0 || seeds[len(seeds)-1] != s {
			seeds = append(seeds, s)
		}
	}
	for in.Scan() {
		f := strings.Fields(in.Text())
		if len(f) == 0 {
			continue
		}
		switch f[0] {
		case "CASE": // CASE id impl zero hasher presize
			zero = pint(f[3])
			t = build(f[2], f[4], int(pint(f[5])), zero)
			idx = 0
			keys = map[int64]bool{}
			seeds = nil
			noteSeed()
			fmt.Fprintf(out, "CASE %s\nbuilt minlen=%d\n", f[1], t.MinLen())
		case "SEED", "HASH": // oracle lines are for the model
		case "END":
			for g, s := range seeds {
				fmt.Fprintf(out, "SEED %d %d\n", g, s)
			}
			var ks []int64
			for k := range keys {
				ks = append(ks, k)
			}
			sort.Slice(ks, func(i, j int) bool { return ks[i] < ks[j] })
			done := map[uint64]bool{}
			for _, s := range seeds {
				if done[s] {
					continue
				}
				done[s] = true
				for _, k := range ks {
					fmt.Fprintf(out, "HASH %d %d %d\n", k, s, t.Hash(k, s))
				}
			}
			fmt.Fprintln(out, "END")
		case "OP":
			events = events[:0]
			res := runOp(t, zero, f[1:], keys)
			noteSeed()
			if f[1] == "layout" {
				fmt.Fprintf(out, "%d %s\n", idx, res)
			} else {
				fmt.Fprintf(out, "%d %s ; %s\n", idx, res, strings.Join(events, " "))
			}
			idx++
		default:
			panic("bad line " + in.Text())
		}
	}
}

func runOp(t target, zero int64, f []string, keys map[int64]bool) string {
	key := func(s string) int64 { k := pint(s); keys[k] = true; return k }
	switch f[0] {
	case "load":
		v, ok := t.Load(key(f[1]))
		return fmt.Sprintf("val %d %s", v, b01(ok))
	case "store":
		t.Store(key(f[1]), pint(f[2]))
		return "unit"
	case "loadorstore":
		v, ok := t.LoadOrStore(key(f[1]), pint(f[2]))
		return fmt.Sprintf("val %d %s", v, b01(ok))
	case "loadandstore":
		v, ok := t.LoadAndStore(key(f[1]), pint(f[2]))
		return fmt.Sprintf("val %d %s", v, b01(ok))
	case "loadorcompute":
		v, ok := t.LoadOrCompute(key(f[1]), pint(f[2]))
		return fmt.Sprintf("val %d %s", v, b01(ok))
	case "compute":
		v, ok := t.Compute(key(f[1]), fnOf(zero, f[2], pint(f[3])))
		return fmt.Sprintf("val %d %s", v, b01(ok))
	case "loadanddelete":
		v, ok := t.LoadAndDelete(key(f[1]))
		return fmt.Sprintf("val %d %s", v, b01(ok))
	case "delete":
		t.Delete(key(f[1]))
		return "unit"
	case "clear":
		t.Clear()
		return "unit"
	case "size":
		return fmt.Sprintf("nat %d", t.Size())
	case "range": // range all | range stopkey k
		var sb strings.Builder
		first := true
		stop := f[1] == "stopkey"
		sk := int64(0)
		if stop {
			sk = pint(f[2])
		}
		t.Range(func(k, v int64) bool {
			keys[k] = true
			if !first {
				sb.WriteByte(',')
			}
			first = false
			fmt.Fprintf(&sb, "%d:%d", k, v)
			return !(stop && k == sk)
		})
		return "list " + sb.String()
	case "layout":
		return layoutString(t.Layout())
	}
	panic("bad op " + strings.Join(f, " "))
}
