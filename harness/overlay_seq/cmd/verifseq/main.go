//go:build verif

// verifseq runs sequential case files (same format the OCaml model driver
// reads) against Cache / CacheOf under the virtual clock and prints one
// canonical line per call.
package main

import (
	"bufio"
	"fmt"
	"os"
	"runtime"
	"sort"
	"strconv"
	"strings"
	"time"

	cache "github.com/fufuok/cache"
	"github.com/fufuok/cache/internal/vclock"
)

// ---- key / value coding -------------------------------------------------

func strKey(k int64) string {
	if k == 0 {
		return ""
	}
	return "k" + strconv.FormatInt(k, 10)
}

func keyOfStr(s string) int64 {
	if s == "" {
		return 0
	}
	n, err := strconv.ParseInt(s[1:], 10, 64)
	if err != nil {
		panic("bad key " + s)
	}
	return n
}

// ---- target abstraction over the three instantiations ---------------------

type kv struct{ k, v int64 }

type target interface {
	Set(k, v, d int64)
	SetDefault(k, v int64)
	SetForever(k, v int64)
	Get(k int64) (int64, bool)
	GetWithExpiration(k int64) (int64, time.Time, bool)
	GetWithTTL(k int64) (int64, time.Duration, bool)
	GetOrSet(k, v, d int64) (int64, bool)
	GetAndSet(k, v, d int64) (int64, bool)
	GetAndRefresh(k, d int64) (int64, bool)
	GetOrCompute(k, v, d int64) (int64, bool)
	Compute(k int64, fn func(old int64, loaded bool) (int64, bool), d int64) (int64, bool)
	GetAndDelete(k int64) (int64, bool)
	Delete(k int64)
	DeleteExpired()
	Range(f func(k, v int64) bool, isNil bool)
	Items() []kv
	Clear()
	Count() int
	DefaultExpiration() int64
	SetDefaultExpiration(d int64)
	EvictedCallbackID() string
	SetEvictedCallback(id int)
	Dump() [][3]int64
}

var (
	events   []string
	probing  bool
	probedID int
)

func logf(format string, a ...interface{}) { events = append(events, fmt.Sprintf(format, a...)) }

// ---- Cache (string / interface{}) ------------------------------------------

type cacheT struct {
	c    cache.Cache
	zero int64
}

func (t *cacheT) val(v int64) interface{} {
	if v == t.zero {
		return nil
	}
	return v
}
func (t *cacheT) code(v interface{}) int64 {
	if v == nil {
		return t.zero
	}
	return v.(int64)
}
func (t *cacheT) cb(id int) cache.EvictedCallback {
	if id < 0 {
		return nil
	}
	return func(k string, v interface{}) {
		if probing {
			probedID = id
			return
		}
		logf("fire:%d:%d:%d", id, keyOfStr(k), t.code(v))
		logf("firecnt:%d", t.c.Count()) // what the callback sees of the cache while it runs (lock-free read)
	}
}
func (t *cacheT) Set(k, v, d int64)       { t.c.Set(strKey(k), t.val(v), time.Duration(d)) }
func (t *cacheT) SetDefault(k, v int64)   { t.c.SetDefault(strKey(k), t.val(v)) }
func (t *cacheT) SetForever(k, v int64)   { t.c.SetForever(strKey(k), t.val(v)) }
func (t *cacheT) Get(k int64) (int64, bool) {
	v, ok := t.c.Get(strKey(k))
	return t.code(v), ok
}
func (t *cacheT) GetWithExpiration(k int64) (int64, time.Time, bool) {
	v, e, ok := t.c.GetWithExpiration(strKey(k))
	return t.code(v), e, ok
}
func (t *cacheT) GetWithTTL(k int64) (int64, time.Duration, bool) {
	v, d, ok := t.c.GetWithTTL(strKey(k))
	return t.code(v), d, ok
}
func (t *cacheT) GetOrSet(k, v, d int64) (int64, bool) {
	r, ok := t.c.GetOrSet(strKey(k), t.val(v), time.Duration(d))
	return t.code(r), ok
}
func (t *cacheT) GetAndSet(k, v, d int64) (int64, bool) {
	r, ok := t.c.GetAndSet(strKey(k), t.val(v), time.Duration(d))
	return t.code(r), ok
}
func (t *cacheT) GetAndRefresh(k, d int64) (int64, bool) {
	r, ok := t.c.GetAndRefresh(strKey(k), time.Duration(d))
	return t.code(r), ok
}
func (t *cacheT) GetOrCompute(k, v, d int64) (int64, bool) {
	r, ok := t.c.GetOrCompute(strKey(k), func() interface{} {
		logf("fn:%d", k)
		return t.val(v)
	}, time.Duration(d))
	return t.code(r), ok
}
func (t *cacheT) Compute(k int64, fn func(int64, bool) (int64, bool), d int64) (int64, bool) {
	r, ok := t.c.Compute(strKey(k), func(old interface{}, loaded bool) (interface{}, bool) {
		logf("fn:%d", k)
		nv, del := fn(t.code(old), loaded)
		return t.val(nv), del
	}, time.Duration(d))
	return t.code(r), ok
}
func (t *cacheT) GetAndDelete(k int64) (int64, bool) {
	r, ok := t.c.GetAndDelete(strKey(k))
	return t.code(r), ok
}
func (t *cacheT) Delete(k int64) { t.c.Delete(strKey(k)) }
func (t *cacheT) DeleteExpired() { t.c.DeleteExpired() }
func (t *cacheT) Range(f func(k, v int64) bool, isNil bool) {
	if isNil {
		t.c.Range(nil)
		return
	}
	t.c.Range(func(k string, v interface{}) bool { return f(keyOfStr(k), t.code(v)) })
}
func (t *cacheT) Items() []kv {
	var out []kv
	for k, v := range t.c.Items() {
		out = append(out, kv{keyOfStr(k), t.code(v)})
	}
	return out
}
func (t *cacheT) Clear()                     { t.c.Clear() }
func (t *cacheT) Count() int                 { return t.c.Count() }
func (t *cacheT) DefaultExpiration() int64   { return int64(t.c.DefaultExpiration()) }
func (t *cacheT) SetDefaultExpiration(d int64) { t.c.SetDefaultExpiration(time.Duration(d)) }
func (t *cacheT) EvictedCallbackID() string {
	f := t.c.EvictedCallback()
	if f == nil {
		return "-"
	}
	probing, probedID = true, -1
	f("", nil)
	probing = false
	return strconv.Itoa(probedID)
}
func (t *cacheT) SetEvictedCallback(id int) { t.c.SetEvictedCallback(t.cb(id)) }
func (t *cacheT) Dump() [][3]int64 {
	var out [][3]int64
	for _, e := range cache.VerifDump(t.c) {
		out = append(out, [3]int64{keyOfStr(e.K), t.code(e.V), e.E})
	}
	return out
}

// ---- CacheOf[K,V] ----------------------------------------------------------

type cacheOfT[K comparable, V any] struct {
	c     cache.CacheOf[K, V]
	key   func(int64) K
	unkey func(K) int64
	val   func(int64) V
	code  func(V) int64
}

func (t *cacheOfT[K, V]) cb(id int) cache.EvictedCallbackOf[K, V] {
	if id < 0 {
		return nil
	}
	return func(k K, v V) {
		if probing {
			probedID = id
			return
		}
		logf("fire:%d:%d:%d", id, t.unkey(k), t.code(v))
		logf("firecnt:%d", t.c.Count())
	}
}
func (t *cacheOfT[K, V]) Set(k, v, d int64)     { t.c.Set(t.key(k), t.val(v), time.Duration(d)) }
func (t *cacheOfT[K, V]) SetDefault(k, v int64) { t.c.SetDefault(t.key(k), t.val(v)) }
func (t *cacheOfT[K, V]) SetForever(k, v int64) { t.c.SetForever(t.key(k), t.val(v)) }
func (t *cacheOfT[K, V]) Get(k int64) (int64, bool) {
	v, ok := t.c.Get(t.key(k))
	return t.code(v), ok
}
func (t *cacheOfT[K, V]) GetWithExpiration(k int64) (int64, time.Time, bool) {
	v, e, ok := t.c.GetWithExpiration(t.key(k))
	return t.code(v), e, ok
}
func (t *cacheOfT[K, V]) GetWithTTL(k int64) (int64, time.Duration, bool) {
	v, d, ok := t.c.GetWithTTL(t.key(k))
	return t.code(v), d, ok
}
func (t *cacheOfT[K, V]) GetOrSet(k, v, d int64) (int64, bool) {
	r, ok := t.c.GetOrSet(t.key(k), t.val(v), time.Duration(d))
	return t.code(r), ok
}
func (t *cacheOfT[K, V]) GetAndSet(k, v, d int64) (int64, bool) {
	r, ok := t.c.GetAndSet(t.key(k), t.val(v), time.Duration(d))
	return t.code(r), ok
}
func (t *cacheOfT[K, V]) GetAndRefresh(k, d int64) (int64, bool) {
	r, ok := t.c.GetAndRefresh(t.key(k), time.Duration(d))
	return t.code(r), ok
}
func (t *cacheOfT[K, V]) GetOrCompute(k, v, d int64) (int64, bool) {
	r, ok := t.c.GetOrCompute(t.key(k), func() V {
		logf("fn:%d", k)
		return t.val(v)
	}, time.Duration(d))
	return t.code(r), ok
}
func (t *cacheOfT[K, V]) Compute(k int64, fn func(int64, bool) (int64, bool), d int64) (int64, bool) {
	r, ok := t.c.Compute(t.key(k), func(old V, loaded bool) (V, bool) {
		logf("fn:%d", k)
		nv, del := fn(t.code(old), loaded)
		return t.val(nv), del
	}, time.Duration(d))
	return t.code(r), ok
}
func (t *cacheOfT[K, V]) GetAndDelete(k int64) (int64, bool) {
	r, ok := t.c.GetAndDelete(t.key(k))
	return t.code(r), ok
}
func (t *cacheOfT[K, V]) Delete(k int64) { t.c.Delete(t.key(k)) }
func (t *cacheOfT[K, V]) DeleteExpired() { t.c.DeleteExpired() }
func (t *cacheOfT[K, V]) Range(f func(k, v int64) bool, isNil bool) {
	if isNil {
		t.c.Range(nil)
		return
	}
	t.c.Range(func(k K, v V) bool { return f(t.unkey(k), t.code(v)) })
}
func (t *cacheOfT[K, V]) Items() []kv {
	var out []kv
	for k, v := range t.c.Items() {
		out = append(out, kv{t.unkey(k), t.code(v)})
	}
	return out
}
func (t *cacheOfT[K, V]) Clear()                       { t.c.Clear() }
func (t *cacheOfT[K, V]) Count() int                   { return t.c.Count() }
func (t *cacheOfT[K, V]) DefaultExpiration() int64     { return int64(t.c.DefaultExpiration()) }
func (t *cacheOfT[K, V]) SetDefaultExpiration(d int64) { t.c.SetDefaultExpiration(time.Duration(d)) }
func (t *cacheOfT[K, V]) EvictedCallbackID() string {
	f := t.c.EvictedCallback()
	if f == nil {
		return "-"
	}
	probing, probedID = true, -1
	var zk K
	var zv V
	f(zk, zv)
	probing = false
	return strconv.Itoa(probedID)
}
func (t *cacheOfT[K, V]) SetEvictedCallback(id int) { t.c.SetEvictedCallback(t.cb(id)) }
func (t *cacheOfT[K, V]) Dump() [][3]int64 {
	var out [][3]int64
	for _, e := range cache.VerifDumpOf[K, V](t.c) {
		out = append(out, [3]int64{t.unkey(e.K), t.code(e.V), e.E})
	}
	return out
}

// ---- user function / visitor families (must match coq/Exec.v) ---------------

func fnOf(zero int64, name string, arg int64) func(int64, bool) (int64, bool) {
	switch name {
	case "set":
		return func(old int64, loaded bool) (int64, bool) { return arg, false }
	case "incr":
		return func(old int64, loaded bool) (int64, bool) {
			if loaded && old != zero {
				return old + 1, false
			}
			return 1, false
		}
	case "delret":
		return func(old int64, loaded bool) (int64, bool) { return arg, true }
	case "delifloaded":
		return func(old int64, loaded bool) (int64, bool) { return arg, loaded }
	case "delifabsent":
		return func(old int64, loaded bool) (int64, bool) {
			if loaded {
				if old == zero {
					return arg, false
				}
				return old + arg, false
			}
			return arg, true
		}
	}
	panic("bad fn " + name)
}

func visOf(name string, arg int64) (func(k, v int64) bool, bool) {
	switch name {
	case "nil":
		return nil, true
	case "all":
		return func(k, v int64) bool { return true }, false
	case "stopkey":
		return func(k, v int64) bool { return k != arg }, false
	case "stopvalge":
		return func(k, v int64) bool { return v < arg }, false
	}
	panic("bad visitor " + name)
}

// ---- janitor detection --------------------------------------------------

// ids of the goroutines currently running a janitor loop
func janitorGoroutines() map[string]bool {
	buf := make([]byte, 1<<22)
	n := runtime.Stack(buf, true)
	ids := map[string]bool{}
	for _, g := range strings.Split(string(buf[:n]), "\n\n") {
		if strings.Contains(g, "cache.newXsyncMap") && strings.Contains(g, ".func1()") {
			f := strings.Fields(g)
			if len(f) > 1 {
				ids[f[1]] = true
			}
		}
	}
	return ids
}

// ---- driver ---------------------------------------------------------------

type ctorSpec struct {
	impl    string
	zero    int64
	now0    int64
	kind    string // new | newdefault
	opts    [][2]string
	dflt    int64
	intv    int64
	cbs     []int
}

func cbID(s string) int {
	if s == "-" {
		return -1
	}
	n, _ := strconv.Atoi(s)
	return n
}

func build(cs *ctorSpec) target {
	switch cs.impl {
	case "cache":
		t := &cacheT{zero: cs.zero}
		if cs.kind == "newdefault" {
			var cbs []cache.EvictedCallback
			for _, id := range cs.cbs {
				cbs = append(cbs, t.cb(id))
			}
			t.c = cache.NewDefault(time.Duration(cs.dflt), time.Duration(cs.intv), cbs...)
		} else {
			var opts []cache.Option
			for _, o := range cs.opts {
				switch o[0] {
				case "dflt":
					opts = append(opts, cache.WithDefaultExpiration(time.Duration(pint(o[1]))))
				case "interval":
					opts = append(opts, cache.WithCleanupInterval(time.Duration(pint(o[1]))))
				case "cb":
					opts = append(opts, cache.WithEvictedCallback(t.cb(cbID(o[1]))))
				case "mincap":
					opts = append(opts, cache.WithMinCapacity(int(pint(o[1]))))
				}
			}
			t.c = cache.New(opts...)
		}
		return t
	case "cacheof_sa":
		t := &cacheOfT[string, any]{
			key: strKey, unkey: keyOfStr,
			val: func(v int64) any {
				if v == cs.zero {
					return nil
				}
				return v
			},
			code: func(v any) int64 {
				if v == nil {
					return cs.zero
				}
				return v.(int64)
			},
		}
		buildOf(t, cs)
		return t
	case "cacheof_ii":
		t := &cacheOfT[int, int64]{
			key: func(k int64) int { return int(k) }, unkey: func(k int) int64 { return int64(k) },
			val: func(v int64) int64 { return v }, code: func(v int64) int64 { return v },
		}
		buildOf(t, cs)
		return t
	}
	panic("bad impl " + cs.impl)
}

func buildOf[K comparable, V any](t *cacheOfT[K, V], cs *ctorSpec) {
	if cs.kind == "newdefault" {
		var cbs []cache.EvictedCallbackOf[K, V]
		for _, id := range cs.cbs {
			cbs = append(cbs, t.cb(id))
		}
		t.c = cache.NewOfDefault[K, V](time.Duration(cs.dflt), time.Duration(cs.intv), cbs...)
		return
	}
	var opts []cache.OptionOf[K, V]
	for _, o := range cs.opts {
		switch o[0] {
		case "dflt":
			opts = append(opts, cache.WithDefaultExpirationOf[K, V](time.Duration(pint(o[1]))))
		case "interval":
			opts = append(opts, cache.WithCleanupIntervalOf[K, V](time.Duration(pint(o[1]))))
		case "cb":
			opts = append(opts, cache.WithEvictedCallbackOf[K, V](t.cb(cbID(o[1]))))
		case "mincap":
			opts = append(opts, cache.WithMinCapacityOf[K, V](int(pint(o[1]))))
		}
	}
	t.c = cache.NewOf[K, V](opts...)
}

func pint(s string) int64 {
	n, err := strconv.ParseInt(s, 10, 64)
	if err != nil {
		panic("bad int " + s)
	}
	return n
}

func b01(b bool) string {
	if b {
		return "1"
	}
	return "0"
}

func pairs(l []kv) string {
	var sb strings.Builder
	for i, p := range l {
		if i > 0 {
			sb.WriteByte(',')
		}
		fmt.Fprintf(&sb, "%d:%d", p.k, p.v)
	}
	return sb.String()
}

func main() {
	// no janitor of any cache built here ticks: every removal is made by a call of the case
	vclock.FreezeTickers(true)
	in := bufio.NewScanner(os.Stdin)
	in.Buffer(make([]byte, 1<<20), 1<<26)
	out := bufio.NewWriter(os.Stdout)
	defer out.Flush()

	var cs *ctorSpec
	var t target
	idx := 0
	start := func() {
		if t != nil {
			return
		}
		vclock.Set(cs.now0)
		before := janitorGoroutines()
		t = build(cs)
		runtime.Gosched()
		started := false
		for id := range janitorGoroutines() {
			if !before[id] {
				started = true
			}
		}
		// interval/presize are not observable through the API; the model's
		// values are compared only where the driver can see them.
		fmt.Fprintf(out, "built janitor=%s dflt=%d cb=%s\n", b01(started), t.DefaultExpiration(), t.EvictedCallbackID())
		idx = 0
	}
	for in.Scan() {
		f := strings.Fields(in.Text())
		if len(f) == 0 {
			continue
		}
		switch f[0] {
		case "CASE":
			cs = &ctorSpec{impl: f[2], zero: pint(f[3]), now0: pint(f[4]), kind: "new"}
			t = nil
			fmt.Fprintf(out, "CASE %s\n", f[1])
		case "NEW":
		case "OPT":
			cs.opts = append(cs.opts, [2]string{f[1], f[2]})
		case "NEWDEFAULT":
			cs.kind = "newdefault"
			cs.dflt, cs.intv = pint(f[1]), pint(f[2])
			for _, c := range f[3:] {
				cs.cbs = append(cs.cbs, cbID(c))
			}
			start()
		case "END":
			start()
			fmt.Fprintln(out, "END")
		case "OP":
			start()
			events = events[:0]
			res := runOp(t, cs.zero, f[1:])
			if f[1] == "dump" {
				fmt.Fprintf(out, "%d %s\n", idx, res)
			} else {
				fmt.Fprintf(out, "%d %s ; %s\n", idx, res, strings.Join(events, " "))
			}
			idx++
		default:
			panic("bad line " + in.Text())
		}
	}
}

func runOp(t target, zero int64, f []string) string {
	switch f[0] {
	case "set":
		t.Set(pint(f[1]), pint(f[2]), pint(f[3]))
		return "unit"
	case "setdefault":
		t.SetDefault(pint(f[1]), pint(f[2]))
		return "unit"
	case "setforever":
		t.SetForever(pint(f[1]), pint(f[2]))
		return "unit"
	case "get":
		v, ok := t.Get(pint(f[1]))
		return fmt.Sprintf("val %d %s", v, b01(ok))
	case "getexp":
		v, e, ok := t.GetWithExpiration(pint(f[1]))
		var en int64
		if !e.IsZero() {
			en = e.UnixNano()
		}
		return fmt.Sprintf("valexp %d %d %s", v, en, b01(ok))
	case "getttl":
		v, d, ok := t.GetWithTTL(pint(f[1]))
		return fmt.Sprintf("valttl %d %d %s", v, int64(d), b01(ok))
	case "getorset":
		v, ok := t.GetOrSet(pint(f[1]), pint(f[2]), pint(f[3]))
		return fmt.Sprintf("val %d %s", v, b01(ok))
	case "getandset":
		v, ok := t.GetAndSet(pint(f[1]), pint(f[2]), pint(f[3]))
		return fmt.Sprintf("val %d %s", v, b01(ok))
	case "getandrefresh":
		v, ok := t.GetAndRefresh(pint(f[1]), pint(f[2]))
		return fmt.Sprintf("val %d %s", v, b01(ok))
	case "getorcompute":
		v, ok := t.GetOrCompute(pint(f[1]), pint(f[2]), pint(f[3]))
		return fmt.Sprintf("val %d %s", v, b01(ok))
	case "compute":
		v, ok := t.Compute(pint(f[1]), fnOf(zero, f[2], pint(f[3])), pint(f[4]))
		return fmt.Sprintf("val %d %s", v, b01(ok))
	case "getanddelete":
		v, ok := t.GetAndDelete(pint(f[1]))
		return fmt.Sprintf("val %d %s", v, b01(ok))
	case "delete":
		t.Delete(pint(f[1]))
		return "unit"
	case "deleteexpired":
		t.DeleteExpired()
		return "unit"
	case "range":
		vis, isNil := visOf(f[1], pint(f[2]))
		var visited []kv
		t.Range(func(k, v int64) bool {
			logf("visit:%d:%d", k, v)
			visited = append(visited, kv{k, v})
			return vis(k, v)
		}, isNil)
		return "list " + pairs(visited)
	case "items":
		l := t.Items()
		sort.Slice(l, func(i, j int) bool { return l[i].k < l[j].k })
		return "list " + pairs(l)
	case "clear":
		t.Clear()
		return "unit"
	case "count":
		return fmt.Sprintf("nat %d", t.Count())
	case "getdflt":
		return fmt.Sprintf("dur %d", t.DefaultExpiration())
	case "setdflt":
		t.SetDefaultExpiration(pint(f[1]))
		return "unit"
	case "getcb":
		return "cb " + t.EvictedCallbackID()
	case "setcb":
		t.SetEvictedCallback(cbID(f[1]))
		return "unit"
	case "advance":
		vclock.Advance(pint(f[1]))
		return "unit"
	case "dump":
		d := t.Dump()
		sort.Slice(d, func(i, j int) bool { return d[i][0] < d[j][0] })
		var sb strings.Builder
		for i, e := range d {
			if i > 0 {
				sb.WriteByte(',')
			}
			fmt.Fprintf(&sb, "%d:%d:%d", e[0], e[1], e[2])
		}
		return fmt.Sprintf("dump now=%d dflt=%d cb=%s n=%d %s", vclock.NowNano(), t.DefaultExpiration(), t.EvictedCallbackID(), len(d), sb.String())
	}
	panic("bad op " + strings.Join(f, " "))
}
