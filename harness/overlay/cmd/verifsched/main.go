//go:build verif

// Command verifsched runs scenarios against the rewritten library under the
// controlled scheduler. One JSON scenario per line on stdin, one JSON result
// per line on stdout. Formats: see harness/README.md.
package main

import (
	"bufio"
	"bytes"
	"encoding/json"
	"flag"
	"fmt"
	"math"
	"os"
	"runtime"
	"sort"
	"strconv"
	"strings"
	"time"

	"github.com/fufuok/cache"
	"github.com/fufuok/cache/internal/vclock"
	"github.com/fufuok/cache/internal/vsched"
	"github.com/fufuok/cache/internal/xsync"
)

// NIL encodes a nil value in event fields (which are int64 only).
const NIL = math.MinInt64

// ---- values ------------------------------------------------------------------

// Val is an int64 or nil; Set tells whether the JSON field was present.
type Val struct {
	Set bool
	Nil bool
	I   int64
}

func (v *Val) UnmarshalJSON(b []byte) error {
	v.Set = true
	if string(b) == "null" {
		v.Nil = true
		return nil
	}
	return json.Unmarshal(b, &v.I)
}

func iv(i int64) Val { return Val{Set: true, I: i} }

var nilVal = Val{Set: true, Nil: true}

func (v Val) ev() int64 {
	if v.Nil {
		return NIL
	}
	return v.I
}

func (v Val) app(b []byte) []byte {
	if v.Nil {
		return append(b, "null"...)
	}
	return strconv.AppendInt(b, v.I, 10)
}

// ---- scenario ----------------------------------------------------------------

type Op struct {
	Op      string `json:"op"`
	K       int    `json:"k"`
	V       Val    `json:"v"`
	D       int64  `json:"d"`
	Fn      string `json:"fn"`
	Visitor string `json:"visitor"`
	Park    string `json:"park"`
	Cb      int    `json:"cb"`
	Dt      int64  `json:"dt"`
	raw     string
}

type SchedSpec struct {
	Kind  string `json:"kind"`
	Seed  uint64 `json:"seed"`
	Depth int    `json:"depth"`
	Len   int    `json:"len"`
	Tids  []int  `json:"tids"`
	A     int    `json:"a"`
	B     int    `json:"b"`
	Park  string `json:"park"`
	K     int    `json:"k"`
	At    string `json:"at"`
	Nth   int    `json:"nth"`
	BMax  int    `json:"b_max"`
}

type Scenario struct {
	ID        string              `json:"id"`
	Container string              `json:"container"`
	Hasher    string              `json:"hasher"`
	Presize   int                 `json:"presize"`
	Dflt      int64               `json:"dflt"`
	Cb        bool                `json:"cb"`
	CbReenter string              `json:"cb_reenter"` // "get": the evicted callback calls Get(k) and Count() on the same cache
	Setup     []json.RawMessage   `json:"setup"`
	Threads   [][]json.RawMessage `json:"threads"`
	Sched     SchedSpec           `json:"sched"`
	Hold      []string            `json:"hold"`
	MaxSteps  int                 `json:"max_steps"`
	Trace     bool                `json:"trace"`
	Layout    *bool               `json:"layout"`
	RSeed     uint64              `json:"rseed"`
}

func parseOps(raws []json.RawMessage) ([]*Op, error) {
	ops := make([]*Op, 0, len(raws))
	for _, r := range raws {
		op := &Op{}
		if err := json.Unmarshal(r, op); err != nil {
			return nil, fmt.Errorf("bad op %s: %v", string(r), err)
		}
		var cb bytes.Buffer
		if err := json.Compact(&cb, r); err != nil {
			return nil, err
		}
		op.raw = cb.String()
		ops = append(ops, op)
	}
	return ops, nil
}

// ---- results -----------------------------------------------------------------

type kvPair struct {
	k int
	v Val
}

type res struct {
	hasV, hasOk, hasN, hasE, hasTTL, hasItems bool
	v                                         Val
	ok                                        bool
	n, e, ttl                                 int64
	items                                     []kvPair
}

func appPairs(b []byte, ps []kvPair) []byte {
	b = append(b, '[')
	for i, p := range ps {
		if i > 0 {
			b = append(b, ',')
		}
		b = append(b, '[')
		b = strconv.AppendInt(b, int64(p.k), 10)
		b = append(b, ',')
		b = p.v.app(b)
		b = append(b, ']')
	}
	return append(b, ']')
}

func (r *res) app(b []byte) []byte {
	b = append(b, '{')
	first := true
	sep := func(name string) {
		if !first {
			b = append(b, ',')
		}
		first = false
		b = append(b, '"')
		b = append(b, name...)
		b = append(b, '"', ':')
	}
	if r.hasV {
		sep("v")
		b = r.v.app(b)
	}
	if r.hasOk {
		sep("ok")
		b = strconv.AppendBool(b, r.ok)
	}
	if r.hasN {
		sep("n")
		b = strconv.AppendInt(b, r.n, 10)
	}
	if r.hasE {
		sep("e")
		b = strconv.AppendInt(b, r.e, 10)
	}
	if r.hasTTL {
		sep("ttl")
		b = strconv.AppendInt(b, r.ttl, 10)
	}
	if r.hasItems {
		sep("items")
		b = appPairs(b, r.items)
	}
	return append(b, '}')
}

func resVO(v Val, ok bool) res { return res{hasV: true, v: v, hasOk: true, ok: ok} }

type hentry struct {
	t, i, sub int
	raw       string
	inv, ret  int
	r         res
}

func (h *hentry) app(b []byte) []byte {
	b = append(b, `{"t":`...)
	b = strconv.AppendInt(b, int64(h.t), 10)
	b = append(b, `,"i":`...)
	b = strconv.AppendInt(b, int64(h.i), 10)
	if h.sub > 0 {
		b = append(b, `,"sub":`...)
		b = strconv.AppendInt(b, int64(h.sub), 10)
	}
	b = append(b, `,"op":`...)
	b = append(b, h.raw...)
	b = append(b, `,"inv":`...)
	b = strconv.AppendInt(b, int64(h.inv), 10)
	b = append(b, `,"ret":`...)
	b = strconv.AppendInt(b, int64(h.ret), 10)
	b = append(b, `,"res":`...)
	b = h.r.app(b)
	return append(b, '}')
}

// xctx is the per-thread execution context.
type xctx struct {
	tid  int
	idx  int
	nsub int
	hist *[]hentry
}

type container interface {
	exec(x *xctx, op *Op) res
	final(keys []int, layout bool) []byte // JSON members of "final" without braces, ledger excluded
}

type opError struct{ msg string }

func fail(format string, a ...any) { panic(opError{fmt.Sprintf(format, a...)}) }

// runOp executes op (top-level when sub == false, else nested inside a
// visitor) and records it in the history of the thread.
func runOp(c container, x *xctx, op *Op, nested bool) res {
	h := hentry{t: x.tid, i: x.idx, raw: op.raw, inv: -1, ret: -1}
	if nested {
		x.nsub++
		h.sub = x.nsub
	}
	if vsched.InRun() {
		h.inv = vsched.StepNo() + 1
	}
	*x.hist = append(*x.hist, h)
	at := len(*x.hist) - 1
	r := c.exec(x, op)
	e := &(*x.hist)[at]
	e.r = r
	if vsched.InRun() {
		e.ret = vsched.StepNo()
		if e.ret < e.inv { // op without any primitive
			e.ret = e.inv
		}
	}
	return r
}

func nestedOp(c container, x *xctx, name string, k int, v *Val, d *int64) {
	b := []byte(`{"op":"` + name + `"`)
	op := &Op{Op: name}
	if k >= 0 {
		op.K = k
		b = append(b, `,"k":`...)
		b = strconv.AppendInt(b, int64(k), 10)
	}
	if v != nil {
		op.V = *v
		b = append(b, `,"v":`...)
		b = v.app(b)
	}
	if d != nil {
		op.D = *d
		b = append(b, `,"d":`...)
		b = strconv.AppendInt(b, *d, 10)
	}
	b = append(b, '}')
	op.raw = string(b)
	runOp(c, x, op, true)
}

// ---- compute functions -------------------------------------------------------

type fnSpec struct {
	kind string
	v    int64
}

func parseFn(s string) fnSpec {
	name, arg, hasArg := strings.Cut(s, ":")
	f := fnSpec{kind: name}
	if hasArg {
		n, err := strconv.ParseInt(arg, 10, 64)
		if err != nil {
			fail("bad fn %q", s)
		}
		f.v = n
		if name == "del" {
			f.kind = "delv"
		}
	}
	switch f.kind {
	case "set", "delv", "delif":
		if !hasArg {
			fail("fn %q needs an argument", s)
		}
	case "incr", "del", "noop-del-abs":
	default:
		fail("unknown fn %q", s)
	}
	return f
}

// apply is the pure function computed by the valueFn handed to Compute.
// old is what the library passed (its zero value when !loaded).
func (f fnSpec) apply(old Val, loaded bool, zero Val) (Val, bool) {
	switch f.kind {
	case "set":
		return iv(f.v), false
	case "incr":
		if !loaded || old.Nil {
			return iv(1), false
		}
		return iv(old.I + 1), false
	case "del":
		return old, true
	case "delv":
		return iv(f.v), true
	case "delif":
		if loaded {
			if !old.Nil && old.I == f.v {
				return old, true
			}
			return old, false
		}
		return iv(f.v), false
	case "noop-del-abs":
		if loaded {
			return old, false
		}
		return zero, true
	}
	panic("unreachable")
}

type visitor struct {
	kind  string
	arg   int64
	count int
	seen  []kvPair
}

func parseVisitor(s string) *visitor {
	if s == "" {
		s = "all"
	}
	name, arg, hasArg := strings.Cut(s, ":")
	v := &visitor{kind: name}
	if hasArg {
		n, err := strconv.ParseInt(arg, 10, 64)
		if err != nil {
			fail("bad visitor %q", s)
		}
		v.arg = n
	}
	switch name {
	case "all", "del", "clear":
	case "stop", "store", "ins":
		if !hasArg {
			fail("visitor %q needs an argument", s)
		}
	default:
		fail("unknown visitor %q", s)
	}
	return v
}

func sortPairs(ps []kvPair) {
	sort.SliceStable(ps, func(i, j int) bool { return ps[i].k < ps[j].k })
}

// ---- key / value codecs ------------------------------------------------------

func strKey(k int) string {
	if k == 0 {
		return ""
	}
	return "k" + strconv.Itoa(k)
}

func strUnkey(s string) int {
	if s == "" {
		return 0
	}
	n, err := strconv.Atoi(strings.TrimPrefix(s, "k"))
	if err != nil {
		return -1
	}
	return n
}

func intKey(k int) int   { return k }
func intUnkey(k int) int { return k }

func anyToV(v Val) any {
	if v.Nil {
		return nil
	}
	return v.I
}

func anyFromV(v any) Val {
	if v == nil {
		return nilVal
	}
	return iv(v.(int64))
}

func i64ToV(v Val) int64 {
	if v.Nil {
		fail(`"v":null is only valid for Map and Cache`)
	}
	return v.I
}

func i64FromV(v int64) Val { return iv(v) }

// ---- Map / MapOf -------------------------------------------------------------

type mapC[K comparable, V any] struct {
	m      cache.MapOf[K, V] // *xsync.Map has exactly the method set of MapOf[string, interface{}]
	key    func(int) K
	unkey  func(K) int
	toV    func(Val) V
	fromV  func(V) Val
	zero   Val
	layout func() []byte
}

func (c *mapC[K, V]) exec(x *xctx, op *Op) res {
	k := op.K
	switch op.Op {
	case "Load":
		v, ok := c.m.Load(c.key(k))
		return resVO(c.fromV(v), ok)
	case "Store":
		c.m.Store(c.key(k), c.toV(op.V))
		return res{}
	case "LoadOrStore":
		v, ok := c.m.LoadOrStore(c.key(k), c.toV(op.V))
		return resVO(c.fromV(v), ok)
	case "LoadAndStore":
		v, ok := c.m.LoadAndStore(c.key(k), c.toV(op.V))
		return resVO(c.fromV(v), ok)
	case "LoadOrCompute":
		nv := c.toV(op.V)
		v, ok := c.m.LoadOrCompute(c.key(k), func() V {
			vsched.Event("fn", int64(k))
			if op.Park != "" {
				vsched.Park(op.Park)
			}
			return nv
		})
		return resVO(c.fromV(v), ok)
	case "Compute":
		f := parseFn(op.Fn)
		v, ok := c.m.Compute(c.key(k), func(old V, loaded bool) (V, bool) {
			o := c.fromV(old)
			vsched.Event("fn", int64(k), o.ev(), b2i(loaded))
			if op.Park != "" {
				vsched.Park(op.Park)
			}
			nv, del := f.apply(o, loaded, c.zero)
			return c.toV(nv), del
		})
		return resVO(c.fromV(v), ok)
	case "LoadAndDelete":
		v, ok := c.m.LoadAndDelete(c.key(k))
		return resVO(c.fromV(v), ok)
	case "Delete":
		c.m.Delete(c.key(k))
		return res{}
	case "Clear":
		c.m.Clear()
		return res{}
	case "Size":
		return res{hasN: true, n: int64(c.m.Size())}
	case "Range":
		vis := parseVisitor(op.Visitor)
		c.m.Range(func(kk K, vv V) bool {
			ki, val := c.unkey(kk), c.fromV(vv)
			vis.count++
			vis.seen = append(vis.seen, kvPair{ki, val})
			vsched.Event("visit", int64(ki), val.ev())
			switch vis.kind {
			case "stop":
				return int64(vis.count) < vis.arg
			case "del":
				nestedOp(c, x, "Delete", ki, nil, nil)
			case "store":
				nv := iv(vis.arg)
				nestedOp(c, x, "Store", ki, &nv, nil)
			case "ins":
				nestedOp(c, x, "Store", int(vis.arg)+ki, &val, nil)
			case "clear":
				if vis.count == 1 {
					nestedOp(c, x, "Clear", -1, nil, nil)
				}
			}
			return true
		})
		sortPairs(vis.seen)
		return res{hasN: true, n: int64(vis.count), hasItems: true, items: vis.seen}
	}
	fail("unknown op %q for a map container", op.Op)
	return res{}
}

func (c *mapC[K, V]) final(keys []int, layout bool) []byte {
	b := []byte(`"size":`)
	b = strconv.AppendInt(b, int64(c.m.Size()), 10)
	var rg []kvPair
	c.m.Range(func(kk K, vv V) bool {
		rg = append(rg, kvPair{c.unkey(kk), c.fromV(vv)})
		return true
	})
	sortPairs(rg)
	var loads []kvPair
	for _, k := range keys {
		if v, ok := c.m.Load(c.key(k)); ok {
			loads = append(loads, kvPair{k, c.fromV(v)})
		}
	}
	b = append(b, `,"loads":`...)
	b = appPairs(b, loads)
	b = append(b, `,"range":`...)
	b = appPairs(b, rg)
	if layout && c.layout != nil {
		b = append(b, `,"layout":`...)
		b = append(b, c.layout()...)
	}
	return b
}

func b2i(b bool) int64 {
	if b {
		return 1
	}
	return 0
}

// layoutJSON renders a LayoutDump. Chain = list of buckets; bucket =
// {"lock":0|1,"w":"<raw word hex>","slots":[slot...]}; slot of Map =
// [key|null, present(0|1), tophash]; slot of MapOf = [key|null, meta].
func layoutJSON[K any](d xsync.LayoutDump[K], unkey func(K) int, isMapOf bool) []byte {
	b := []byte(`{"buckets":`)
	b = strconv.AppendInt(b, int64(d.TableLen), 10)
	b = append(b, `,"seed":`...)
	b = strconv.AppendUint(b, d.Seed, 10)
	b = append(b, `,"counter":`...)
	b = strconv.AppendInt(b, d.CounterSum, 10)
	b = append(b, `,"resizing":`...)
	b = strconv.AppendInt(b, d.Resizing, 10)
	b = append(b, `,"growths":`...)
	b = strconv.AppendInt(b, d.Growths, 10)
	b = append(b, `,"shrinks":`...)
	b = strconv.AppendInt(b, d.Shrinks, 10)
	b = append(b, `,"chains":[`...)
	for i, ch := range d.Chains {
		if i > 0 {
			b = append(b, ',')
		}
		b = append(b, '[')
		for j, bk := range ch {
			if j > 0 {
				b = append(b, ',')
			}
			b = append(b, `{"lock":`...)
			b = strconv.AppendInt(b, b2i(bk.Locked), 10)
			b = append(b, `,"w":"`...)
			b = strconv.AppendUint(b, bk.Word, 16)
			b = append(b, `","slots":[`...)
			for s, sl := range bk.Slots {
				if s > 0 {
					b = append(b, ',')
				}
				b = append(b, '[')
				if sl.Used {
					b = strconv.AppendInt(b, int64(unkey(sl.Key)), 10)
				} else {
					b = append(b, "null"...)
				}
				b = append(b, ',')
				if isMapOf {
					b = strconv.AppendInt(b, int64(sl.Meta), 10)
				} else {
					b = strconv.AppendInt(b, b2i(sl.Present), 10)
					b = append(b, ',')
					b = strconv.AppendInt(b, int64(sl.TopHash), 10)
				}
				b = append(b, ']')
			}
			b = append(b, `]}`...)
		}
		b = append(b, ']')
	}
	return append(b, `]}`...)
}

func presizeOpts(n int) []func(*xsync.MapConfig) {
	if n > 0 {
		return []func(*xsync.MapConfig){xsync.WithPresize(n)}
	}
	return nil
}

func newMapC(sc *Scenario) container {
	if sc.Hasher != "" && sc.Hasher != "default" {
		fail("hasher applies to MapOf_* only")
	}
	m := xsync.NewMap(presizeOpts(sc.Presize)...)
	return &mapC[string, any]{
		m: m, key: strKey, unkey: strUnkey, toV: anyToV, fromV: anyFromV, zero: nilVal,
		layout: func() []byte { return layoutJSON(xsync.DumpLayoutMap(m), strUnkey, false) },
	}
}

func newMapOfC[K comparable](sc *Scenario, key func(int) K, unkey func(K) int) container {
	var m *xsync.MapOf[K, int64]
	opts := presizeOpts(sc.Presize)
	switch sc.Hasher {
	case "", "default":
		m = xsync.NewMapOf[K, int64](opts...)
	case "const":
		m = xsync.NewMapOfHashed[K, int64](func(K) uint64 { return 0x9E3779B97F4A7C15 }, opts...)
	case "sameidx":
		// same h1 (h>>7) for all keys, h2 = key number mod 128
		m = xsync.NewMapOfHashed[K, int64](func(k K) uint64 { return 0x1234567<<7 | uint64(unkey(k))&0x7f }, opts...)
	case "sameh2":
		// same h2 for all keys, bucket index = key number mod tableLen
		m = xsync.NewMapOfHashed[K, int64](func(k K) uint64 { return uint64(unkey(k))<<7 | 0x2a }, opts...)
	default:
		fail("unknown hasher %q", sc.Hasher)
	}
	return &mapC[K, int64]{
		m: m, key: key, unkey: unkey, toV: i64ToV, fromV: i64FromV, zero: iv(0),
		layout: func() []byte { return layoutJSON(xsync.DumpLayoutMapOf(m), unkey, true) },
	}
}

// ---- Cache / CacheOf ---------------------------------------------------------

// cacheAsOf adapts cache.Cache to cache.CacheOf[string, any] (only the two
// callback accessors differ, by the name of the func type).
type cacheAsOf struct{ cache.Cache }

func (c cacheAsOf) EvictedCallback() cache.EvictedCallbackOf[string, any] {
	return cache.EvictedCallbackOf[string, any](c.Cache.EvictedCallback())
}

func (c cacheAsOf) SetEvictedCallback(f cache.EvictedCallbackOf[string, any]) {
	c.Cache.SetEvictedCallback(cache.EvictedCallback(f))
}

type cacheC[K comparable, V any] struct {
	c       cache.CacheOf[K, V]
	key     func(int) K
	unkey   func(K) int
	toV     func(Val) V
	fromV   func(V) Val
	zero    Val
	reenter string
}

func (c *cacheC[K, V]) callback(id int) cache.EvictedCallbackOf[K, V] {
	if id == 0 {
		return nil
	}
	return func(k K, v V) {
		vsched.Event("cb", int64(c.unkey(k)), c.fromV(v).ev(), int64(id))
		if c.reenter == "get" {
			// callbacks run without internal locks held: they may call the same container
			c.c.Get(k)
			c.c.Count()
		}
	}
}

func (c *cacheC[K, V]) exec(x *xctx, op *Op) res {
	k := op.K
	d := time.Duration(op.D)
	switch op.Op {
	case "Set":
		c.c.Set(c.key(k), c.toV(op.V), d)
		return res{}
	case "SetDefault":
		c.c.SetDefault(c.key(k), c.toV(op.V))
		return res{}
	case "SetForever":
		c.c.SetForever(c.key(k), c.toV(op.V))
		return res{}
	case "Get":
		v, ok := c.c.Get(c.key(k))
		return resVO(c.fromV(v), ok)
	case "GetWithExpiration":
		v, t, ok := c.c.GetWithExpiration(c.key(k))
		r := resVO(c.fromV(v), ok)
		r.hasE = true
		if !t.IsZero() {
			r.e = t.UnixNano()
		}
		return r
	case "GetWithTTL":
		v, ttl, ok := c.c.GetWithTTL(c.key(k))
		r := resVO(c.fromV(v), ok)
		r.hasTTL, r.ttl = true, int64(ttl)
		return r
	case "GetOrSet":
		v, ok := c.c.GetOrSet(c.key(k), c.toV(op.V), d)
		return resVO(c.fromV(v), ok)
	case "GetAndSet":
		v, ok := c.c.GetAndSet(c.key(k), c.toV(op.V), d)
		return resVO(c.fromV(v), ok)
	case "GetAndRefresh":
		v, ok := c.c.GetAndRefresh(c.key(k), d)
		return resVO(c.fromV(v), ok)
	case "GetOrCompute":
		nv := c.toV(op.V)
		v, ok := c.c.GetOrCompute(c.key(k), func() V {
			vsched.Event("fn", int64(k))
			if op.Park != "" {
				vsched.Park(op.Park)
			}
			return nv
		}, d)
		return resVO(c.fromV(v), ok)
	case "Compute":
		f := parseFn(op.Fn)
		v, ok := c.c.Compute(c.key(k), func(old V, loaded bool) (V, bool) {
			o := c.fromV(old)
			vsched.Event("fn", int64(k), o.ev(), b2i(loaded))
			if op.Park != "" {
				vsched.Park(op.Park)
			}
			nv, del := f.apply(o, loaded, c.zero)
			return c.toV(nv), del
		}, d)
		return resVO(c.fromV(v), ok)
	case "GetAndDelete":
		v, ok := c.c.GetAndDelete(c.key(k))
		return resVO(c.fromV(v), ok)
	case "Delete":
		c.c.Delete(c.key(k))
		return res{}
	case "DeleteExpired":
		c.c.DeleteExpired()
		return res{}
	case "Range":
		vis := parseVisitor(op.Visitor)
		c.c.Range(func(kk K, vv V) bool {
			ki, val := c.unkey(kk), c.fromV(vv)
			vis.count++
			vis.seen = append(vis.seen, kvPair{ki, val})
			vsched.Event("visit", int64(ki), val.ev())
			dd := op.D
			switch vis.kind {
			case "stop":
				return int64(vis.count) < vis.arg
			case "del":
				nestedOp(c, x, "Delete", ki, nil, nil)
			case "store":
				nv := iv(vis.arg)
				nestedOp(c, x, "Set", ki, &nv, &dd)
			case "ins":
				nestedOp(c, x, "Set", int(vis.arg)+ki, &val, &dd)
			case "clear":
				if vis.count == 1 {
					nestedOp(c, x, "Clear", -1, nil, nil)
				}
			}
			return true
		})
		sortPairs(vis.seen)
		return res{hasN: true, n: int64(vis.count), hasItems: true, items: vis.seen}
	case "Items":
		var ps []kvPair
		for kk, vv := range c.c.Items() {
			ps = append(ps, kvPair{c.unkey(kk), c.fromV(vv)})
		}
		sortPairs(ps)
		return res{hasN: true, n: int64(len(ps)), hasItems: true, items: ps}
	case "Clear":
		c.c.Clear()
		return res{}
	case "Count":
		return res{hasN: true, n: int64(c.c.Count())}
	case "DefaultExpiration":
		return res{hasN: true, n: int64(c.c.DefaultExpiration())}
	case "SetDefaultExpiration":
		c.c.SetDefaultExpiration(d)
		return res{}
	case "SetEvictedCallback":
		c.c.SetEvictedCallback(c.callback(op.Cb))
		return res{}
	case "Advance":
		if vsched.InRun() {
			fail("Advance is a setup-only op")
		}
		return res{hasN: true, n: vclock.Advance(op.Dt)}
	}
	fail("unknown op %q for a cache container", op.Op)
	return res{}
}

func (c *cacheC[K, V]) final(keys []int, layout bool) []byte {
	b := []byte(`"size":`)
	b = strconv.AppendInt(b, int64(c.c.Count()), 10)
	var rg []kvPair
	c.c.Range(func(kk K, vv V) bool {
		rg = append(rg, kvPair{c.unkey(kk), c.fromV(vv)})
		return true
	})
	sortPairs(rg)
	var loads []kvPair
	for _, k := range keys {
		if v, ok := c.c.Get(c.key(k)); ok {
			loads = append(loads, kvPair{k, c.fromV(v)})
		}
	}
	b = append(b, `,"loads":`...)
	b = appPairs(b, loads)
	b = append(b, `,"range":`...)
	b = appPairs(b, rg)
	return b
}

func newCacheC(sc *Scenario) container {
	if sc.Hasher != "" && sc.Hasher != "default" {
		fail("hasher applies to MapOf_* only")
	}
	cc := &cacheC[string, any]{key: strKey, unkey: strUnkey, toV: anyToV, fromV: anyFromV, zero: nilVal, reenter: sc.CbReenter}
	var cb cache.EvictedCallback
	if sc.Cb {
		cb = cache.EvictedCallback(cc.callback(1))
	}
	cc.c = cacheAsOf{cache.New(
		cache.WithDefaultExpiration(time.Duration(sc.Dflt)),
		cache.WithCleanupInterval(0),
		cache.WithMinCapacity(sc.Presize),
		cache.WithEvictedCallback(cb),
	)}
	return cc
}

func newCacheOfC[K comparable](sc *Scenario, key func(int) K, unkey func(K) int) container {
	if sc.Hasher != "" && sc.Hasher != "default" {
		fail("hasher applies to MapOf_* only")
	}
	cc := &cacheC[K, int64]{key: key, unkey: unkey, toV: i64ToV, fromV: i64FromV, zero: iv(0), reenter: sc.CbReenter}
	var cb cache.EvictedCallbackOf[K, int64]
	if sc.Cb {
		cb = cc.callback(1)
	}
	cc.c = cache.NewOf[K, int64](
		cache.WithDefaultExpirationOf[K, int64](time.Duration(sc.Dflt)),
		cache.WithCleanupIntervalOf[K, int64](0),
		cache.WithMinCapacityOf[K, int64](sc.Presize),
		cache.WithEvictedCallbackOf[K, int64](cb),
	)
	return cc
}

// ---- one scenario ------------------------------------------------------------

func keyed(op string) bool {
	switch op {
	case "Clear", "Size", "Range", "DeleteExpired", "Items", "Count", "DefaultExpiration",
		"SetDefaultExpiration", "SetEvictedCallback", "Advance":
		return false
	}
	return true
}

func appEvent(b []byte, e vsched.Ev) []byte {
	b = append(b, `{"s":`...)
	b = strconv.AppendInt(b, int64(e.Step), 10)
	b = append(b, `,"t":`...)
	b = strconv.AppendInt(b, int64(e.Tid), 10)
	b = append(b, `,"kind":`...)
	b = appStr(b, e.Kind)
	b = append(b, `,"f":[`...)
	for i, f := range e.F {
		if i > 0 {
			b = append(b, ',')
		}
		b = strconv.AppendInt(b, f, 10)
	}
	return append(b, `]}`...)
}

func appStr(b []byte, s string) []byte {
	q, _ := json.Marshal(s)
	return append(b, q...)
}

func appEvents(b []byte, evs []vsched.Ev, only string) []byte {
	b = append(b, '[')
	first := true
	for _, e := range evs {
		if only != "" && e.Kind != only {
			continue
		}
		if !first {
			b = append(b, ',')
		}
		first = false
		b = appEvent(b, e)
	}
	return append(b, ']')
}

func appHist(b []byte, hs ...[]hentry) []byte {
	b = append(b, '[')
	first := true
	for _, h := range hs {
		for i := range h {
			if !first {
				b = append(b, ',')
			}
			first = false
			b = h[i].app(b)
		}
	}
	return append(b, ']')
}

func appInts(b []byte, a []int) []byte {
	b = append(b, '[')
	for i, x := range a {
		if i > 0 {
			b = append(b, ',')
		}
		b = strconv.AppendInt(b, int64(x), 10)
	}
	return append(b, ']')
}

func runScenario(line []byte) (out []byte) {
	var sc Scenario
	out = []byte(`{"id":`)
	defer func() {
		if r := recover(); r != nil {
			msg := fmt.Sprint(r)
			if oe, ok := r.(opError); ok {
				msg = oe.msg
			}
			out = []byte(`{"id":`)
			out = appStr(out, sc.ID)
			out = append(out, `,"error":`...)
			out = appStr(out, msg)
			out = append(out, '}')
		}
	}()
	if err := json.Unmarshal(line, &sc); err != nil {
		fail("bad scenario: %v", err)
	}
	out = appStr(out, sc.ID)
	setupOps, err := parseOps(sc.Setup)
	if err != nil {
		fail("%v", err)
	}
	threadOps := make([][]*Op, len(sc.Threads))
	totalOps := 0
	for i, t := range sc.Threads {
		if threadOps[i], err = parseOps(t); err != nil {
			fail("%v", err)
		}
		totalOps += len(t)
	}
	if sc.MaxSteps <= 0 {
		sc.MaxSteps = 20000
	}
	if sc.RSeed == 0 {
		sc.RSeed = 1
	}
	wantLayout := sc.Layout == nil || *sc.Layout

	vclock.Reset()
	vsched.ResetRand(sc.RSeed)
	vsched.TakeEvents()

	var c container
	switch sc.Container {
	case "Map":
		c = newMapC(&sc)
	case "MapOf_str":
		c = newMapOfC[string](&sc, strKey, strUnkey)
	case "MapOf_int":
		c = newMapOfC[int](&sc, intKey, intUnkey)
	case "Cache":
		c = newCacheC(&sc)
	case "CacheOf_str":
		c = newCacheOfC[string](&sc, strKey, strUnkey)
	case "CacheOf_int":
		c = newCacheOfC[int](&sc, intKey, intUnkey)
	default:
		fail("unknown container %q", sc.Container)
	}

	// chooser
	var ch vsched.Chooser
	var list *vsched.ListChooser
	var solo *vsched.SoloAfter
	switch sc.Sched.Kind {
	case "", "random":
		ch = vsched.NewRandom(sc.Sched.Seed)
	case "pct":
		n := sc.Sched.Len
		if n <= 0 {
			n = 15 * totalOps
			if n < 20 {
				n = 20
			}
		}
		ch = vsched.NewPCT(sc.Sched.Seed, sc.Sched.Depth, n)
	case "list":
		list = &vsched.ListChooser{Tids: sc.Sched.Tids}
		ch = list
	case "solo-after":
		if sc.Sched.A < 0 || sc.Sched.A >= len(threadOps) || sc.Sched.B < 0 || sc.Sched.B >= len(threadOps) {
			fail("solo-after: a/b out of range")
		}
		solo = &vsched.SoloAfter{A: sc.Sched.A, B: sc.Sched.B, ParkName: sc.Sched.Park, K: sc.Sched.K,
			Kind: sc.Sched.At, Nth: sc.Sched.Nth, BMax: sc.Sched.BMax}
		ch = solo
	default:
		fail("unknown sched kind %q", sc.Sched.Kind)
	}

	// setup phase (passthrough)
	var setupHist []hentry
	sx := &xctx{tid: -1, hist: &setupHist}
	for i, op := range setupOps {
		sx.idx, sx.nsub = i, 0
		runOp(c, sx, op, false)
	}
	setupEvents := vsched.TakeEvents()
	out = append(out, `,"container":`...)
	out = appStr(out, sc.Container)
	out = append(out, `,"dflt":`...)
	out = strconv.AppendInt(out, sc.Dflt, 10)
	out = append(out, `,"now":`...)
	out = strconv.AppendInt(out, vclock.NowNano(), 10)

	// concurrent phase
	hists := make([][]hentry, len(threadOps))
	bodies := make([]func(), len(threadOps))
	var opErr *opError
	for t := range threadOps {
		t := t
		bodies[t] = func() {
			defer func() {
				// scenario errors (bad op ...) must not look like library panics
				if r := recover(); r != nil {
					if oe, ok := r.(opError); ok {
						opErr = &oe
					}
					panic(r)
				}
			}()
			x := &xctx{tid: t, hist: &hists[t]}
			for i, op := range threadOps[t] {
				x.idx, x.nsub = i, 0
				runOp(c, x, op, false)
			}
		}
	}
	r := vsched.RunOpts(bodies, ch, vsched.Options{MaxSteps: sc.MaxSteps, Trace: sc.Trace, Hold: sc.Hold})
	if opErr != nil {
		panic(*opErr)
	}
	events := vsched.TakeEvents()

	out = append(out, `,"outcome":`...)
	out = appStr(out, r.Outcome)
	if r.Outcome == vsched.Panic {
		out = append(out, `,"panic":`...)
		out = appStr(out, r.PanicMsg)
	}
	out = append(out, `,"steps":`...)
	out = strconv.AppendInt(out, int64(r.Steps), 10)
	out = append(out, `,"thread_steps":`...)
	out = appInts(out, r.ThreadSteps)
	out = append(out, `,"history":`...)
	out = appHist(out, hists...)
	out = append(out, `,"setup_history":`...)
	out = appHist(out, setupHist)
	out = append(out, `,"events":`...)
	out = appEvents(out, events, "")
	out = append(out, `,"setup_events":`...)
	out = appEvents(out, setupEvents, "")

	if r.Outcome == vsched.Done {
		keyset := map[int]bool{}
		for _, ops := range append([][]*Op{setupOps}, threadOps...) {
			for _, op := range ops {
				if keyed(op.Op) {
					keyset[op.K] = true
				}
			}
		}
		keys := make([]int, 0, len(keyset))
		for k := range keyset {
			keys = append(keys, k)
		}
		sort.Ints(keys)
		fin := c.final(keys, wantLayout)
		finalEvents := vsched.TakeEvents()
		out = append(out, `,"final":{`...)
		out = append(out, fin...)
		out = append(out, `,"ledger":`...)
		all := append(append(append([]vsched.Ev{}, setupEvents...), events...), finalEvents...)
		out = appEvents(out, all, "cb")
		out = append(out, '}')
	}
	if sc.Trace {
		out = append(out, `,"trace":[`...)
		for i, e := range r.Trace {
			if i > 0 {
				out = append(out, ',')
			}
			out = append(out, '[')
			out = strconv.AppendInt(out, int64(e.Step), 10)
			out = append(out, ',')
			out = strconv.AppendInt(out, int64(e.Tid), 10)
			out = append(out, ',')
			out = appStr(out, e.Kind)
			out = append(out, ',')
			out = appStr(out, e.Class)
			out = append(out, ',')
			out = appInts(out, e.Enabled)
			out = append(out, ']')
		}
		out = append(out, ']')
	}
	if list != nil {
		out = append(out, `,"honoured":`...)
		out = strconv.AppendInt(out, int64(list.Honoured), 10)
	}
	if solo != nil {
		solo.Finish(r)
		out = append(out, `,"solo":{"b_steps":`...)
		out = strconv.AppendInt(out, int64(solo.BSteps), 10)
		out = append(out, `,"b_labels":[`...)
		for i, l := range solo.BLabels {
			if i > 0 {
				out = append(out, ',')
			}
			out = appStr(out, l)
		}
		out = append(out, `],"b_blocked":`...)
		out = strconv.AppendBool(out, solo.BBlocked)
		out = append(out, `,"b_spun":`...)
		out = strconv.AppendBool(out, solo.BSpun)
		out = append(out, `,"b_done":`...)
		out = strconv.AppendBool(out, solo.BDone)
		out = append(out, '}')
	}
	return append(out, '}')
}

func main() {
	procs := flag.Int("procs", 1, "GOMAXPROCS (1 makes the goroutine hand-off cheapest)")
	flush := flag.Bool("flush", false, "flush stdout after every result line")
	flag.Parse()
	runtime.GOMAXPROCS(*procs)
	mb, mob := xsync.VerifBucketSizes()
	if mb != 64 || mob != 64 {
		fmt.Fprintf(os.Stderr, "verifsched: padded bucket sizes %d/%d, want 64/64 (Mutex shim size?)\n", mb, mob)
		os.Exit(2)
	}
	in := bufio.NewScanner(os.Stdin)
	in.Buffer(make([]byte, 1<<20), 1<<28)
	w := bufio.NewWriterSize(os.Stdout, 1<<20)
	defer w.Flush()
	for in.Scan() {
		line := bytes.TrimSpace(in.Bytes())
		if len(line) == 0 || line[0] == '#' {
			continue
		}
		w.Write(runScenario(line))
		w.WriteByte('\n')
		if *flush {
			w.Flush()
		}
	}
	if err := in.Err(); err != nil {
		fmt.Fprintln(os.Stderr, "verifsched:", err)
		os.Exit(1)
	}
}
