//go:build verif

package vsched

import (
	"runtime"
	"sync"
	"sync/atomic"
)

// Mutex is the shim of sync.Mutex. It is exactly 8 bytes like sync.Mutex, so
// padding computed from unsafe.Sizeof of a struct embedding it stays valid.
//
// In a run: a thread parked before Lock is DISABLED while the mutex is held
// (by anyone, itself included); Unlock is an always-enabled step.
// Passthrough: spin on CAS with the real runtime.Gosched.
type Mutex struct {
	state uint32 // 0 free, 1 held
	_     uint32
}

func (m *Mutex) Lock() {
	t := cur
	if t == nil {
		for !atomic.CompareAndSwapUint32(&m.state, 0, 1) {
			runtime.Gosched()
		}
		return
	}
	t.mu = m
	t.yield(KLock) // chosen only while m is free
	t.mu = nil
	if m.state != 0 {
		panic("vsched: Lock step scheduled on a held mutex")
	}
	m.state = 1
	t.classStr("acq")
}

func (m *Mutex) TryLock() bool {
	t := cur
	if t == nil {
		return atomic.CompareAndSwapUint32(&m.state, 0, 1)
	}
	t.yield(KTryLock)
	ok := m.state == 0
	if ok {
		m.state = 1
	}
	t.classOK(ok)
	return ok
}

func (m *Mutex) Unlock() {
	t := cur
	if t == nil {
		if !atomic.CompareAndSwapUint32(&m.state, 1, 0) {
			panic("vsched: unlock of unlocked mutex")
		}
		return
	}
	t.yield(KUnlock)
	if m.state == 0 {
		panic("vsched: unlock of unlocked mutex")
	}
	m.state = 0
	t.classStr("-")
}

// IsLocked reports the state of the mutex (for layout dumps).
func (m *Mutex) IsLocked() bool { return atomic.LoadUint32(&m.state) != 0 }

// Cond is the shim of sync.Cond. It holds no wait-set itself (the scheduler
// finds waiters by the address of the Cond), so a Cond may be copied by value
// BEFORE its first use, as the maps do with `*sync.NewCond(&mu)`.
//
// Wait is ONE step (label Wait) that releases L and enters the wait-set; the
// thread is then disabled until a Broadcast/Signal, after which it is a thread
// parked before re-acquiring L: label Lock, value class "relock".
// L must be a *vsched.Mutex.
type Cond struct {
	L sync.Locker
}

func NewCond(l sync.Locker) *Cond { return &Cond{L: l} }

func (c *Cond) Wait() {
	t := cur
	if t == nil {
		panic("vsched: Cond.Wait outside scheduler")
	}
	m, ok := c.L.(*Mutex)
	if !ok {
		panic("vsched: Cond.L is not a *vsched.Mutex")
	}
	t.yield(KWait)
	if m.state == 0 {
		panic("vsched: Cond.Wait with L not held")
	}
	m.state = 0
	t.classStr("-")
	s := t.s
	s.seq++
	t.waitSeq = s.seq
	t.state = tsWaiting
	t.cond = c
	// Label after the wake-up: re-acquire L.
	t.kind = KLock
	t.mu = m
	s.dispatch(t) // disabled until Broadcast/Signal AND m free
	t.mu = nil
	if m.state != 0 {
		panic("vsched: relock step scheduled on a held mutex")
	}
	m.state = 1
	t.classStr("relock")
}

func (c *Cond) Broadcast() {
	t := cur
	if t == nil {
		return // no waiter can exist outside a run
	}
	t.yield(KBroadcast)
	n := 0
	for _, w := range t.s.threads {
		if w.state == tsWaiting && w.cond == c {
			w.state = tsParked
			w.cond = nil
			n++
		}
	}
	t.classInt(int64(n))
}

func (c *Cond) Signal() {
	t := cur
	if t == nil {
		return
	}
	t.yield(KSignal)
	var first *thread
	for _, w := range t.s.threads {
		if w.state == tsWaiting && w.cond == c && (first == nil || w.waitSeq < first.waitSeq) {
			first = w
		}
	}
	n := 0
	if first != nil {
		first.state = tsParked
		first.cond = nil
		n = 1
	}
	t.classInt(int64(n))
}
