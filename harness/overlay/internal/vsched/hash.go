//go:build verif

package vsched

import (
	"unsafe"
)

// Deterministic replacements for the three runtime functions that package
// xsync reaches through go:linkname (runtime.fastrand, runtime.memhash,
// runtime.typehash). The runtime versions are keyed by per-process random
// data, which would make table seeds, bucket placement and therefore step
// counts differ from one process to the next. The rewriter substitutes CALLS
// of runtime_fastrand / runtime_memhash / runtime_typehash in internal/xsync
// with these functions (the linkname declarations are left in place, unused).

var rnd rng = 1

// ResetRand re-seeds the Fastrand stream (call once per scenario).
func ResetRand(seed uint64) { rnd = rng(seed) }

// Fastrand replaces runtime.fastrand: a splitmix64 stream.
func Fastrand() uint32 { return uint32(rnd.next() >> 32) }

func mix64(z uint64) uint64 {
	z = (z ^ (z >> 30)) * 0xBF58476D1CE4E5B9
	z = (z ^ (z >> 27)) * 0x94D049BB133111EB
	return z ^ (z >> 31)
}

// Memhash replaces runtime.memhash(p, seed, size): FNV-1a over the bytes,
// seeded, then a splitmix64 finalizer (all 64 bits well mixed: Map uses the
// top 20 and the low bits, MapOf the low 7 and the rest).
func Memhash(p unsafe.Pointer, h, s uintptr) uintptr {
	x := uint64(h) ^ 0xcbf29ce484222325
	b := unsafe.Slice((*byte)(p), int(s))
	for _, c := range b {
		x ^= uint64(c)
		x *= 0x100000001b3
	}
	return uintptr(mix64(x + 0x9E3779B97F4A7C15*uint64(s+1)))
}

// abiType mirrors the head of internal/abi.Type (Go 1.18 - 1.23).
type abiType struct {
	size       uintptr
	ptrBytes   uintptr
	hash       uint32
	tflag      uint8
	align      uint8
	fieldAlign uint8
	kind       uint8
}

const (
	kindMask   = (1 << 5) - 1
	kindBool   = 1
	kindUintpt = 12
	kindString = 24
)

//go:linkname runtimeTypehash runtime.typehash
func runtimeTypehash(t uintptr, p unsafe.Pointer, h uintptr) uintptr

// Typehash replaces runtime.typehash(t, p, seed) for integer kinds (bool,
// int*, uint*, uintptr) and strings; every other kind falls through to the
// real runtime.typehash (per-process keyed, not reproducible).
func Typehash(t uintptr, p unsafe.Pointer, h uintptr) uintptr {
	at := (*abiType)(*(*unsafe.Pointer)(unsafe.Pointer(&t)))
	k := at.kind & kindMask
	switch {
	case k >= kindBool && k <= kindUintpt:
		return Memhash(p, h, at.size)
	case k == kindString:
		// string header: data pointer, length (unsafe.StringData needs go1.20,
		// the module says go 1.19)
		data := *(*unsafe.Pointer)(p)
		n := *(*int)(unsafe.Add(p, unsafe.Sizeof(uintptr(0))))
		return Memhash(data, h, uintptr(n))
	}
	return runtimeTypehash(t, p, h)
}
