//go:build verif

package vsched

import (
	"fmt"
	"reflect"
	"runtime"
	"testing"
	"unsafe"
)

func TestMutexSize(t *testing.T) {
	if unsafe.Sizeof(Mutex{}) != 8 {
		t.Fatalf("Mutex is %d bytes, want 8", unsafe.Sizeof(Mutex{}))
	}
}

func TestPassthrough(t *testing.T) {
	var x int64
	if AddInt64(&x, 3) != 3 || !CompareAndSwapInt64(&x, 3, 5) || CompareAndSwapInt64(&x, 3, 6) || LoadInt64(&x) != 5 {
		t.Fatal("atomics")
	}
	var m Mutex
	m.Lock()
	if m.TryLock() {
		t.Fatal("TryLock on held mutex")
	}
	m.Unlock()
	var v Value
	if v.Load() != nil {
		t.Fatal("empty Value")
	}
	v.Store(7)
	if v.Load().(int) != 7 {
		t.Fatal("Value")
	}
	Gosched()
	Park("x")
	Yield("x")
	if InRun() || Tid() != -1 || StepNo() != -1 {
		t.Fatal("passthrough identity")
	}
}

func counterBodies(n int, x *int64) []func() {
	var bodies []func()
	for i := 0; i < n; i++ {
		bodies = append(bodies, func() {
			for j := 0; j < 3; j++ {
				v := LoadInt64(x) // racy increment on purpose
				StoreInt64(x, v+1)
			}
		})
	}
	return bodies
}

func TestDeterminism(t *testing.T) {
	run := func(seed uint64) (int64, []TraceEntry) {
		var x int64
		r := RunOpts(counterBodies(3, &x), NewRandom(seed), Options{MaxSteps: 1000, Trace: true})
		if r.Outcome != Done {
			t.Fatalf("outcome %s", r.Outcome)
		}
		return x, r.Trace
	}
	x1, t1 := run(42)
	x2, t2 := run(42)
	if x1 != x2 || !reflect.DeepEqual(t1, t2) {
		t.Fatal("same seed, different runs")
	}
	lost := false
	for s := uint64(0); s < 50; s++ {
		if x, _ := run(s); x != 9 {
			lost = true
		}
	}
	if !lost {
		t.Fatal("no schedule exposed the lost update")
	}
	// 3 threads x (start + 6 primitives)
	if len(t1) != 21 {
		t.Fatalf("%d steps, want 21", len(t1))
	}
}

func TestDeadlock(t *testing.T) {
	before := runtime.NumGoroutine()
	var a, b Mutex
	bodies := []func(){
		func() { a.Lock(); Yield("x"); b.Lock(); b.Unlock(); a.Unlock() },
		func() { b.Lock(); Yield("x"); a.Lock(); a.Unlock(); b.Unlock() },
	}
	// t0: start, Lock a; t1: start, Lock b; then both yield and block
	r := Run(bodies, &ListChooser{Tids: []int{0, 0, 1, 1, 0, 1}}, 100)
	if r.Outcome != Deadlock || r.Steps != 6 {
		t.Fatalf("outcome %s after %d steps", r.Outcome, r.Steps)
	}
	if r.Finished[0] || r.Finished[1] {
		t.Fatal("finished?")
	}
	// the killed threads have exited
	for i := 0; i < 100 && runtime.NumGoroutine() > before; i++ {
		runtime.Gosched()
	}
	if n := runtime.NumGoroutine(); n > before {
		t.Fatalf("%d goroutines leaked", n-before)
	}
	if InRun() {
		t.Fatal("still in run")
	}
}

func TestBudget(t *testing.T) {
	var flag int64
	bodies := []func(){
		func() {
			for LoadInt64(&flag) == 0 {
				Gosched()
			}
		},
		func() { Park("never") },
	}
	r := RunOpts(bodies, NewRandom(1), Options{MaxSteps: 500, Hold: []string{"never"}})
	if r.Outcome != Budget || r.Steps != 500 {
		t.Fatalf("outcome %s after %d steps", r.Outcome, r.Steps)
	}
}

func TestHoldRelease(t *testing.T) {
	var order []int
	bodies := []func(){
		func() { Park("p"); order = append(order, 0) },
		func() { Yield("a"); Yield("b"); order = append(order, 1) },
	}
	r := RunOpts(bodies, NewRandom(3), Options{MaxSteps: 100, Hold: []string{"p"}})
	if r.Outcome != Done || !reflect.DeepEqual(order, []int{1, 0}) {
		t.Fatalf("outcome %s order %v", r.Outcome, order)
	}
}

func TestCond(t *testing.T) {
	type box struct {
		mu   Mutex
		cond Cond
		done int64
	}
	for seed := uint64(0); seed < 200; seed++ {
		bx := &box{}
		bx.cond = *NewCond(&bx.mu) // copied by value like the maps do
		woken := 0
		waiter := func() {
			bx.mu.Lock()
			for LoadInt64(&bx.done) == 0 {
				bx.cond.Wait()
			}
			woken++
			bx.mu.Unlock()
		}
		setter := func() {
			bx.mu.Lock()
			StoreInt64(&bx.done, 1)
			bx.cond.Broadcast()
			bx.mu.Unlock()
		}
		r := RunOpts([]func(){waiter, waiter, setter}, NewRandom(seed), Options{MaxSteps: 1000})
		if r.Outcome != Done || woken != 2 {
			t.Fatalf("seed %d: outcome %s woken %d", seed, r.Outcome, woken)
		}
	}
	// lost wake-up: nobody broadcasts -> deadlock
	bx := &box{}
	bx.cond = *NewCond(&bx.mu)
	r := Run([]func(){func() { bx.mu.Lock(); bx.cond.Wait(); bx.mu.Unlock() }}, NewRandom(1), 100)
	if r.Outcome != Deadlock {
		t.Fatalf("outcome %s", r.Outcome)
	}
}

func TestPanicInBody(t *testing.T) {
	r := Run([]func(){func() { Yield("a"); panic("boom") }, func() { Yield("b"); Yield("c") }}, &ListChooser{Tids: []int{0, 1, 0}}, 100)
	if r.Outcome != Panic || r.PanicMsg != "boom" {
		t.Fatalf("outcome %s %q", r.Outcome, r.PanicMsg)
	}
	if InRun() {
		t.Fatal("still in run")
	}
}

func TestSoloAfter(t *testing.T) {
	var mu Mutex
	bodies := []func(){
		func() { mu.Lock(); Park("inside"); mu.Unlock() },
		func() { Yield("a"); mu.Lock(); mu.Unlock() },
	}
	c := &SoloAfter{A: 0, B: 1, ParkName: "inside"}
	r := Run(bodies, c, 100)
	c.Finish(r)
	if r.Outcome != Done || !c.BBlocked || c.BDone {
		t.Fatalf("outcome %s blocked %v done %v labels %v", r.Outcome, c.BBlocked, c.BDone, c.BLabels)
	}
	if fmt.Sprint(c.BLabels) != "[start yield:a]" {
		t.Fatalf("labels %v", c.BLabels)
	}
	// B independent of A: runs to completion solo
	bodies = []func(){
		func() { Yield("x"); Yield("y"); Yield("z") },
		func() { Yield("a"); Yield("b") },
	}
	c = &SoloAfter{A: 0, B: 1, K: 2}
	r = RunOpts(bodies, c, Options{MaxSteps: 100, Trace: true})
	c.Finish(r)
	var tids []int
	for _, e := range r.Trace {
		tids = append(tids, e.Tid)
	}
	if !c.BDone || c.BSteps != 3 || fmt.Sprint(tids) != "[0 0 1 1 1 0 0]" {
		t.Fatalf("done %v steps %d tids %v", c.BDone, c.BSteps, tids)
	}
}

func TestPCTDeterministic(t *testing.T) {
	run := func() []TraceEntry {
		var x int64
		r := RunOpts(counterBodies(3, &x), NewPCT(9, 3, 20), Options{MaxSteps: 1000, Trace: true})
		if r.Outcome != Done {
			t.Fatalf("outcome %s", r.Outcome)
		}
		return r.Trace
	}
	if !reflect.DeepEqual(run(), run()) {
		t.Fatal("pct not deterministic")
	}
}

func TestEvents(t *testing.T) {
	TakeEvents()
	Event("outside", 1)
	Run([]func(){func() { Yield("a"); Event("in", 7, 8) }}, NewRandom(1), 10)
	ev := TakeEvents()
	if len(ev) != 2 || ev[0].Step != -1 || ev[0].Tid != -1 || ev[1].Step != 2 || ev[1].Tid != 0 || ev[1].F[1] != 8 {
		t.Fatalf("%+v", ev)
	}
}
