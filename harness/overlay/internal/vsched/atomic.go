//go:build verif

package vsched

// Shims of the sync/atomic functions. Same signatures and results as the
// originals. In a run: park with the label, then perform the real operation
// (a real atomic, so passthrough and scheduled code can share memory safely).
// Value classes: Load/Store/Add/Swap log the integer (Load: value read, Store:
// value written, Add: NEW value, Swap: OLD value), pointer variants log
// nil/nonnil, CAS logs ok/fail.

import (
	"sync/atomic"
	"unsafe"
)

func LoadInt32(addr *int32) int32 {
	t := cur
	if t == nil {
		return atomic.LoadInt32(addr)
	}
	t.yield("LoadInt32")
	v := atomic.LoadInt32(addr)
	t.classInt(int64(v))
	return v
}

func StoreInt32(addr *int32, val int32) {
	t := cur
	if t == nil {
		atomic.StoreInt32(addr, val)
		return
	}
	t.yield("StoreInt32")
	atomic.StoreInt32(addr, val)
	t.classInt(int64(val))
}

func AddInt32(addr *int32, delta int32) int32 {
	t := cur
	if t == nil {
		return atomic.AddInt32(addr, delta)
	}
	t.yield("AddInt32")
	v := atomic.AddInt32(addr, delta)
	t.classInt(int64(v))
	return v
}

func SwapInt32(addr *int32, new int32) int32 {
	t := cur
	if t == nil {
		return atomic.SwapInt32(addr, new)
	}
	t.yield("SwapInt32")
	v := atomic.SwapInt32(addr, new)
	t.classInt(int64(v))
	return v
}

func CompareAndSwapInt32(addr *int32, old, new int32) bool {
	t := cur
	if t == nil {
		return atomic.CompareAndSwapInt32(addr, old, new)
	}
	t.yield("CASInt32")
	ok := atomic.CompareAndSwapInt32(addr, old, new)
	t.classOK(ok)
	return ok
}

func LoadInt64(addr *int64) int64 {
	t := cur
	if t == nil {
		return atomic.LoadInt64(addr)
	}
	t.yield("LoadInt64")
	v := atomic.LoadInt64(addr)
	t.classInt(int64(v))
	return v
}

func StoreInt64(addr *int64, val int64) {
	t := cur
	if t == nil {
		atomic.StoreInt64(addr, val)
		return
	}
	t.yield("StoreInt64")
	atomic.StoreInt64(addr, val)
	t.classInt(int64(val))
}

func AddInt64(addr *int64, delta int64) int64 {
	t := cur
	if t == nil {
		return atomic.AddInt64(addr, delta)
	}
	t.yield("AddInt64")
	v := atomic.AddInt64(addr, delta)
	t.classInt(int64(v))
	return v
}

func SwapInt64(addr *int64, new int64) int64 {
	t := cur
	if t == nil {
		return atomic.SwapInt64(addr, new)
	}
	t.yield("SwapInt64")
	v := atomic.SwapInt64(addr, new)
	t.classInt(int64(v))
	return v
}

func CompareAndSwapInt64(addr *int64, old, new int64) bool {
	t := cur
	if t == nil {
		return atomic.CompareAndSwapInt64(addr, old, new)
	}
	t.yield("CASInt64")
	ok := atomic.CompareAndSwapInt64(addr, old, new)
	t.classOK(ok)
	return ok
}

func LoadUint32(addr *uint32) uint32 {
	t := cur
	if t == nil {
		return atomic.LoadUint32(addr)
	}
	t.yield("LoadUint32")
	v := atomic.LoadUint32(addr)
	t.classUint(uint64(v))
	return v
}

func StoreUint32(addr *uint32, val uint32) {
	t := cur
	if t == nil {
		atomic.StoreUint32(addr, val)
		return
	}
	t.yield("StoreUint32")
	atomic.StoreUint32(addr, val)
	t.classUint(uint64(val))
}

func AddUint32(addr *uint32, delta uint32) uint32 {
	t := cur
	if t == nil {
		return atomic.AddUint32(addr, delta)
	}
	t.yield("AddUint32")
	v := atomic.AddUint32(addr, delta)
	t.classUint(uint64(v))
	return v
}

func SwapUint32(addr *uint32, new uint32) uint32 {
	t := cur
	if t == nil {
		return atomic.SwapUint32(addr, new)
	}
	t.yield("SwapUint32")
	v := atomic.SwapUint32(addr, new)
	t.classUint(uint64(v))
	return v
}

func CompareAndSwapUint32(addr *uint32, old, new uint32) bool {
	t := cur
	if t == nil {
		return atomic.CompareAndSwapUint32(addr, old, new)
	}
	t.yield("CASUint32")
	ok := atomic.CompareAndSwapUint32(addr, old, new)
	t.classOK(ok)
	return ok
}

func LoadUint64(addr *uint64) uint64 {
	t := cur
	if t == nil {
		return atomic.LoadUint64(addr)
	}
	t.yield("LoadUint64")
	v := atomic.LoadUint64(addr)
	t.classUint(uint64(v))
	return v
}

func StoreUint64(addr *uint64, val uint64) {
	t := cur
	if t == nil {
		atomic.StoreUint64(addr, val)
		return
	}
	t.yield("StoreUint64")
	atomic.StoreUint64(addr, val)
	t.classUint(uint64(val))
}

func AddUint64(addr *uint64, delta uint64) uint64 {
	t := cur
	if t == nil {
		return atomic.AddUint64(addr, delta)
	}
	t.yield("AddUint64")
	v := atomic.AddUint64(addr, delta)
	t.classUint(uint64(v))
	return v
}

func SwapUint64(addr *uint64, new uint64) uint64 {
	t := cur
	if t == nil {
		return atomic.SwapUint64(addr, new)
	}
	t.yield("SwapUint64")
	v := atomic.SwapUint64(addr, new)
	t.classUint(uint64(v))
	return v
}

func CompareAndSwapUint64(addr *uint64, old, new uint64) bool {
	t := cur
	if t == nil {
		return atomic.CompareAndSwapUint64(addr, old, new)
	}
	t.yield("CASUint64")
	ok := atomic.CompareAndSwapUint64(addr, old, new)
	t.classOK(ok)
	return ok
}

func LoadUintptr(addr *uintptr) uintptr {
	t := cur
	if t == nil {
		return atomic.LoadUintptr(addr)
	}
	t.yield("LoadUintptr")
	v := atomic.LoadUintptr(addr)
	t.classUint(uint64(v))
	return v
}

func StoreUintptr(addr *uintptr, val uintptr) {
	t := cur
	if t == nil {
		atomic.StoreUintptr(addr, val)
		return
	}
	t.yield("StoreUintptr")
	atomic.StoreUintptr(addr, val)
	t.classUint(uint64(val))
}

func AddUintptr(addr *uintptr, delta uintptr) uintptr {
	t := cur
	if t == nil {
		return atomic.AddUintptr(addr, delta)
	}
	t.yield("AddUintptr")
	v := atomic.AddUintptr(addr, delta)
	t.classUint(uint64(v))
	return v
}

func SwapUintptr(addr *uintptr, new uintptr) uintptr {
	t := cur
	if t == nil {
		return atomic.SwapUintptr(addr, new)
	}
	t.yield("SwapUintptr")
	v := atomic.SwapUintptr(addr, new)
	t.classUint(uint64(v))
	return v
}

func CompareAndSwapUintptr(addr *uintptr, old, new uintptr) bool {
	t := cur
	if t == nil {
		return atomic.CompareAndSwapUintptr(addr, old, new)
	}
	t.yield("CASUintptr")
	ok := atomic.CompareAndSwapUintptr(addr, old, new)
	t.classOK(ok)
	return ok
}

func LoadPointer(addr *unsafe.Pointer) unsafe.Pointer {
	t := cur
	if t == nil {
		return atomic.LoadPointer(addr)
	}
	t.yield("LoadPointer")
	v := atomic.LoadPointer(addr)
	t.classPtr(v == nil)
	return v
}

func StorePointer(addr *unsafe.Pointer, val unsafe.Pointer) {
	t := cur
	if t == nil {
		atomic.StorePointer(addr, val)
		return
	}
	t.yield("StorePointer")
	atomic.StorePointer(addr, val)
	t.classPtr(val == nil)
}

func SwapPointer(addr *unsafe.Pointer, new unsafe.Pointer) unsafe.Pointer {
	t := cur
	if t == nil {
		return atomic.SwapPointer(addr, new)
	}
	t.yield("SwapPointer")
	v := atomic.SwapPointer(addr, new)
	t.classPtr(v == nil)
	return v
}

func CompareAndSwapPointer(addr *unsafe.Pointer, old, new unsafe.Pointer) bool {
	t := cur
	if t == nil {
		return atomic.CompareAndSwapPointer(addr, old, new)
	}
	t.yield("CASPointer")
	ok := atomic.CompareAndSwapPointer(addr, old, new)
	t.classOK(ok)
	return ok
}

// Value is the shim of atomic.Value (same panics: nil store, inconsistent type).
type Value struct {
	v atomic.Value
}

func (x *Value) Load() (val any) {
	t := cur
	if t == nil {
		return x.v.Load()
	}
	t.yield(KValLoad)
	val = x.v.Load()
	t.classPtr(val == nil)
	return val
}

func (x *Value) Store(val any) {
	t := cur
	if t == nil {
		x.v.Store(val)
		return
	}
	t.yield(KValStore)
	t.classPtr(val == nil)
	x.v.Store(val)
}

func (x *Value) Swap(new any) (old any) {
	t := cur
	if t == nil {
		return x.v.Swap(new)
	}
	t.yield(KValSwap)
	old = x.v.Swap(new)
	t.classPtr(old == nil)
	return old
}

func (x *Value) CompareAndSwap(old, new any) (swapped bool) {
	t := cur
	if t == nil {
		return x.v.CompareAndSwap(old, new)
	}
	t.yield(KValCAS)
	swapped = x.v.CompareAndSwap(old, new)
	t.classOK(swapped)
	return swapped
}
