//go:build verif

// Package vsched is a deterministic controlled scheduler plus drop-in shims
// for the sync/atomic functions, atomic.Value, sync.Mutex, sync.Cond and
// runtime.Gosched.
//
// Execution model. Run starts one goroutine per body but lets exactly ONE of
// them execute at any time. Every shim call is a "primitive": the calling
// thread first parks, announcing the label of the primitive it is about to
// perform; when the chooser picks it, it performs the primitive and keeps
// running ordinary code until it parks before its NEXT primitive (or its body
// returns). One scheduling step = one primitive + the straight-line code that
// follows it. A thread that has not started yet is parked with label "start".
//
// There is no scheduler goroutine: the thread that parks runs the chooser
// itself and hands the baton directly to the chosen thread (nothing happens
// when it chooses itself), so a step costs at most one goroutine switch.
//
// All scheduler state is touched only by the single running goroutine, or by
// the goroutine that called Run while no thread runs; the hand-off channels
// provide the happens-before edges.
//
// A goroutine that is not a registered thread (setup / final phases, or no run
// active) gets PASSTHROUGH behaviour: the shim performs the real operation.
package vsched

import (
	"fmt"
	"runtime"
	"sort"
	"strconv"
)

// cur is the running registered thread, nil when no run is active. While a run
// is active the running goroutine IS cur (only one registered goroutine runs at
// a time and no other goroutine may call shims during a run).
var cur *thread

// Outcomes of a run.
const (
	Done     = "done"     // every thread finished
	Deadlock = "deadlock" // some thread unfinished and none enabled
	Budget   = "budget"   // maxSteps exhausted
	Panic    = "panic"    // a thread body panicked (message in Result.PanicMsg)
)

// Primitive kinds (labels). Kinds of the atomic functions are built as
// <Op><Type> with Op in Load, Store, Add, Swap, CAS.
const (
	KStart     = "start"
	KLock      = "Lock"
	KUnlock    = "Unlock"
	KTryLock   = "TryLock"
	KWait      = "Wait"
	KBroadcast = "Broadcast"
	KSignal    = "Signal"
	KGosched   = "Gosched"
	KValLoad   = "ValueLoad"
	KValStore  = "ValueStore"
	KValSwap   = "ValueSwap"
	KValCAS    = "ValueCAS"
)

const (
	tsParked  = iota // parked before the primitive named by kind
	tsWaiting        // inside Cond.Wait, not yet woken by Broadcast/Signal
	tsDone           // body returned (or panicked)
)

type thread struct {
	id      int
	s       *Sched
	wake    chan struct{}
	state   int
	kind    string // label of the pending primitive
	mu      *Mutex // non-nil: pending primitive is a Lock of mu
	cond    *Cond  // non-nil while tsWaiting
	held    bool   // parked at a hold-park and not yet released
	kill    bool   // set by teardown: Goexit when woken
	steps   int    // steps executed by this thread
	waitSeq int    // order of entering the wait-set (for Signal)
}

// TraceEntry is one executed step.
type TraceEntry struct {
	Step    int    // 1-based global step number
	Tid     int    // thread that executed the step
	Kind    string // primitive kind
	Class   string // value class (see README)
	Enabled []int  // sorted enabled tids BEFORE the step
}

// Ev is a user event appended by Event.
type Ev struct {
	Step int // global step number during which it was logged; -1 in passthrough
	Tid  int // -1 in passthrough
	Kind string
	F    []int64
}

// Options of a run.
type Options struct {
	MaxSteps int
	Trace    bool
	Hold     []string // park names at which a thread blocks until everybody else is finished or blocked
}

// Result of a run.
type Result struct {
	Outcome     string
	Steps       int
	ThreadSteps []int
	Finished    []bool
	Trace       []TraceEntry
	PanicMsg    string
}

// Chooser picks the thread that executes the next step. enabled is sorted,
// non-empty and must not be retained; the returned tid must be one of them.
type Chooser interface {
	Choose(s *Sched, enabled []int) int
}

// Sched is the state of one run; choosers get read access through methods.
type Sched struct {
	threads  []*thread
	ch       Chooser
	maxSteps int
	step     int
	tracing  bool
	trace    []TraceEntry
	hold     map[string]bool
	enabled  []int
	seq      int
	outcome  string
	panicMsg string
	result   chan struct{}
	exited   chan struct{}
}

// NumThreads returns the number of threads of the run.
func (s *Sched) NumThreads() int { return len(s.threads) }

// Step returns the number of steps executed so far.
func (s *Sched) Step() int { return s.step }

// Label returns the pending label of thread tid ("" when finished, "Wait*"
// when blocked inside Cond.Wait).
func (s *Sched) Label(tid int) string {
	t := s.threads[tid]
	switch t.state {
	case tsDone:
		return ""
	case tsWaiting:
		return "Wait*"
	}
	return t.kind
}

// ThreadSteps returns the number of steps thread tid has executed.
func (s *Sched) ThreadSteps(tid int) int { return s.threads[tid].steps }

// Finished reports whether thread tid has finished.
func (s *Sched) Finished(tid int) bool { return s.threads[tid].state == tsDone }

func (t *thread) isEnabled() bool {
	if t.state != tsParked || t.held {
		return false
	}
	if t.mu != nil {
		return t.mu.state == 0
	}
	return true
}

func (s *Sched) computeEnabled() {
	s.enabled = s.enabled[:0]
	for _, t := range s.threads {
		if t.isEnabled() {
			s.enabled = append(s.enabled, t.id)
		}
	}
}

// pick selects the thread executing the next step, or returns nil after
// setting s.outcome when the run is over.
func (s *Sched) pick() *thread {
	s.computeEnabled()
	if len(s.enabled) == 0 {
		released := false
		for _, t := range s.threads {
			if t.held {
				t.held = false
				released = true
			}
		}
		if released {
			s.computeEnabled()
		}
	}
	if len(s.enabled) == 0 {
		s.outcome = Done
		for _, t := range s.threads {
			if t.state != tsDone {
				s.outcome = Deadlock
				break
			}
		}
		return nil
	}
	if s.step >= s.maxSteps {
		s.outcome = Budget
		return nil
	}
	tid := s.ch.Choose(s, s.enabled)
	ok := false
	for _, e := range s.enabled {
		if e == tid {
			ok = true
			break
		}
	}
	if !ok {
		panic(fmt.Sprintf("vsched: chooser returned tid %d which is not enabled %v", tid, s.enabled))
	}
	n := s.threads[tid]
	s.step++
	n.steps++
	if s.tracing {
		en := make([]int, len(s.enabled))
		copy(en, s.enabled)
		s.trace = append(s.trace, TraceEntry{Step: s.step, Tid: tid, Kind: n.kind, Enabled: en})
	}
	return n
}

// dispatch is called by the running thread t once its pending label is set (or
// its state is tsDone/tsWaiting). It returns when t has been chosen again.
func (s *Sched) dispatch(t *thread) {
	n := s.pick()
	if n == t {
		return
	}
	// After the hand-off another goroutine runs: t may only touch its own
	// wake channel from here on (its state can be changed by a Broadcast).
	done := t.state == tsDone
	if n == nil {
		// Run is over: tell Run, then wait to be killed (unless finished).
		s.result <- struct{}{}
	} else {
		cur = n
		n.wake <- struct{}{}
	}
	if done {
		return
	}
	<-t.wake
	if t.kill {
		runtime.Goexit()
	}
}

func (t *thread) yield(kind string) {
	t.kind = kind
	t.s.dispatch(t)
}

func (s *Sched) setClass(c string) {
	if s.tracing {
		s.trace[len(s.trace)-1].Class = c
	}
}

func (t *thread) classInt(v int64) {
	if t.s.tracing {
		t.s.setClass(strconv.FormatInt(v, 10))
	}
}

func (t *thread) classUint(v uint64) {
	if t.s.tracing {
		t.s.setClass(strconv.FormatUint(v, 10))
	}
}

func (t *thread) classPtr(isNil bool) {
	if t.s.tracing {
		if isNil {
			t.s.setClass("nil")
		} else {
			t.s.setClass("nonnil")
		}
	}
}

func (t *thread) classOK(ok bool) {
	if t.s.tracing {
		if ok {
			t.s.setClass("ok")
		} else {
			t.s.setClass("fail")
		}
	}
}

func (t *thread) classStr(c string) {
	if t.s.tracing {
		t.s.setClass(c)
	}
}

// Run executes bodies under chooser ch with a budget of maxSteps steps, no
// tracing and no hold-parks.
func Run(bodies []func(), ch Chooser, maxSteps int) *Result {
	return RunOpts(bodies, ch, Options{MaxSteps: maxSteps})
}

// RunOpts is Run with all options. It must not be called concurrently or
// from inside a run.
func RunOpts(bodies []func(), ch Chooser, o Options) *Result {
	if cur != nil {
		panic("vsched: nested Run")
	}
	s := &Sched{
		ch:       ch,
		maxSteps: o.MaxSteps,
		tracing:  o.Trace,
		result:   make(chan struct{}, 1),
		exited:   make(chan struct{}, 1),
	}
	if len(o.Hold) > 0 {
		s.hold = make(map[string]bool, len(o.Hold))
		for _, h := range o.Hold {
			s.hold[h] = true
		}
	}
	for i, b := range bodies {
		t := &thread{id: i, s: s, wake: make(chan struct{}, 1), state: tsParked, kind: KStart}
		s.threads = append(s.threads, t)
		go t.main(b)
	}
	if n := s.pick(); n != nil {
		cur = n
		n.wake <- struct{}{}
		<-s.result
	}
	// Teardown: unfinished threads are all blocked on their wake channel;
	// wake them one at a time with kill set, they runtime.Goexit.
	cur = nil
	for _, t := range s.threads {
		if t.state != tsDone {
			t.kill = true
			t.wake <- struct{}{}
			<-s.exited
		}
	}
	r := &Result{Outcome: s.outcome, Steps: s.step, Trace: s.trace, PanicMsg: s.panicMsg}
	for _, t := range s.threads {
		r.ThreadSteps = append(r.ThreadSteps, t.steps)
		r.Finished = append(r.Finished, t.state == tsDone)
	}
	return r
}

func (t *thread) main(body func()) {
	s := t.s
	defer func() {
		if t.kill {
			s.exited <- struct{}{}
			return
		}
		if r := recover(); r != nil {
			// A panic in a body ends the run; the panicking thread is the
			// running one, everybody else is parked.
			s.outcome = Panic
			s.panicMsg = fmt.Sprint(r)
			t.state = tsDone
			s.result <- struct{}{}
		}
	}()
	<-t.wake
	if t.kill {
		runtime.Goexit()
	}
	s.setClass("-")
	body()
	t.state = tsDone
	s.dispatch(t)
}

// InRun reports whether the caller is a registered thread of an active run.
func InRun() bool { return cur != nil }

// Tid returns the id of the calling thread, -1 in passthrough.
func Tid() int {
	if t := cur; t != nil {
		return t.id
	}
	return -1
}

// StepNo returns the number of the step being executed (the number of steps
// started so far), -1 in passthrough.
func StepNo() int {
	if t := cur; t != nil {
		return t.s.step
	}
	return -1
}

// Gosched is the shim of runtime.Gosched: an always-enabled step doing nothing.
func Gosched() {
	t := cur
	if t == nil {
		runtime.Gosched()
		return
	}
	t.yield(KGosched)
	t.classStr("-")
}

// Yield is an always-enabled explicit scheduling point with label
// "yield:<kind>". No-op in passthrough.
func Yield(kind string) {
	t := cur
	if t == nil {
		return
	}
	t.yield("yield:" + kind)
	t.classStr("-")
}

// Park is an explicit scheduling point with label "park:<name>". If name is
// listed in Options.Hold the thread stays disabled until every other thread is
// finished or disabled, then all held threads are released at once. Otherwise
// it is an ordinary always-enabled step and it is up to the chooser to leave
// the thread there (see SoloAfter). It logs Event("park:<name>") on arrival.
// No-op in passthrough.
func Park(name string) {
	t := cur
	if t == nil {
		return
	}
	label := "park:" + name
	Event(label)
	if t.s.hold[name] {
		t.held = true
	}
	t.yield(label)
	t.classStr("-")
}

// ---- events ----------------------------------------------------------------

var events []Ev

// Event appends an event (current step number, tid, kind, fields) to the
// global event list. In passthrough step and tid are -1.
func Event(kind string, fields ...int64) {
	e := Ev{Step: -1, Tid: -1, Kind: kind}
	if t := cur; t != nil {
		e.Step, e.Tid = t.s.step, t.id
	}
	if len(fields) > 0 {
		e.F = make([]int64, len(fields))
		copy(e.F, fields)
	}
	events = append(events, e)
}

// TakeEvents returns the events logged since the last call and clears the list.
func TakeEvents() []Ev {
	e := events
	events = nil
	return e
}

// ---- choosers --------------------------------------------------------------

// rng is splitmix64; independent of the Go version.
type rng uint64

func (r *rng) next() uint64 {
	*r += 0x9E3779B97F4A7C15
	z := uint64(*r)
	z = (z ^ (z >> 30)) * 0xBF58476D1CE4E5B9
	z = (z ^ (z >> 27)) * 0x94D049BB133111EB
	return z ^ (z >> 31)
}

func (r *rng) intn(n int) int { return int(r.next() % uint64(n)) }

// ListChooser follows an explicit tid list. An entry naming a thread that is
// not enabled is consumed and the lowest enabled tid runs instead; the same
// fallback applies once the list is exhausted. Honoured counts the entries
// that were followed.
type ListChooser struct {
	Tids     []int
	pos      int
	Honoured int
}

func (c *ListChooser) Choose(s *Sched, enabled []int) int {
	if c.pos < len(c.Tids) {
		want := c.Tids[c.pos]
		c.pos++
		for _, e := range enabled {
			if e == want {
				c.Honoured++
				return e
			}
		}
	}
	return enabled[0]
}

// RandomChooser picks uniformly among the enabled threads.
type RandomChooser struct{ r rng }

func NewRandom(seed uint64) *RandomChooser { return &RandomChooser{r: rng(seed)} }

func (c *RandomChooser) Choose(s *Sched, enabled []int) int {
	if len(enabled) == 1 {
		// still consume a number: keeps the stream aligned with the step count
		c.r.next()
		return enabled[0]
	}
	return enabled[c.r.intn(len(enabled))]
}

// PCTChooser implements PCT (Burckhardt et al.): every thread gets a distinct
// random initial priority above Depth; Depth change points are drawn uniformly
// in [1, Len]; the enabled thread of highest priority runs; the thread that
// executes step number cp[i] gets priority Depth-i (below every initial one).
// Deviation needed for spin loops: a thread that executes Gosched is moved
// below everything (a fresh, ever decreasing negative priority), otherwise a
// high-priority spinner would starve the lock holder forever.
type PCTChooser struct {
	r      rng
	Depth  int
	Len    int
	prio   []int
	cp     map[int]int // step number -> index i
	lowest int
}

func NewPCT(seed uint64, depth, length int) *PCTChooser {
	if length < 1 {
		length = 1
	}
	return &PCTChooser{r: rng(seed), Depth: depth, Len: length}
}

func (c *PCTChooser) init(n int) {
	c.prio = make([]int, n)
	perm := make([]int, n)
	for i := range perm {
		perm[i] = i
	}
	for i := n - 1; i > 0; i-- {
		j := c.r.intn(i + 1)
		perm[i], perm[j] = perm[j], perm[i]
	}
	for i, p := range perm {
		c.prio[i] = c.Depth + 1 + p
	}
	c.cp = make(map[int]int, c.Depth)
	for i := 0; i < c.Depth; i++ {
		st := 1 + c.r.intn(c.Len)
		if _, dup := c.cp[st]; !dup {
			c.cp[st] = i
		}
	}
}

func (c *PCTChooser) Choose(s *Sched, enabled []int) int {
	if c.prio == nil {
		c.init(s.NumThreads())
	}
	best := enabled[0]
	for _, e := range enabled[1:] {
		if c.prio[e] > c.prio[best] {
			best = e
		}
	}
	if i, ok := c.cp[s.Step()+1]; ok {
		c.prio[best] = c.Depth - i
	}
	if s.Label(best) == KGosched {
		c.lowest--
		c.prio[best] = c.lowest
	}
	return best
}

// SoloAfter runs thread A alone until a stop condition holds, then thread B
// alone until it finishes, then everybody (lowest enabled tid first).
//
// Stop conditions for A (whichever comes first; unused ones are zero):
//   - ParkName != "": A's pending label is "park:<ParkName>" (A is left parked
//     there, the park step is NOT executed);
//   - K > 0: A has executed K steps (its "start" step counts);
//   - Kind != "": A has executed its Nth (default 1st) step of kind Kind.
//
// A finishing or becoming disabled also ends phase A. While B runs solo its
// executed labels are recorded in BLabels; BBlocked is set if B was not
// enabled at some point before finishing (phase B then ends); if BMax > 0 and
// B executed BMax solo steps without finishing, BSpun is set and phase B ends
// (B is spinning on something A holds).
type SoloAfter struct {
	A, B     int
	ParkName string
	K        int
	Kind     string
	Nth      int
	BMax     int

	phase    int // 0 = A, 1 = B, 2 = everybody
	kindSeen int
	BSteps   int
	BLabels  []string
	BBlocked bool
	BSpun    bool
	BDone    bool
}

func has(enabled []int, tid int) bool {
	for _, e := range enabled {
		if e == tid {
			return true
		}
	}
	return false
}

func (c *SoloAfter) Choose(s *Sched, enabled []int) int {
	if c.phase == 0 {
		stop := !has(enabled, c.A)
		if !stop && c.ParkName != "" && s.Label(c.A) == "park:"+c.ParkName {
			stop = true
		}
		if !stop && c.K > 0 && s.ThreadSteps(c.A) >= c.K {
			stop = true
		}
		nth := c.Nth
		if nth < 1 {
			nth = 1
		}
		if !stop && c.Kind != "" && c.kindSeen >= nth {
			stop = true
		}
		if !stop {
			if c.Kind != "" && s.Label(c.A) == c.Kind {
				c.kindSeen++
			}
			return c.A
		}
		c.phase = 1
	}
	if c.phase == 1 {
		switch {
		case s.Finished(c.B):
			c.BDone = true
			c.phase = 2
		case !has(enabled, c.B):
			c.BBlocked = true
			c.phase = 2
		case c.BMax > 0 && c.BSteps >= c.BMax:
			c.BSpun = true
			c.phase = 2
		default:
			c.BSteps++
			c.BLabels = append(c.BLabels, s.Label(c.B))
			return c.B
		}
	}
	return enabled[0]
}

// Finish must be called after the run so that BDone is accurate when B's last
// step ended the whole run.
func (c *SoloAfter) Finish(r *Result) {
	if c.phase == 1 && c.B < len(r.Finished) && r.Finished[c.B] {
		c.BDone = true
	}
}

// SortedCopy is a small helper for callers that need a sorted tid list.
func SortedCopy(a []int) []int {
	b := append([]int(nil), a...)
	sort.Ints(b)
	return b
}
