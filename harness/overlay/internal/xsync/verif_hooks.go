//go:build verif

package xsync

import (
	"unsafe"
)

// Read-only access to private state for the verification harness. Everything
// here uses plain loads: call it only while no other goroutine touches the map
// (setup / final phases).

// SlotDump is one entry slot of a bucket.
type SlotDump[K any] struct {
	Used bool // key pointer (Map) / entry pointer (MapOf) is non-nil
	Key  K    // valid when Used
	// Map only: presence bit and 20-bit top-hash field of the slot in topHashMutex.
	Present bool
	TopHash uint32
	// MapOf only: the meta byte of the slot.
	Meta uint8
}

// BucketDump is one bucket of a chain.
type BucketDump[K any] struct {
	Locked bool   // Map: lock bit of topHashMutex; MapOf: state of mu (root buckets only are ever locked)
	Word   uint64 // raw topHashMutex (Map) / meta (MapOf)
	Slots  []SlotDump[K]
}

// LayoutDump is the layout of the CURRENT table.
type LayoutDump[K any] struct {
	TableLen   int
	Seed       uint64
	CounterSum int64
	Resizing   int64
	Growths    int64
	Shrinks    int64
	Chains     [][]BucketDump[K] // indexed by root bucket
}

// DumpLayoutMap dumps the current table of m.
func DumpLayoutMap(m *Map) LayoutDump[string] {
	table := (*mapTable)(m.table)
	d := LayoutDump[string]{
		TableLen: len(table.buckets),
		Seed:     table.seed,
		Resizing: m.resizing,
		Growths:  m.totalGrowths,
		Shrinks:  m.totalShrinks,
	}
	for i := range table.size {
		d.CounterSum += table.size[i].c
	}
	d.Chains = make([][]BucketDump[string], len(table.buckets))
	for i := range table.buckets {
		b := &table.buckets[i]
		for {
			w := b.topHashMutex
			bd := BucketDump[string]{Locked: w&1 == 1, Word: w}
			for j := 0; j < entriesPerMapBucket; j++ {
				s := SlotDump[string]{
					Present: w&(1<<(j+1)) != 0,
					TopHash: uint32(((w & topHashEntryMasks[j]) << (20 * j)) >> 44),
				}
				if b.keys[j] != nil {
					s.Used = true
					s.Key = derefKey(b.keys[j])
				}
				bd.Slots = append(bd.Slots, s)
			}
			d.Chains[i] = append(d.Chains[i], bd)
			if b.next == nil {
				break
			}
			b = (*bucketPadded)(b.next)
		}
	}
	return d
}

// DumpLayoutMapOf dumps the current table of m.
func DumpLayoutMapOf[K comparable, V any](m *MapOf[K, V]) LayoutDump[K] {
	table := (*mapOfTable[K, V])(m.table)
	d := LayoutDump[K]{
		TableLen: len(table.buckets),
		Seed:     table.seed,
		Resizing: m.resizing,
		Growths:  m.totalGrowths,
		Shrinks:  m.totalShrinks,
	}
	for i := range table.size {
		d.CounterSum += table.size[i].c
	}
	d.Chains = make([][]BucketDump[K], len(table.buckets))
	for i := range table.buckets {
		b := &table.buckets[i]
		for {
			bd := BucketDump[K]{Locked: b.mu.IsLocked(), Word: b.meta}
			for j := 0; j < entriesPerMapOfBucket; j++ {
				s := SlotDump[K]{Meta: uint8(b.meta >> (uint(j) << 3))}
				if b.entries[j] != nil {
					s.Used = true
					s.Key = (*entryOf[K, V])(b.entries[j]).key
				}
				bd.Slots = append(bd.Slots, s)
			}
			d.Chains[i] = append(d.Chains[i], bd)
			if b.next == nil {
				break
			}
			b = (*bucketOfPadded)(b.next)
		}
	}
	return d
}

// HashOfMap returns hashString(key, seed of the current table).
func HashOfMap(m *Map, key string) uint64 {
	table := (*mapTable)(m.table)
	return hashString(key, table.seed)
}

// HashOfMapOf returns m.hasher(key, seed of the current table).
func HashOfMapOf[K comparable, V any](m *MapOf[K, V], key K) uint64 {
	table := (*mapOfTable[K, V])(m.table)
	return m.hasher(key, table.seed)
}

// NewMapOfHashed builds a MapOf whose hasher is fn(key) (the seed is ignored):
// the building block for adversarial hashers (constant hash, same bucket index,
// same h2 ...). bucket index = (h >> 7) & (tableLen-1), h2 = h & 0x7f.
func NewMapOfHashed[K comparable, V any](fn func(K) uint64, options ...func(*MapConfig)) *MapOf[K, V] {
	return NewMapOfWithHasher[K, V](func(k K, _ uint64) uint64 { return fn(k) }, options...)
}

// Structural constants, for harness sanity checks.
const (
	VerifEntriesPerMapBucket   = entriesPerMapBucket
	VerifEntriesPerMapOfBucket = entriesPerMapOfBucket
	VerifMinTableLen           = defaultMinMapTableLen
)

// VerifBucketSizes returns the sizes of the padded bucket types (both must be
// cacheLineSize: the Mutex shim must be 8 bytes).
func VerifBucketSizes() (mapBucket, mapOfBucket uintptr) {
	return unsafe.Sizeof(bucketPadded{}), unsafe.Sizeof(bucketOfPadded{})
}
