//go:build verif

// Package vclock is the virtual clock substituted for time.Now / time.Until /
// time.Since in the root package of the rewritten tree (see harness/rewrite).
// The clock never moves on its own: only Set and Advance change it.
package vclock

import (
	"sync/atomic"
	"time"
)

// Initial is the value of the clock at process start and after Reset (ns).
const Initial int64 = 1_000_000_000_000_000_000

var cur int64 = Initial

// Now returns time.Unix(0, cur).
func Now() time.Time { return time.Unix(0, atomic.LoadInt64(&cur)) }

// NowNano returns the current virtual time in ns.
func NowNano() int64 { return atomic.LoadInt64(&cur) }

// Until is time.Until against the virtual clock.
func Until(t time.Time) time.Duration { return t.Sub(Now()) }

// Since is time.Since against the virtual clock.
func Since(t time.Time) time.Duration { return Now().Sub(t) }

// Set sets the clock to ns.
func Set(ns int64) { atomic.StoreInt64(&cur, ns) }

// Advance moves the clock by dt ns (dt may be negative) and returns the new value.
func Advance(dt int64) int64 { return atomic.AddInt64(&cur, dt) }

// Reset sets the clock back to Initial.
func Reset() { atomic.StoreInt64(&cur, Initial) }

// frozen: tickers created through NewTicker never fire (see FreezeTickers).
var frozen int32

// FreezeTickers makes every ticker created afterwards through NewTicker silent.
// The sequential drivers call it: they run thousands of caches in one process
// and compare each call with a sequential model, so a janitor of this or of an
// earlier cache ticking in real time (the default interval is 10 s) would remove
// entries and fire callbacks between two calls.  What the janitor does when its
// ticker fires is observed by the real-time and scheduled harnesses instead.
func FreezeTickers(b bool) {
	if b {
		atomic.StoreInt32(&frozen, 1)
	} else {
		atomic.StoreInt32(&frozen, 0)
	}
}

// NewTicker is time.NewTicker, except that a frozen ticker has a period of
// about 146 years.  The janitor goroutine is started all the same.
func NewTicker(d time.Duration) *time.Ticker {
	if d > 0 && atomic.LoadInt32(&frozen) == 1 {
		return time.NewTicker(1 << 62)
	}
	return time.NewTicker(d)
}
