//go:build verif

package vclock

import (
	"testing"
	"time"
)

func TestClock(t *testing.T) {
	Reset()
	if NowNano() != Initial || Now().UnixNano() != Initial {
		t.Fatal("initial value")
	}
	at := time.Unix(0, Initial+500)
	if Until(at) != 500 || Since(at) != -500 {
		t.Fatal("Until/Since")
	}
	if Advance(1000) != Initial+1000 || Until(at) != -500 || Since(at) != 500 {
		t.Fatal("Advance")
	}
	Set(42)
	if NowNano() != 42 {
		t.Fatal("Set")
	}
	Reset()
}
