module verifrewrite

go 1.21
