// Command rewrite prepares a scratch copy of the library in which every
// synchronisation primitive goes through the controlled scheduler.
//
// Usage:
//
//	go run . -src /repo -dst <scratch-dir> -overlay /verif/harness/overlay
//
// It copies the working tree of -src (everything except .git) to -dst, then
// rewrites, by go/ast selector substitution, every non-test .go file of the
// package directories <dst>/ and <dst>/internal/xsync/ (rules: see the tables
// below and harness/README.md), then copies the -overlay tree over -dst.
//
// Exit status 0 on success. Lines on stdout:
//
//	REWROTE <file> <n>              n substitutions were made in file
//	UNSHIMMED <file>:<line> <sel>   a sync / sync/atomic / runtime / time member
//	                                without shim is used (left untouched)
package main

import (
	"bytes"
	"flag"
	"fmt"
	"go/ast"
	"go/format"
	"go/parser"
	"go/token"
	"io"
	"io/fs"
	"os"
	"path/filepath"
	"sort"
	"strconv"
	"strings"
)

var atomicFuncs = map[string]bool{}

func init() {
	for _, t := range []string{"Int32", "Int64", "Uint32", "Uint64", "Uintptr", "Pointer"} {
		for _, op := range []string{"Load", "Store", "Add", "Swap", "CompareAndSwap"} {
			if op == "Add" && t == "Pointer" {
				continue
			}
			atomicFuncs[op+t] = true
		}
	}
}

// sync members with a shim.
var syncShims = map[string]bool{"Mutex": true, "Cond": true, "NewCond": true}

// sync members that need no shim (pure interface).
var syncOK = map[string]bool{"Locker": true}

// runtime members that are expected and not reported.
var runtimeOK = map[string]bool{"SetFinalizer": true, "GOMAXPROCS": true, "NumCPU": true}

// time members replaced in the root package.
var timeShims = map[string]bool{"Now": true, "Until": true, "Since": true, "NewTicker": true}

// time members that observe or wait on the real clock and have no shim:
// reported. Everything else of package time (types, constants, Unix ...) is
// left alone silently.  NewTicker goes through vclock so that the sequential
// drivers can silence the janitors (vclock.FreezeTickers); it is time.NewTicker
// otherwise.
var timeBad = map[string]bool{"Sleep": true, "After": true, "AfterFunc": true, "NewTimer": true, "Tick": true}

// plain identifiers (linkname'd runtime functions) whose CALLS are replaced
// in internal/xsync so that hashing and seeds are reproducible.
var identShims = map[string]string{
	"runtime_fastrand": "Fastrand",
	"runtime_memhash":  "Memhash",
	"runtime_typehash": "Typehash",
}

type edit struct {
	off, end int
	text     string
}

func main() {
	src := flag.String("src", "", "source tree (never modified)")
	dst := flag.String("dst", "", "destination scratch directory")
	overlay := flag.String("overlay", "", "overlay tree copied over dst at the end")
	keepHash := flag.Bool("keep-runtime-hash", false, "do not substitute runtime_fastrand/memhash/typehash (layouts then differ between processes)")
	flag.Parse()
	if *src == "" || *dst == "" {
		fmt.Fprintln(os.Stderr, "usage: rewrite -src DIR -dst DIR [-overlay DIR]")
		os.Exit(2)
	}
	if err := run(*src, *dst, *overlay, *keepHash); err != nil {
		fmt.Fprintln(os.Stderr, "rewrite:", err)
		os.Exit(1)
	}
}

func run(src, dst, overlay string, keepHash bool) error {
	if err := copyTree(src, dst, true); err != nil {
		return err
	}
	mod, err := modulePath(filepath.Join(dst, "go.mod"))
	if err != nil {
		return err
	}
	for _, d := range []struct {
		dir  string
		root bool
	}{{dst, true}, {filepath.Join(dst, "internal", "xsync"), false}} {
		ents, err := os.ReadDir(d.dir)
		if err != nil {
			return err
		}
		for _, e := range ents {
			n := e.Name()
			if e.IsDir() || !strings.HasSuffix(n, ".go") || strings.HasSuffix(n, "_test.go") {
				continue
			}
			p := filepath.Join(d.dir, n)
			rel, _ := filepath.Rel(dst, p)
			if err := rewriteFile(p, rel, mod, d.root, keepHash); err != nil {
				return fmt.Errorf("%s: %v", rel, err)
			}
		}
	}
	if overlay != "" {
		if err := copyTree(overlay, dst, false); err != nil {
			return err
		}
	}
	return nil
}

func modulePath(gomod string) (string, error) {
	b, err := os.ReadFile(gomod)
	if err != nil {
		return "", err
	}
	for _, l := range strings.Split(string(b), "\n") {
		f := strings.Fields(l)
		if len(f) == 2 && f[0] == "module" {
			return strings.Trim(f[1], `"`), nil
		}
	}
	return "", fmt.Errorf("no module line in %s", gomod)
}

func copyTree(src, dst string, skipGit bool) error {
	return filepath.WalkDir(src, func(p string, d fs.DirEntry, err error) error {
		if err != nil {
			return err
		}
		rel, _ := filepath.Rel(src, p)
		if skipGit && d.IsDir() && d.Name() == ".git" {
			return filepath.SkipDir
		}
		target := filepath.Join(dst, rel)
		if d.IsDir() {
			return os.MkdirAll(target, 0o755)
		}
		if !d.Type().IsRegular() {
			return nil // symlinks etc. are not needed
		}
		in, err := os.Open(p)
		if err != nil {
			return err
		}
		defer in.Close()
		out, err := os.Create(target)
		if err != nil {
			return err
		}
		if _, err := io.Copy(out, in); err != nil {
			out.Close()
			return err
		}
		return out.Close()
	})
}

func rewriteFile(path, rel, mod string, root, keepHash bool) error {
	srcBytes, err := os.ReadFile(path)
	if err != nil {
		return err
	}
	fset := token.NewFileSet()
	f, err := parser.ParseFile(fset, path, srcBytes, parser.ParseComments)
	if err != nil {
		return err
	}
	// local name -> import path, for the four packages of interest
	names := map[string]string{}
	specs := map[string]*ast.ImportSpec{}
	for _, is := range f.Imports {
		ip, _ := strconv.Unquote(is.Path.Value)
		switch ip {
		case "sync", "sync/atomic", "runtime", "time":
		default:
			continue
		}
		name := ip[strings.LastIndex(ip, "/")+1:]
		if is.Name != nil {
			name = is.Name.Name
		}
		if name == "_" || name == "." {
			continue
		}
		names[name] = ip
		specs[ip] = is
	}
	off := func(p token.Pos) int { return fset.Position(p).Offset }
	var edits []edit
	remaining := map[string]int{} // import path -> uses left after rewriting
	needSched, needClock := false, false
	var unshimmed []string

	ast.Inspect(f, func(n ast.Node) bool {
		switch x := n.(type) {
		case *ast.SelectorExpr:
			id, ok := x.X.(*ast.Ident)
			if !ok || id.Obj != nil { // Obj != nil: a local object shadows the package
				return true
			}
			ip, ok := names[id.Name]
			if !ok {
				return true
			}
			sel := x.Sel.Name
			target := ""
			report := false
			switch ip {
			case "sync/atomic":
				if atomicFuncs[sel] || sel == "Value" {
					target = "vsched"
				} else {
					report = true
				}
			case "sync":
				if syncShims[sel] {
					target = "vsched"
				} else if !syncOK[sel] {
					report = true
				}
			case "runtime":
				if sel == "Gosched" {
					target = "vsched"
				} else if !runtimeOK[sel] {
					report = true
				}
			case "time":
				if root && timeShims[sel] {
					target = "vclock"
				} else if timeShims[sel] || timeBad[sel] {
					report = true
				}
			}
			if target != "" {
				edits = append(edits, edit{off(id.Pos()), off(id.End()), target})
				if target == "vsched" {
					needSched = true
				} else {
					needClock = true
				}
			} else {
				remaining[ip]++
				if report {
					unshimmed = append(unshimmed, fmt.Sprintf("UNSHIMMED %s:%d %s.%s", rel, fset.Position(x.Pos()).Line, id.Name, sel))
				}
			}
			return false
		case *ast.CallExpr:
			if root || keepHash {
				return true
			}
			if id, ok := x.Fun.(*ast.Ident); ok {
				if to, ok := identShims[id.Name]; ok {
					edits = append(edits, edit{off(id.Pos()), off(id.End()), "vsched." + to})
					needSched = true
				}
			}
		}
		return true
	})

	if len(edits) == 0 {
		for _, u := range unshimmed {
			fmt.Println(u)
		}
		return nil
	}
	nsub := len(edits)

	// Imports: drop those that became unused, add vsched / vclock.
	var add []string
	if needSched {
		add = append(add, strconv.Quote(mod+"/internal/vsched"))
	}
	if needClock {
		add = append(add, strconv.Quote(mod+"/internal/vclock"))
	}
	var importDecl *ast.GenDecl
	for _, d := range f.Decls {
		if gd, ok := d.(*ast.GenDecl); ok && gd.Tok == token.IMPORT {
			importDecl = gd
			break
		}
	}
	if importDecl == nil {
		return fmt.Errorf("substitutions made but file has no import declaration")
	}
	for ip, is := range specs {
		if remaining[ip] > 0 {
			continue
		}
		// does the spec belong to a parenthesised decl? remove its whole line
		s, e := off(is.Pos()), off(is.End())
		if is.Doc != nil {
			s = off(is.Doc.Pos())
		}
		if is.Comment != nil {
			e = off(is.Comment.End())
		}
		for s > 0 && (srcBytes[s-1] == ' ' || srcBytes[s-1] == '\t') {
			s--
		}
		if e < len(srcBytes) && srcBytes[e] == '\n' {
			e++
		}
		var owner *ast.GenDecl
		for _, d := range f.Decls {
			if gd, ok := d.(*ast.GenDecl); ok && gd.Tok == token.IMPORT {
				for _, sp := range gd.Specs {
					if sp == ast.Spec(is) {
						owner = gd
					}
				}
			}
		}
		if owner != nil && !owner.Lparen.IsValid() {
			// `import "x"`: replace the whole declaration by nothing, or by
			// the additions if this is the declaration we would extend
			s, e = off(owner.Pos()), off(owner.End())
			if owner == importDecl {
				text := "import (\n"
				for _, a := range add {
					text += "\t" + a + "\n"
				}
				text += ")"
				edits = append(edits, edit{s, e, text})
				add = nil
				continue
			}
		}
		edits = append(edits, edit{s, e, ""})
	}
	if len(add) > 0 {
		text := ""
		for _, a := range add {
			text += "\t" + a + "\n"
		}
		if importDecl.Lparen.IsValid() {
			p := off(importDecl.Rparen)
			// start of the line holding ')'
			for p > 0 && srcBytes[p-1] != '\n' {
				p--
			}
			edits = append(edits, edit{p, p, "\n" + text})
		} else {
			// single-spec declaration that stays: add a new declaration after it
			p := off(importDecl.End())
			edits = append(edits, edit{p, p, "\n\nimport (\n" + text + ")"})
		}
	}

	sort.SliceStable(edits, func(i, j int) bool { return edits[i].off < edits[j].off })
	var out bytes.Buffer
	pos := 0
	for _, e := range edits {
		if e.off < pos {
			return fmt.Errorf("overlapping edits at offset %d", e.off)
		}
		out.Write(srcBytes[pos:e.off])
		out.WriteString(e.text)
		pos = e.end
	}
	out.Write(srcBytes[pos:])
	res, err := format.Source(out.Bytes())
	if err != nil {
		return fmt.Errorf("result does not parse: %v", err)
	}
	if err := os.WriteFile(path, res, 0o644); err != nil {
		return err
	}
	fmt.Printf("REWROTE %s %d\n", rel, nsub)
	for _, u := range unshimmed {
		fmt.Println(u)
	}
	return nil
}
