#!/usr/bin/env bash
# Self-test of the controlled-scheduler harness.
#
#   ./selftest.sh [SRC]        SRC defaults to /repo (never modified)
#   N=2000 ./selftest.sh       scenarios per container (default 2000)
#
# Builds a scratch copy under /tmp, runs the vsched unit tests, N random
# 3-thread scenarios for each of Map, MapOf_int (const hasher), Cache and
# CacheOf_int (twice, to check determinism), pipes them to lincheck, runs the
# directed scenarios of examples/known_findings.jsonl, prints a summary and
# deletes the scratch copy.
#
# Exit status: 0 unless the HARNESS is broken (build failure, UNSHIMMED
# primitive, unit test failure, scenario error, non-deterministic output).
# Non-linearizable histories are findings about the library, not failures.
set -euo pipefail
export GOFLAGS=-mod=mod GOPROXY=off GOSUMDB=off GOTOOLCHAIN=local

H=$(cd "$(dirname "$0")" && pwd)
SRC=${1:-/repo}
N=${N:-2000}
W=$(mktemp -d /tmp/vs-selftest.XXXXXX)
trap 'rm -rf "$W"' EXIT
fail=0

echo "== rewrite $SRC -> $W/tree"
(cd "$H/rewrite" && go run . -src "$SRC" -dst "$W/tree" -overlay "$H/overlay") | tee "$W/rewrite.log"
if grep -q '^UNSHIMMED' "$W/rewrite.log"; then
	echo "FAIL: unshimmed primitives (broken correspondence)"
	fail=1
fi

echo "== build"
(cd "$W/tree" && go build -tags verif -o "$W/verifsched" ./cmd/verifsched)
(cd "$H/gen" && go build -o "$W/gen" .)
(cd "$H/lincheck" && go build -o "$W/lincheck" .)

echo "== vsched unit tests"
(cd "$W/tree" && go test -tags verif -count=1 ./internal/vsched ./internal/vclock) || fail=1

now() { date +%s.%N; }

run_set() { # name, gen args...
	local name=$1
	shift
	"$W/gen" "$@" -n "$N" -seed 1 >"$W/$name.scn"
	local t0 t1 t2
	t0=$(now)
	"$W/verifsched" <"$W/$name.scn" >"$W/$name.res"
	t1=$(now)
	"$W/verifsched" <"$W/$name.scn" >"$W/$name.res2"
	if ! cmp -s "$W/$name.res" "$W/$name.res2"; then
		echo "FAIL: $name: two runs of the same scenarios differ"
		fail=1
	fi
	if grep -q '^{"id":"[^"]*","error"' "$W/$name.res"; then
		echo "FAIL: $name: scenario errors"
		grep '^{"id":"[^"]*","error"' "$W/$name.res" | head -3
		fail=1
	fi
	t2=$(now)
	"$W/lincheck" -summary <"$W/$name.res" >"$W/$name.lin" 2>"$W/$name.sum"
	local t3
	t3=$(now)
	local steps
	steps=$(grep -o '"steps":[0-9]*' "$W/$name.res" | cut -d: -f2 | paste -sd+ | bc)
	printf '%-18s %5d scenarios, avg %4d steps, driver %5.2fs (%6.0f scen/s), lincheck %5.2fs\n' \
		"$name" "$N" "$((steps / N))" "$(echo "$t1 - $t0" | bc)" "$(echo "$N / ($t1 - $t0)" | bc -l)" "$(echo "$t3 - $t2" | bc)"
	echo "    $(cat "$W/$name.sum")"
	grep -v '"linearizable":true,"ops":[0-9]*,"violations":\[\]}' "$W/$name.lin" | head -3 | cut -c1-220 | sed 's/^/    e.g. /' || true
}

echo "== random scenarios (3 threads), N=$N per container"
run_set Map -container Map -ops 6
run_set MapOf_int-const -container MapOf_int -hasher const -ops 10
run_set Cache -container Cache -ops 4
run_set CacheOf_int -container CacheOf_int -ops 7
echo "== random scenarios at the grow threshold (prefilled), with Clear"
run_set Map-grow -container Map -prefill 73 -keys 12 -ops 4 -clear 100 -sched mix
run_set MapOf_int-grow -container MapOf_int -hasher const -prefill 125 -keys 12 -ops 4 -clear 100 -sched mix

echo "== directed scenarios: examples/known_findings.jsonl"
"$W/verifsched" <"$H/examples/known_findings.jsonl" | "$W/lincheck" | cut -c1-200

if [ "$fail" = 0 ]; then
	echo "== selftest: harness OK (non-linearizable histories above are findings about the library)"
else
	echo "== selftest: HARNESS FAILURE"
fi
exit "$fail"
