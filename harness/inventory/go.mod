module inventory

go 1.23
