// inventory: classifies every access to a shared field of the xsync hash maps
// (internal/xsync/map.go, mapof.go) and of the two atomic.Value fields of the
// cache wrappers (xsync_map.go, xsync_mapof.go), and reports the accesses and
// calls that break the locking / publication discipline. See README.md.
//
// Purely syntactic (go/ast, no type checking): fields are recognised by name.
package main

import (
	"encoding/json"
	"flag"
	"fmt"
	"go/ast"
	"go/parser"
	"go/token"
	"os"
	"path/filepath"
	"sort"
	"strings"
)

// ---------------------------------------------------------------- rule tables

func set(s string) map[string]bool {
	m := map[string]bool{}
	for _, f := range strings.Fields(s) {
		m[f] = true
	}
	return m
}

var (
	xsyncFiles   = []string{"internal/xsync/map.go", "internal/xsync/mapof.go"}
	wrapperFiles = []string{"xsync_map.go", "xsync_mapof.go"}

	// Shared-mutable fields, recognised by selector name. `c` is the counter
	// stripe value (table.size[i].c); it is reported as "size.c".
	sharedFields = set("topHashMutex keys values next meta entries table resizing totalGrowths totalShrinks c")
	// atomic.Value fields of the cache wrappers: only .Load()/.Store() etc.
	wrapperFields  = set("defaultExpiration evictedCallback")
	wrapperMethods = set("Load Store Swap CompareAndSwap")

	// (P) functions that only touch memory no other goroutine can reach yet.
	privateFuncs = set("newMapTable newMapOfTable appendToBucket appendToBucketOf addSizePlain")
	// (L) functions with a locked region, and the shape of that region.
	lockedFuncs = map[string]lockMode{
		"doCompute": afterLock, "copyBucket": afterLock, "copyBucketOf": afterLock,
		"Range":         lockToUnlockStmt,
		"isEmptyBucket": wholeBody, "isEmptyBucketOf": wholeBody, // only called with the lock held
	}
	// Functions named in the brief as "atomics only" (every function outside
	// (P)/(L)/(S) is treated the same way; the list only sharpens the message).
	lockFreeFuncs = set("Load Size sumSize addSize newerTableExists resizeInProgress waitForResize Clear")
	// Reads never wait: these must not reach a blocking call.
	noWaitFuncs   = set("Load Size sumSize")
	blockingCalls = set("Lock RLock Wait lockBucket waitForResize")

	// Call discipline: helper -> functions allowed to call it.
	callRules = map[string]map[string]bool{
		"appendToBucket":   set("copyBucket copyBucketOf resize appendToBucket appendToBucketOf addSizePlain"),
		"appendToBucketOf": set("copyBucket copyBucketOf resize appendToBucket appendToBucketOf addSizePlain"),
		"addSizePlain":     set("copyBucket copyBucketOf resize appendToBucket appendToBucketOf addSizePlain"),
		"copyBucket":       set("resize"),
		"copyBucketOf":     set("resize"),
		"isEmptyBucket":    set("doCompute"), // and only inside the locked region
		"isEmptyBucketOf":  set("doCompute"),
	}
	mustBeLockedCall = set("isEmptyBucket isEmptyBucketOf")

	// Explicit exceptions: plain accesses that violate the rules above but were
	// reviewed and found correct in the current source. Matched on file,
	// function, expression text and kind (not on line numbers).
	// Currently EMPTY: the unchanged source needs none.
	exceptions = []struct{ File, Func, Expr, Kind, Why string }{
		// {"internal/xsync/map.go", "(*Map).doCompute", "b.next", "plain-write", "reason ..."},
	}
)

type lockMode int

const (
	afterLock        lockMode = iota // from the first bucket-lock call to the end of the function
	lockToUnlockStmt                 // from a lock statement to the end of the sibling statement holding the unlock
	wholeBody                        // helper only ever called with the lock held
)

// ---------------------------------------------------------------- output

type Access struct {
	File    string `json:"file"`
	Func    string `json:"func"`
	Field   string `json:"field"`
	Kind    string `json:"kind"`    // atomic | plain-read | plain-write
	Context string `json:"context"` // atomic | private | locked | stats | lockfree
	Line    int    `json:"line"`
}

type Summary struct {
	Files            int `json:"files"`
	SharedAccesses   int `json:"shared_accesses"`
	Atomic           int `json:"atomic"`
	PlainPrivate     int `json:"plain_private"`
	PlainLockedReads int `json:"plain_locked_reads"`
	PlainStats       int `json:"plain_stats"`
	CallsChecked     int `json:"calls_checked"`
	Bad              int `json:"bad"`
}

type Report struct {
	Summary  Summary  `json:"summary"`
	Accesses []Access `json:"accesses"`
	Bad      []string `json:"bad"`
}

// ---------------------------------------------------------------- helpers

type span struct{ from, to token.Pos }

func inSpans(p token.Pos, ss []span) bool {
	for _, s := range ss {
		if s.from <= p && p < s.to {
			return true
		}
	}
	return false
}

// walk is ast.Inspect with the stack of enclosing nodes (stack[len-1] == n).
func walk(root ast.Node, f func(n ast.Node, stack []ast.Node)) {
	var stack []ast.Node
	ast.Inspect(root, func(n ast.Node) bool {
		if n == nil {
			stack = stack[:len(stack)-1]
			return true
		}
		stack = append(stack, n)
		f(n, stack)
		return true
	})
}

func exprString(e ast.Expr) string {
	switch x := e.(type) {
	case *ast.Ident:
		return x.Name
	case *ast.BasicLit:
		return x.Value
	case *ast.SelectorExpr:
		return exprString(x.X) + "." + x.Sel.Name
	case *ast.IndexExpr:
		return exprString(x.X) + "[" + exprString(x.Index) + "]"
	case *ast.ParenExpr:
		return "(" + exprString(x.X) + ")"
	case *ast.StarExpr:
		return "*" + exprString(x.X)
	case *ast.UnaryExpr:
		return x.Op.String() + exprString(x.X)
	case *ast.CallExpr:
		return exprString(x.Fun) + "(...)"
	}
	return "?"
}

func funcDisplay(d *ast.FuncDecl) string {
	if d.Recv == nil || len(d.Recv.List) == 0 {
		return d.Name.Name
	}
	t, star := d.Recv.List[0].Type, ""
	if s, ok := t.(*ast.StarExpr); ok {
		t, star = s.X, "*"
	}
	switch x := t.(type) { // generic receiver MapOf[K, V]
	case *ast.IndexExpr:
		t = x.X
	case *ast.IndexListExpr:
		t = x.X
	}
	if star != "" {
		return "(*" + exprString(t) + ")." + d.Name.Name
	}
	return exprString(t) + "." + d.Name.Name
}

// calleeName returns the called function/method name of a call, looking
// through parentheses and generic instantiation f[K, V](...).
func calleeName(call *ast.CallExpr) (name string, method bool) {
	fun := call.Fun
	for {
		switch x := fun.(type) {
		case *ast.ParenExpr:
			fun = x.X
			continue
		case *ast.IndexExpr:
			fun = x.X
			continue
		case *ast.IndexListExpr:
			fun = x.X
			continue
		case *ast.Ident:
			return x.Name, false
		case *ast.SelectorExpr:
			return x.Sel.Name, true
		}
		return "", false
	}
}

// isBucketLock recognises lockBucket(&x.topHashMutex) / x.mu.Lock() (lock=true)
// and unlockBucket(...) / x.mu.Unlock() (lock=false). resizeMu is not a bucket lock.
func isBucketLock(n ast.Node, lock bool) bool {
	call, ok := n.(*ast.CallExpr)
	if !ok {
		return false
	}
	fn, meth := "unlockBucket", "Unlock"
	if lock {
		fn, meth = "lockBucket", "Lock"
	}
	switch f := call.Fun.(type) {
	case *ast.Ident:
		return f.Name == fn
	case *ast.SelectorExpr:
		if in, ok := f.X.(*ast.SelectorExpr); ok && in.Sel.Name == "mu" {
			return f.Sel.Name == meth
		}
	}
	return false
}

func isLockStmt(s ast.Stmt, lock bool) bool {
	es, ok := s.(*ast.ExprStmt)
	return ok && isBucketLock(es.X, lock)
}

func containsUnlock(n ast.Node) bool {
	found := false
	ast.Inspect(n, func(m ast.Node) bool {
		found = found || (m != nil && isBucketLock(m, false))
		return !found
	})
	return found
}

func stmtList(n ast.Node) []ast.Stmt {
	switch x := n.(type) {
	case *ast.BlockStmt:
		return x.List
	case *ast.CaseClause:
		return x.Body
	case *ast.CommClause:
		return x.Body
	}
	return nil
}

// ---------------------------------------------------------------- analysis

type funcInfo struct {
	file, name, full string
	decl             *ast.FuncDecl
	locked           []span // locked regions (empty if none)
	released         []span // statements following an unlock call in the same block
	firstLock        token.Pos
}

type analyzer struct {
	fset   *token.FileSet
	rep    Report
	funcs  map[*ast.FuncDecl]*funcInfo
	byName map[string][]*funcInfo
	escape map[*ast.Object]token.Pos
}

func (a *analyzer) line(p token.Pos) int { return a.fset.Position(p).Line }

func (a *analyzer) bad(file, fn string, pos token.Pos, format string, args ...any) {
	a.rep.Bad = append(a.rep.Bad, fmt.Sprintf("%s:%s: %s (line %d)", file, fn, fmt.Sprintf(format, args...), a.line(pos)))
}

func (a *analyzer) addFunc(file string, d *ast.FuncDecl) {
	fi := &funcInfo{file: file, name: d.Name.Name, full: funcDisplay(d), decl: d}
	a.funcs[d] = fi
	a.byName[fi.name] = append(a.byName[fi.name], fi)
	mode, hasRegion := lockedFuncs[fi.name]
	if d.Body == nil || !hasRegion {
		return
	}
	walk(d.Body, func(n ast.Node, _ []ast.Node) {
		if isBucketLock(n, true) && (fi.firstLock == token.NoPos || n.End() < fi.firstLock) {
			fi.firstLock = n.End()
		}
		list := stmtList(n)
		for i, s := range list {
			if isLockStmt(s, false) && i+1 < len(list) {
				fi.released = append(fi.released, span{s.End(), list[len(list)-1].End()})
			}
			if mode == lockToUnlockStmt && isLockStmt(s, true) {
				for _, t := range list[i+1:] {
					if containsUnlock(t) {
						fi.locked = append(fi.locked, span{s.End(), t.End()})
						break
					}
				}
			}
		}
	})
	switch {
	case mode == wholeBody:
		fi.locked = []span{{d.Body.Pos(), d.Body.End()}}
	case mode == afterLock && fi.firstLock != token.NoPos:
		fi.locked = []span{{fi.firstLock, d.Body.End()}}
	}
	if len(fi.locked) == 0 {
		a.bad(file, fi.full, d.Pos(), "no bucket lock call (lockBucket(&..)/x.mu.Lock()) found in a function that is expected to have a locked region")
	}
}

func (fi *funcInfo) isLocked(p token.Pos) bool {
	return fi != nil && inSpans(p, fi.locked) && !inSpans(p, fi.released)
}

func enclosingFunc(stack []ast.Node) *ast.FuncDecl {
	for _, n := range stack {
		if d, ok := n.(*ast.FuncDecl); ok {
			return d
		}
	}
	return nil
}

// rootIdent: b.keys[i] -> b, (*x).next -> x, table.size[i].c -> table.
func rootIdent(e ast.Expr) *ast.Ident {
	for {
		switch x := e.(type) {
		case *ast.Ident:
			return x
		case *ast.SelectorExpr:
			e = x.X
		case *ast.IndexExpr:
			e = x.X
		case *ast.ParenExpr:
			e = x.X
		case *ast.StarExpr:
			e = x.X
		default:
			return nil
		}
	}
}

// privateUntil: if id is a local variable declared as `x := new(T)` / `x := &T{..}`
// in this function, returns the position of its first use other than as the base
// of a field access (publication, aliasing or reassignment); accesses through x
// before that position are private. Returns NoPos if id is not such a variable.
func (a *analyzer) privateUntil(id *ast.Ident, body *ast.BlockStmt) token.Pos {
	obj := id.Obj
	if obj == nil || obj.Kind != ast.Var {
		return token.NoPos
	}
	if p, ok := a.escape[obj]; ok {
		return p
	}
	var rhs ast.Expr
	switch d := obj.Decl.(type) {
	case *ast.AssignStmt:
		for i, l := range d.Lhs {
			if li, ok := l.(*ast.Ident); ok && li.Obj == obj && d.Tok == token.DEFINE && len(d.Rhs) == len(d.Lhs) {
				rhs = d.Rhs[i]
			}
		}
	case *ast.ValueSpec:
		for i, n := range d.Names {
			if n.Obj == obj && len(d.Values) == len(d.Names) {
				rhs = d.Values[i]
			}
		}
	}
	fresh := false
	switch r := rhs.(type) {
	case *ast.CallExpr:
		f, ok := r.Fun.(*ast.Ident)
		fresh = ok && f.Name == "new" && f.Obj == nil
	case *ast.UnaryExpr:
		_, lit := r.X.(*ast.CompositeLit)
		fresh = r.Op == token.AND && lit
	}
	res := token.NoPos
	if fresh {
		res = body.End()
		walk(body, func(n ast.Node, st []ast.Node) {
			u, ok := n.(*ast.Ident)
			if !ok || u.Obj != obj || u.Pos() == obj.Pos() || u.Pos() >= res {
				return
			}
			if sel, ok := st[len(st)-2].(*ast.SelectorExpr); ok && sel.X == u {
				return // field access through the variable
			}
			res = u.Pos()
		})
	}
	a.escape[obj] = res
	return res
}

// classify decides how the shared-field selector on top of the stack is used.
// It returns the kind, the whole accessed expression (b.keys[i]) and a note.
func classify(stack []ast.Node, atomicPkg string) (kind string, whole ast.Expr, note string) {
	i := len(stack) - 1
	cur := stack[i].(ast.Expr)
	parent := func() ast.Node {
		if i == 0 {
			return nil
		}
		return stack[i-1]
	}
	up := func() { i--; cur = stack[i].(ast.Expr) }
	for { // element / parentheses
		if ix, ok := parent().(*ast.IndexExpr); ok && ix.X == cur {
			up()
		} else if _, ok := parent().(*ast.ParenExpr); ok {
			up()
		} else {
			break
		}
	}
	whole = cur
	switch p := parent().(type) {
	case *ast.UnaryExpr:
		if p.Op != token.AND {
			break
		}
		up()
		for { // parentheses and pointer conversions such as (*unsafe.Pointer)(&x)
			if _, ok := parent().(*ast.ParenExpr); ok {
				up()
				continue
			}
			if c, ok := parent().(*ast.CallExpr); ok && len(c.Args) == 1 && c.Args[0] == cur {
				if pe, ok := c.Fun.(*ast.ParenExpr); ok {
					if _, ok := pe.X.(*ast.StarExpr); ok {
						up()
						continue
					}
				}
			}
			break
		}
		if c, ok := parent().(*ast.CallExpr); ok && len(c.Args) > 0 && c.Args[0] == cur {
			switch f := c.Fun.(type) {
			case *ast.SelectorExpr:
				if x, ok := f.X.(*ast.Ident); ok && x.Name == atomicPkg && x.Obj == nil {
					return "atomic", whole, ""
				}
			case *ast.Ident:
				if f.Name == "lockBucket" || f.Name == "unlockBucket" {
					return "atomic", whole, ""
				}
			}
		}
		return "plain-write", whole, "address taken outside a sync/atomic call"
	case *ast.SliceExpr:
		if p.X == cur {
			return "plain-write", whole, "sliced (aliases the field)"
		}
	case *ast.AssignStmt:
		for _, l := range p.Lhs {
			if l == cur && p.Tok != token.DEFINE {
				return "plain-write", whole, ""
			}
		}
	case *ast.IncDecStmt:
		return "plain-write", whole, ""
	case *ast.RangeStmt:
		if (p.Key == cur || p.Value == cur) && p.Tok == token.ASSIGN {
			return "plain-write", whole, ""
		}
	}
	return "plain-read", whole, ""
}

func atomicImportName(f *ast.File) string {
	for _, im := range f.Imports {
		if im.Path.Value == `"sync/atomic"` {
			if im.Name != nil {
				return im.Name.Name
			}
			return "atomic"
		}
	}
	return "\x00none"
}

func excepted(file, fn, expr, kind string) bool {
	for _, e := range exceptions {
		if e.File == file && e.Func == fn && e.Expr == expr && e.Kind == kind {
			return true
		}
	}
	return false
}

func (a *analyzer) record(acc Access) {
	a.rep.Accesses = append(a.rep.Accesses, acc)
	s := &a.rep.Summary
	s.SharedAccesses++
	switch {
	case acc.Kind == "atomic":
		s.Atomic++
	case acc.Context == "private":
		s.PlainPrivate++
	case acc.Context == "locked" && acc.Kind == "plain-read":
		s.PlainLockedReads++
	case acc.Context == "stats":
		s.PlainStats++
	}
}

// checkXsyncAccesses classifies every shared-field access of one xsync file.
func (a *analyzer) checkXsyncAccesses(file string, f *ast.File) {
	atomicPkg := atomicImportName(f)
	walk(f, func(n ast.Node, stack []ast.Node) {
		sel, ok := n.(*ast.SelectorExpr)
		if !ok || !sharedFields[sel.Sel.Name] {
			return
		}
		field := sel.Sel.Name
		if field == "c" {
			field = "size.c"
		}
		fi, fn := (*funcInfo)(nil), "<package level>"
		var body *ast.BlockStmt
		if d := enclosingFunc(stack); d != nil {
			fi, fn, body = a.funcs[d], a.funcs[d].full, d.Body
		}
		kind, whole, note := classify(stack, atomicPkg)
		acc := Access{File: file, Func: fn, Field: field, Kind: kind, Line: a.line(sel.Pos())}
		expr := exprString(whole)
		private := fi != nil && privateFuncs[fi.name]
		if r := rootIdent(sel); !private && r != nil && body != nil {
			private = sel.Pos() < a.privateUntil(r, body)
		}
		switch {
		case kind == "atomic":
			acc.Context = "atomic"
		case private:
			acc.Context = "private"
		case fi != nil && strings.Contains(fi.name, "Stats"):
			acc.Context = "stats"
		case fi.isLocked(sel.Pos()):
			acc.Context = "locked"
		default:
			acc.Context = "lockfree"
		}
		a.record(acc)
		if kind == "atomic" || acc.Context == "private" || excepted(file, fn, expr, kind) {
			return
		}
		what := strings.Replace(kind, "-", " ", 1) + map[string]string{"plain-read": " of ", "plain-write": " to "}[kind] + expr
		if note != "" {
			what += " [" + note + "]"
		}
		switch acc.Context {
		case "locked":
			if kind == "plain-write" {
				a.bad(file, fn, sel.Pos(), "%s in locked region: lock-free readers load this field, so writers must use an atomic store even under the bucket lock", what)
			}
		case "stats":
			if kind == "plain-write" {
				a.bad(file, fn, sel.Pos(), "%s in a Stats function: diagnostics may only read", what)
			}
		default:
			why := "no bucket lock is held here and the memory is not private; use sync/atomic"
			switch {
			case fi == nil:
			case lockFreeFuncs[fi.name]:
				why = "this function is lock-free and must access shared fields with sync/atomic only"
			case len(fi.locked) > 0 && inSpans(sel.Pos(), fi.released) && sel.Pos() > fi.firstLock:
				why = "the bucket lock has already been released (statement follows an unlock call)"
			case len(fi.locked) > 0:
				why = "outside the locked region (before the bucket lock call / after the unlock statement)"
			}
			a.bad(file, fn, sel.Pos(), "%s in lock-free code: %s", what, why)
		}
	})
}

// checkCalls enforces the call discipline for the private/locked-only helpers.
func (a *analyzer) checkCalls(file string, f *ast.File) {
	walk(f, func(n ast.Node, stack []ast.Node) {
		id, ok := n.(*ast.Ident)
		if !ok || callRules[id.Name] == nil || (id.Obj != nil && id.Obj.Kind != ast.Fun) {
			return
		}
		if d, ok := stack[len(stack)-2].(*ast.FuncDecl); ok && d.Name == id {
			return // the declaration itself
		}
		a.rep.Summary.CallsChecked++
		fi, fn := (*funcInfo)(nil), "<package level>"
		if d := enclosingFunc(stack); d != nil {
			fi, fn = a.funcs[d], a.funcs[d].full
		}
		allowed := callRules[id.Name]
		names := make([]string, 0, len(allowed))
		for k := range allowed {
			names = append(names, k)
		}
		sort.Strings(names)
		switch {
		case fi == nil || !allowed[fi.name]:
			why := "it writes buckets/counters with plain stores and may only touch a table that is not published yet"
			if mustBeLockedCall[id.Name] {
				why = "it reads the bucket chain with plain loads and needs the root-bucket lock"
			} else if strings.HasPrefix(id.Name, "copyBucket") {
				why = "it fills the private destination table of a resize"
			}
			a.bad(file, fn, id.Pos(), "use of %s not allowed here (allowed callers: %s): %s", id.Name, strings.Join(names, ", "), why)
		case mustBeLockedCall[id.Name] && !fi.isLocked(id.Pos()):
			a.bad(file, fn, id.Pos(), "%s called outside the locked region (before the lock call or after an unlock): it reads the bucket chain with plain loads", id.Name)
		}
	})
}

// checkNoWait: Load/Size/sumSize must not reach a blocking call (transitively,
// through functions declared in the analysed xsync files; callees by name).
func (a *analyzer) checkNoWait(start *funcInfo) {
	seen := map[*funcInfo]bool{}
	var visit func(fi *funcInfo, path string)
	visit = func(fi *funcInfo, path string) {
		if seen[fi] || fi.decl.Body == nil {
			return
		}
		seen[fi] = true
		walk(fi.decl.Body, func(n ast.Node, _ []ast.Node) {
			call, ok := n.(*ast.CallExpr)
			if !ok {
				return
			}
			a.rep.Summary.CallsChecked++
			name, method := calleeName(call)
			if blockingCalls[name] || isBucketLock(call, true) {
				via := ""
				if fi != start {
					via = " via " + path
				}
				a.bad(start.file, start.full, call.Pos(), "calls blocking %s%s: reads never wait (Load/Size/sumSize must not take locks or wait for a resize)", exprString(call.Fun), via)
				return
			}
			for _, callee := range a.byName[name] {
				if (callee.decl.Recv != nil) == method && (!method || callee.file == fi.file) {
					visit(callee, path+" -> "+callee.full)
				}
			}
		})
	}
	visit(start, start.full)
}

// checkWrapper: defaultExpiration / evictedCallback are atomic.Value and may
// only be used as receiver of .Load()/.Store(...)/.Swap/.CompareAndSwap.
func (a *analyzer) checkWrapper(file string, f *ast.File) {
	walk(f, func(n ast.Node, stack []ast.Node) {
		fn := "<package level>"
		if d := enclosingFunc(stack); d != nil {
			fn = funcDisplay(d)
		}
		if kv, ok := n.(*ast.KeyValueExpr); ok {
			if k, ok := kv.Key.(*ast.Ident); ok && wrapperFields[k.Name] {
				if _, ok := stack[len(stack)-2].(*ast.CompositeLit); ok {
					a.record(Access{file, fn, k.Name, "plain-write", "lockfree", a.line(k.Pos())})
					a.bad(file, fn, k.Pos(), "atomic.Value field %s initialised in a composite literal (copies an atomic.Value); use .Store(...)", k.Name)
				}
			}
			return
		}
		sel, ok := n.(*ast.SelectorExpr)
		if !ok || !wrapperFields[sel.Sel.Name] {
			return
		}
		if m, ok := stack[len(stack)-2].(*ast.SelectorExpr); ok && m.X == sel && wrapperMethods[m.Sel.Name] && len(stack) >= 3 {
			if c, ok := stack[len(stack)-3].(*ast.CallExpr); ok && c.Fun == m {
				a.record(Access{file, fn, sel.Sel.Name, "atomic", "atomic", a.line(sel.Pos())})
				return
			}
		}
		kind, whole, note := classify(stack, "\x00none")
		a.record(Access{file, fn, sel.Sel.Name, kind, "lockfree", a.line(sel.Pos())})
		if excepted(file, fn, exprString(whole), kind) {
			return
		}
		if note == "" {
			note = "value copied / assigned / used without a method call"
		}
		a.bad(file, fn, sel.Pos(), "%s: atomic.Value field %s used other than as receiver of .Load()/.Store(...) [%s]", strings.Replace(kind, "-", " ", 1), exprString(whole), note)
	})
}

func main() {
	repo := flag.String("repo", "/repo", "root directory of the library under analysis")
	flag.Parse()
	a := &analyzer{fset: token.NewFileSet(), funcs: map[*ast.FuncDecl]*funcInfo{}, byName: map[string][]*funcInfo{},
		escape: map[*ast.Object]token.Pos{}}
	a.rep.Accesses, a.rep.Bad = []Access{}, []string{}
	parsed := map[string]*ast.File{}
	for _, rel := range append(append([]string{}, xsyncFiles...), wrapperFiles...) {
		f, err := parser.ParseFile(a.fset, filepath.Join(*repo, filepath.FromSlash(rel)), nil, parser.ParseComments)
		if err != nil {
			fmt.Fprintln(os.Stderr, "inventory: cannot parse:", err)
			os.Exit(2)
		}
		parsed[rel] = f
		a.rep.Summary.Files++
	}
	for _, rel := range xsyncFiles { // declarations first: the checks need all functions
		for _, d := range parsed[rel].Decls {
			if fd, ok := d.(*ast.FuncDecl); ok {
				a.addFunc(rel, fd)
			}
		}
	}
	for _, rel := range xsyncFiles {
		a.checkXsyncAccesses(rel, parsed[rel])
		a.checkCalls(rel, parsed[rel])
		for _, d := range parsed[rel].Decls {
			if fd, ok := d.(*ast.FuncDecl); ok && noWaitFuncs[fd.Name.Name] {
				a.checkNoWait(a.funcs[fd])
			}
		}
	}
	for _, rel := range wrapperFiles {
		a.checkWrapper(rel, parsed[rel])
	}
	a.rep.Summary.Bad = len(a.rep.Bad)
	out, _ := json.MarshalIndent(a.rep, "", " ")
	fmt.Println(string(out))
}
