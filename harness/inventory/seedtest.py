#!/usr/bin/env python3
"""Seeded-breakage self test of the inventory tool.

usage: python3 seedtest.py [seed ...]      (default: all seeds; REPO=/repo)
Each seed copies $REPO to /tmp/inv-<seed>, applies one textual breakage, checks
that the copy still compiles (go vet), runs the tool on it and fails unless at
least one "bad" entry is reported. /tmp/inv-<seed> is deleted afterwards.
$REPO itself is only read. The unchanged $REPO must give bad == [].
"""
import sys, shutil, subprocess, json, os
base=os.environ.get('REPO','/repo')
here=os.path.dirname(os.path.abspath(__file__))
def sub(path, old, new, count=1):
    s=open(path).read()
    assert s.count(old)>=1, (path, old)
    s=s.replace(old,new,count)
    open(path,'w').write(s)
seeds={}
def seed(name):
    def deco(f): seeds[name]=f; return f
    return deco
@seed('a')
def a(d):
    sub(d+'/internal/xsync/mapof.go','atomic.StorePointer(&b.next, unsafe.Pointer(newb))','b.next = unsafe.Pointer(newb)')
@seed('b')
def b(d):
    sub(d+'/internal/xsync/map.go','kp := atomic.LoadPointer(&b.keys[i])\n\t\t\tif kp != nil && vp != nil {\n\t\t\t\tif key == derefKey(kp) {\n\t\t\t\t\tif uintptr(vp) == uintptr(atomic.LoadPointer(&b.values[i])) {',
        'kp := atomic.LoadPointer(&b.keys[i])\n\t\t\tif kp != nil && vp != nil {\n\t\t\t\tif key == derefKey(kp) {\n\t\t\t\t\tif uintptr(vp) == uintptr(b.values[i]) {')
@seed('c')
def c(d):
    sub(d+'/internal/xsync/mapof.go','\trootb := b\n\trootb.mu.Lock()\n','\trootb := b\n\tif rootb.meta == defaultMeta && rootb.next == nil {\n\t\treturn 0\n\t}\n\trootb.mu.Lock()\n')
@seed('d')
def dd(d):
    sub(d+'/xsync_map.go','return c.evictedCallback.Load().(EvictedCallback)','cb := c.evictedCallback\n\treturn cb.Load().(EvictedCallback)')
@seed('e')
def e(d):
    sub(d+'/internal/xsync/map.go','\t\t\t\tnewb := new(bucketPadded)\n\t\t\t\tnewb.keys[0] = unsafe.Pointer(&key)\n\t\t\t\tnewb.values[0] = unsafe.Pointer(&newValue)\n\t\t\t\tnewb.topHashMutex = storeTopHash(hash, newb.topHashMutex, 0)\n\t\t\t\tatomic.StorePointer(&b.next, unsafe.Pointer(newb))\n',
        '\t\t\t\tappendToBucket(hash, unsafe.Pointer(&key), unsafe.Pointer(&newValue), rootb)\n')
@seed('f')
def f(d):
    sub(d+'/internal/xsync/mapof.go','\t\tbptr := atomic.LoadPointer(&b.next)\n\t\tif bptr == nil {\n\t\t\treturn\n','\t\tbptr := atomic.LoadPointer(&b.next)\n\t\tif bptr == nil {\n\t\t\tif m.resizeInProgress() {\n\t\t\t\tm.waitForResize()\n\t\t\t}\n\t\t\treturn\n')
# extra seeds
@seed('g')  # plain read after unlock in doCompute
def g(d):
    sub(d+'/internal/xsync/mapof.go','\t\t\t\t\t\t\trootb.mu.Unlock()\n\t\t\t\t\t\t\ttable.addSize(bidx, -1)\n','\t\t\t\t\t\t\trootb.mu.Unlock()\n\t\t\t\t\t\t\ttable.addSize(bidx, -1)\n\t\t\t\t\t\t\tnewmetaw = b.meta\n')
@seed('h')  # plain counter add in addSize
def h(d):
    sub(d+'/internal/xsync/map.go','atomic.AddInt64(&table.size[cidx].c, int64(delta))','table.size[cidx].c += int64(delta)')
@seed('i')  # isEmptyBucket called after unlock
def i(d):
    sub(d+'/internal/xsync/map.go','\t\t\t\t\t\tleftEmpty := false\n\t\t\t\t\t\tif hintNonEmpty == 0 {\n\t\t\t\t\t\t\tleftEmpty = isEmptyBucket(b)\n\t\t\t\t\t\t}\n\t\t\t\t\t\tunlockBucket(&rootb.topHashMutex)\n',
        '\t\t\t\t\t\tleftEmpty := false\n\t\t\t\t\t\tunlockBucket(&rootb.topHashMutex)\n\t\t\t\t\t\tif hintNonEmpty == 0 {\n\t\t\t\t\t\t\tleftEmpty = isEmptyBucket(b)\n\t\t\t\t\t\t}\n')
@seed('j')  # new bucket modified after publication
def j(d):
    sub(d+'/internal/xsync/map.go','\t\t\t\tnewb.values[0] = unsafe.Pointer(&newValue)\n\t\t\t\tnewb.topHashMutex = storeTopHash(hash, newb.topHashMutex, 0)\n\t\t\t\tatomic.StorePointer(&b.next, unsafe.Pointer(newb))\n',
        '\t\t\t\tnewb.topHashMutex = storeTopHash(hash, newb.topHashMutex, 0)\n\t\t\t\tatomic.StorePointer(&b.next, unsafe.Pointer(newb))\n\t\t\t\tnewb.values[0] = unsafe.Pointer(&newValue)\n')
@seed('k')  # plain table publication in resize, plain flag read
def k(d):
    sub(d+'/internal/xsync/mapof.go','\tatomic.StorePointer(&m.table, unsafe.Pointer(newTable))\n\tm.resizeMu.Lock()','\tm.table = unsafe.Pointer(newTable)\n\tm.resizeMu.Lock()')
    sub(d+'/internal/xsync/mapof.go','return atomic.LoadInt64(&m.resizing) == 1','return m.resizing == 1')
@seed('l')  # Range reads after the unlock; SetEvictedCallback assigns
def l(d):
    sub(d+'/internal/xsync/mapof.go','\t\t\tif b.next == nil {\n\t\t\t\trootb.mu.Unlock()\n\t\t\t\tbreak\n\t\t\t}\n\t\t\tb = (*bucketOfPadded)(b.next)\n\t\t}\n','\t\t\tif b.next == nil {\n\t\t\t\trootb.mu.Unlock()\n\t\t\t\tbreak\n\t\t\t}\n\t\t\tb = (*bucketOfPadded)(b.next)\n\t\t}\n\t\tif rootb.entries[0] == nil {\n\t\t\tcontinue\n\t\t}\n')
    sub(d+'/xsync_mapof.go','c.evictedCallback.Store(evictedCallback)','var v atomic.Value\n\tv.Store(evictedCallback)\n\tc.evictedCallback = v')
env=dict(os.environ, GOFLAGS='-mod=mod', GOPROXY='off', GOSUMDB='off', GOTOOLCHAIN='local')
tool='/tmp/inv-tool-%d' % os.getpid()
subprocess.run(['go','build','-o',tool,'.'],cwd=here,env=env,check=True)
failed=[]
r=json.loads(subprocess.run([tool,'-repo',base],capture_output=True,text=True,check=True).stdout)
print('== unchanged',base,json.dumps(r['summary']))
if r['bad']:
    failed.append('unchanged'); print('   UNEXPECTED:',*r['bad'],sep='\n    ')
for name in (sys.argv[1:] or sorted(seeds)):
    d='/tmp/inv-'+name
    shutil.rmtree(d, ignore_errors=True); shutil.copytree(base,d,ignore=shutil.ignore_patterns('.git'))
    seeds[name](d)
    b=subprocess.run(['go','vet','.','./internal/xsync'],cwd=d,env=env,capture_output=True,text=True)
    r=subprocess.run([tool,'-repo',d],capture_output=True,text=True)
    out=json.loads(r.stdout)
    print('== seed',name,'exit',r.returncode,'compiles' if b.returncode==0 else 'VET FAIL: '+b.stderr.strip()[:300],'bad=',out['summary']['bad'])
    for m in out['bad']: print('   ',m)
    shutil.rmtree(d)
    if r.returncode!=0 or not out['bad'] or b.returncode!=0: failed.append(name)
os.remove(tool)
print('FAILED: '+' '.join(failed) if failed else 'all seeds reported')
sys.exit(1 if failed else 0)
