// skeleton.go -- a small translator from the cache layer's source
// (xsync_map.go / xsync_mapof.go) to "call budgets": for every method of the
// cache type, and for every kind of primitive the models know (a call on
// c.items, a clock read, a load/store of a setting, a callback or user-function
// invocation), the MAXIMUM number of times a syntactic path through the method
// performs it outside a closure handed to c.items.Compute & co.  Helper methods
// on the receiver (c.get, c.expiration, c.Set, ...) and on items (i.expired) are
// inlined; if / switch take the maximum over their branches; a statement list is
// cut at a return; the body of a for loop and of the visitor handed to
// c.items.Range counts as "any number of times".  What happens inside a closure
// handed to another c.items method is summarised by one number: how often the
// closure can invoke a user function (a parameter of the method).
//
// The result is written as Coq definitions (gen/SrcFacts.v); the theorems of
// proofs/Skel.v tie the model programs to these budgets in both directions.
package main

import (
	"fmt"
	"go/ast"
	"go/parser"
	"go/token"
	"path/filepath"
	"sort"
	"strings"
)

const inf = 1 << 20

type bud map[string]int

func (b bud) add(o bud) bud {
	r := bud{}
	for k, v := range b {
		r[k] = v
	}
	for k, v := range o {
		r[k] = capInf(r[k] + v)
	}
	return r
}

func capInf(n int) int {
	if n >= inf {
		return inf
	}
	return n
}

func (b bud) max(o bud) bud {
	r := bud{}
	for k, v := range b {
		r[k] = v
	}
	for k, v := range o {
		if v > r[k] {
			r[k] = v
		}
	}
	return r
}

func (b bud) star() bud {
	r := bud{}
	for k, v := range b {
		if v > 0 {
			r[k] = inf
		}
	}
	return r
}

type skel struct {
	fset     *token.FileSet
	recvType string                   // xsyncMap / xsyncMapOf
	methods  map[string]*ast.FuncDecl // methods of the receiver type
	itemMeth map[string]*ast.FuncDecl // methods of item / itemOf
	memo     map[string]bud
	closFn   map[string]int // per method: max user-function calls inside one closure
	busy     map[string]bool
	notes    []string
	bad      bool
}

type sctx struct {
	recv    string          // receiver identifier of the method being analysed
	params  map[string]bool // function-typed parameters of the (outermost) method
	locals  map[string]bool // local variables of function/unknown type that are called
	method  string
	closure bool
}

func recvTypeName(fd *ast.FuncDecl) (typ, name string) {
	if fd.Recv == nil || len(fd.Recv.List) != 1 {
		return "", ""
	}
	t := fd.Recv.List[0].Type
	if s, ok := t.(*ast.StarExpr); ok {
		t = s.X
	}
	switch x := t.(type) {
	case *ast.IndexExpr:
		t = x.X
	case *ast.IndexListExpr:
		t = x.X
	}
	id, ok := t.(*ast.Ident)
	if !ok {
		return "", ""
	}
	if len(fd.Recv.List[0].Names) == 1 {
		name = fd.Recv.List[0].Names[0].Name
	}
	return id.Name, name
}

func newSkel(repo, file, recvType string, itemFiles []string, itemType string) (*skel, error) {
	s := &skel{fset: token.NewFileSet(), recvType: recvType, methods: map[string]*ast.FuncDecl{}, itemMeth: map[string]*ast.FuncDecl{},
		memo: map[string]bud{}, closFn: map[string]int{}, busy: map[string]bool{}}
	f, err := parser.ParseFile(s.fset, filepath.Join(repo, file), nil, 0)
	if err != nil {
		return nil, err
	}
	for _, d := range f.Decls {
		if fd, ok := d.(*ast.FuncDecl); ok && fd.Body != nil {
			if t, _ := recvTypeName(fd); t == recvType {
				s.methods[fd.Name.Name] = fd
			}
		}
	}
	for _, itf := range itemFiles {
		g, err := parser.ParseFile(s.fset, filepath.Join(repo, itf), nil, 0)
		if err != nil {
			return nil, err
		}
		for _, d := range g.Decls {
			if fd, ok := d.(*ast.FuncDecl); ok && fd.Body != nil {
				if t, _ := recvTypeName(fd); t == itemType {
					s.itemMeth[fd.Name.Name] = fd
				}
			}
		}
	}
	if len(s.methods) == 0 {
		return nil, fmt.Errorf("%s: no methods of %s found", file, recvType)
	}
	return s, nil
}

// fail records something the translator cannot account for; the method's budget then
// carries the token TUnknown, which no model program can attain or spend
func (s *skel) fail(format string, a ...interface{}) {
	s.notes = append(s.notes, fmt.Sprintf(format, a...))
	s.bad = true
}

// budget of a whole method of the receiver type (memoised)
func (s *skel) method(name string) bud {
	if b, ok := s.memo[name]; ok {
		return b
	}
	fd := s.methods[name]
	if fd == nil {
		s.fail("method %s not found", name)
		return bud{}
	}
	if s.busy[name] {
		s.fail("recursive method %s", name)
		return bud{}
	}
	s.busy[name] = true
	_, recv := recvTypeName(fd)
	cx := &sctx{recv: recv, params: map[string]bool{}, locals: map[string]bool{}, method: name}
	for _, p := range fd.Type.Params.List {
		if _, ok := p.Type.(*ast.FuncType); ok {
			for _, n := range p.Names {
				cx.params[n.Name] = true
			}
		}
	}
	wasBad := s.bad
	s.bad = false
	b := s.stmts(cx, fd.Body.List)
	if s.bad {
		b = b.add(bud{"Unknown": 1})
	}
	s.bad = wasBad
	s.busy[name] = false
	s.memo[name] = b
	return b
}

func (s *skel) itemMethod(name string) bud {
	fd := s.itemMeth[name]
	if fd == nil {
		return nil
	}
	cx := &sctx{recv: "", params: map[string]bool{}, locals: map[string]bool{}, method: "item." + name}
	return s.stmts(cx, fd.Body.List)
}

func terminates(st ast.Stmt) bool {
	switch x := st.(type) {
	case *ast.ReturnStmt:
		return true
	case *ast.BlockStmt:
		for _, y := range x.List {
			if terminates(y) {
				return true
			}
		}
	case *ast.IfStmt:
		if x.Else == nil {
			return false
		}
		return terminates(x.Body) && terminates(x.Else)
	case *ast.ExprStmt:
		if c, ok := x.X.(*ast.CallExpr); ok {
			if id, ok := c.Fun.(*ast.Ident); ok && id.Name == "panic" {
				return true
			}
		}
	}
	return false
}

// maximum over the syntactic paths through a statement list
func (s *skel) stmts(cx *sctx, l []ast.Stmt) bud {
	if len(l) == 0 {
		return bud{}
	}
	st, rest := l[0], l[1:]
	switch x := st.(type) {
	case *ast.ReturnStmt:
		b := bud{}
		for _, e := range x.Results {
			b = b.add(s.expr(cx, e))
		}
		return b
	case *ast.BlockStmt:
		if terminates(x) {
			return s.stmts(cx, x.List)
		}
		return s.stmts(cx, append(append([]ast.Stmt{}, x.List...), rest...))
	case *ast.IfStmt:
		b := bud{}
		if x.Init != nil {
			b = b.add(s.stmts(cx, []ast.Stmt{x.Init}))
		}
		b = b.add(s.expr(cx, x.Cond))
		var thn, els bud
		if terminates(x.Body) {
			thn = s.stmts(cx, x.Body.List)
		} else {
			thn = s.stmts(cx, append(append([]ast.Stmt{}, x.Body.List...), rest...))
		}
		if x.Else == nil {
			els = s.stmts(cx, rest)
		} else if terminates(x.Else) {
			els = s.stmts(cx, []ast.Stmt{x.Else})
		} else {
			els = s.stmts(cx, append([]ast.Stmt{x.Else}, rest...))
		}
		return b.add(thn.max(els))
	case *ast.ForStmt:
		b := bud{}
		if x.Init != nil {
			b = b.add(s.stmts(cx, []ast.Stmt{x.Init}))
		}
		body := s.stmts(cx, x.Body.List)
		if x.Cond != nil {
			body = body.add(s.expr(cx, x.Cond))
		}
		if x.Post != nil {
			body = body.add(s.stmts(cx, []ast.Stmt{x.Post}))
		}
		return b.add(body.star()).add(s.stmts(cx, rest))
	case *ast.RangeStmt:
		b := s.expr(cx, x.X)
		return b.add(s.stmts(cx, x.Body.List).star()).add(s.stmts(cx, rest))
	case *ast.SwitchStmt:
		b := bud{}
		if x.Init != nil {
			b = b.add(s.stmts(cx, []ast.Stmt{x.Init}))
		}
		if x.Tag != nil {
			b = b.add(s.expr(cx, x.Tag))
		}
		m := bud{}
		for _, c := range x.Body.List {
			cc := c.(*ast.CaseClause)
			cb := bud{}
			for _, e := range cc.List {
				cb = cb.add(s.expr(cx, e))
			}
			m = m.max(cb.add(s.stmts(cx, cc.Body)))
		}
		return b.add(m).add(s.stmts(cx, rest))
	case *ast.ExprStmt:
		return s.expr(cx, x.X).add(s.stmts(cx, rest))
	case *ast.AssignStmt:
		b := bud{}
		for _, e := range x.Rhs {
			b = b.add(s.expr(cx, e))
		}
		for _, e := range x.Lhs {
			if _, ok := e.(*ast.Ident); !ok {
				b = b.add(s.expr(cx, e))
			}
		}
		return b.add(s.stmts(cx, rest))
	case *ast.DeclStmt:
		b := bud{}
		if gd, ok := x.Decl.(*ast.GenDecl); ok {
			for _, sp := range gd.Specs {
				if vs, ok := sp.(*ast.ValueSpec); ok {
					for _, e := range vs.Values {
						b = b.add(s.expr(cx, e))
					}
				}
			}
		}
		return b.add(s.stmts(cx, rest))
	case *ast.IncDecStmt, *ast.EmptyStmt, *ast.BranchStmt, *ast.LabeledStmt:
		if ls, ok := st.(*ast.LabeledStmt); ok {
			return s.stmts(cx, append([]ast.Stmt{ls.Stmt}, rest...))
		}
		return s.stmts(cx, rest)
	case *ast.DeferStmt:
		return s.expr(cx, x.Call).add(s.stmts(cx, rest))
	case *ast.GoStmt:
		s.fail("%s: go statement in a cache method", cx.method)
		return bud{}
	default:
		s.fail("%s: unsupported statement %T", cx.method, st)
		return bud{}
	}
}

var builtins = map[string]bool{"make": true, "len": true, "cap": true, "append": true, "close": true, "new": true, "panic": true,
	"delete": true, "copy": true, "min": true, "max": true, "int": true, "int64": true, "uint64": true, "string": true}

func isSel(e ast.Expr, names ...string) bool {
	// e is the selector chain names[0].names[1]....
	for i := len(names) - 1; i >= 1; i-- {
		se, ok := e.(*ast.SelectorExpr)
		if !ok || se.Sel.Name != names[i] {
			return false
		}
		e = se.X
	}
	id, ok := e.(*ast.Ident)
	return ok && id.Name == names[0]
}

func (s *skel) expr(cx *sctx, e ast.Expr) bud {
	switch x := e.(type) {
	case nil:
		return bud{}
	case *ast.CallExpr:
		return s.call(cx, x)
	case *ast.FuncLit:
		// a function literal that is not handed to a c.items method: conservatively, its body any number of times
		return s.stmts(&sctx{recv: cx.recv, params: cx.params, locals: cx.locals, method: cx.method, closure: cx.closure}, x.Body.List).star()
	case *ast.ParenExpr:
		return s.expr(cx, x.X)
	case *ast.UnaryExpr:
		return s.expr(cx, x.X)
	case *ast.StarExpr:
		return s.expr(cx, x.X)
	case *ast.BinaryExpr:
		return s.expr(cx, x.X).add(s.expr(cx, x.Y))
	case *ast.SelectorExpr:
		return s.expr(cx, x.X)
	case *ast.IndexExpr:
		return s.expr(cx, x.X).add(s.expr(cx, x.Index))
	case *ast.TypeAssertExpr:
		return s.expr(cx, x.X)
	case *ast.CompositeLit:
		b := bud{}
		for _, el := range x.Elts {
			if kv, ok := el.(*ast.KeyValueExpr); ok {
				b = b.add(s.expr(cx, kv.Value))
			} else {
				b = b.add(s.expr(cx, el))
			}
		}
		return b
	case *ast.KeyValueExpr:
		return s.expr(cx, x.Value)
	case *ast.Ident, *ast.BasicLit, *ast.ArrayType, *ast.MapType, *ast.FuncType, *ast.IndexListExpr, *ast.InterfaceType, *ast.StructType:
		return bud{}
	case *ast.SliceExpr:
		return s.expr(cx, x.X)
	default:
		s.fail("%s: unsupported expression %T", cx.method, e)
		return bud{}
	}
}

func (s *skel) call(cx *sctx, c *ast.CallExpr) bud {
	one := func(t string) bud { return bud{t: 1} }
	// arguments first (function literals are treated at the call)
	args := bud{}
	var lits []*ast.FuncLit
	for _, a := range c.Args {
		if fl, ok := a.(*ast.FuncLit); ok {
			lits = append(lits, fl)
			continue
		}
		args = args.add(s.expr(cx, a))
	}
	litsAsLoop := func() bud {
		b := bud{}
		for _, fl := range lits {
			b = b.add(s.stmts(cx, fl.Body.List).star())
		}
		return b
	}
	switch f := c.Fun.(type) {
	case *ast.Ident:
		switch {
		case cx.params[f.Name]:
			return args.add(litsAsLoop()).add(one("UserFn"))
		case builtins[f.Name]:
			return args.add(litsAsLoop())
		default:
			// a call through a local variable: in this code base, the evicted callback
			return args.add(litsAsLoop()).add(one("Fire"))
		}
	case *ast.SelectorExpr:
		m := f.Sel.Name
		// c.items.M(...)
		if cx.recv != "" && isSel(f.X, cx.recv, "items") {
			b := args.add(one(m))
			for _, fl := range lits {
				if m == "Range" {
					// the visitor runs once per entry, outside any bucket lock as far as the caller's own calls go
					b = b.add(s.stmts(cx, fl.Body.List).star())
				} else {
					// a closure run by the map under the bucket lock: summarised
					in := s.stmts(&sctx{recv: cx.recv, params: cx.params, locals: cx.locals, method: cx.method, closure: true}, fl.Body.List)
					for t, n := range in {
						if t == "UserFn" {
							if n > s.closFn[cx.method] {
								s.closFn[cx.method] = n
							}
						}
						// a closure must not call back into the map
						switch t {
						case "Now", "Dflt", "Cb", "UserFn":
						case "Fire":
							// the evicted callback invoked under the bucket lock: a primitive of its own, which no model program has
							if n > 0 {
								b = b.add(bud{"FireLocked": n})
								s.notes = append(s.notes, fmt.Sprintf("%s: closure handed to items.%s invokes the evicted callback (under the bucket lock)", cx.method, m))
							}
						default:
							if n > 0 {
								s.fail("%s: closure handed to items.%s performs %s", cx.method, m, t)
							}
						}
					}
				}
			}
			return b
		}
		if cx.recv != "" && isSel(f.X, cx.recv, "defaultExpiration") {
			switch m {
			case "Load":
				return args.add(one("Dflt"))
			case "Store":
				return args.add(one("WDflt"))
			}
		}
		if cx.recv != "" && isSel(f.X, cx.recv, "evictedCallback") {
			switch m {
			case "Load":
				return args.add(one("Cb"))
			case "Store":
				return args.add(one("WCb"))
			}
		}
		// c.M(...): a method of the receiver, inlined
		if id, ok := f.X.(*ast.Ident); ok && cx.recv != "" && id.Name == cx.recv {
			if _, ok := s.methods[m]; ok {
				b := args.add(s.method(m))
				if cf := s.closFn[m]; cf > s.closFn[cx.method] {
					s.closFn[cx.method] = cf
				}
				return b.add(litsAsLoop())
			}
			s.fail("%s: call of unknown receiver method %s", cx.method, m)
			return args
		}
		if id, ok := f.X.(*ast.Ident); ok && id.Name == "time" {
			switch m {
			case "Now", "Until", "Since":
				return args.add(one("Now"))
			case "Unix", "Duration", "UnixMilli":
				return args
			}
			s.fail("%s: unknown time.%s", cx.method, m)
			return args
		}
		// a method of something else: an item method (expired, expiredWithNow) or a pure accessor on a time value
		inner := s.expr(cx, f.X)
		if ib := s.itemMethod(m); ib != nil {
			return args.add(inner).add(ib).add(litsAsLoop())
		}
		switch m {
		case "Add", "UnixNano", "Sub", "Nanoseconds", "IsZero":
			return args.add(inner)
		}
		s.fail("%s: call of unknown method .%s", cx.method, m)
		return args
	case *ast.IndexExpr, *ast.IndexListExpr, *ast.ArrayType, *ast.MapType, *ast.ParenExpr, *ast.FuncLit:
		// conversion or instantiated generic conversion; an immediately applied literal is not used here
		if fl, ok := f.(*ast.FuncLit); ok {
			return args.add(s.stmts(cx, fl.Body.List))
		}
		return args.add(litsAsLoop())
	}
	s.fail("%s: unsupported call form %T", cx.method, c.Fun)
	return args
}

var coqTok = map[string]string{
	"Load": "TLoad", "Store": "TStore", "Compute": "TCompute", "LoadAndDelete": "TLoadAndDelete", "Delete": "TDelete",
	"Clear": "TClear", "Size": "TSize", "Range": "TSnapshot", "Now": "TNow", "Dflt": "TDflt", "WDflt": "TWDflt",
	"Cb": "TCb", "WCb": "TWCb", "Fire": "TFire", "UserFn": "TUserFn",
	// map methods the models do not use, and whatever the translator could not account for
	"LoadOrStore": "TLoadOrStore", "LoadAndStore": "TLoadAndStore", "LoadOrCompute": "TLoadOrCompute", "Unknown": "TUnknown", "FireLocked": "TFireLocked",
}

// skeletonFacts renders the budgets of the public methods as Coq definitions
func skeletonFacts(repo, file, recvType string, itemFiles []string, itemType, tag string) (string, error) {
	s, err := newSkel(repo, file, recvType, itemFiles, itemType)
	if err != nil {
		return "", err
	}
	var names []string
	for n := range s.methods {
		if ast.IsExported(n) {
			names = append(names, n)
		}
	}
	sort.Strings(names)
	var sb strings.Builder
	fmt.Fprintf(&sb, "(* %s: call budgets of the methods of %s (see harness/srcfacts/skeleton.go) *)\n", file, recvType)
	fmt.Fprintf(&sb, "Definition budgets_%s : list (string * (list (stok * option nat) * nat)) := [\n", tag)
	for i, n := range names {
		b := s.method(n)
		var toks []string
		for t := range b {
			toks = append(toks, t)
		}
		sort.Strings(toks)
		var items []string
		for _, t := range toks {
			ct, ok := coqTok[t]
			if !ok {
				s.notes = append(s.notes, fmt.Sprintf("%s: items.%s is not a map method the translator knows", n, t))
				ct = "TUnknown"
			}
			if b[t] >= inf {
				items = append(items, fmt.Sprintf("(%s, None)", ct))
			} else if b[t] > 0 {
				items = append(items, fmt.Sprintf("(%s, Some %d)", ct, b[t]))
			}
		}
		sep := ";"
		if i == len(names)-1 {
			sep = ""
		}
		fmt.Fprintf(&sb, "  (%s, ([%s], %d))%s\n", coqString(n), strings.Join(items, "; "), s.closFn[n], sep)
	}
	sb.WriteString("].\n")
	for _, nt := range s.notes {
		fmt.Fprintf(&sb, "(* translator note: %s *)\n", strings.ReplaceAll(nt, "*)", "* )"))
	}
	sb.WriteString("\n")
	return sb.String(), nil
}
