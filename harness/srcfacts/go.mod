module verifsrcfacts

go 1.23
