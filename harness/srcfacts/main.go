// srcfacts regenerates coq/gen/Params.v from the source of /repo: every
// package-level constant (and constant-initialised variable) the models use.
// The expressions are evaluated with go/constant over the AST (no type
// checker: the packages reach into runtime through go:linkname); an expression
// form it does not know makes it fail, which the caller reports as a broken
// source correspondence.
package main

import (
	"flag"
	"fmt"
	"go/ast"
	"go/constant"
	"go/parser"
	"go/printer"
	"go/token"
	"os"
	"path/filepath"
	"sort"
	"strings"
)

var timeConsts = map[string]int64{
	"Nanosecond": 1, "Microsecond": 1e3, "Millisecond": 1e6, "Second": 1e9, "Minute": 60e9, "Hour": 3600e9,
}

type env map[string]constant.Value

func (e env) eval(x ast.Expr, iota int64) (constant.Value, error) {
	switch x := x.(type) {
	case *ast.BasicLit:
		v := constant.MakeFromLiteral(x.Value, x.Kind, 0)
		if v.Kind() == constant.Unknown {
			return nil, fmt.Errorf("bad literal %s", x.Value)
		}
		return v, nil
	case *ast.ParenExpr:
		return e.eval(x.X, iota)
	case *ast.Ident:
		if x.Name == "iota" {
			return constant.MakeInt64(iota), nil
		}
		if v, ok := e[x.Name]; ok {
			return v, nil
		}
		return nil, fmt.Errorf("unknown identifier %s", x.Name)
	case *ast.SelectorExpr:
		if p, ok := x.X.(*ast.Ident); ok && p.Name == "time" {
			if v, ok := timeConsts[x.Sel.Name]; ok {
				return constant.MakeInt64(v), nil
			}
		}
		if p, ok := x.X.(*ast.Ident); ok && p.Name == "unsafe" {
			return nil, fmt.Errorf("unsafe.%s is not a source-level constant", x.Sel.Name)
		}
		return nil, fmt.Errorf("unknown selector")
	case *ast.UnaryExpr:
		v, err := e.eval(x.X, iota)
		if err != nil {
			return nil, err
		}
		return constant.UnaryOp(x.Op, v, 0), nil
	case *ast.BinaryExpr:
		a, err := e.eval(x.X, iota)
		if err != nil {
			return nil, err
		}
		b, err := e.eval(x.Y, iota)
		if err != nil {
			return nil, err
		}
		switch x.Op {
		case token.SHL, token.SHR:
			s, ok := constant.Uint64Val(b)
			if !ok {
				return nil, fmt.Errorf("bad shift")
			}
			return constant.Shift(a, x.Op, uint(s)), nil
		case token.QUO:
			if a.Kind() == constant.Int && b.Kind() == constant.Int {
				return constant.BinaryOp(a, token.QUO_ASSIGN, b), nil // integer division
			}
		}
		return constant.BinaryOp(a, x.Op, b), nil
	case *ast.CallExpr: // conversion T(x)
		if len(x.Args) == 1 {
			if t, ok := x.Fun.(*ast.Ident); ok {
				v, err := e.eval(x.Args[0], iota)
				if err != nil {
					return nil, err
				}
				return convert(t.Name, v)
			}
			if s, ok := x.Fun.(*ast.SelectorExpr); ok { // time.Duration(x)
				if p, ok := s.X.(*ast.Ident); ok && p.Name == "time" && s.Sel.Name == "Duration" {
					return e.eval(x.Args[0], iota)
				}
			}
		}
		return nil, fmt.Errorf("unsupported call")
	}
	return nil, fmt.Errorf("unsupported expression %T", x)
}

func convert(t string, v constant.Value) (constant.Value, error) {
	bits := map[string]uint{"uint8": 8, "uint16": 16, "uint32": 32, "uint64": 64, "uint": 64, "uintptr": 64}
	if b, ok := bits[t]; ok {
		v = constant.ToInt(v)
		if v.Kind() != constant.Int {
			return nil, fmt.Errorf("cannot convert to %s", t)
		}
		mod := constant.Shift(constant.MakeInt64(1), token.SHL, b)
		// constants must fit their type in Go; reduce defensively
		r := constant.BinaryOp(v, token.REM, mod)
		if constant.Sign(r) < 0 {
			r = constant.BinaryOp(r, token.ADD, mod)
		}
		return r, nil
	}
	switch t {
	case "int", "int8", "int16", "int32", "int64":
		return constant.ToInt(v), nil
	case "float64", "float32":
		return constant.ToFloat(v), nil
	}
	return nil, fmt.Errorf("unknown conversion %s", t)
}

type def struct {
	name string
	val  constant.Value
	elts []constant.Value // array literal
	typ  string
}

func collect(dir string, skipTests bool) ([]def, error) {
	fset := token.NewFileSet()
	pkgs, err := parser.ParseDir(fset, dir, func(fi os.FileInfo) bool {
		return !strings.HasSuffix(fi.Name(), "_test.go")
	}, 0)
	if err != nil {
		return nil, err
	}
	var defs []def
	e := env{}
	var names []string
	for n := range pkgs {
		names = append(names, n)
	}
	sort.Strings(names)
	for _, pn := range names {
		if pn == "main" {
			continue
		}
		var files []string
		for fn := range pkgs[pn].Files {
			files = append(files, fn)
		}
		sort.Strings(files)
		// two passes so that constants may refer to ones declared in later files
		for pass := 0; pass < 2; pass++ {
			for _, fn := range files {
				for _, d := range pkgs[pn].Files[fn].Decls {
					gd, ok := d.(*ast.GenDecl)
					if !ok || (gd.Tok != token.CONST && gd.Tok != token.VAR) {
						continue
					}
					var lastVals []ast.Expr
					for i, s := range gd.Specs {
						vs := s.(*ast.ValueSpec)
						vals := vs.Values
						if gd.Tok == token.CONST && len(vals) == 0 {
							vals = lastVals
						} else {
							lastVals = vals
						}
						for j, id := range vs.Names {
							if j >= len(vals) || id.Name == "_" {
								continue
							}
							if _, done := e[id.Name]; done {
								continue
							}
							typ := ""
							if t, ok := vs.Type.(*ast.Ident); ok {
								typ = t.Name
							}
							if cl, ok := vals[j].(*ast.CompositeLit); ok && gd.Tok == token.VAR {
								var elts []constant.Value
								good := true
								for _, el := range cl.Elts {
									v, err := e.eval(el, int64(i))
									if err != nil {
										good = false
										break
									}
									elts = append(elts, v)
								}
								if good && pass == 1 {
									defs = append(defs, def{name: id.Name, elts: elts})
								}
								continue
							}
							v, err := e.eval(vals[j], int64(i))
							if err != nil {
								if gd.Tok == token.CONST && pass == 1 {
									return nil, fmt.Errorf("%s: constant %s: %v", fn, id.Name, err)
								}
								continue
							}
							if typ != "" {
								if cv, err := convert(typ, v); err == nil {
									v = cv
								}
							}
							e[id.Name] = v
							defs = append(defs, def{name: id.Name, val: v, typ: typ})
						}
					}
				}
			}
		}
	}
	return defs, nil
}

func coqVal(v constant.Value) (string, bool) {
	switch v.Kind() {
	case constant.Int:
		s := v.ExactString()
		if strings.HasPrefix(s, "-") {
			return "(" + s + ")", true
		}
		return s, true
	case constant.Bool:
		return fmt.Sprint(constant.BoolVal(v)), true
	}
	return "", false
}

// ---- structural facts about the constructors (janitor closure, finalizer) ----

type ctorFacts struct {
	fn        string
	guard     string   // condition under which the janitor goroutine is started
	captures  []string // variables of the constructor referenced inside the goroutine's function literal
	tick      string   // what the goroutine does when the ticker fires
	finTarget string   // first argument of runtime.SetFinalizer
	finBody   string   // body of the finalizer
	wrapper   string   // right-hand side of the definition of finTarget
}

func exprString(fset *token.FileSet, n ast.Node) string {
	var sb strings.Builder
	printer.Fprint(&sb, fset, n)
	return strings.Join(strings.Fields(sb.String()), " ")
}

func ctorFactsOf(repo, file, fn string) (*ctorFacts, error) {
	fset := token.NewFileSet()
	f, err := parser.ParseFile(fset, filepath.Join(repo, file), nil, 0)
	if err != nil {
		return nil, err
	}
	for _, d := range f.Decls {
		fd, ok := d.(*ast.FuncDecl)
		if !ok || fd.Name.Name != fn || fd.Body == nil {
			continue
		}
		cf := &ctorFacts{fn: fn}
		locals := map[string]bool{}
		defs := map[string]string{}
		for _, p := range fd.Type.Params.List {
			for _, n := range p.Names {
				locals[n.Name] = true
			}
		}
		for _, st := range fd.Body.List {
			if as, ok := st.(*ast.AssignStmt); ok && as.Tok == token.DEFINE {
				for i, l := range as.Lhs {
					if id, ok := l.(*ast.Ident); ok {
						locals[id.Name] = true
						if i < len(as.Rhs) {
							defs[id.Name] = exprString(fset, as.Rhs[i])
						}
					}
				}
			}
		}
		ast.Inspect(fd.Body, func(n ast.Node) bool {
			switch x := n.(type) {
			case *ast.IfStmt:
				for _, st := range x.Body.List {
					if g, ok := st.(*ast.GoStmt); ok {
						if fl, ok := g.Call.Fun.(*ast.FuncLit); ok {
							cf.guard = exprString(fset, x.Cond)
							ast.Inspect(fl.Body, func(m ast.Node) bool {
								if cc, ok := m.(*ast.CommClause); ok && cc.Comm != nil && strings.Contains(exprString(fset, cc.Comm), "ticker.C") {
									var parts []string
									for _, st := range cc.Body {
										parts = append(parts, exprString(fset, st))
									}
									cf.tick = strings.Join(parts, "; ")
								}
								return true
							})
							seen := map[string]bool{}
							inner := map[string]bool{}
							ast.Inspect(fl.Body, func(m ast.Node) bool {
								if as, ok := m.(*ast.AssignStmt); ok && as.Tok == token.DEFINE {
									for _, l := range as.Lhs {
										if id, ok := l.(*ast.Ident); ok {
											inner[id.Name] = true
										}
									}
								}
								if id, ok := m.(*ast.Ident); ok && locals[id.Name] && !inner[id.Name] && !seen[id.Name] {
									seen[id.Name] = true
									cf.captures = append(cf.captures, id.Name)
								}
								return true
							})
						} else {
							// the goroutine body is not a function literal any more
							cf.guard = exprString(fset, x.Cond)
							cf.tick = "<go " + exprString(fset, g.Call) + ">"
						}
					}
				}
			case *ast.GoStmt:
				// a goroutine started outside an if: unguarded
				if cf.guard == "" {
					if _, ok := x.Call.Fun.(*ast.FuncLit); ok {
						cf.guard = "<unconditional?>"
					}
				}
			case *ast.CallExpr:
				if se, ok := x.Fun.(*ast.SelectorExpr); ok && se.Sel.Name == "SetFinalizer" && len(x.Args) == 2 {
					cf.finTarget = exprString(fset, x.Args[0])
					if fl, ok := x.Args[1].(*ast.FuncLit); ok {
						cf.finBody = exprString(fset, fl.Body)
					}
					cf.wrapper = defs[cf.finTarget]
				}
			}
			return true
		})
		// the unguarded marker only stands if no guarded goroutine was found
		sort.Strings(cf.captures)
		return cf, nil
	}
	return nil, fmt.Errorf("%s: function %s not found", file, fn)
}

func coqString(s string) string { return "\"" + strings.ReplaceAll(s, "\"", "\"\"") + "\"" }

func writeIfChanged(path, content string) error {
	old, _ := os.ReadFile(path)
	if string(old) == content {
		return nil
	}
	return os.WriteFile(path, []byte(content), 0o644)
}

func main() {
	repo := flag.String("repo", "/repo", "repository root")
	out := flag.String("out", "", "output file (Params.v)")
	facts := flag.String("facts", "", "output file for structural facts (SrcFacts.v)")
	flag.Parse()
	if *facts != "" {
		var fb strings.Builder
		fb.WriteString("(* GENERATED from the source of the repository by harness/srcfacts on every run -- do not edit. *)\n")
		fb.WriteString("From Coq Require Import String List.\nImport ListNotations.\nLocal Open Scope string_scope.\n\n")
		for _, c := range []struct{ file, fn, tag string }{{"xsync_map.go", "newXsyncMap", "map"}, {"xsync_mapof.go", "newXsyncMapOf", "mapof"}} {
			cf, err := ctorFactsOf(*repo, c.file, c.fn)
			if err != nil {
				fmt.Fprintln(os.Stderr, "srcfacts:", err)
				os.Exit(2)
			}
			var caps []string
			for _, x := range cf.captures {
				caps = append(caps, coqString(x))
			}
			fmt.Fprintf(&fb, "(* %s: func %s *)\n", c.file, c.fn)
			fmt.Fprintf(&fb, "Definition janitor_guard_%s : string := %s.\n", c.tag, coqString(cf.guard))
			fmt.Fprintf(&fb, "Definition janitor_captures_%s : list string := [%s].\n", c.tag, strings.Join(caps, "; "))
			fmt.Fprintf(&fb, "Definition janitor_tick_%s : string := %s.\n", c.tag, coqString(cf.tick))
			fmt.Fprintf(&fb, "Definition finalizer_target_%s : string := %s.\n", c.tag, coqString(cf.finTarget))
			fmt.Fprintf(&fb, "Definition finalizer_target_def_%s : string := %s.\n", c.tag, coqString(cf.wrapper))
			fmt.Fprintf(&fb, "Definition finalizer_body_%s : string := %s.\n\n", c.tag, coqString(cf.finBody))
		}
		fb.WriteString("(* ---- call budgets of the cache methods (translator: harness/srcfacts/skeleton.go) ---- *)\n")
		fb.WriteString("Inductive stok := TLoad | TStore | TCompute | TLoadAndDelete | TDelete | TClear | TSize | TSnapshot\n  | TNow | TDflt | TWDflt | TCb | TWCb | TFire | TUserFn\n  | TLoadOrStore | TLoadAndStore | TLoadOrCompute | TUnknown | TFireLocked.\n\n")
		for _, c := range []struct {
			file, recv string
			items      []string
			itemType   string
			tag        string
		}{{"xsync_map.go", "xsyncMap", []string{"item.go"}, "item", "map"}, {"xsync_mapof.go", "xsyncMapOf", []string{"itemof.go"}, "itemOf", "mapof"}} {
			txt, err := skeletonFacts(*repo, c.file, c.recv, c.items, c.itemType, c.tag)
			if err != nil {
				fmt.Fprintln(os.Stderr, "srcfacts:", err)
				os.Exit(2)
			}
			fb.WriteString(txt)
		}
		if err := writeIfChanged(*facts, fb.String()); err != nil {
			fmt.Fprintln(os.Stderr, "srcfacts:", err)
			os.Exit(2)
		}
	}
	var sb strings.Builder
	sb.WriteString("(* GENERATED from the source of the repository by harness/srcfacts on every run -- do not edit. *)\n")
	sb.WriteString("From Coq Require Import ZArith List.\nImport ListNotations.\nLocal Open Scope Z_scope.\n\n")
	for _, part := range []struct{ dir, tag string }{{".", "package cache"}, {"internal/xsync", "package xsync"}} {
		defs, err := collect(filepath.Join(*repo, part.dir), true)
		if err != nil {
			fmt.Fprintln(os.Stderr, "srcfacts:", err)
			os.Exit(2)
		}
		fmt.Fprintf(&sb, "(* %s *)\n", part.tag)
		for _, d := range defs {
			if d.elts != nil {
				var xs []string
				ok := true
				for _, el := range d.elts {
					s, g := coqVal(el)
					ok = ok && g
					xs = append(xs, s)
				}
				if ok {
					fmt.Fprintf(&sb, "Definition %s : list Z := [%s].\n", d.name, strings.Join(xs, "; "))
				}
				continue
			}
			if d.val.Kind() == constant.Float {
				// exact rational: numerator / denominator
				n, dn := constant.Num(d.val), constant.Denom(d.val)
				ns, _ := coqVal(n)
				ds, _ := coqVal(dn)
				fmt.Fprintf(&sb, "Definition %s_num : Z := %s.\nDefinition %s_den : Z := %s.\n", d.name, ns, d.name, ds)
				continue
			}
			if s, ok := coqVal(d.val); ok && d.val.Kind() == constant.Int {
				fmt.Fprintf(&sb, "Definition %s : Z := %s.\n", d.name, s)
			}
		}
		sb.WriteString("\n")
	}
	if *out == "" {
		fmt.Print(sb.String())
		return
	}
	old, _ := os.ReadFile(*out)
	if string(old) == sb.String() {
		return // keep the timestamp: nothing to rebuild
	}
	if err := os.WriteFile(*out, []byte(sb.String()), 0o644); err != nil {
		fmt.Fprintln(os.Stderr, "srcfacts:", err)
		os.Exit(2)
	}
}
