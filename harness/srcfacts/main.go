// srcfacts regenerates coq/gen/Params.v from the source of /repo: every
// package-level constant (and constant-initialised variable) the models use.
// The expressions are evaluated with go/constant over the AST (no type
// checker: the packages reach into runtime through go:linkname); an expression
// form it does not know makes it fail, which the caller reports as a broken
// source correspondence.
package main

import (
	"flag"
	"fmt"
	"go/ast"
	"go/constant"
	"go/parser"
	"go/token"
	"os"
	"path/filepath"
	"sort"
	"strings"
)

var timeConsts = map[string]int64{
	"Nanosecond": 1, "Microsecond": 1e3, "Millisecond": 1e6, "Second": 1e9, "Minute": 60e9, "Hour": 3600e9,
}

type env map[string]constant.Value

func (e env) eval(x ast.Expr, iota int64) (constant.Value, error) {
	switch x := x.(type) {
	case *ast.BasicLit:
		v := constant.MakeFromLiteral(x.Value, x.Kind, 0)
		if v.Kind() == constant.Unknown {
			return nil, fmt.Errorf("bad literal %s", x.Value)
		}
		return v, nil
	case *ast.ParenExpr:
		return e.eval(x.X, iota)
	case *ast.Ident:
		if x.Name == "iota" {
			return constant.MakeInt64(iota), nil
		}
		if v, ok := e[x.Name]; ok {
			return v, nil
		}
		return nil, fmt.Errorf("unknown identifier %s", x.Name)
	case *ast.SelectorExpr:
		if p, ok := x.X.(*ast.Ident); ok && p.Name == "time" {
			if v, ok := timeConsts[x.Sel.Name]; ok {
				return constant.MakeInt64(v), nil
			}
		}
		if p, ok := x.X.(*ast.Ident); ok && p.Name == "unsafe" {
			return nil, fmt.Errorf("unsafe.%s is not a source-level constant", x.Sel.Name)
		}
		return nil, fmt.Errorf("unknown selector")
	case *ast.UnaryExpr:
		v, err := e.eval(x.X, iota)
		if err != nil {
			return nil, err
		}
		return constant.UnaryOp(x.Op, v, 0), nil
	case *ast.BinaryExpr:
		a, err := e.eval(x.X, iota)
		if err != nil {
			return nil, err
		}
		b, err := e.eval(x.Y, iota)
		if err != nil {
			return nil, err
		}
		switch x.Op {
		case token.SHL, token.SHR:
			s, ok := constant.Uint64Val(b)
			if !ok {
				return nil, fmt.Errorf("bad shift")
			}
			return constant.Shift(a, x.Op, uint(s)), nil
		case token.QUO:
			if a.Kind() == constant.Int && b.Kind() == constant.Int {
				return constant.BinaryOp(a, token.QUO_ASSIGN, b), nil // integer division
			}
		}
		return constant.BinaryOp(a, x.Op, b), nil
	case *ast.CallExpr: // conversion T(x)
		if len(x.Args) == 1 {
			if t, ok := x.Fun.(*ast.Ident); ok {
				v, err := e.eval(x.Args[0], iota)
				if err != nil {
					return nil, err
				}
				return convert(t.Name, v)
			}
			if s, ok := x.Fun.(*ast.SelectorExpr); ok { // time.Duration(x)
				if p, ok := s.X.(*ast.Ident); ok && p.Name == "time" && s.Sel.Name == "Duration" {
					return e.eval(x.Args[0], iota)
				}
			}
		}
		return nil, fmt.Errorf("unsupported call")
	}
	return nil, fmt.Errorf("unsupported expression %T", x)
}

func convert(t string, v constant.Value) (constant.Value, error) {
	bits := map[string]uint{"uint8": 8, "uint16": 16, "uint32": 32, "uint64": 64, "uint": 64, "uintptr": 64}
	if b, ok := bits[t]; ok {
		v = constant.ToInt(v)
		if v.Kind() != constant.Int {
			return nil, fmt.Errorf("cannot convert to %s", t)
		}
		mod := constant.Shift(constant.MakeInt64(1), token.SHL, b)
		// constants must fit their type in Go; reduce defensively
		r := constant.BinaryOp(v, token.REM, mod)
		if constant.Sign(r) < 0 {
			r = constant.BinaryOp(r, token.ADD, mod)
		}
		return r, nil
	}
	switch t {
	case "int", "int8", "int16", "int32", "int64":
		return constant.ToInt(v), nil
	case "float64", "float32":
		return constant.ToFloat(v), nil
	}
	return nil, fmt.Errorf("unknown conversion %s", t)
}

type def struct {
	name string
	val  constant.Value
	elts []constant.Value // array literal
	typ  string
}

func collect(dir string, skipTests bool) ([]def, error) {
	fset := token.NewFileSet()
	pkgs, err := parser.ParseDir(fset, dir, func(fi os.FileInfo) bool {
		return !strings.HasSuffix(fi.Name(), "_test.go")
	}, 0)
	if err != nil {
		return nil, err
	}
	var defs []def
	e := env{}
	var names []string
	for n := range pkgs {
		names = append(names, n)
	}
	sort.Strings(names)
	for _, pn := range names {
		if pn == "main" {
			continue
		}
		var files []string
		for fn := range pkgs[pn].Files {
			files = append(files, fn)
		}
		sort.Strings(files)
		// two passes so that constants may refer to ones declared in later files
		for pass := 0; pass < 2; pass++ {
			for _, fn := range files {
				for _, d := range pkgs[pn].Files[fn].Decls {
					gd, ok := d.(*ast.GenDecl)
					if !ok || (gd.Tok != token.CONST && gd.Tok != token.VAR) {
						continue
					}
					var lastVals []ast.Expr
					for i, s := range gd.Specs {
						vs := s.(*ast.ValueSpec)
						vals := vs.Values
						if gd.Tok == token.CONST && len(vals) == 0 {
							vals = lastVals
						} else {
							lastVals = vals
						}
						for j, id := range vs.Names {
							if j >= len(vals) || id.Name == "_" {
								continue
							}
							if _, done := e[id.Name]; done {
								continue
							}
							typ := ""
							if t, ok := vs.Type.(*ast.Ident); ok {
								typ = t.Name
							}
							if cl, ok := vals[j].(*ast.CompositeLit); ok && gd.Tok == token.VAR {
								var elts []constant.Value
								good := true
								for _, el := range cl.Elts {
									v, err := e.eval(el, int64(i))
									if err != nil {
										good = false
										break
									}
									elts = append(elts, v)
								}
								if good && pass == 1 {
									defs = append(defs, def{name: id.Name, elts: elts})
								}
								continue
							}
							v, err := e.eval(vals[j], int64(i))
							if err != nil {
								if gd.Tok == token.CONST && pass == 1 {
									return nil, fmt.Errorf("%s: constant %s: %v", fn, id.Name, err)
								}
								continue
							}
							if typ != "" {
								if cv, err := convert(typ, v); err == nil {
									v = cv
								}
							}
							e[id.Name] = v
							defs = append(defs, def{name: id.Name, val: v, typ: typ})
						}
					}
				}
			}
		}
	}
	return defs, nil
}

func coqVal(v constant.Value) (string, bool) {
	switch v.Kind() {
	case constant.Int:
		s := v.ExactString()
		if strings.HasPrefix(s, "-") {
			return "(" + s + ")", true
		}
		return s, true
	case constant.Bool:
		return fmt.Sprint(constant.BoolVal(v)), true
	}
	return "", false
}

func main() {
	repo := flag.String("repo", "/repo", "repository root")
	out := flag.String("out", "", "output file (Params.v)")
	flag.Parse()
	var sb strings.Builder
	sb.WriteString("(* GENERATED from the source of the repository by harness/srcfacts on every run -- do not edit. *)\n")
	sb.WriteString("From Coq Require Import ZArith List.\nImport ListNotations.\nOpen Scope Z_scope.\n\n")
	for _, part := range []struct{ dir, tag string }{{".", "package cache"}, {"internal/xsync", "package xsync"}} {
		defs, err := collect(filepath.Join(*repo, part.dir), true)
		if err != nil {
			fmt.Fprintln(os.Stderr, "srcfacts:", err)
			os.Exit(2)
		}
		fmt.Fprintf(&sb, "(* %s *)\n", part.tag)
		for _, d := range defs {
			if d.elts != nil {
				var xs []string
				ok := true
				for _, el := range d.elts {
					s, g := coqVal(el)
					ok = ok && g
					xs = append(xs, s)
				}
				if ok {
					fmt.Fprintf(&sb, "Definition %s : list Z := [%s].\n", d.name, strings.Join(xs, "; "))
				}
				continue
			}
			if d.val.Kind() == constant.Float {
				// exact rational: numerator / denominator
				n, dn := constant.Num(d.val), constant.Denom(d.val)
				ns, _ := coqVal(n)
				ds, _ := coqVal(dn)
				fmt.Fprintf(&sb, "Definition %s_num : Z := %s.\nDefinition %s_den : Z := %s.\n", d.name, ns, d.name, ds)
				continue
			}
			if s, ok := coqVal(d.val); ok && d.val.Kind() == constant.Int {
				fmt.Fprintf(&sb, "Definition %s : Z := %s.\n", d.name, s)
			}
		}
		sb.WriteString("\n")
	}
	if *out == "" {
		fmt.Print(sb.String())
		return
	}
	old, _ := os.ReadFile(*out)
	if string(old) == sb.String() {
		return // keep the timestamp: nothing to rebuild
	}
	if err := os.WriteFile(*out, []byte(sb.String()), 0o644); err != nil {
		fmt.Fprintln(os.Stderr, "srcfacts:", err)
		os.Exit(2)
	}
}
