(* LinF.v -- linearizability WITH THE FINAL STATE: Lin.v's notion, where the legal run of the
   marked calls is said to END in a given state of the specification.  [linearizableF s0 h sf]:
   the history h has a linearization from s0 whose run ends in sf.  No proofs here except the
   two projections to Lin.v. *)
From CacheV Require Import Base Lin.

Section LinF.
  Variables Op Res St : Type.
  Variable spec : St -> Op -> Res -> St -> Prop.

  Notation iev := (iev Op Res).

  (* the marked calls, in the order of their marks, are a legal sequential run from s to s' *)
  Inductive legalF : St -> list iev -> St -> Prop :=
  | lf_nil s : legalF s [] s
  | lf_inv s t o l s' : legalF s l s' -> legalF s (IInv t o :: l) s'
  | lf_res s t r l s' : legalF s l s' -> legalF s (IRes t r :: l) s'
  | lf_lin s t o r s1 l s' : spec s o r s1 -> legalF s1 l s' -> legalF s (ILin t o r :: l) s'.

  Definition linearizableF (s0 : St) (h : list (hev Op Res)) (sf : St) : Prop :=
    exists i : list iev, erase Op Res i = h /\ wf_inst Op Res (fun _ => TIdle) i /\ legalF s0 i sf.

  Lemma legalF_legal s i s' : legalF s i s' -> legal Op Res St spec s i.
  Proof. induction 1; econstructor; eauto. Qed.

  Lemma linearizableF_linearizable s0 h sf : linearizableF s0 h sf -> linearizable Op Res St spec s0 h.
  Proof. intros [i [E [W L]]]. exists i. split; [exact E|]. split; [exact W | eapply legalF_legal; exact L]. Qed.

  Lemma legalF_inv_i s t o l s' : legalF s (IInv t o :: l) s' -> legalF s l s'.
  Proof. intros H. inversion H; subst. assumption. Qed.

  Lemma legalF_res_i s t r l s' : legalF s (IRes t r :: l) s' -> legalF s l s'.
  Proof. intros H. inversion H; subst. assumption. Qed.

  Lemma legalF_lin_i s t o r l s' : legalF s (ILin t o r :: l) s' -> exists s1, spec s o r s1 /\ legalF s1 l s'.
  Proof. intros H. inversion H; subst. eexists. split; eassumption. Qed.

End LinF.
