(* Ops.v -- the API surface as data: one constructor per public method of
   Cache / CacheOf, plus the passage of time; dispatch to the two models;
   running a history.  No proofs here. *)
From CacheV Require Import Base SpecMap Client CacheModel CacheOfModel.
From CacheV.gen Require Import Params.

Section Ops.
  Context {K V : Type}.
  Variable eqd : forall a b : K, {a = b} + {a <> b}.
  Variable zero : V.

  Inductive cop :=
  | OSet (k : K) (v : V) (d : Z)
  | OSetDefault (k : K) (v : V)
  | OSetForever (k : K) (v : V)
  | OGet (k : K)
  | OGetWithExpiration (k : K)
  | OGetWithTTL (k : K)
  | OGetOrSet (k : K) (v : V) (d : Z)
  | OGetAndSet (k : K) (v : V) (d : Z)
  | OGetAndRefresh (k : K) (d : Z)
  | OGetOrCompute (k : K) (v : V) (d : Z)
  | OCompute (k : K) (fn : V -> bool -> V * bool) (d : Z)
  | OGetAndDelete (k : K)
  | ODelete (k : K)
  | ODeleteExpired
  | ORange (f : option (K -> V -> bool)) (hint : list K)
  | OItems (hint : list K)
  | OClear
  | OCount
  | OGetDflt
  | OSetDflt (d : Z)
  | OGetCb
  | OSetCb (c : cbid)
  | OAdvance (dt : Z).          (* the clock moves between calls *)

  Definition advance (s : cstate K V) (dt : Z) : cstate K V :=
    {| st_map := st_map s; st_now := st_now s + dt; st_dflt := st_dflt s; st_cb := st_cb s |}.

  (* xsync_map.go *)
  Definition prog_cache (o : cop) : prog K V (cres K V) :=
    match o with
    | OSet k v d => CacheModel.Set_ k v d
    | OSetDefault k v => CacheModel.SetDefault k v
    | OSetForever k v => CacheModel.SetForever k v
    | OGet k => CacheModel.Get zero k
    | OGetWithExpiration k => CacheModel.GetWithExpiration zero k
    | OGetWithTTL k => CacheModel.GetWithTTL zero k
    | OGetOrSet k v d => CacheModel.GetOrSet zero k v d
    | OGetAndSet k v d => CacheModel.GetAndSet zero k v d
    | OGetAndRefresh k d => CacheModel.GetAndRefresh zero k d
    | OGetOrCompute k v d => CacheModel.GetOrCompute zero k v d
    | OCompute k fn d => CacheModel.Compute zero k fn d
    | OGetAndDelete k => CacheModel.GetAndDelete zero k
    | ODelete k => CacheModel.Delete zero k
    | ODeleteExpired => CacheModel.DeleteExpired zero
    | ORange f hint => CacheModel.Range eqd f hint
    | OItems hint => CacheModel.Items eqd hint
    | OClear => CacheModel.Clear
    | OCount => CacheModel.Count
    | OGetDflt => CacheModel.GetDefaultExpiration
    | OSetDflt d => CacheModel.SetDefaultExpiration d
    | OGetCb => CacheModel.GetEvictedCallback
    | OSetCb c => CacheModel.SetEvictedCallback c
    | OAdvance _ => Ret CUnit
    end.

  (* xsync_mapof.go *)
  Definition prog_cacheof (o : cop) : prog K V (cres K V) :=
    match o with
    | OSet k v d => CacheOfModel.Set_ k v d
    | OSetDefault k v => CacheOfModel.SetDefault k v
    | OSetForever k v => CacheOfModel.SetForever k v
    | OGet k => CacheOfModel.Get zero k
    | OGetWithExpiration k => CacheOfModel.GetWithExpiration zero k
    | OGetWithTTL k => CacheOfModel.GetWithTTL zero k
    | OGetOrSet k v d => CacheOfModel.GetOrSet zero k v d
    | OGetAndSet k v d => CacheOfModel.GetAndSet zero k v d
    | OGetAndRefresh k d => CacheOfModel.GetAndRefresh zero k d
    | OGetOrCompute k v d => CacheOfModel.GetOrCompute zero k v d
    | OCompute k fn d => CacheOfModel.Compute zero k fn d
    | OGetAndDelete k => CacheOfModel.GetAndDelete zero k
    | ODelete k => CacheOfModel.Delete zero k
    | ODeleteExpired => CacheOfModel.DeleteExpired zero
    | ORange f hint => CacheOfModel.Range eqd f hint
    | OItems hint => CacheOfModel.Items eqd hint
    | OClear => CacheOfModel.Clear
    | OCount => CacheOfModel.Count
    | OGetDflt => CacheOfModel.GetDefaultExpiration
    | OSetDflt d => CacheOfModel.SetDefaultExpiration d
    | OGetCb => CacheOfModel.GetEvictedCallback
    | OSetCb c => CacheOfModel.SetEvictedCallback c
    | OAdvance _ => Ret CUnit
    end.

  Definition step_with (pr : cop -> prog K V (cres K V)) (s : cstate K V) (o : cop)
    : cstate K V * cres K V * list (event K V) :=
    match o with
    | OAdvance dt => (advance s dt, CUnit, [])
    | _ => run_seq eqd (pr o) s
    end.

  Definition step_cache := step_with prog_cache.
  Definition step_cacheof := step_with prog_cacheof.

  (* a history: the list of (result, events) of each call, and the final state *)
  Fixpoint run_with (pr : cop -> prog K V (cres K V)) (s : cstate K V) (ops : list cop)
    : cstate K V * list (cres K V * list (event K V)) :=
    match ops with
    | [] => (s, [])
    | o :: t =>
        let '(s1, r, evs) := step_with pr s o in
        let '(s2, rs) := run_with pr s1 t in
        (s2, (r, evs) :: rs)
    end.

  Definition run_cache := run_with prog_cache.
  Definition run_cacheof := run_with prog_cacheof.

End Ops.

Arguments cop : clear implicits.
