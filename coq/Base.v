(* Base.v -- time arithmetic, int64 wrap-around, association-list maps.
   Executable definitions first, their lemmas afterwards (Base is the one file
   where both live together: every other model file is free of proofs). *)
From Coq Require Export List ZArith Bool Lia Permutation.
Export ListNotations.
Open Scope Z_scope.

(* ------------------------------------------------------------------ *)
(* int64 *)

Definition two63 : Z := 9223372036854775808.
Definition two64 : Z := 18446744073709551616.

(* Go's int64 arithmetic wraps; [wrap64] is written into the model exactly
   where the code can overflow: time.Now().Add(d).UnixNano(). *)
Definition wrap64 (z : Z) : Z := ((z + two63) mod two64) - two63.

Definition in_int64 (z : Z) : Prop := - two63 <= z < two63.

Lemma wrap64_id z : in_int64 z -> wrap64 z = z.
Proof.
  unfold in_int64, wrap64, two63, two64. intros H.
  rewrite Z.mod_small; lia.
Qed.

Lemma wrap64_range z : in_int64 (wrap64 z).
Proof.
  unfold in_int64, wrap64, two63, two64.
  pose proof (Z.mod_pos_bound (z + 9223372036854775808) 18446744073709551616 ltac:(lia)).
  lia.
Qed.

Lemma flat_map_ext_in' {A B} (f g : A -> list B) l :
  (forall a, In a l -> f a = g a) -> flat_map f l = flat_map g l.
Proof.
  induction l as [|x r IH]; cbn; intros H; [reflexivity|].
  rewrite (H x (or_introl eq_refl)), IH; auto.
Qed.

(* ------------------------------------------------------------------ *)
(* association-list maps: [insert] keeps at most one binding per key *)

Section AMap.
  Context {K V : Type}.
  Variable eqd : forall a b : K, {a = b} + {a <> b}.

  Definition amap := list (K * V).

  Fixpoint lookup (k : K) (m : amap) : option V :=
    match m with
    | [] => None
    | (k', v) :: t => if eqd k k' then Some v else lookup k t
    end.

  Fixpoint remove (k : K) (m : amap) : amap :=
    match m with
    | [] => []
    | (k', v) :: t => if eqd k k' then remove k t else (k', v) :: remove k t
    end.

  (* replace in place if bound, else append: iteration order = first-insertion order *)
  Fixpoint insert (k : K) (v : V) (m : amap) : amap :=
    match m with
    | [] => [(k, v)]
    | (k', v') :: t => if eqd k k' then (k, v) :: t else (k', v') :: insert k v t
    end.

  Definition keys (m : amap) : list K := map fst m.

  Definition mem (k : K) (m : amap) : bool :=
    match lookup k m with Some _ => true | None => false end.

  (* ---------------- lemmas ---------------- *)

  Lemma lookup_remove_eq k m : lookup k (remove k m) = None.
  Proof.
    induction m as [|[k' v] t IH]; simpl; auto.
    destruct (eqd k k'); simpl; auto. destruct (eqd k k'); congruence.
  Qed.

  Lemma lookup_remove_neq k k' m : k <> k' -> lookup k (remove k' m) = lookup k m.
  Proof.
    intros Hn. induction m as [|[k2 v] t IH]; simpl; auto.
    destruct (eqd k' k2); simpl.
    - subst. destruct (eqd k k2); congruence.
    - destruct (eqd k k2); auto.
  Qed.

  Lemma lookup_insert_eq k v m : lookup k (insert k v m) = Some v.
  Proof.
    induction m as [|[k' v'] t IH]; simpl.
    - destruct (eqd k k); congruence.
    - destruct (eqd k k'); simpl.
      + destruct (eqd k k); congruence.
      + destruct (eqd k k'); congruence.
  Qed.

  Lemma lookup_insert_neq k k' v m : k <> k' -> lookup k (insert k' v m) = lookup k m.
  Proof.
    intros Hn. induction m as [|[k2 v2] t IH]; simpl.
    - destruct (eqd k k'); congruence.
    - destruct (eqd k' k2); simpl.
      + subst. destruct (eqd k k2); congruence.
      + destruct (eqd k k2); auto.
  Qed.

  Lemma lookup_insert k k' v m :
    lookup k (insert k' v m) = if eqd k k' then Some v else lookup k m.
  Proof.
    destruct (eqd k k'); [subst; apply lookup_insert_eq | apply lookup_insert_neq; auto].
  Qed.

  Lemma lookup_remove k k' m :
    lookup k (remove k' m) = if eqd k k' then None else lookup k m.
  Proof.
    destruct (eqd k k'); [subst; apply lookup_remove_eq | apply lookup_remove_neq; auto].
  Qed.

  Lemma lookup_In k v m : lookup k m = Some v -> In (k, v) m.
  Proof.
    induction m as [|[k' v'] t IH]; simpl; [discriminate|].
    destruct (eqd k k'); intros H; [inversion H; subst; auto | auto].
  Qed.

  Lemma lookup_None_notin k m : lookup k m = None -> ~ In k (keys m).
  Proof.
    induction m as [|[k' v'] t IH]; simpl; auto.
    destruct (eqd k k'); [discriminate|]. intros H [E|I]; [congruence | apply IH; auto].
  Qed.

  Lemma notin_lookup_None k m : ~ In k (keys m) -> lookup k m = None.
  Proof.
    induction m as [|[k' v'] t IH]; simpl; auto.
    intros H. destruct (eqd k k'); [subst; tauto | apply IH; tauto].
  Qed.

  Lemma In_lookup k v m : NoDup (keys m) -> In (k, v) m -> lookup k m = Some v.
  Proof.
    induction m as [|[k' v'] t IH]; simpl; [tauto|].
    intros Hnd [E|I].
    - inversion E; subst. destruct (eqd k k); congruence.
    - inversion Hnd; subst. destruct (eqd k k').
      + subst. exfalso. apply H1. change k' with (fst (k', v)). apply in_map; auto.
      + auto.
  Qed.

  Lemma keys_remove_subset k k' m : In k (keys (remove k' m)) -> In k (keys m).
  Proof.
    induction m as [|[k2 v2] t IH]; simpl; auto.
    destruct (eqd k' k2); simpl; intuition.
  Qed.

  Lemma NoDup_remove k m : NoDup (keys m) -> NoDup (keys (remove k m)).
  Proof.
    induction m as [|[k' v'] t IH]; simpl; auto.
    intros H; inversion H; subst. destruct (eqd k k'); auto.
    simpl. constructor; auto. intros I. apply keys_remove_subset in I. auto.
  Qed.

  Lemma keys_insert_in k k' v m : In k (keys (insert k' v m)) -> k = k' \/ In k (keys m).
  Proof.
    induction m as [|[k2 v2] t IH]; simpl.
    - intuition.
    - destruct (eqd k' k2); simpl; intuition.
  Qed.

  Lemma NoDup_insert k v m : NoDup (keys m) -> NoDup (keys (insert k v m)).
  Proof.
    induction m as [|[k' v'] t IH]; simpl.
    - intros _. constructor; auto. constructor.
    - intros H; inversion H; subst. destruct (eqd k k'); simpl.
      + subst. constructor; auto.
      + constructor; auto. intros I. apply keys_insert_in in I. destruct I; [congruence | auto].
  Qed.

  Lemma length_remove_present k m v :
    NoDup (keys m) -> lookup k m = Some v -> S (length (remove k m)) = length m.
  Proof.
    induction m as [|[k' v'] t IH]; simpl; [discriminate|].
    intros Hnd. inversion Hnd; subst. destruct (eqd k k').
    - subst. intros _. f_equal.
      assert (Hn : ~ In k' (keys t)) by auto.
      clear - Hn eqd. induction t as [|[k2 v2] t IH]; simpl; auto.
      simpl in Hn. destruct (eqd k' k2); [subst; tauto|]. simpl. f_equal. apply IH. tauto.
    - intros Hl. simpl. f_equal. apply IH; auto.
  Qed.

  Lemma remove_absent k m : lookup k m = None -> remove k m = m.
  Proof.
    induction m as [|[k' v'] t IH]; simpl; auto.
    destruct (eqd k k'); [discriminate|]. intros H. f_equal. auto.
  Qed.

  Lemma length_insert_absent k v m : lookup k m = None -> length (insert k v m) = S (length m).
  Proof.
    induction m as [|[k' v'] t IH]; simpl; auto.
    destruct (eqd k k'); [discriminate|]. intros H. simpl. f_equal. auto.
  Qed.

  Lemma length_insert_present k v v' m : lookup k m = Some v' -> length (insert k v m) = length m.
  Proof.
    induction m as [|[k' v2] t IH]; simpl; [discriminate|].
    destruct (eqd k k'); simpl; auto.
  Qed.

  Lemma lookup_in_keys k v m : lookup k m = Some v -> In k (keys m).
  Proof. intros H. apply lookup_In in H. change k with (fst (k, v)). apply in_map; auto. Qed.

  Lemma in_keys_lookup k m : In k (keys m) -> exists v, lookup k m = Some v.
  Proof.
    intros H. destruct (lookup k m) as [v|] eqn:E; [eauto|].
    apply lookup_None_notin in E. tauto.
  Qed.

End AMap.

Arguments amap : clear implicits.
