(* CacheModel.v -- model of xsync_map.go (type xsyncMap: the string/interface{}
   twin), method by method, as client programs over map calls.
   Written separately from CacheOfModel.v on purpose (C12).  No proofs here.

   Reading guide.  A Go closure passed to c.items.Compute becomes a [closure]:
   it receives the environment (clock, default expiration) it would read while it
   runs under the bucket lock, and the old entry; it returns the new item, the
   delete flag, and [aux] = what it assigned to captured variables.
   interface{} values: nil is [zero]; a type assertion v.(item) on a value that
   came out of c.items is the identity (only items are ever stored). *)
From CacheV Require Import Base SpecMap Client.
From CacheV.gen Require Import Params.

Section CacheModel.
  Context {K V : Type}.
  Variable eqd : forall a b : K, {a = b} + {a <> b}.
  Variable zero : V.

  Notation item := (item V).
  Notation prog := (prog K V).
  Notation cres := (cres K V).
  Notation closure := (closure V).

  Definition zero_item : item := {| iv := zero; ie := 0 |}.

  (* func (i *item) expired() bool { return i.e > 0 && time.Now().UnixNano() > i.e } *)
  Definition expired (e : env) (i : item) : bool := expiredWithNow (e_now e) i.

  (* func (c *xsyncMap) expiration(d) (e int64):
       if d == DefaultExpiration { d = c.DefaultExpiration() }
       if d > 0 { e = time.Now().Add(d).UnixNano() }
     -- inside a closure *)
  Definition expiration_env (e : env) (d : Z) : Z :=
    let d := if d =? DefaultExpiration then e_dflt e else d in
    if 0 <? d then wrap64 (e_now e + d) else 0.

  (* -- the same, outside a closure (argument of Store in Set) *)
  Definition expiration_prog {R} (d : Z) (k : Z -> prog R) : prog R :=
    let after (d : Z) := if 0 <? d then ReadNow (fun now => k (wrap64 (now + d))) else k 0 in
    if d =? DefaultExpiration then ReadDflt after else after d.

  (* ---------------- Set / SetDefault / SetForever ---------------- *)

  Definition Set_ (k : K) (v : V) (d : Z) : prog cres :=
    expiration_prog d (fun e =>
      MapCall (CStore k {| iv := v; ie := e |}) (fun _ => Ret CUnit)).

  Definition SetDefault (k : K) (v : V) : prog cres := Set_ k v DefaultExpiration.
  Definition SetForever (k : K) (v : V) : prog cres := Set_ k v NoExpiration.

  (* ---------------- get ---------------- *)

  Definition get_closure : closure := fun e value =>
    match value with
    | Some i =>                                   (* loaded: i = value.(item) *)
        if negb (expired e i) then (i, false, aux0)   (* k has a new value *)
        else (zero_item, true, aux0)              (* delete *)
    | None => (zero_item, true, aux0)
    end.

  Definition get (k : K) : prog (option item) :=
    MapCall (CLoad k) (fun r =>
      match r with
      | RVal (Some i) true _ =>
          ReadNow (fun now =>
            if negb (expiredWithNow now i) then Ret (Some i)
            else
              (* double check or delete *)
              MapCall (CCompute k get_closure) (fun r2 =>
                match r2 with
                | RVal (Some v) true _ => Ret (Some v)
                | _ => Ret None
                end))
      | _ => Ret None
      end).

  Definition bind {A B} (p : prog A) (f : A -> prog B) : prog B :=
    (fix go (p : prog A) : prog B :=
       match p with
       | Ret r => f r
       | MapCall o k => MapCall o (fun r => go (k r))
       | ReadNow k => ReadNow (fun z => go (k z))
       | ReadDflt k => ReadDflt (fun z => go (k z))
       | WriteDflt d k => WriteDflt d (go k)
       | ReadCb k => ReadCb (fun c => go (k c))
       | WriteCb c k => WriteCb c (go k)
       | Emit e k => Emit e (go k)
       end) p.

  Definition Get (k : K) : prog cres :=
    bind (get k) (fun r =>
      match r with
      | Some i => Ret (CVal (iv i) true)
      | None => Ret (CVal zero false)
      end).

  Definition GetWithExpiration (k : K) : prog cres :=
    bind (get k) (fun r =>
      match r with
      | None => Ret (CValExp zero 0 false)
      | Some i =>
          if 0 <? ie i then Ret (CValExp (iv i) (ie i) true)   (* time.Unix(0, i.e) *)
          else Ret (CValExp (iv i) 0 true)                     (* time.Time{} *)
      end).

  Definition GetWithTTL (k : K) : prog cres :=
    bind (get k) (fun r =>
      match r with
      | None => Ret (CValTTL zero 0 false)
      | Some i =>
          if 0 <? ie i then
            ReadNow (fun now => Ret (CValTTL (iv i) (ie i - now) true))  (* time.Until(time.Unix(0, i.e)) *)
          else Ret (CValTTL (iv i) NoExpiration true)
      end).

  (* ---------------- GetOrSet ---------------- *)

  Definition GetOrSet (k : K) (v : V) (d : Z) : prog cres :=
    MapCall (CCompute k (fun e value =>
      let fresh := ({| iv := v; ie := expiration_env e d |}, false, aux0) in
      match value with
      | Some old =>
          if negb (expired e old)
          then (old, false, {| a_ok := true; a_old := None; a_fn := 0 |})
          else fresh
      | None => fresh
      end)) (fun r =>
      match r with
      | RVal (Some i) _ (Some a) => Ret (CVal (iv i) (a_ok a))
      | _ => Ret (CVal zero false)        (* unreachable: the closure never deletes *)
      end).

  (* ---------------- GetAndSet ---------------- *)

  Definition GetAndSet (k : K) (v : V) (d : Z) : prog cres :=
    MapCall (CCompute k (fun e value =>
      let nv := {| iv := v; ie := expiration_env e d |} in
      match value with
      | Some old =>                    (* old = value.(item), assigned whether or not it is live *)
          (nv, false, {| a_ok := negb (expired e old); a_old := Some old; a_fn := 0 |})
      | None => (nv, false, aux0)
      end)) (fun r =>
      match r with
      | RVal (Some i) _ (Some a) =>
          if a_ok a then
            match a_old a with
            | Some old => Ret (CVal (iv old) true)
            | None => Ret (CVal zero true)     (* unreachable: ok implies old was assigned *)
            end
          else Ret (CVal (iv i) false)
      | _ => Ret (CVal zero false)
      end).

  (* ---------------- GetAndRefresh ---------------- *)

  Definition GetAndRefresh (k : K) (d : Z) : prog cres :=
    MapCall (CCompute k (fun e value =>
      match value with
      | Some i =>
          if negb (expired e i)
          then ({| iv := iv i; ie := expiration_env e d |}, false, aux0)   (* store new value *)
          else (zero_item, true, aux0)
      | None => (zero_item, true, aux0)                                     (* delete *)
      end)) (fun r =>
      match r with
      | RVal (Some i) true _ => Ret (CVal (iv i) true)
      | _ => Ret (CVal zero false)
      end).

  (* ---------------- GetOrCompute ---------------- *)
  (* valueFn func() interface{}: a pure function of no argument is its value;
     its invocation is reported through a_fn *)

  Definition GetOrCompute (k : K) (valueFn : V) (d : Z) : prog cres :=
    MapCall (CCompute k (fun e value =>
      let fresh := ({| iv := valueFn; ie := expiration_env e d |}, false,
                    {| a_ok := false; a_old := None; a_fn := 1 |}) in
      match value with
      | Some i =>
          if negb (expired e i)
          then (i, false, {| a_ok := true; a_old := None; a_fn := 0 |})
          else fresh
      | None => fresh
      end)) (fun r =>
      match r with
      | RVal (Some i) _ (Some a) => Ret (CVal (iv i) (a_ok a))
      | _ => Ret (CVal zero false)
      end).

  (* ---------------- Compute ---------------- *)
  (* valueFn func(oldValue interface{}, loaded bool) (newValue interface{}, delete bool) *)

  Definition Compute (k : K) (valueFn : V -> bool -> V * bool) (d : Z) : prog cres :=
    MapCall (CCompute k (fun e ov =>
      (* var old interface{} (captured); if lok { i := ov.(item); if !i.expired() { old = i.v } else { lok = false } } *)
      let '(old, lok) :=
        match ov with
        | Some i => if negb (expired e i) then (Some i, true) else (None, false)
        | None => (None, false)
        end in
      let oldv := match old with Some i => iv i | None => zero end in
      let '(v, del) := valueFn oldv lok in
      let a := {| a_ok := false; a_old := old; a_fn := 1 |} in
      if del then (zero_item, true, a)
      else ({| iv := v; ie := expiration_env e d |}, false, a)))
      (fun r =>
        match r with
        | RVal (Some i) true _ => Ret (CVal (iv i) true)
        | RVal _ _ (Some a) =>
            Ret (CVal (match a_old a with Some i => iv i | None => zero end) false)
        | _ => Ret (CVal zero false)
        end).

  (* ---------------- GetAndDelete / Delete ---------------- *)

  Definition fire {R} (ec : cbid) (k : K) (v : V) (p : prog R) : prog R :=
    match ec with
    | Some c => Emit (EFire c k v) p
    | None => p
    end.

  Definition GetAndDelete (k : K) : prog cres :=
    MapCall (CLoadAndDelete k) (fun r =>
      match r with
      | RVal (Some i) true _ =>
          ReadNow (fun now =>
            let expired := expiredWithNow now i in
            ReadCb (fun ec =>
              fire ec k (iv i)
                (if expired then Ret (CVal zero false) else Ret (CVal (iv i) true))))
      | _ => Ret (CVal zero false)
      end).

  Definition Delete (k : K) : prog cres :=
    bind (GetAndDelete k) (fun _ => Ret CUnit).

  (* ---------------- DeleteExpired ---------------- *)

  (* the re-checking closure: delete only what is still expired at [now] (the
     instant read once, at the start of the pass), and report what was removed *)
  Definition delexp_closure (now : Z) : closure := fun _ value =>
    match value with
    | Some cur =>
        if expiredWithNow now cur
        then (zero_item, true, {| a_ok := true; a_old := Some cur; a_fn := 0 |})
        else (cur, false, aux0)
    | None => (zero_item, true, aux0)
    end.

  Fixpoint fire_all {R} (c : nat) (l : list (K * V)) (p : prog R) : prog R :=
    match l with
    | [] => p
    | (k, v) :: t => Emit (EFire c k v) (fire_all c t p)
    end.

  Fixpoint delexp_loop (ec : cbid) (now : Z) (snap : list (K * item)) (evicted : list (K * V))
    : prog cres :=
    match snap with
    | [] =>
        match ec with
        | Some c => fire_all c evicted (Ret CUnit)
        | None => Ret CUnit
        end
    | (k, i) :: t =>
        if expiredWithNow now i then
          MapCall (CCompute k (delexp_closure now)) (fun r =>
            match r with
            | RVal _ _ (Some a) =>
                match a_ok a, a_old a, ec with
                | true, Some cur, Some _ => delexp_loop ec now t (evicted ++ [(k, iv cur)])
                | _, _, _ => delexp_loop ec now t evicted
                end
            | _ => delexp_loop ec now t evicted
            end)
        else delexp_loop ec now t evicted
    end.

  Definition DeleteExpired : prog cres :=
    ReadCb (fun ec =>
      ReadNow (fun now =>
        MapCall CSnapshot (fun r =>
          match r with
          | RSnap snap => delexp_loop ec now snap []
          | _ => Ret CUnit
          end))).

  (* ---------------- Range / Items ---------------- *)

  (* The order in which a map hands out its pairs is unspecified.  The model
     visits in the order [hint] (keys the implementation was seen to visit, in
     that order), then whatever is left in its own order; see C07. *)
  Fixpoint pick (k : K) (l : list (K * item)) : option (K * item) * list (K * item) :=
    match l with
    | [] => (None, [])
    | (k', i) :: t =>
        if eqd k k' then (Some (k', i), t)
        else let '(r, t') := pick k t in (r, (k', i) :: t')
    end.

  Fixpoint reorder (hint : list K) (l : list (K * item)) : list (K * item) :=
    match hint with
    | [] => l
    | k :: hs =>
        match pick k l with
        | (Some p, rest) => p :: reorder hs rest
        | (None, rest) => reorder hs rest
        end
    end.

  Fixpoint range_loop (now : Z) (f : K -> V -> bool) (l : list (K * item)) (visited : list (K * V))
    : prog cres :=
    match l with
    | [] => Ret (CList visited)
    | (k, i) :: t =>
        if expiredWithNow now i then range_loop now f t visited
        else
          Emit (EVisit k (iv i))
            (if f k (iv i) then range_loop now f t (visited ++ [(k, iv i)])
             else Ret (CList (visited ++ [(k, iv i)])))
    end.

  Definition Range (f : option (K -> V -> bool)) (hint : list K) : prog cres :=
    match f with
    | None => Ret (CList [])
    | Some f =>
        ReadNow (fun now =>
          MapCall CSnapshot (fun r =>
            match r with
            | RSnap snap => range_loop now f (reorder hint snap) []
            | _ => Ret (CList [])
            end))
    end.

  Definition Items (hint : list K) : prog cres :=
    MapCall CSize (fun _ =>                      (* make(map, c.items.Size()) *)
      Range (Some (fun _ _ => true)) hint).

  (* ---------------- the rest ---------------- *)

  Definition Clear : prog cres := MapCall CClear (fun _ => Ret CUnit).

  Definition Count : prog cres :=
    MapCall CSize (fun r => match r with RSize n => Ret (CNat n) | _ => Ret (CNat 0) end).

  Definition GetDefaultExpiration : prog cres := ReadDflt (fun d => Ret (CDur d)).
  Definition SetDefaultExpiration (d : Z) : prog cres := WriteDflt d (Ret CUnit).
  Definition GetEvictedCallback : prog cres := ReadCb (fun c => Ret (CCb c)).
  Definition SetEvictedCallback (c : cbid) : prog cres := WriteCb c (Ret CUnit).

  (* ---------------- config.go, options.go, cache.go: construction ---------------- *)

  Record config := { cfg_dflt : Z; cfg_interval : Z; cfg_cb : cbid; cfg_mincap : Z }.

  Definition DefaultConfig : config :=
    {| cfg_dflt := NoExpiration; cfg_interval := DefaultCleanupInterval;
       cfg_cb := None; cfg_mincap := DefaultMinCapacity |}.

  (* func configDefault(config ...Config) Config *)
  Definition configDefault (c : option config) : config :=
    match c with
    | None => DefaultConfig
    | Some cfg =>
        {| cfg_dflt := if cfg_dflt cfg <? 1 then NoExpiration else cfg_dflt cfg;
           cfg_interval := if cfg_interval cfg <? 0 then 0 else cfg_interval cfg;
           cfg_cb := cfg_cb cfg;
           cfg_mincap := if cfg_mincap cfg <? DefaultMinCapacity then DefaultMinCapacity
                         else cfg_mincap cfg |}
    end.

  Inductive copt :=
  | WithDefaultExpiration (d : Z)
  | WithCleanupInterval (d : Z)
  | WithEvictedCallback (c : cbid)
  | WithMinCapacity (n : Z).

  Definition apply_opt (cfg : config) (o : copt) : config :=
    match o with
    | WithDefaultExpiration d =>
        {| cfg_dflt := d; cfg_interval := cfg_interval cfg; cfg_cb := cfg_cb cfg; cfg_mincap := cfg_mincap cfg |}
    | WithCleanupInterval d =>
        {| cfg_dflt := cfg_dflt cfg; cfg_interval := d; cfg_cb := cfg_cb cfg; cfg_mincap := cfg_mincap cfg |}
    | WithEvictedCallback c =>
        {| cfg_dflt := cfg_dflt cfg; cfg_interval := cfg_interval cfg; cfg_cb := c; cfg_mincap := cfg_mincap cfg |}
    | WithMinCapacity n =>
        {| cfg_dflt := cfg_dflt cfg; cfg_interval := cfg_interval cfg; cfg_cb := cfg_cb cfg; cfg_mincap := n |}
    end.

  (* what newXsyncMap builds: the cache state, whether the janitor goroutine is
     started and with which interval, and the size hint given to the map *)
  Record built := {
    b_state : cstate K V;
    b_janitor : bool;
    b_interval : Z;
    b_presize : Z;
  }.

  Definition newXsyncMap (now0 : Z) (c : option config) : built :=
    let cfg := configDefault c in
    {| b_state := {| st_map := []; st_now := now0; st_dflt := cfg_dflt cfg; st_cb := cfg_cb cfg |};
       b_janitor := 0 <? cfg_interval cfg;
       b_interval := cfg_interval cfg;
       b_presize := cfg_mincap cfg |}.

  (* func New(opts ...Option) Cache *)
  Definition New (now0 : Z) (opts : list copt) : built :=
    newXsyncMap now0 (Some (fold_left apply_opt opts DefaultConfig)).

  (* func NewDefault(defaultExpiration, cleanupInterval, evictedCallback ...) Cache *)
  Definition NewDefault (now0 : Z) (dflt interval : Z) (cb : list cbid) : built :=
    newXsyncMap now0
      (Some {| cfg_dflt := dflt; cfg_interval := interval;
               cfg_cb := match cb with c :: _ => c | [] => None end;
               cfg_mincap := 0 |}).

End CacheModel.
