(* XMachine.v -- the concurrent machine of internal/xsync/mapof.go (MapOf; the
   string-keyed Map of map.go differs in its lock -- a spin lock inside the
   top-hash word -- and in publishing key and value through two pointers): any
   number of threads; ONE scheduling step = one
   sync/atomic call, Mutex.Lock/Unlock, Cond.Wait/Broadcast or runtime.Gosched
   of the Go code, together with the plain (non-atomic) code that follows it up
   to the next such call -- exactly what the controlled scheduler of the harness
   can interleave (CORR-sched compares the two step by step).

   Shared state: the table generations (a resize allocates a new one and
   publishes it; old ones stay readable), per root bucket a lock and a chain of
   slots whose cells are written one atomic store at a time (meta byte, then
   entry pointer), the
   striped size counter of each table, the resizing flag, resizeMu and the wait
   set of resizeCond.
   Per thread: program counter with its locals.

   Parameters as in TableModel (hash, idx, tag, nslots, seeds, policies), plus
   [probe]: which slots of a bucket the SWAR search of mapof.go looks at for a
   tag (all slots with that tag, possibly more), and the stripe count.
   No proofs here. *)
From CacheV Require Import Base SpecMap.
From Coq Require Import NArith.
Local Open Scope nat_scope.

Section XMachine.
  Context {K V : Type}.
  Variable eqd : forall a b : K, {a = b} + {a <> b}.
  Variable hash : K -> N -> N.
  Variable idx : N -> nat -> nat.
  Variable tag : N -> N.
  Variable nslots : nat.
  Variable seeds : nat -> N.
  Variable grow_needed : nat -> Z -> bool.       (* table length, counter sum *)
  Variable shrink_policy : nat -> Z -> bool.
  Variable probe : list (option N) -> N -> list nat.   (* mapof.go: slots the SWAR match visits, in order *)
  Variable nstripes : nat -> nat.                (* table length -> number of counter stripes *)
  Variable minlen : nat.
  Variable grow_only : bool.

  (* ---------------- shared memory ---------------- *)

  (* a slot: two cells, each written by one atomic store *)
  Record slot := {
    s_tag : option N;                 (* meta byte; None = 0x80, marked empty *)
    s_ent : option (K * V);           (* entries[i]: pointer to an immutable entry; None = nil *)
  }.
  Definition empty_slot : slot := {| s_tag := None; s_ent := None |}.

  Record xtable := {
    x_seed : N;
    x_chains : list (list slot);      (* flat chains, as in TableModel *)
    x_locks : list (option nat);      (* per root bucket: holder *)
    x_size : list Z;                  (* counter stripes *)
  }.
  Definition x_len (t : xtable) : nat := length (x_chains t).

  Definition new_xtable (len : nat) (seed : N) : xtable :=
    {| x_seed := seed; x_chains := repeat (repeat empty_slot nslots) len;
       x_locks := repeat None len; x_size := repeat 0%Z (nstripes len) |}.

  (* ---------------- operations and their results ---------------- *)

  Inductive xop :=
  | XLoad (k : K)
  | XCompute (k : K) (f : option V -> option V) (ev lie co : bool)   (* doCompute; f: None = delete; ev: a user function *)
  | XClear
  | XSize
  | XRange.

  Inductive xres :=
  | XRVal (v : option V) (ok : bool)
  | XRNat (n : Z)
  | XRList (l : list (K * V))
  | XRUnit.

  Record cctx := { cx_k : K; cx_f : option V -> option V; cx_ev : bool; cx_lie : bool; cx_co : bool }.

  (* what to do once a resize / wait is over *)
  Inductive cont :=
  | KRetry (cx : cctx)            (* goto compute_attempt *)
  | KReturn (r : xres).           (* return r to the caller *)

  Inductive hint := HGrow | HShrink | HClear.

  (* what to do when Load is over: plain Load, or the fast path of doCompute *)
  Inductive lcont := LPlain | LFast (cx : cctx).

  Inductive pc :=
  | PStart                                            (* the goroutine has not run yet *)
  | PIdle
  | PRet (r : xres)                                   (* about to return r *)
  (* -- Load -- *)
  | PL_Table (k : K) (lc : lcont)
  | PL_Meta (k : K) (lc : lcont) (tab : nat) (h : N) (bi : nat)
  | PL_Ent (k : K) (lc : lcont) (tab : nat) (h : N) (bi : nat) (todo : list nat)     (* LoadPointer entries[i] *)
  | PL_Next (k : K) (lc : lcont) (tab : nat) (h : N) (bi : nat)
  (* -- doCompute -- *)
  | PW_Table (cx : cctx)
  | PW_Lock (cx : cctx) (tab : nat)                   (* rootb.mu.Lock() *)
  | PW_ChkRes (cx : cctx) (tab : nat)
  | PW_ChkTab (cx : cctx) (tab : nat)                 (* ... then the scan of the locked chain and the decision *)
  | PW_D1 (cx : cctx) (tab : nat) (pos : nat) (old : V)            (* StoreUint64 meta (slot marked empty) *)
  | PW_D2 (cx : cctx) (tab : nat) (pos : nat) (old : V)            (* StorePointer entries[i] nil *)
  | PW_U1 (cx : cctx) (tab : nat) (pos : nat) (old nv : V)         (* StorePointer entries[i] new entry *)
  | PW_I1 (cx : cctx) (tab : nat) (pos : nat) (nv : V)             (* StoreUint64 meta (tag) *)
  | PW_I2 (cx : cctx) (tab : nat) (pos : nat) (nv : V)             (* StorePointer entries[i] *)
  | PW_Sum (cx : cctx) (tab : nat) (i : nat) (acc : Z)             (* chain full: sumSize() *)
  | PW_N1 (cx : cctx) (tab : nat) (nv : V)                         (* StorePointer next (new bucket) *)
  | PW_Unlock (tab : nat) (b : nat) (after : pc)
  | PW_Add (tab : nat) (b : nat) (delta : Z) (after : pc)
  (* -- resize -- *)
  | PR_FastSum (known : nat) (kt : cont) (i : nat) (acc : Z)       (* shrink fast path: knownTable.sumSize() *)
  | PR_CAS (hn : hint) (kt : cont)
  | PR_Table (hn : hint) (kt : cont)
  | PR_ShSum (kt : cont) (tab : nat) (i : nat) (acc : Z)
  | PR_Stat (hn : hint) (kt : cont) (tab : nat)                    (* AddInt64 totalGrowths / totalShrinks *)
  | PR_CpLock (hn : hint) (kt : cont) (tab new : nat) (i : nat)
  | PR_CpUnlock (hn : hint) (kt : cont) (tab new : nat) (i : nat)
  | PR_Publish (kt : cont) (new : nat)
  | PR_FinLock (kt : cont)                                         (* also the abandoned-shrink path *)
  | PR_FinStore (kt : cont)
  | PR_FinBcast (kt : cont)
  | PR_FinUnlock (kt : cont)
  (* -- waitForResize -- *)
  | PT_Lock (hn : option hint) (kt : cont)            (* hn = Some h: called from resize (lost the CAS) *)
  | PT_Load (hn : option hint) (kt : cont)
  | PT_Wait (hn : option hint) (kt : cont)
  | PT_Waiting (hn : option hint) (kt : cont)         (* in the wait set of resizeCond *)
  | PT_Relock (hn : option hint) (kt : cont)
  | PT_Unlock (hn : option hint) (kt : cont)
  (* -- Range -- *)
  | PG_Table
  | PG_Lock (tab : nat) (i : nat)
  | PG_Unlock (tab : nat) (i : nat) (snap : list (K * V))
  (* -- Size -- *)
  | PS_Table
  | PS_Sum (tab : nat) (i : nat) (acc : Z)
  (* -- Clear -- *)
  | PC_Table.

  Record xstate := {
    g_tabs : list xtable;               (* all tables ever allocated *)
    g_cur : nat;                        (* m.table *)
    g_resizing : bool;
    g_rmu : option nat;                 (* resizeMu holder *)
    g_growths : Z;                      (* totalGrowths *)
    g_shrinks : Z;                      (* totalShrinks *)
    g_pc : nat -> pc;
    g_todo : nat -> list xop;
  }.

  (* ---------------- labels: what CORR-sched compares ---------------- *)

  Inductive lkind :=
  | KLoadPtr (nil : bool) | KStorePtr (nil : bool)
  | KLoadU64 (tags : list (option N)) | KStoreU64 (tags : list (option N)) | KCASU64 (ok : bool)
  | KLoadI64 (v : Z) | KStoreI64 (v : Z) | KAddI64 (v : Z) | KCASI64 (ok : bool)
  | KLock (relock : bool) | KUnlock | KWait | KBcast (woken : nat) | KGosched | KStart.

  Inductive xlabel :=
  | XInv (t : nat) (o : xop)
  | XRes (t : nat) (r : xres)
  | XStep (t : nat) (k : lkind)
  | XFn (t : nat) (k : K)             (* the user function was invoked *)
  | XVisit (t : nat) (k : K) (v : V).

  (* ---------------- helpers ---------------- *)

  Definition tab_at (s : xstate) (i : nat) : xtable := nth i (g_tabs s) (new_xtable 1 0%N).

  Fixpoint upd_nth {X} (l : list X) (i : nat) (f : X -> X) : list X :=
    match l, i with
    | [], _ => []
    | x :: r, O => f x :: r
    | x :: r, S j => x :: upd_nth r j f
    end.

  Definition set_tab (s : xstate) (i : nat) (f : xtable -> xtable) : xstate :=
    {| g_tabs := upd_nth (g_tabs s) i f; g_cur := g_cur s; g_resizing := g_resizing s; g_rmu := g_rmu s;
       g_growths := g_growths s; g_shrinks := g_shrinks s; g_pc := g_pc s; g_todo := g_todo s |}.

  Definition set_pc (s : xstate) (t : nat) (p : pc) : xstate :=
    {| g_tabs := g_tabs s; g_cur := g_cur s; g_resizing := g_resizing s; g_rmu := g_rmu s;
       g_growths := g_growths s; g_shrinks := g_shrinks s;
       g_pc := fun t' => if Nat.eq_dec t' t then p else g_pc s t'; g_todo := g_todo s |}.

  Definition set_flags (s : xstate) (cur : nat) (rz : bool) (mu : option nat) : xstate :=
    {| g_tabs := g_tabs s; g_cur := cur; g_resizing := rz; g_rmu := mu;
       g_growths := g_growths s; g_shrinks := g_shrinks s; g_pc := g_pc s; g_todo := g_todo s |}.

  Definition push_tab (s : xstate) (tb : xtable) : xstate :=
    {| g_tabs := g_tabs s ++ [tb]; g_cur := g_cur s; g_resizing := g_resizing s; g_rmu := g_rmu s;
       g_growths := g_growths s; g_shrinks := g_shrinks s; g_pc := g_pc s; g_todo := g_todo s |}.

  Definition chain_of (tb : xtable) (b : nat) : list slot := nth b (x_chains tb) [].
  Definition lock_of (tb : xtable) (b : nat) : option nat := nth b (x_locks tb) None.

  Definition set_lock (tb : xtable) (b : nat) (o : option nat) : xtable :=
    {| x_seed := x_seed tb; x_chains := x_chains tb; x_locks := upd_nth (x_locks tb) b (fun _ => o); x_size := x_size tb |}.
  Definition set_chain (tb : xtable) (b : nat) (f : list slot -> list slot) : xtable :=
    {| x_seed := x_seed tb; x_chains := upd_nth (x_chains tb) b f; x_locks := x_locks tb; x_size := x_size tb |}.
  Definition add_size (tb : xtable) (b : nat) (d : Z) : xtable :=
    {| x_seed := x_seed tb; x_chains := x_chains tb; x_locks := x_locks tb;
       x_size := upd_nth (x_size tb) (b mod (length (x_size tb))) (fun z => (z + d)%Z) |}.
  Definition set_slot (c : list slot) (pos : nat) (f : slot -> slot) : list slot := upd_nth c pos f.

  Definition bucket_slots (c : list slot) (bi : nat) : list slot := firstn nslots (skipn (bi * nslots) c).
  Definition nbuckets (c : list slot) : nat := length c / nslots.

  Definition home (tb : xtable) (k : K) : nat := idx (hash k (x_seed tb)) (x_len tb).

  (* the writer's view of its (locked) chain.  The search goes by the meta word
     first ([probe]), then the entry pointer, then the key *)
  Definition tags_of (c : list slot) : list (option N) := map s_tag c.

  Fixpoint first_some {X} (l : list (option X)) : option X :=
    match l with [] => None | Some x :: _ => Some x | None :: r => first_some r end.

  (* in bucket bi of chain c: the first probed slot whose entry has key k *)
  Definition find_in_bucket (k : K) (tg : N) (c : list slot) (bi : nat) : option (nat * V) :=
    let b := bucket_slots c bi in
    first_some (map (fun i =>
      match s_ent (nth i b empty_slot) with
      | Some (k', v) => if eqd k k' then Some (bi * nslots + i, v) else None
      | None => None
      end) (probe (tags_of b) tg)).

  Fixpoint find_chain (k : K) (tg : N) (c : list slot) (bi nb : nat) : option (nat * V) :=
    match nb with
    | O => None
    | S nb' =>
        match find_in_bucket k tg c bi with
        | Some r => Some r
        | None => find_chain k tg c (S bi) nb'
        end
    end.

  (* first slot whose meta byte says empty *)
  Fixpoint first_free (c : list slot) (pos : nat) : option nat :=
    match c with
    | [] => None
    | sl :: r => match s_tag sl with None => Some pos | Some _ => first_free r (S pos) end
    end.

  Definition live_pairs (c : list slot) : list (K * V) :=
    flat_map (fun sl => match s_ent sl with Some kv => [kv] | None => [] end) c.

  Definition meta_default (c : list slot) : bool :=
    forallb (fun sl => match s_tag sl with None => true | Some _ => false end) c.

  Definition sum_z (l : list Z) : Z := fold_right Z.add 0%Z l.

  (* appendToBucketOf on a private table: first slot with a nil entry pointer *)
  Fixpoint place_slot (c : list slot) (tg : N) (kv : K * V) : list slot :=
    match c with
    | [] => {| s_tag := Some tg; s_ent := Some kv |} :: repeat empty_slot (nslots - 1)
    | sl :: r =>
        match s_ent sl with
        | Some _ => sl :: place_slot r tg kv
        | None => {| s_tag := Some tg; s_ent := Some kv |} :: r
        end
    end.

  Definition copy_chain (src : list slot) (dst : xtable) : xtable * Z :=
    fold_left (fun (acc : xtable * Z) sl =>
      match s_ent sl with
      | Some (k, v) =>
          let h := hash k (x_seed (fst acc)) in
          (set_chain (fst acc) (idx h (x_len (fst acc))) (fun c => place_slot c (tag h) (k, v)), (snd acc + 1)%Z)
      | None => acc
      end) src (dst, 0%Z).

  (* ---------------- one scheduling step ---------------- *)

  Definition start_pc (o : xop) : pc :=
    match o with
    | XLoad k => PL_Table k LPlain
    | XCompute k f ev lie co =>
        let cx := {| cx_k := k; cx_f := f; cx_ev := ev; cx_lie := lie; cx_co := co |} in
        if lie then PL_Table k (LFast cx) else PW_Table cx
    | XClear => PC_Table
    | XSize => PS_Table
    | XRange => PG_Table
    end.

  (* go on with [p]; returning is part of the step that reaches PRet *)
  Definition goto (s : xstate) (t : nat) (p : pc) (ls : list xlabel) : xstate * list xlabel :=
    match p with
    | PRet r => (set_pc s t PIdle, ls ++ [XRes t r])
    | _ => (set_pc s t p, ls)
    end.

  Definition run_cont (kt : cont) : pc :=
    match kt with KRetry cx => PW_Table cx | KReturn r => PRet r end.

  Definition fnev_of (t : nat) (cx : cctx) : list xlabel := if cx_ev cx then [XFn t (cx_k cx)] else [].

  Definition b1 (b : bool) : Z := if b then 1%Z else 0%Z.

  Definition stripe (tb : xtable) (i : nat) : Z := nth i (x_size tb) 0%Z.
  Definition nstr (tb : xtable) : nat := length (x_size tb).

  Definition wake (p : pc) : pc := match p with PT_Waiting hn kt => PT_Relock hn kt | _ => p end.

  (* the step of thread t at program counter p (already past the invocation) *)
  Definition step_pc (s : xstate) (t : nat) (p : pc) : option (xstate * list xlabel) :=
    let st k := XStep t k in
    let fnev cx := fnev_of t cx in
    match p with
    | PStart => Some (set_pc s t PIdle, [st KStart])
    | PIdle | PRet _ | PT_Waiting _ _ => None
    (* ---- Load ---- *)
    | PL_Table k lc =>
        let tab := g_cur s in
        Some (goto s t (PL_Meta k lc tab (hash k (x_seed (tab_at s tab))) 0) [st (KLoadPtr false)])
    | PL_Meta k lc tab h bi =>
        let tb := tab_at s tab in
        let c := chain_of tb (idx h (x_len tb)) in
        let todo := probe (tags_of (bucket_slots c bi)) (tag h) in
        Some (goto s t (match todo with [] => PL_Next k lc tab h bi | _ => PL_Ent k lc tab h bi todo end)
                   [st (KLoadU64 (tags_of (bucket_slots c bi)))])
    | PL_Ent k lc tab h bi todo =>
        match todo with
        | [] => None
        | i :: rest =>
            let tb := tab_at s tab in
            let c := chain_of tb (idx h (x_len tb)) in
            let e := s_ent (nth (bi * nslots + i) c empty_slot) in
            let lab := st (KLoadPtr (match e with None => true | Some _ => false end)) in
            let miss := match rest with [] => PL_Next k lc tab h bi | _ => PL_Ent k lc tab h bi rest end in
            match e with
            | Some (k', v) =>
                if eqd k k' then
                  Some (goto s t (match lc with
                                  | LPlain => PRet (XRVal (Some v) true)
                                  | LFast cx => PRet (XRVal (Some v) (negb (cx_co cx)))
                                  end) [lab])
                else Some (goto s t miss [lab])
            | None => Some (goto s t miss [lab])
            end
        end
    | PL_Next k lc tab h bi =>
        let tb := tab_at s tab in
        let c := chain_of tb (idx h (x_len tb)) in
        if Nat.ltb (S bi) (nbuckets c) then Some (goto s t (PL_Meta k lc tab h (S bi)) [st (KLoadPtr false)])
        else Some (goto s t (match lc with LPlain => PRet (XRVal None false) | LFast cx => PW_Table cx end)
                        [st (KLoadPtr true)])
    (* ---- doCompute ---- *)
    | PW_Table cx => Some (goto s t (PW_Lock cx (g_cur s)) [st (KLoadPtr false)])
    | PW_Lock cx tab =>
        let tb := tab_at s tab in
        let b := home tb (cx_k cx) in
        match lock_of tb b with
        | Some _ => None
        | None => Some (goto (set_tab s tab (fun tb => set_lock tb b (Some t))) t (PW_ChkRes cx tab) [st (KLock false)])
        end
    | PW_ChkRes cx tab =>
        let b := home (tab_at s tab) (cx_k cx) in
        Some (goto s t (if g_resizing s then PW_Unlock tab b (PT_Lock None (KRetry cx)) else PW_ChkTab cx tab)
                   [st (KLoadI64 (b1 (g_resizing s)))])
    | PW_ChkTab cx tab =>
        let tb := tab_at s tab in
        let k := cx_k cx in
        let b := home tb k in
        let lab := st (KLoadPtr false) in
        if negb (Nat.eqb (g_cur s) tab) then Some (goto s t (PW_Unlock tab b (PW_Table cx)) [lab])
        else
          let c := chain_of tb b in
          let tg := tag (hash k (x_seed tb)) in
          match find_chain k tg c 0 (nbuckets c) with
          | Some (pos, old) =>
              if cx_lie cx then Some (goto s t (PW_Unlock tab b (PRet (XRVal (Some old) (negb (cx_co cx))))) [lab])
              else
                match cx_f cx (Some old) with
                | None => Some (goto s t (PW_D1 cx tab pos old) (lab :: fnev cx))
                | Some nv => Some (goto s t (PW_U1 cx tab pos old nv) (lab :: fnev cx))
                end
          | None =>
              match first_free c 0 with
              | Some p =>
                  match cx_f cx None with
                  | None => Some (goto s t (PW_Unlock tab b (PRet (XRVal None false))) (lab :: fnev cx))
                  | Some nv => Some (goto s t (PW_I1 cx tab p nv) (lab :: fnev cx))
                  end
              | None => Some (goto s t (PW_Sum cx tab 0 0%Z) [lab])
              end
          end
    | PW_Sum cx tab i acc =>
        let tb := tab_at s tab in
        let k := cx_k cx in
        let b := home tb k in
        let acc' := (acc + stripe tb i)%Z in
        let lab := st (KLoadI64 (stripe tb i)) in
        if Nat.ltb (S i) (nstr tb) then Some (goto s t (PW_Sum cx tab (S i) acc') [lab])
        else if grow_needed (x_len tb) acc' then Some (goto s t (PW_Unlock tab b (PR_CAS HGrow (KRetry cx))) [lab])
        else
          match cx_f cx None with
          | None => Some (goto s t (PW_Unlock tab b (PRet (XRVal None false))) (lab :: fnev cx))
          | Some nv => Some (goto s t (PW_N1 cx tab nv) (lab :: fnev cx))
          end
    | PW_D1 cx tab pos old =>
        let b := home (tab_at s tab) (cx_k cx) in
        let s' := set_tab s tab (fun tb => set_chain tb b (fun c => set_slot c pos (fun sl => {| s_tag := None; s_ent := s_ent sl |}))) in
        Some (goto s' t (PW_D2 cx tab pos old)
                   [st (KStoreU64 (tags_of (bucket_slots (chain_of (tab_at s' tab) b) (pos / nslots))))])
    | PW_D2 cx tab pos old =>
        let tb := tab_at s tab in
        let b := home tb (cx_k cx) in
        let r := XRVal (Some old) (negb (cx_co cx)) in
        let left_empty := meta_default (bucket_slots (chain_of tb b) (pos / nslots)) in
        let after :=
          if left_empty then
            if grow_only || Nat.eqb minlen (x_len tb) then PRet r else PR_FastSum tab (KReturn r) 0 0%Z
          else PRet r in
        Some (goto (set_tab s tab (fun tb => set_chain tb b (fun c => set_slot c pos (fun sl => {| s_tag := s_tag sl; s_ent := None |}))))
                   t (PW_Unlock tab b (PW_Add tab b (-1)%Z after)) [st (KStorePtr true)])
    | PW_U1 cx tab pos old nv =>
        let b := home (tab_at s tab) (cx_k cx) in
        Some (goto (set_tab s tab (fun tb => set_chain tb b (fun c => set_slot c pos (fun sl => {| s_tag := s_tag sl; s_ent := Some (cx_k cx, nv) |}))))
                   t (PW_Unlock tab b (PRet (if cx_co cx then XRVal (Some nv) true else XRVal (Some old) true)))
                   [st (KStorePtr false)])
    | PW_I1 cx tab pos nv =>
        let tb := tab_at s tab in
        let b := home tb (cx_k cx) in
        let tg := tag (hash (cx_k cx) (x_seed tb)) in
        let s' := set_tab s tab (fun tb => set_chain tb b (fun c => set_slot c pos (fun sl => {| s_tag := Some tg; s_ent := s_ent sl |}))) in
        Some (goto s' t (PW_I2 cx tab pos nv)
                   [st (KStoreU64 (tags_of (bucket_slots (chain_of (tab_at s' tab) b) (pos / nslots))))])
    | PW_I2 cx tab pos nv =>
        let b := home (tab_at s tab) (cx_k cx) in
        Some (goto (set_tab s tab (fun tb => set_chain tb b (fun c => set_slot c pos (fun sl => {| s_tag := s_tag sl; s_ent := Some (cx_k cx, nv) |}))))
                   t (PW_Unlock tab b (PW_Add tab b 1%Z (PRet (XRVal (Some nv) (cx_co cx))))) [st (KStorePtr false)])
    | PW_N1 cx tab nv =>
        let tb := tab_at s tab in
        let b := home tb (cx_k cx) in
        let tg := tag (hash (cx_k cx) (x_seed tb)) in
        Some (goto (set_tab s tab (fun tb => set_chain tb b (fun c =>
                      c ++ {| s_tag := Some tg; s_ent := Some (cx_k cx, nv) |} :: repeat empty_slot (nslots - 1))))
                   t (PW_Unlock tab b (PW_Add tab b 1%Z (PRet (XRVal (Some nv) (cx_co cx))))) [st (KStorePtr false)])
    | PW_Unlock tab b after =>
        Some (goto (set_tab s tab (fun tb => set_lock tb b None)) t after [st KUnlock])
    | PW_Add tab b delta after =>
        let s' := set_tab s tab (fun tb => add_size tb b delta) in
        let tb' := tab_at s' tab in
        Some (goto s' t after [st (KAddI64 (stripe tb' (b mod nstr tb')))])
    (* ---- resize ---- *)
    | PR_FastSum known kt i acc =>
        let tb := tab_at s known in
        let acc' := (acc + stripe tb i)%Z in
        let lab := st (KLoadI64 (stripe tb i)) in
        if Nat.ltb (S i) (nstr tb) then Some (goto s t (PR_FastSum known kt (S i) acc') [lab])
        else if shrink_policy (x_len tb) acc' then Some (goto s t (PR_CAS HShrink kt) [lab])
        else Some (goto s t (run_cont kt) [lab])
    | PR_CAS hn kt =>
        if g_resizing s then Some (goto s t (PT_Lock (Some hn) kt) [st (KCASI64 false)])
        else Some (goto (set_flags s (g_cur s) true (g_rmu s)) t (PR_Table hn kt) [st (KCASI64 true)])
    | PR_Table hn kt =>
        let tab := g_cur s in
        let lab := st (KLoadPtr false) in
        match hn with
        | HGrow => Some (goto s t (PR_Stat HGrow kt tab) [lab])
        | HShrink =>
            (* tableLen > m.minTableLen && table.sumSize() <= ...: the sum is not taken at the minimum length *)
            if Nat.ltb minlen (x_len (tab_at s tab)) then Some (goto s t (PR_ShSum kt tab 0 0%Z) [lab])
            else Some (goto s t (PR_FinLock kt) [lab])
        | HClear =>
            let new := length (g_tabs s) in
            Some (goto (push_tab s (new_xtable minlen (seeds new))) t (PR_Publish kt new) [lab])
        end
    | PR_ShSum kt tab i acc =>
        let tb := tab_at s tab in
        let acc' := (acc + stripe tb i)%Z in
        let lab := st (KLoadI64 (stripe tb i)) in
        if Nat.ltb (S i) (nstr tb) then Some (goto s t (PR_ShSum kt tab (S i) acc') [lab])
        else if Nat.ltb minlen (x_len tb) && shrink_policy (x_len tb) acc' then Some (goto s t (PR_Stat HShrink kt tab) [lab])
        else Some (goto s t (PR_FinLock kt) [lab])
    | PR_Stat hn kt tab =>
        let tb := tab_at s tab in
        let new := length (g_tabs s) in
        let len' := match hn with HGrow => x_len tb * 2 | _ => x_len tb / 2 end in
        let s1 := push_tab s (new_xtable len' (seeds new)) in
        let s2 := {| g_tabs := g_tabs s1; g_cur := g_cur s1; g_resizing := g_resizing s1; g_rmu := g_rmu s1;
                     g_growths := (match hn with HGrow => g_growths s + 1 | _ => g_growths s end)%Z;
                     g_shrinks := (match hn with HGrow => g_shrinks s | _ => g_shrinks s + 1 end)%Z;
                     g_pc := g_pc s1; g_todo := g_todo s1 |} in
        Some (goto s2 t (if Nat.ltb 0 (x_len tb) then PR_CpLock hn kt tab new 0 else PR_Publish kt new)
                   [st (KAddI64 (match hn with HGrow => g_growths s + 1 | _ => g_shrinks s + 1 end)%Z)])
    | PR_CpLock hn kt tab new i =>
        let tb := tab_at s tab in
        match lock_of tb i with
        | Some _ => None
        | None =>
            let s1 := set_tab s tab (fun tb => set_lock tb i (Some t)) in
            let '(nt, copied) := copy_chain (chain_of tb i) (tab_at s1 new) in
            let s2 := set_tab s1 new (fun _ => add_size nt i copied) in
            Some (goto s2 t (PR_CpUnlock hn kt tab new i) [st (KLock false)])
        end
    | PR_CpUnlock hn kt tab new i =>
        let tb := tab_at s tab in
        Some (goto (set_tab s tab (fun tb => set_lock tb i None)) t
                   (if Nat.ltb (S i) (x_len tb) then PR_CpLock hn kt tab new (S i) else PR_Publish kt new) [st KUnlock])
    | PR_Publish kt new =>
        Some (goto (set_flags s new (g_resizing s) (g_rmu s)) t (PR_FinLock kt) [st (KStorePtr false)])
    | PR_FinLock kt =>
        match g_rmu s with
        | Some _ => None
        | None => Some (goto (set_flags s (g_cur s) (g_resizing s) (Some t)) t (PR_FinStore kt) [st (KLock false)])
        end
    | PR_FinStore kt => Some (goto (set_flags s (g_cur s) false (g_rmu s)) t (PR_FinBcast kt) [st (KStoreI64 0%Z)])
    | PR_FinBcast kt =>
        let s' := {| g_tabs := g_tabs s; g_cur := g_cur s; g_resizing := g_resizing s; g_rmu := g_rmu s;
                     g_growths := g_growths s; g_shrinks := g_shrinks s;
                     g_pc := fun t' => wake (g_pc s t'); g_todo := g_todo s |} in
        Some (goto s' t (PR_FinUnlock kt) [st (KBcast 0)])
    | PR_FinUnlock kt => Some (goto (set_flags s (g_cur s) (g_resizing s) None) t (run_cont kt) [st KUnlock])
    (* ---- waitForResize ---- *)
    | PT_Lock hn kt =>
        match g_rmu s with
        | Some _ => None
        | None => Some (goto (set_flags s (g_cur s) (g_resizing s) (Some t)) t (PT_Load hn kt) [st (KLock false)])
        end
    | PT_Relock hn kt =>
        match g_rmu s with
        | Some _ => None
        | None => Some (goto (set_flags s (g_cur s) (g_resizing s) (Some t)) t (PT_Load hn kt) [st (KLock true)])
        end
    | PT_Load hn kt =>
        Some (goto s t (if g_resizing s then PT_Wait hn kt else PT_Unlock hn kt) [st (KLoadI64 (b1 (g_resizing s)))])
    | PT_Wait hn kt => Some (goto (set_flags s (g_cur s) (g_resizing s) None) t (PT_Waiting hn kt) [st KWait])
    | PT_Unlock hn kt =>
        Some (goto (set_flags s (g_cur s) (g_resizing s) None) t
                   (match hn with Some HClear => PR_CAS HClear kt | _ => run_cont kt end) [st KUnlock])
    (* ---- Clear / Size / Range ---- *)
    | PC_Table => Some (goto s t (PR_CAS HClear (KReturn XRUnit)) [st (KLoadPtr false)])
    | PS_Table => Some (goto s t (PS_Sum (g_cur s) 0 0%Z) [st (KLoadPtr false)])
    | PS_Sum tab i acc =>
        let tb := tab_at s tab in
        let acc' := (acc + stripe tb i)%Z in
        Some (goto s t (if Nat.ltb (S i) (nstr tb) then PS_Sum tab (S i) acc' else PRet (XRNat acc')) [st (KLoadI64 (stripe tb i))])
    | PG_Table =>
        let tab := g_cur s in
        Some (goto s t (if Nat.ltb 0 (x_len (tab_at s tab)) then PG_Lock tab 0 else PRet XRUnit) [st (KLoadPtr false)])
    | PG_Lock tab i =>
        let tb := tab_at s tab in
        match lock_of tb i with
        | Some _ => None
        | None => Some (goto (set_tab s tab (fun tb => set_lock tb i (Some t))) t
                             (PG_Unlock tab i (live_pairs (chain_of tb i))) [st (KLock false)])
        end
    | PG_Unlock tab i snap =>
        let tb := tab_at s tab in
        Some (goto (set_tab s tab (fun tb => set_lock tb i None)) t
                   (if Nat.ltb (S i) (x_len tb) then PG_Lock tab (S i) else PRet XRUnit)
                   (st KUnlock :: map (fun kv => XVisit t (fst kv) (snd kv)) snap))
    end.

  (* the step of thread t: an idle thread with work first invokes its next call *)
  Definition xstep (s : xstate) (t : nat) : option (xstate * list xlabel) :=
    match g_pc s t with
    | PIdle =>
        match g_todo s t with
        | [] => None
        | o :: rest =>
            (* the invocation: the thread now stands before the first primitive of the call ... *)
            let s1 := {| g_tabs := g_tabs s; g_cur := g_cur s; g_resizing := g_resizing s; g_rmu := g_rmu s;
                         g_growths := g_growths s; g_shrinks := g_shrinks s;
                         g_pc := fun t' => if Nat.eq_dec t' t then start_pc o else g_pc s t';
                         g_todo := fun t' => if Nat.eq_dec t' t then rest else g_todo s t' |} in
            (* ... and executes it, unless it blocks there *)
            match step_pc s1 t (start_pc o) with
            | Some (s2, ls) => Some (s2, XInv t o :: ls)
            | None => Some (s1, [XInv t o])
            end
        end
    | p => step_pc s t p
    end.

  Definition xinit (len0 : nat) (todo : nat -> list xop) : xstate :=
    {| g_tabs := [new_xtable len0 (seeds 0)]; g_cur := 0; g_resizing := false; g_rmu := None;
       g_growths := 0%Z; g_shrinks := 0%Z; g_pc := fun _ => PStart; g_todo := todo |}.

  Fixpoint xrun (s : xstate) (sched : list nat) : xstate * list xlabel :=
    match sched with
    | [] => (s, [])
    | t :: rest =>
        match xstep s t with
        | Some (s', ls) => let '(s'', ls') := xrun s' rest in (s'', ls ++ ls')
        | None => xrun s rest
        end
    end.

  Definition enabled (s : xstate) (t : nat) : bool :=
    match xstep s t with Some _ => true | None => false end.

End XMachine.
