(* XExec.v -- the executable instance of XMachine used by CORR-sched: integer keys
   and values, the numbers of mapof.go (Params.v), the exact SWAR probe of
   util.go on the packed meta word, hashes and seeds given by an oracle.
   No proofs here. *)
From CacheV Require Import Base SpecMap XMachine TabExec Exec.
From CacheV.gen Require Import Params.
From Coq Require Import NArith.
Local Open Scope nat_scope.

(* ---------------- util.go on 64-bit words (N arithmetic mod 2^64) ---------------- *)
Definition w64 : N := 18446744073709551616%N.
Definition byte_of (t : option N) : N := match t with Some b => b | None => Z.to_N emptyMetaSlot end.

(* the meta word of a bucket: byte i = slot i's meta byte; the unused high bytes stay 0x80 *)
Fixpoint pack_from (l : list (option N)) (i : nat) (n : nat) : N :=
  match n with
  | O => 0%N
  | S n' =>
      let b := match nth_error l i with Some t => byte_of t | None => Z.to_N emptyMetaSlot end in
      (N.shiftl b (N.of_nat (8 * i)) + pack_from l (S i) n')%N
  end.
Definition pack_meta (l : list (option N)) : N := pack_from l 0 8.

Definition broadcast (b : N) : N := ((72340172838076673 * b) mod w64)%N.          (* 0x0101010101010101 * b *)
Definition markZeroBytes (w : N) : N :=
  N.land (N.land ((w + w64 - 72340172838076673) mod w64) (N.lxor w (w64 - 1))) 9259542123273814144%N.

(* firstMarkedByteIndex / markedw &= markedw - 1, over the 8 bytes *)
Fixpoint marked_indices (m : N) (i : nat) (n : nat) : list nat :=
  match n with
  | O => []
  | S n' => (if N.testbit m (N.of_nat (8 * i + 7)) then [i] else []) ++ marked_indices m (S i) n'
  end.

Definition probe_swar (tags : list (option N)) (h2 : N) : list nat :=
  let metaw := pack_meta tags in
  let markedw := N.land (markZeroBytes (N.lxor metaw (broadcast h2))) (Z.to_N metaMask) in
  marked_indices markedw 0 8.

(* [probe_swar] is the Go code on the inputs the Go code is given: at most entriesPerMapOfBucket meta
   bytes, each a 7-bit tag or the empty mark, and a 7-bit tag to search.  Outside that domain
   (where util.go is never called) the machine's probe falls back to exact matching, so that the
   probe is sound and complete on ALL inputs (proofs/X_swar.v) *)
Definition probe_exact (tags : list (option N)) (h2 : N) : list nat :=
  filter (fun i => match nth i tags None with Some t => N.eqb t h2 | None => false end) (seq 0 (length tags)).
Definition probe_valid (tags : list (option N)) (h2 : N) : bool :=
  Nat.leb (length tags) (Z.to_nat entriesPerMapOfBucket) && N.ltb h2 128
  && forallb (fun o => match o with Some x => N.ltb x 128 | None => true end) tags.
Definition probe_x (tags : list (option N)) (h2 : N) : list nat :=
  if probe_valid tags h2 then probe_swar tags h2 else probe_exact tags h2.

(* newMapOfTable: counterLen = clamp(len >> 10, 8, 32) *)
Definition nstripes_x (len : nat) : nat :=
  let c := Nat.div len 1024 in
  if Nat.ltb c (Z.to_nat minMapCounterLen) then Z.to_nat minMapCounterLen
  else if Nat.ltb (Z.to_nat maxMapCounterLen) c then Z.to_nat maxMapCounterLen else c.

Definition grow_needed_m (len : nat) (sum : Z) : bool :=
  (Z.of_nat len * entriesPerMapOfBucket * mapLoadFactor_num / mapLoadFactor_den <? sum)%Z.
Definition shrink_policy_m (len : nat) (sum : Z) : bool :=
  (sum <=? Z.of_nat len * entriesPerMapOfBucket / mapShrinkFraction)%Z.

Definition xstate_z := @xstate Z Z.
Definition xop_z := @xop Z Z.

Definition x_machine_init (seeds : list N) (hint : Z) (todo : nat -> list xop_z) : xstate_z :=
  @xinit Z Z (Z.to_nat entriesPerMapOfBucket) (seeds_of seeds) nstripes_x (minlen_of_hint true hint) todo.

Definition x_machine_step (o : oracle) (seeds : list N) (hint : Z) (s : xstate_z) (t : nat)
  : option (xstate_z * list (@xlabel Z Z)) :=
  @xstep Z Z zeqd (hash_of o) idx_mapof tag_mapof (Z.to_nat entriesPerMapOfBucket) (seeds_of seeds)
         grow_needed_m shrink_policy_m probe_x nstripes_x (minlen_of_hint true hint) false s t.

(* the user-function family of the scheduler driver (harness/README.md) *)
Inductive xfn := XFSet (v : Z) | XFIncr | XFDel | XFDelIf (v : Z) | XFNoopDelAbs.
Definition xfn_of (f : xfn) : option Z -> option Z :=
  fun o =>
    match f, o with
    | XFSet v, _ => Some v
    | XFIncr, Some old => Some (old + 1)%Z
    | XFIncr, None => Some 1%Z
    | XFDel, _ => None
    | XFDelIf v, Some old => if (old =? v)%Z then None else Some old
    | XFDelIf v, None => Some v
    | XFNoopDelAbs, Some old => Some old
    | XFNoopDelAbs, None => None
    end.

Definition x_store k v : xop_z := XCompute k (fun _ => Some v) false false false.
Definition x_loadorstore k v : xop_z := XCompute k (fun _ => Some v) false true false.
Definition x_loadandstore k v : xop_z := XCompute k (fun _ => Some v) false false false.
Definition x_loadorcompute k v : xop_z := XCompute k (fun _ => Some v) true true false.
Definition x_compute k f : xop_z := XCompute k (xfn_of f) true false true.
Definition x_loadanddelete k : xop_z := XCompute k (fun _ => None) false false false.

Definition x_cur_table (s : xstate_z) : @xtable Z Z := tab_at 5 (fun _ => 8) s (g_cur s).
