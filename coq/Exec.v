(* Exec.v -- the executable instance used by the correspondence check:
   keys and values are integers; user functions and visitors are members of a
   small named family that the Go driver implements too.  No proofs here. *)
From CacheV Require Import Base SpecMap Client CacheModel CacheOfModel Ops SpecTTL SpecTTLExec.
From CacheV.gen Require Import Params.

Definition zeqd : forall a b : Z, {a = b} + {a <> b} := Z.eq_dec.

(* user functions handed to Compute; [zero] is the integer standing for the
   zero value of V (nil for interface{} containers) *)
Inductive fnid :=
| FnSet (v : Z)          (* always store v *)
| FnIncr                 (* absent -> 1; present -> old+1 (nil counts as absent) *)
| FnDelRet (v : Z)       (* always delete, handing back v as "new value" *)
| FnDelIfLoaded (v : Z)  (* present -> delete; absent -> store v *)
| FnDelIfAbsent (v : Z). (* present -> store old+v; absent -> delete *)

Definition fn_of (zero : Z) (f : fnid) : Z -> bool -> Z * bool :=
  fun old loaded =>
    match f with
    | FnSet v => (v, false)
    | FnIncr => if loaded && negb (old =? zero) then (old + 1, false) else (1, false)
    | FnDelRet v => (v, true)
    | FnDelIfLoaded v => if loaded then (v, true) else (v, false)
    | FnDelIfAbsent v =>
        if loaded then ((if old =? zero then v else old + v), false) else (v, true)
    end.

Inductive visid :=
| VNil                   (* nil visitor *)
| VAll                   (* always true *)
| VStopKey (k : Z)       (* false at key k *)
| VStopValGe (v : Z).    (* false at the first value >= v *)

Definition vis_of (v : visid) : option (Z -> Z -> bool) :=
  match v with
  | VNil => None
  | VAll => Some (fun _ _ => true)
  | VStopKey k => Some (fun k' _ => negb (k' =? k))
  | VStopValGe v => Some (fun _ v' => v' <? v)
  end.

Definition cop_z := cop Z Z.

Definition step_cache_z (zero : Z) := @step_cache Z Z zeqd zero.
Definition step_cacheof_z (zero : Z) := @step_cacheof Z Z zeqd zero.

(* one constructor/step surface for the driver, dispatching on the twin *)
Inductive xopt := XDflt (d : Z) | XInterval (d : Z) | XCb (c : cbid) | XMinCap (n : Z).

Record xbuilt := { xb_state : cstate Z Z; xb_janitor : bool; xb_interval : Z; xb_presize : Z }.

Definition xopt_cache (o : xopt) : CacheModel.copt :=
  match o with
  | XDflt d => CacheModel.WithDefaultExpiration d
  | XInterval d => CacheModel.WithCleanupInterval d
  | XCb c => CacheModel.WithEvictedCallback c
  | XMinCap n => CacheModel.WithMinCapacity n
  end.

Definition xopt_cacheof (o : xopt) : CacheOfModel.copt :=
  match o with
  | XDflt d => CacheOfModel.WithDefaultExpiration d
  | XInterval d => CacheOfModel.WithCleanupInterval d
  | XCb c => CacheOfModel.WithEvictedCallback c
  | XMinCap n => CacheOfModel.WithMinCapacity n
  end.

Definition x_of_cache (b : @CacheModel.built Z Z) : xbuilt :=
  {| xb_state := CacheModel.b_state b; xb_janitor := CacheModel.b_janitor b;
     xb_interval := CacheModel.b_interval b; xb_presize := CacheModel.b_presize b |}.
Definition x_of_cacheof (b : @CacheOfModel.built Z Z) : xbuilt :=
  {| xb_state := CacheOfModel.b_state b; xb_janitor := CacheOfModel.b_janitor b;
     xb_interval := CacheOfModel.b_interval b; xb_presize := CacheOfModel.b_presize b |}.

(* generic = false: Cache (xsync_map.go); generic = true: CacheOf (xsync_mapof.go) *)
Definition x_new (generic : bool) (now0 : Z) (opts : list xopt) : xbuilt :=
  if generic then x_of_cacheof (CacheOfModel.NewOf now0 (map xopt_cacheof opts))
  else x_of_cache (CacheModel.New now0 (map xopt_cache opts)).

Definition x_newdefault (generic : bool) (now0 dflt interval : Z) (cb : list cbid) : xbuilt :=
  if generic then x_of_cacheof (CacheOfModel.NewOfDefault now0 dflt interval cb)
  else x_of_cache (CacheModel.NewDefault now0 dflt interval cb).

Definition x_step (generic : bool) (zero : Z) (s : cstate Z Z) (o : cop_z)
  : cstate Z Z * cres Z Z * list (event Z Z) :=
  if generic then step_cacheof_z zero s o else step_cache_z zero s o.

(* the specification itself, executable: used by the failing-input search *)
Definition x_spec_next (zero : Z) (s : cstate Z Z) (o : cop_z) : cstate Z Z :=
  spec_next zeqd zero s o.
Definition x_spec_okb (zero : Z) (s : cstate Z Z) (o : cop_z) (r : cres Z Z) : bool :=
  spec_okb zeqd zeqd zero s o r.

(* decimal conversion for the driver (Z stays a Coq datatype in OCaml) *)
Definition z_push_digit (acc : Z) (d : Z) : Z := acc * 10 + d.
Fixpoint z_digits_fuel (fuel : nat) (z : Z) (acc : list Z) : list Z :=
  match fuel with
  | O => acc
  | S f => if z <? 10 then z :: acc else z_digits_fuel f (z / 10) (z mod 10 :: acc)
  end.
Definition z_digits (z : Z) : list Z := z_digits_fuel 80 (Z.abs z) [].
Definition z_is_neg (z : Z) : bool := z <? 0.
Definition z_small (z : Z) : nat := Z.to_nat z.   (* digits only *)
