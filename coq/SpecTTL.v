(* SpecTTL.v -- what the cache promises (C01's sentence, literally).

   The state [L] is "the most recently stored item per key that has not been
   deleted or cleared" -- whether or not it has expired; nothing is ever removed
   from it because time passes.  Every value-returning call is defined from
   [view], which hides the expired items.  No proofs here. *)
From CacheV Require Import Base SpecMap Client Ops.
From CacheV.gen Require Import Params.

Section SpecTTL.
  Context {K V : Type}.
  Variable eqd : forall a b : K, {a = b} + {a <> b}.
  Variable zero : V.

  Notation item := (item V).
  Notation cop := (cop K V).
  Notation cres := (cres K V).

  (* the specification state has the same shape as the model state; its map is L *)
  Definition sstate := cstate K V.

  Definition view (now : Z) (L : amap K item) (k : K) : option item :=
    match lookup eqd k L with
    | Some i => if expiredWithNow now i then None else Some i
    | None => None
    end.

  (* C09: the instant an entry armed at [now] with TTL argument [d] expires at;
     0 = never *)
  Definition spec_expiration (dflt now d : Z) : Z :=
    let d := if d =? DefaultExpiration then dflt else d in
    if 0 <? d then wrap64 (now + d) else 0.

  Definition set_L (s : sstate) (L : amap K item) : sstate :=
    {| st_map := L; st_now := st_now s; st_dflt := st_dflt s; st_cb := st_cb s |}.

  Definition arm (s : sstate) (v : V) (d : Z) : item :=
    {| iv := v; ie := spec_expiration (st_dflt s) (st_now s) d |}.

  Definition vw (s : sstate) (k : K) : option item := view (st_now s) (st_map s) k.

  (* ---------------- effect of a call on the state ---------------- *)

  Definition spec_next (s : sstate) (o : cop) : sstate :=
    match o with
    | OSet k v d => set_L s (insert eqd k (arm s v d) (st_map s))
    | OSetDefault k v => set_L s (insert eqd k (arm s v DefaultExpiration) (st_map s))
    | OSetForever k v => set_L s (insert eqd k (arm s v NoExpiration) (st_map s))
    | OGetOrSet k v d | OGetOrCompute k v d =>
        match vw s k with
        | Some _ => s
        | None => set_L s (insert eqd k (arm s v d) (st_map s))
        end
    | OGetAndSet k v d => set_L s (insert eqd k (arm s v d) (st_map s))
    | OGetAndRefresh k d =>
        match vw s k with
        | Some i => set_L s (insert eqd k (arm s (iv i) d) (st_map s))
        | None => s
        end
    | OCompute k fn d =>
        let '(v, del) :=
          match vw s k with Some i => fn (iv i) true | None => fn zero false end in
        if del then set_L s (remove eqd k (st_map s))
        else set_L s (insert eqd k (arm s v d) (st_map s))
    | OGetAndDelete k | ODelete k => set_L s (remove eqd k (st_map s))
    | OClear => set_L s []
    | OSetDflt d =>
        {| st_map := st_map s; st_now := st_now s; st_dflt := d; st_cb := st_cb s |}
    | OSetCb c =>
        {| st_map := st_map s; st_now := st_now s; st_dflt := st_dflt s; st_cb := c |}
    | OAdvance dt => advance s dt
    | OGet _ | OGetWithExpiration _ | OGetWithTTL _ | ODeleteExpired
    | ORange _ _ | OItems _ | OCount | OGetDflt | OGetCb => s
    end.

  (* ---------------- what a call may answer ---------------- *)

  (* a traversal: no key twice, only current unexpired pairs, the visitor said
     "go on" for all but possibly the last, and it ended either because the
     visitor said "stop" or because nothing unvisited was left *)
  Definition range_ok (s : sstate) (f : K -> V -> bool) (l : list (K * V)) : Prop :=
    NoDup (map fst l)
    /\ (forall k v, In (k, v) l -> exists i, vw s k = Some i /\ iv i = v)
    /\ (forall pre k v post, l = pre ++ (k, v) :: post -> post <> [] -> f k v = true)
    /\ ((exists pre k v, l = pre ++ [(k, v)] /\ f k v = false)
        \/ ((forall k v, In (k, v) l -> f k v = true)
            /\ forall k i, vw s k = Some i -> In (k, iv i) l)).

  Definition live_keys (s : sstate) : list K :=
    filter (fun k => match vw s k with Some _ => true | None => false end) (keys (st_map s)).

  Definition spec_ok (s : sstate) (o : cop) (r : cres) : Prop :=
    match o with
    | OGet k =>
        r = match vw s k with Some i => CVal (iv i) true | None => CVal zero false end
    | OGetWithExpiration k =>
        r = match vw s k with
            | Some i => CValExp (iv i) (if 0 <? ie i then ie i else 0) true
            | None => CValExp zero 0 false
            end
    | OGetWithTTL k =>
        r = match vw s k with
            | Some i => CValTTL (iv i) (if 0 <? ie i then ie i - st_now s else NoExpiration) true
            | None => CValTTL zero 0 false
            end
    | OGetOrSet k v _ | OGetOrCompute k v _ =>
        r = match vw s k with Some i => CVal (iv i) true | None => CVal v false end
    | OGetAndSet k v _ =>
        r = match vw s k with Some i => CVal (iv i) true | None => CVal v false end
    | OGetAndRefresh k _ =>
        r = match vw s k with Some i => CVal (iv i) true | None => CVal zero false end
    | OCompute k fn _ =>
        r = match vw s k with
            | Some i => let '(v, del) := fn (iv i) true in
                        if del then CVal (iv i) false else CVal v true
            | None => let '(v, del) := fn zero false in
                      if del then CVal zero false else CVal v true
            end
    | OGetAndDelete k =>
        r = match vw s k with Some i => CVal (iv i) true | None => CVal zero false end
    | ORange None _ => r = CList []
    | ORange (Some f) _ => exists l, r = CList l /\ range_ok s f l
    | OItems _ => exists l, r = CList l /\ range_ok s (fun _ _ => true) l
    | OCount =>
        (* lazily deleted: between the live entries and everything stored (C08) *)
        exists n, r = CNat n /\ (length (live_keys s) <= n <= length (st_map s))%nat
    | OGetDflt => r = CDur (st_dflt s)
    | OGetCb => r = CCb (st_cb s)
    | OSet _ _ _ | OSetDefault _ _ | OSetForever _ _ | ODelete _ | ODeleteExpired
    | OClear | OSetDflt _ | OSetCb _ | OAdvance _ => r = CUnit
    end.

  (* a history conforms: each answer is admitted by the state reached so far *)
  Fixpoint spec_run (s : sstate) (ops : list cop) (rs : list cres) : Prop :=
    match ops, rs with
    | [], [] => True
    | o :: ops', r :: rs' => spec_ok s o r /\ spec_run (spec_next s o) ops' rs'
    | _, _ => False
    end.

  (* the clock never goes back *)
  Definition monotone (ops : list cop) : Prop :=
    Forall (fun o => match o with OAdvance dt => 0 <= dt | _ => True end) ops.

End SpecTTL.
