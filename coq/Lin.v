(* Lin.v -- linearizability, stated through linearization points.

   A history is a list of invocation and response events of threads.  It is
   linearizable with respect to a sequential specification if one can mark, for
   every completed call (and for any of the pending ones), a point between its
   invocation and its response -- its linearization point -- such that the calls,
   taken in the order of their points, form a legal sequential run of the
   specification that produces exactly the responses seen.  (Because every point
   lies inside its call's interval, the order of the points respects real-time
   precedence: a call that returned before another was invoked is ordered first.
   proofs/Lin_facts.v derives the textbook formulation from this one.)
   No proofs here. *)
From CacheV Require Import Base.

Section Lin.
  Variables Op Res St : Type.
  (* the specification may be a relation (e.g. Range may answer in any order) *)
  Variable spec : St -> Op -> Res -> St -> Prop.

  Inductive hev :=
  | HInv (t : nat) (o : Op)
  | HRes (t : nat) (r : Res).

  (* an instrumented history: the same, with the marks *)
  Inductive iev :=
  | IInv (t : nat) (o : Op)
  | ILin (t : nat) (o : Op) (r : Res)     (* thread t's pending call o takes effect here, answering r *)
  | IRes (t : nat) (r : Res).

  Fixpoint erase (l : list iev) : list hev :=
    match l with
    | [] => []
    | IInv t o :: r => HInv t o :: erase r
    | ILin _ _ _ :: r => erase r
    | IRes t x :: r => HRes t x :: erase r
    end.

  (* per-thread protocol: idle -> invoked o -> linearized (o, r) -> idle (answering r) *)
  Inductive tstat := TIdle | TInvoked (o : Op) | TLinearized (o : Op) (r : Res).

  Definition upd {X} (f : nat -> X) (t : nat) (x : X) : nat -> X :=
    fun t' => if Nat.eq_dec t' t then x else f t'.

  Inductive wf_inst : (nat -> tstat) -> list iev -> Prop :=
  | wf_nil st : wf_inst st []
  | wf_inv st t o l : st t = TIdle -> wf_inst (upd st t (TInvoked o)) l -> wf_inst st (IInv t o :: l)
  | wf_lin st t o r l : st t = TInvoked o -> wf_inst (upd st t (TLinearized o r)) l -> wf_inst st (ILin t o r :: l)
  | wf_res st t o r l : st t = TLinearized o r -> wf_inst (upd st t TIdle) l -> wf_inst st (IRes t r :: l).

  (* the marked calls, in the order of their marks, are a legal sequential run *)
  Inductive legal : St -> list iev -> Prop :=
  | legal_nil s : legal s []
  | legal_inv s t o l : legal s l -> legal s (IInv t o :: l)
  | legal_res s t r l : legal s l -> legal s (IRes t r :: l)
  | legal_lin s t o r s' l : spec s o r s' -> legal s' l -> legal s (ILin t o r :: l).

  Definition linearizable (s0 : St) (h : list hev) : Prop :=
    exists i : list iev, erase i = h /\ wf_inst (fun _ => TIdle) i /\ legal s0 i.

End Lin.

Arguments HInv {Op Res}.
Arguments HRes {Op Res}.
Arguments IInv {Op Res}.
Arguments ILin {Op Res}.
Arguments IRes {Op Res}.
Arguments TIdle {Op Res}.
Arguments TInvoked {Op Res}.
Arguments TLinearized {Op Res}.
