(* C15 -- Janitor cleans up on its own, only when configured, and dies with the cache.
   The logic.  What only the runtime can supply (the ticker fires, the collector
   runs the finalizer of an unreachable wrapper, select eventually takes a ready
   case, no goroutine is leaked) is observed by the native harness native/janitor. *)
From Coq Require Import String.
From CacheV Require Import Base SpecMap Client CacheModel CacheOfModel Ops SpecTTL Janitor.
From CacheV.gen Require Import Params SrcFacts.
From CacheV.proofs Require Import C09_exp C06_seq C06_hist C08_cache C15_life.

(* started iff the configured interval is positive -- on every constructor path
   (the negative interval is normalised to 0 first) *)
Theorem C15_started_iff_new :
  forall (K V : Type) now0 opts,
    CacheModel.b_janitor (@CacheModel.New K V now0 opts)
    = (0 <? CacheModel.cfg_interval (fold_left CacheModel.apply_opt opts CacheModel.DefaultConfig)).
Proof. intros. apply new_normalised. Qed.
Print Assumptions C15_started_iff_new.

Theorem C15_started_iff_newdefault :
  forall (K V : Type) now0 dflt interval cbs,
    CacheModel.b_janitor (@CacheModel.NewDefault K V now0 dflt interval cbs) = (0 <? interval).
Proof. intros. apply newdefault_normalised. Qed.
Print Assumptions C15_started_iff_newdefault.

(* what the source says today about the goroutine and the finalizer (regenerated facts) *)
Theorem C15_source_facts :
  janitor_guard_map = "cfg.CleanupInterval > 0"%string
  /\ janitor_guard_mapof = "cfg.CleanupInterval > 0"%string
  (* a tick is a call of DeleteExpired on the inner object (callback read at that time) *)
  /\ janitor_tick_map = "c.DeleteExpired()"%string
  /\ janitor_tick_mapof = "c.DeleteExpired()"%string
  (* the goroutine references only the inner object and the config: not the wrapper *)
  /\ ~ In finalizer_target_map janitor_captures_map
  /\ ~ In finalizer_target_mapof janitor_captures_mapof
  (* the finalizer closes stop *)
  /\ finalizer_body_map = "{ close(m.stop) }"%string
  /\ finalizer_body_mapof = "{ close(m.stop) }"%string.
Proof. vm_compute. repeat split; try reflexivity; intros H; repeat (destruct H as [H|H]; [discriminate H|]); exact H. Qed.
Print Assumptions C15_source_facts.

(* a tick is a DeleteExpired pass: afterwards nothing physically present was
   expired at the instant the pass read, and exactly the removed entries were
   reported to the callback *)
Theorem C15_tick :
  forall (K V : Type) (eqd : forall a b : K, {a = b} + {a <> b}) (zero : V) (m : cstate K V),
    NoDup (keys (st_map m)) ->
    let '(m1, _, evs) := step_cache eqd zero m ODeleteExpired in
    (forall k i, lookup eqd k (st_map m1) = Some i -> expiredWithNow (st_now m) i = false)
    /\ fires evs = expected_fires eqd m ODeleteExpired.
Proof.
  intros K V eqd zero m Hnd.
  pose proof (after_delexp_all_live eqd zero m Hnd) as H1.
  pose proof (fires_step eqd zero m ODeleteExpired Hnd) as H2.
  destruct (step_cache eqd zero m ODeleteExpired) as [[m1 r] evs].
  split; [intros k i Hl; apply (proj2 H1 k i Hl) | exact H2].
Qed.
Print Assumptions C15_tick.

(* without a tick nothing is removed behind the user's back: a key's physical
   presence changes only in a call that names it, in DeleteExpired, or in Clear *)
Theorem C15_nothing_removed_otherwise :
  forall (K V : Type) (eqd : forall a b : K, {a = b} + {a <> b}) (zero : V)
         (ops : list (cop K V)) (m0 : cstate K V),
    st_map m0 = [] -> monotone ops -> everywhere eqd zero (presence_law eqd) m0 ops.
Proof. exact @presence_law_everywhere. Qed.
Print Assumptions C15_nothing_removed_otherwise.

(* lifecycle: no janitor => no pass ever; while the cache is reachable the
   janitor keeps running; once it has seen stop it does nothing more; a dropped
   cache's janitor can always still be stopped (finalize, observe) *)
Theorem C15_no_janitor_no_ticks :
  forall tr s, lrun (born false) tr = Some s -> l_ticks s = 0%nat /\ l_jan s = JNone.
Proof. exact no_janitor_no_ticks. Qed.
Print Assumptions C15_no_janitor_no_ticks.

Theorem C15_alive_while_reachable :
  forall tr s, lrun (born true) tr = Some s -> l_reachable s = true -> l_jan s = JRunning.
Proof. exact janitor_alive_while_reachable. Qed.
Print Assumptions C15_alive_while_reachable.

Theorem C15_returned_is_final :
  forall s a, l_jan s = JReturned -> a = LTick \/ a = LObserveStop -> lstep s a = None.
Proof. exact returned_is_final. Qed.
Print Assumptions C15_returned_is_final.

Theorem C15_can_always_stop :
  forall tr s, lrun (born true) tr = Some s -> l_reachable s = false ->
    exists tr' s', lrun s tr' = Some s' /\ l_jan s' = JReturned /\ (List.length tr' <= 2)%nat.
Proof. exact can_always_stop. Qed.
Print Assumptions C15_can_always_stop.
