(* C12 -- Cache and CacheOf (and Map and MapOf) are observationally identical twins. *)
From CacheV Require Import Base SpecMap Client CacheModel CacheOfModel Ops.
From CacheV Require Import TableModel.
From CacheV.proofs Require Import C12_twins C11_lists C11_table C12_maps.
From Coq Require Import NArith.

(* The model of xsync_mapof.go and the model of xsync_map.go -- two texts written
   separately, each following its own Go file -- give, for every state and every
   call, the same next state, the same result and the same events (callbacks,
   user-function invocations, visits). *)
Theorem C12_cache_twins_step :
  forall (K V : Type) (eqd : forall a b : K, {a = b} + {a <> b}) (zero : V)
         (m : cstate K V) (o : cop K V),
    step_cacheof eqd zero m o = step_cache eqd zero m o.
Proof. exact @twins_step. Qed.
Print Assumptions C12_cache_twins_step.

(* ... hence for every history: equal results, equal callback ledgers, equal
   contents and counts (the final state includes the physical map). *)
Theorem C12_cache_twins :
  forall (K V : Type) (eqd : forall a b : K, {a = b} + {a <> b}) (zero : V)
         (ops : list (cop K V)) (m : cstate K V),
    run_cacheof eqd zero m ops = run_cache eqd zero m ops.
Proof. exact @twins_run. Qed.
Print Assumptions C12_cache_twins.

(* Map and MapOf[string, interface{}] (variant false / true of the table model,
   each with its own hash function, seeds, bucket size 3 / 5, index and tag
   functions) -- and more generally any two instances, whatever their size hints
   and resize histories -- answer every call sequence alike (Range as a set) and
   end with the same contents. *)
Theorem C12_map_twins :
  forall (K V A : Type) (eqd : forall a b : K, {a = b} + {a <> b})
      (hash1 hash2 : K -> N -> N) (idx1 idx2 : N -> nat -> nat) (tag1 tag2 : N -> N) (n1 n2 : nat)
      (seeds1 seeds2 : nat -> N) (v1 v2 : bool) (g1 g2 s1 s2 : nat -> nat -> bool),
    (forall h len, (0 < len)%nat -> (idx1 h len < len)%nat) ->
    (forall h len, (0 < len)%nat -> (idx2 h len < len)%nat) ->
    forall fuel1 fuel2 (ops : list (mop K V A)) (m1 m2 : @tmap K V) a m1' m2' rs1 rs2,
      WFm hash1 idx1 tag1 n1 m1 -> meq eqd (abs n1 m1) a ->
      WFm hash2 idx2 tag2 n2 m2 -> meq eqd (abs n2 m2) a ->
      run_table eqd hash1 idx1 tag1 n1 seeds1 v1 g1 s1 fuel1 m1 ops = Some (m1', rs1) ->
      run_table eqd hash2 idx2 tag2 n2 seeds2 v2 g2 s2 fuel2 m2 ops = Some (m2', rs2) ->
      Forall2 res_equiv rs1 rs2 /\ meq eqd (abs n1 m1') (abs n2 m2').
Proof. exact @two_instances. Qed.
Print Assumptions C12_map_twins.

(* the static tie: the call budgets the translator (harness/srcfacts/skeleton.go) derives from the two
   texts of the cache layer on every run coincide, method by method *)
From CacheV.proofs Require SkelTwins.
From CacheV.gen Require SrcFacts.
Theorem C12_cache_twins_same_call_structure : SrcFacts.budgets_map = SrcFacts.budgets_mapof.
Proof. exact SkelTwins.twins_same_budgets. Qed.
Print Assumptions C12_cache_twins_same_call_structure.
