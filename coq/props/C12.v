(* C12 -- Cache and CacheOf (and Map and MapOf) are observationally identical twins. *)
From CacheV Require Import Base SpecMap Client CacheModel CacheOfModel Ops.
From CacheV.proofs Require Import C12_twins.

(* The model of xsync_mapof.go and the model of xsync_map.go -- two texts written
   separately, each following its own Go file -- give, for every state and every
   call, the same next state, the same result and the same events (callbacks,
   user-function invocations, visits). *)
Theorem C12_cache_twins_step :
  forall (K V : Type) (eqd : forall a b : K, {a = b} + {a <> b}) (zero : V)
         (m : cstate K V) (o : cop K V),
    step_cacheof eqd zero m o = step_cache eqd zero m o.
Proof. exact @twins_step. Qed.
Print Assumptions C12_cache_twins_step.

(* ... hence for every history: equal results, equal callback ledgers, equal
   contents and counts (the final state includes the physical map). *)
Theorem C12_cache_twins :
  forall (K V : Type) (eqd : forall a b : K, {a = b} + {a <> b}) (zero : V)
         (ops : list (cop K V)) (m : cstate K V),
    run_cacheof eqd zero m ops = run_cache eqd zero m ops.
Proof. exact @twins_run. Qed.
Print Assumptions C12_cache_twins.
