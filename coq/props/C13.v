(* C13 -- Every call terminates: no deadlock or lost wake-up; locks released on every return path.

   Stated on XMachine, the concurrent machine of internal/xsync/mapof.go (one
   step = one sync/atomic call, Mutex Lock/Unlock, Cond Wait/Broadcast of the
   Go code; tied to the code step by step by CORR-sched), for every hash,
   index, tag and probe function, seed stream, bucket size, grow / shrink
   policy, number of threads, client program and schedule:

     C13_locks_released     a thread that has returned holds no bucket lock and
                            not resizeMu, and has not left the resizing flag set
     C13_mutual_exclusion   a bucket lock / resizeMu has one holder at a time
     C13_no_lost_wakeup     a thread is in the wait set of resizeCond only while
                            the flag is set or the broadcast is still to come
     C13_no_deadlock        while some thread is unfinished, some thread can step
     C13_critical_sections  the holder of a bucket lock is never blocked and releases
                            it within cs_bound of its own steps (at most 6 + the
                            number of counter stripes): waiting for a bucket lock
                            is waiting for a thread that can run
     C13_instance           the hypotheses hold for the numbers of the source

   The visitor of Range and the evicted callback run outside every lock:
   PG_Unlock emits the XVisit labels in the step that releases the bucket, and
   at cache level C06_hist / C02 place EFire after the map call has returned.
   The dynamic part of the check runs the implementation under step budgets.
   Map variant (map.go, XMachineS): props/C03.v -- C03_resize_protocol (resizeMu / resizing
   flag / wait set, no lost wake-up, also for calls made from a Range visitor) and
   C03_bucket_locks (the spin lock in the top-hash word is held exactly by the thread whose
   program counter says so; mutual exclusion; a returned thread holds none).
   Termination (proofs/X_term.v): the theorems above exclude deadlock and lost wake-ups but do not
   say that a call ever returns.  C13_solo_completion: in a reachable state that is calm for t (no
   other thread holds a bucket lock, resizeMu or the resizer role, nobody waits), an idle thread
   with a next call, run alone, finishes that call within an explicit bound tbound (a function of
   the state: table length, stripes, entries), also when the call has to grow / shrink / clear the
   table itself, copy it and retry.  C13_can_always_finish: from EVERY reachable state there is a
   finite continuation after which every thread that ever ran is idle with an empty todo list -- no
   reachable state is doomed.  Both need ghyp: grow_needed len sum = true -> len < sum.  Without it
   the MODEL (whose resize policy is a parameter) has a solo writer that grows forever
   (C13_growth_hypothesis_needed: grow_needed := fun _ _ => true; deadlock freedom, no lost wake-up
   and bounded critical sections all hold for that instance): a finding about the generality of the
   model, not about the code, whose policy satisfies ghyp (C13_termination_instance).
   C13_fair_termination (proofs/X_fair.v): EVERY FAIR infinite schedule finishes every call.  An
   infinite schedule is sigma : nat -> nat; a step of a blocked or finished thread is a no-op;
   fair ths sigma := every thread of ths is scheduled infinitely often (plain weak fairness, no
   modulus, no classical axiom).  From every reachable state, for every fair sigma, some finite
   prefix leaves every thread of ths idle with nothing left to do -- whatever resizes, Clears and
   lock hand-overs happen on the way (measure: per-thread remaining steps against caps that are
   constants of the run, plus a bound SBf on the resizes that can still start, which never
   increases and drops at every won CAS on the resizing flag).  Needs ghyp as above
   (C13_fair_needs_ghyp) and that the probe returns each slot at most once (proved for the SWAR
   probe of the extracted machine: C13_fair_termination_instance).
*)
From CacheV Require Import Base SpecMap XMachine TabExec Exec XExec.
From CacheV.proofs Require Import X_basic X_inv X_c13 X_inst.
From CacheV.proofs Require X_term X_fair.
From Coq Require Import NArith.



Local Open Scope nat_scope.

Notation run K V eqd hash idx tag nslots seeds g sh probe nstripes minlen grow_only len0 todo sched :=
  (fst (@xrun K V eqd hash idx tag nslots seeds g sh probe nstripes minlen grow_only
          (xinit nslots seeds nstripes len0 todo) sched)) (only parsing).

Theorem C13_locks_released :
  forall (K V : Type) (eqd : forall a b : K, {a = b} + {a <> b}) hash idx tag nslots seeds g sh probe nstripes minlen grow_only,
    xhyps idx nstripes minlen -> forall len0 todo sched t, 0 < len0 ->
    let s := run K V eqd hash idx tag nslots seeds g sh probe nstripes minlen grow_only len0 todo sched in
    g_pc s t = PIdle ->
    (forall tab b, tab < length (g_tabs s) -> lock_of (@tab_at K V nslots nstripes s tab) b <> Some t)
    /\ g_rmu s <> Some t
    /\ (g_resizing s = true -> exists t', t' <> t /\ resizer (g_pc s t') = true).
Proof. exact @locks_released_proof. Qed.
Print Assumptions C13_locks_released.

Theorem C13_mutual_exclusion :
  forall (K V : Type) (eqd : forall a b : K, {a = b} + {a <> b}) hash idx tag nslots seeds g sh probe nstripes minlen grow_only,
    xhyps idx nstripes minlen -> forall len0 todo sched t1 t2, 0 < len0 ->
    let s := run K V eqd hash idx tag nslots seeds g sh probe nstripes minlen grow_only len0 todo sched in
    (forall tab b, holds hash idx nslots nstripes s (g_pc s t1) = Some (tab, b) ->
                   holds hash idx nslots nstripes s (g_pc s t2) = Some (tab, b) -> t1 = t2)
    /\ (holds_mu (g_pc s t1) = true -> holds_mu (g_pc s t2) = true -> t1 = t2).
Proof. exact @mutual_exclusion_proof. Qed.
Print Assumptions C13_mutual_exclusion.

Theorem C13_no_lost_wakeup :
  forall (K V : Type) (eqd : forall a b : K, {a = b} + {a <> b}) hash idx tag nslots seeds g sh probe nstripes minlen grow_only,
    xhyps idx nstripes minlen -> forall len0 todo sched t hn kt, 0 < len0 ->
    let s := run K V eqd hash idx tag nslots seeds g sh probe nstripes minlen grow_only len0 todo sched in
    g_pc s t = PT_Waiting hn kt ->
    g_resizing s = true \/ exists t' kt', g_pc s t' = PR_FinBcast kt'.
Proof. exact @no_lost_wakeup_proof. Qed.
Print Assumptions C13_no_lost_wakeup.

Theorem C13_no_deadlock :
  forall (K V : Type) (eqd : forall a b : K, {a = b} + {a <> b}) hash idx tag nslots seeds g sh probe nstripes minlen grow_only,
    xhyps idx nstripes minlen -> forall len0 todo sched t, 0 < len0 ->
    let s := run K V eqd hash idx tag nslots seeds g sh probe nstripes minlen grow_only len0 todo sched in
    ~ (g_pc s t = PIdle /\ g_todo s t = []) ->
    exists u, @enabled K V eqd hash idx tag nslots seeds g sh probe nstripes minlen grow_only s u = true.
Proof. exact @no_deadlock_proof. Qed.
Print Assumptions C13_no_deadlock.

Theorem C13_critical_sections :
  forall (K V : Type) (eqd : forall a b : K, {a = b} + {a <> b}) hash idx tag nslots seeds g sh probe nstripes minlen grow_only,
    xhyps idx nstripes minlen -> forall len0 todo sched t tab b, 0 < len0 ->
    let s := run K V eqd hash idx tag nslots seeds g sh probe nstripes minlen grow_only len0 todo sched in
    holds hash idx nslots nstripes s (g_pc s t) = Some (tab, b) ->
    exists s' ls, @step_pc K V eqd hash idx tag nslots seeds g sh probe nstripes minlen grow_only s t (g_pc s t) = Some (s', ls)
      /\ (holds hash idx nslots nstripes s' (g_pc s' t) = None
          \/ cs_bound nslots nstripes s' (g_pc s' t) < cs_bound nslots nstripes s (g_pc s t)).
Proof. exact @cs_bounded_proof. Qed.
Print Assumptions C13_critical_sections.

(* the hypotheses are met by the instance CORR-sched runs against the code *)
Theorem C13_instance : forall hint, xhyps idx_mapof nstripes_x (minlen_of_hint true hint).
Proof. exact x_instance_hyps. Qed.
Print Assumptions C13_instance.

(* non-vacuity: a concrete run of the instance in which a thread waits on the
   condition variable, so the premises above are met by a real state *)
Definition ex_run : @xstate nat nat :=
  fst (@xrun nat nat Nat.eq_dec (fun k _ => N.of_nat k) (fun h len => N.to_nat h mod len) (fun h => h) 2 (fun _ => 0%N)
             (fun _ _ => false) (fun _ _ => false) (fun _ _ => []) (fun _ => 1) 1 false
             (xinit 2 (fun _ => 0%N) (fun _ => 1) 1 (fun _ => [XClear])) [0; 0; 0; 1; 1; 1; 1; 1; 1]).

Example C13_nonvacuous :
  g_pc ex_run 1 = PT_Waiting (Some HClear) (KReturn XRUnit) /\ g_resizing ex_run = true
  /\ g_pc ex_run 0 = PR_Table HClear (KReturn XRUnit)
  /\ xhyps (fun h len => N.to_nat h mod len) (fun _ => 1) 1.
Proof.
  split; [vm_compute; reflexivity|]. split; [vm_compute; reflexivity|]. split; [vm_compute; reflexivity|].
  split; [intros h len H; apply Nat.mod_upper_bound; lia | split; [intros; lia | lia]].
Qed.
Print Assumptions C13_nonvacuous.

(* ---------------- termination ---------------- *)

Theorem C13_solo_completion :
  forall (K V : Type) (eqd : forall a b : K, {a = b} + {a <> b}) hash idx tag nslots seeds g sh probe nstripes minlen grow_only,
    xhyps idx nstripes minlen -> X_term.ghyp g -> forall len0 todo sched t o rest, 0 < len0 ->
    let xr := @xrun K V eqd hash idx tag nslots seeds g sh probe nstripes minlen grow_only in
    let s := fst (xr (xinit nslots seeds nstripes len0 todo) sched) in
    X_term.calm hash idx nslots nstripes s t -> g_pc s t = PIdle -> g_todo s t = o :: rest ->
    exists m, m <= X_term.tbound hash idx tag nslots probe nstripes s t /\
      let r := xr s (repeat t m) in
      g_pc (fst r) t = PIdle /\ g_todo (fst r) t = rest
      /\ In (XMachine.XInv t o) (snd r) /\ (exists res, In (XRes t res) (snd r))
      /\ X_term.calm hash idx nslots nstripes (fst r) t
      /\ (forall u, u <> t -> g_pc (fst r) u = g_pc s u /\ g_todo (fst r) u = g_todo s u).
Proof. exact @X_term.solo_call_proof. Qed.
Print Assumptions C13_solo_completion.

Theorem C13_can_always_finish :
  forall (K V : Type) (eqd : forall a b : K, {a = b} + {a <> b}) hash idx tag nslots seeds g sh probe nstripes minlen grow_only,
    xhyps idx nstripes minlen -> X_term.ghyp g -> forall len0 todo sched ths, 0 < len0 ->
    (forall u, In u sched -> In u ths) ->
    let xr := @xrun K V eqd hash idx tag nslots seeds g sh probe nstripes minlen grow_only in
    let s := fst (xr (xinit nslots seeds nstripes len0 todo) sched) in
    exists cont, let r := xr s cont in
      (forall t, In t ths -> g_pc (fst r) t = PIdle /\ g_todo (fst r) t = [])
      /\ (forall u, ~ In u ths -> g_pc (fst r) u = PStart /\ g_todo (fst r) u = g_todo s u).
Proof. exact @X_term.can_always_finish. Qed.
Print Assumptions C13_can_always_finish.

Theorem C13_termination_instance : X_term.ghyp grow_needed_m.
Proof. exact X_term.x_instance_ghyp. Qed.
Print Assumptions C13_termination_instance.

Definition C13_solo_nonvacuous := X_term.solo_nonvacuous.
Definition C13_can_finish_nonvacuous := X_term.can_finish_nonvacuous.
Definition C13_growth_hypothesis_needed := X_term.solo_writer_grows_forever.
Print Assumptions C13_solo_nonvacuous.
Print Assumptions C13_can_finish_nonvacuous.
Print Assumptions C13_growth_hypothesis_needed.

(* ---------------- every fair schedule finishes every call ---------------- *)

Theorem C13_fair_termination :
  forall (K V : Type) (eqd : forall a b : K, {a = b} + {a <> b}) hash idx tag nslots seeds g sh probe nstripes minlen grow_only,
    xhyps idx nstripes minlen -> X_term.ghyp g -> (forall tags tg, length (probe tags tg) <= length tags) ->
    forall len0 todo sched ths, 0 < len0 -> NoDup ths -> (forall u, ~ In u ths -> todo u = []) ->
    let s := fst (@xrun K V eqd hash idx tag nslots seeds g sh probe nstripes minlen grow_only (xinit nslots seeds nstripes len0 todo) sched) in
    forall sigma : nat -> nat,
      (forall n t, In t ths -> exists m, n <= m /\ sigma m = t) ->            (* weak fairness *)
      exists n, forall t, In t ths ->
        let s' := @X_fair.run_to K V eqd hash idx tag nslots seeds g sh probe nstripes minlen grow_only sigma n s in
        g_pc s' t = PIdle /\ g_todo s' t = [].
Proof. exact @X_fair.fair_termination. Qed.
Print Assumptions C13_fair_termination.

(* run_to is the run along the first n choices of sigma *)
Theorem C13_run_to_is_xrun :
  forall (K V : Type) (eqd : forall a b : K, {a = b} + {a <> b}) hash idx tag nslots seeds g sh probe nstripes minlen grow_only sigma n s,
    @X_fair.run_to K V eqd hash idx tag nslots seeds g sh probe nstripes minlen grow_only sigma n s
    = fst (@xrun K V eqd hash idx tag nslots seeds g sh probe nstripes minlen grow_only s (map sigma (seq 0 n))).
Proof. exact @X_fair.run_to_xrun. Qed.
Print Assumptions C13_run_to_is_xrun.

Definition C13_fair_termination_instance := X_fair.x_machine_fair_termination.
Definition C13_fair_nonvacuous := X_fair.fair_nonvacuous.
Definition C13_fair_needs_ghyp := X_fair.fair_needs_ghyp.
Definition C13_stale_grow_after_clear := X_fair.stale_grow_after_clear.
Print Assumptions C13_fair_termination_instance.
Print Assumptions C13_fair_nonvacuous.
Print Assumptions C13_fair_needs_ghyp.
Print Assumptions C13_stale_grow_after_clear.
