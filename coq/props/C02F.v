(* C02F -- C02 over the concurrent machines WITH FINAL-STATE AGREEMENT.

   C02_cache_over_mapof / C02_cache_over_map say that every run of the cache methods over the
   machines XMachine / XMachineS has a linearization w.r.t. the TTL semantics.  Here the
   linearization comes with the specification state s_fin its run ENDS in (LinF.v:
   [linearizableF s0 h sf]), and that state agrees with what is PHYSICALLY in the machine at the
   end of the run:
        C01_sim.R (mk NOW DFLT CB l) s_fin
   where l enumerates, without repeated keys, exactly the pairs visible in the machine's current
   table (MapOf: X_count.tpairs, the pairs a Range visits; Map: an association list with the
   lookups of XS_abs.sabs).  R is C01's simulation relation between the sequential cache and
   SpecTTL: same entry, or physically absent where the specification's entry has expired.
   Consequently every cache call made sequentially afterwards on that content answers what
   SpecTTL allows in s_fin, and keeps R ([C02F_sequential_call_after_final]): a deleted, cleared or
   expired value never reappears, a completed unexpired write is there; and the number Count
   answers at quiescence (props/C08X.v) is allowed by SpecTTL in s_fin
   ([C02F_count_allowed_at_final]: the hypothesis of C08X_count_answer_allowed, discharged).
   The agreement holds at EVERY reachable state of the product machine, quiescent or not: a call in
   flight that has passed its linearization store is marked in the linearization.  At a
   quiescent state every call of the history is marked.
   Scope: CX_mapof.v / CX_map.v's product machines; conc_ok calls; constant clock; from the empty
   cache; both method texts.
   Route: X_linearizable's invariant keeps "abstract map at the end of the instrumented history =
   visible content of the current table" (C02F_map.v / C02F_smap.v) -> refinement to the cache's
   map calls with related final states (C02F_trans.v) -> the atomic run with the same history ends
   with that map, the marks after the last event being executed too (C02F_compose.v) -> C02_lin's
   invariant relates the atomic run's final map to the final specification state (C02F_lin.v) ->
   assembly with the product machine's prophecy carrying the machine state (C02F_mapof.v,
   C02F_smachine.v). *)
From CacheV Require Import Base SpecMap Client CacheModel CacheOfModel Ops SpecTTL Lin LinF Conc.
From CacheV Require XMachine XMachineS.
From CacheV.proofs Require C01_sim C02_good C02_lin X_lin X_count XS_resize XS_abs CX_compose CX_product CX_mapof CX_map
  C02F_map C02F_smap C02F_trans C02F_compose C02F_lin C02F_mapof C02F_smachine.
From Coq Require Import NArith.
Import C02_good C02_lin CX_product.

Theorem C02F_cache_over_mapof_final :
  forall (K V : Type) (eqd : forall a b : K, {a = b} + {a <> b}) (zero : V) (NOW DFLT : Z) (CB : cbid)
         hash idx tag nslots seeds g sh probe nstripes minlen grow_only,
    X_lin.xhyps4 idx nstripes minlen nslots probe ->
    forall len0 (todo : nat -> list (cop K V)) sched, (0 < len0)%nat ->
    (forall t, Forall conc_ok (todo t)) ->
    let p := fst (fst (CX_mapof.cxrun eqd hash idx tag nslots seeds g sh probe nstripes minlen grow_only (prog_cache eqd zero) NOW DFLT CB
                                      (CX_mapof.cxinit nslots seeds nstripes len0 todo) sched)) in
    let tb := XMachine.tab_at nslots nstripes (p_x _ p) (XMachine.g_cur (p_x _ p)) in
    let l := X_count.tpairs tb in
    exists Lfin,
      linearizableF _ _ _ (tspec eqd zero) (mk NOW DFLT CB [])
        (CX_mapof.cxhist eqd hash idx tag nslots seeds g sh probe nstripes minlen grow_only len0 (prog_cache eqd zero) NOW DFLT CB todo sched)
        (mk NOW DFLT CB Lfin)
      /\ C01_sim.R eqd (mk NOW DFLT CB l) (mk NOW DFLT CB Lfin)
      /\ (forall k v, In (k, v) l <-> X_lin.vis hash idx tb k v) /\ NoDup (map fst l).
Proof. intros. apply C02F_mapof.cache_over_xmachine_linearizable_final; assumption. Qed.
Print Assumptions C02F_cache_over_mapof_final.

Theorem C02F_cache_over_map_final :
  forall (K V : Type) (eqd : forall a b : K, {a = b} + {a <> b}) (zero : V) (NOW DFLT : Z) (CB : cbid)
         hash idx tophash nslots seeds g sh nstripes minlen grow_only,
    @XS_resize.rhyps K hash idx tophash nslots minlen ->
    forall len0 (todo : nat -> list (cop K V)) sched, (0 < len0)%nat ->
    (forall t, Forall conc_ok (todo t)) ->
    let p := fst (fst (CX_map.csrun eqd hash idx tophash nslots seeds g sh nstripes minlen grow_only (prog_cache eqd zero) NOW DFLT CB
                                    (CX_map.csinit nslots seeds nstripes len0 todo) sched)) in
    exists Lfin mf,
      linearizableF _ _ _ (tspec eqd zero) (mk NOW DFLT CB [])
        (CX_map.cshist eqd hash idx tophash nslots seeds g sh nstripes minlen grow_only len0 (prog_cache eqd zero) NOW DFLT CB todo sched)
        (mk NOW DFLT CB Lfin)
      /\ C01_sim.R eqd (mk NOW DFLT CB mf) (mk NOW DFLT CB Lfin)
      /\ forall k v, XS_abs.sabs hash idx tophash nslots nstripes (p_x _ p) k v <-> lookup eqd k mf = Some v.
Proof. intros. apply C02F_smachine.cache_over_smachine_linearizable_final; assumption. Qed.
Print Assumptions C02F_cache_over_map_final.

(* the twin text *)
Definition C02F_cacheof_over_mapof_final := @C02F_mapof.cacheof_over_xmachine_linearizable_final.
Definition C02F_cacheof_over_map_final := @C02F_smachine.cacheof_over_smachine_linearizable_final.
Print Assumptions C02F_cacheof_over_mapof_final.
Print Assumptions C02F_cacheof_over_map_final.

(* any cache call made sequentially afterwards on the content of the table answers as SpecTTL allows in s_fin, and keeps R *)
Theorem C02F_sequential_call_after_final :
  forall (K V : Type) (eqd : forall a b : K, {a = b} + {a <> b}) (zero : V) (NOW DFLT : Z) (CB : cbid)
         hash idx tag nslots seeds g sh probe nstripes minlen grow_only,
    X_lin.xhyps4 idx nstripes minlen nslots probe ->
    forall len0 (todo : nat -> list (cop K V)) sched, (0 < len0)%nat ->
    (forall t, Forall conc_ok (todo t)) ->
    let p := fst (fst (CX_mapof.cxrun eqd hash idx tag nslots seeds g sh probe nstripes minlen grow_only (prog_cache eqd zero) NOW DFLT CB
                                      (CX_mapof.cxinit nslots seeds nstripes len0 todo) sched)) in
    let l := X_count.tpairs (XMachine.tab_at nslots nstripes (p_x _ p) (XMachine.g_cur (p_x _ p))) in
    exists Lfin,
      linearizableF _ _ _ (tspec eqd zero) (mk NOW DFLT CB [])
        (CX_mapof.cxhist eqd hash idx tag nslots seeds g sh probe nstripes minlen grow_only len0 (prog_cache eqd zero) NOW DFLT CB todo sched)
        (mk NOW DFLT CB Lfin)
      /\ forall o, match o with OAdvance dt => (0 <= dt)%Z | _ => True end ->
           let '(m', r, evs) := step_cache eqd zero (mk NOW DFLT CB l) o in
           spec_ok eqd zero (mk NOW DFLT CB Lfin) o r /\ C01_sim.R eqd m' (SpecTTL.spec_next eqd zero (mk NOW DFLT CB Lfin) o).
Proof. intros. apply C02F_mapof.sequential_call_after_final; assumption. Qed.
Print Assumptions C02F_sequential_call_after_final.

(* the number of pairs of the table -- what Count answers at quiescence (props/C08X.v) -- is allowed by SpecTTL in s_fin *)
Theorem C02F_count_allowed_at_final :
  forall (K V : Type) (eqd : forall a b : K, {a = b} + {a <> b}) (zero : V) (NOW DFLT : Z) (CB : cbid)
         hash idx tag nslots seeds g sh probe nstripes minlen grow_only,
    X_lin.xhyps4 idx nstripes minlen nslots probe ->
    forall len0 (todo : nat -> list (cop K V)) sched, (0 < len0)%nat ->
    (forall t, Forall conc_ok (todo t)) ->
    let p := fst (fst (CX_mapof.cxrun eqd hash idx tag nslots seeds g sh probe nstripes minlen grow_only (prog_cache eqd zero) NOW DFLT CB
                                      (CX_mapof.cxinit nslots seeds nstripes len0 todo) sched)) in
    let l := X_count.tpairs (XMachine.tab_at nslots nstripes (p_x _ p) (XMachine.g_cur (p_x _ p))) in
    exists Lfin,
      linearizableF _ _ _ (tspec eqd zero) (mk NOW DFLT CB [])
        (CX_mapof.cxhist eqd hash idx tag nslots seeds g sh probe nstripes minlen grow_only len0 (prog_cache eqd zero) NOW DFLT CB todo sched)
        (mk NOW DFLT CB Lfin)
      /\ spec_ok eqd zero (mk NOW DFLT CB Lfin) OCount (CNat (length l))
      /\ (length (live_keys eqd (mk NOW DFLT CB Lfin)) <= length l <= length Lfin)%nat.
Proof. intros. apply C02F_mapof.count_allowed_at_final; assumption. Qed.
Print Assumptions C02F_count_allowed_at_final.

(* the stages *)
Definition C02F_xmachine_linearizable_final := @C02F_map.xmachine_linearizable_final.
Definition C02F_smachine_linearizable_final := @C02F_smap.smachine_linearizable_final.
Definition C02F_lin_transfer_final := @C02F_trans.lin_transfer_final.
Definition C02F_compose_trace_final := @C02F_compose.compose_trace_final.
Definition C02F_atomic_linearizable_final := @C02F_lin.gen_linearizable_final.
Print Assumptions C02F_xmachine_linearizable_final.
Print Assumptions C02F_smachine_linearizable_final.
Print Assumptions C02F_compose_trace_final.
Print Assumptions C02F_atomic_linearizable_final.

(* LinF is a refinement of Lin *)
Definition C02F_final_implies_linearizable := @LinF.linearizableF_linearizable.
