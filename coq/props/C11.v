(* C11 -- Contents never depend on capacity, resize history, hash seed or bucket layout.
   Also the map-level parts of C07, C08 and C12. *)
From CacheV Require Import Base SpecMap TableModel TabExec Exec.
From CacheV.proofs Require Import C11_lists C11_table C11_idx.
From Coq Require Import NArith.

(* For EVERY hash function, seed stream, bucket size, index function (into the
   table), tag function, grow policy and shrink policy, for both variants
   (map.go / mapof.go), every initial size and every sequence of calls (whose
   grow-retry loops end within the fuel): the table model answers each call as a
   builtin map would (SpecMap), its contents are that map's, Size is its size,
   and Range's snapshot is a permutation of its pairs.  No entry is lost,
   duplicated or resurrected by a grow, a shrink or a Clear. *)
Theorem C11_layout_independent :
  forall (K V A : Type) (eqd : forall a b : K, {a = b} + {a <> b})
         (hash : K -> N -> N) (idx : N -> nat -> nat) (tag : N -> N) (nslots : nat) (seeds : nat -> N)
         (variant : bool) (grow_needed shrink_policy : nat -> nat -> bool),
    (forall h len, (0 < len)%nat -> (idx h len < len)%nat) ->
    forall fuel (ops : list (mop K V A)) (m : @tmap K V) (a : amap K V) m' rs,
      WFm hash idx tag nslots m -> meq eqd (abs nslots m) a ->
      run_table eqd hash idx tag nslots seeds variant grow_needed shrink_policy fuel m ops = Some (m', rs) ->
      let '(a', rs') := run_spec eqd a ops in
      WFm hash idx tag nslots m' /\ meq eqd (abs nslots m') a' /\ Forall2 res_equiv rs rs'.
Proof.
  intros K V A eqd hash idx tag nslots seeds variant grow_needed shrink_policy Hidx fuel ops m a m' rs.
  exact (run_refines eqd hash idx tag nslots seeds variant grow_needed shrink_policy Hidx fuel ops m a m' rs).
Qed.
Print Assumptions C11_layout_independent.

(* a freshly built map, whatever its size hint, is a well-formed empty map *)
Theorem C11_new_map :
  forall (K V : Type) (hash : K -> N -> N) (idx : N -> nat -> nat) (tag : N -> N) nslots seeds minlen,
    (0 < minlen)%nat ->
    WFm hash idx tag nslots (@new_map K V nslots seeds minlen) /\ abs nslots (@new_map K V nslots seeds minlen) = [].
Proof. intros. apply new_map_ok; auto. Qed.
Print Assumptions C11_new_map.

(* the two index functions of the source address a bucket of the table whenever
   the table length is a power of two (it always is: 32 << n, or nextPowOf2) *)
Theorem C11_source_index_functions :
  forall h n, (idx_map h (2 ^ n) < 2 ^ n)%nat /\ (idx_mapof h (2 ^ n) < 2 ^ n)%nat.
Proof. exact source_index_functions. Qed.
Print Assumptions C11_source_index_functions.

(* Non-vacuity, with the worst hash there is (constant): 7 keys in one chain of a
   2-bucket table with 3 slots per bucket, updates, deletes, a clear. *)
Example C11_example :
  let step := @table_step Z Z unit Z.eq_dec (fun _ _ => 5%N) idx_map tag_map 3 (fun g => N.of_nat g) false
                (fun len size => (len * 2 <? size)%nat) (fun len size => (size <=? 0)%nat) in
  let ops : list (mop Z Z unit) :=
    [MStore 1 10; MStore 2 20; MStore 3 30; MStore 4 40; MStore 5 50; MStore 6 60; MStore 7 70;
     MLoad 4; MDelete 2; MLoadAndDelete 9; MCompute 9 (fun _ => (0, true, tt)); MSize; MLoad 2; MClear; MSize; MLoad 7]%Z in
  match run_table Z.eq_dec (fun _ _ => 5%N) idx_map tag_map 3 (fun g => N.of_nat g) false
          (fun len size => (len * 2 <? size)%nat) (fun len size => (size <=? 0)%nat) 8
          (@new_map Z Z 3 (fun g => N.of_nat g) 2) ops with
  | Some (_, rs) => rs = snd (run_spec Z.eq_dec [] ops)
  | None => False
  end.
Proof. vm_compute. reflexivity. Qed.
Print Assumptions C11_example.
