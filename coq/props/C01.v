(* C01 -- Cache entries are visible exactly until they expire, are replaced or are removed.
   Only statements here; every proof is `exact <lemma>`. *)
From CacheV Require Import Base SpecMap Client CacheModel CacheOfModel Ops SpecTTL Exec.
From CacheV.gen Require Import Params.
From CacheV.proofs Require Import C01_sim C01_ops C01_hist C12_twins.

(* Every history of calls on Cache -- any keys, values, TTL arguments, user
   functions and visitors, any monotone clock schedule -- answers as SpecTTL
   (the view of the most recently stored items) dictates. *)
Theorem C01_cache_refines_spec :
  forall (K V : Type) (eqd : forall a b : K, {a = b} + {a <> b}) (zero : V)
         (m0 : cstate K V) (ops : list (cop K V)),
    st_map m0 = [] -> monotone ops ->
    spec_run eqd zero m0 ops (map fst (snd (run_cache eqd zero m0 ops))).
Proof. exact @cache_refines_spec. Qed.
Print Assumptions C01_cache_refines_spec.

(* The same for CacheOf (the separately written model of xsync_mapof.go). *)
Theorem C01_cacheof_refines_spec :
  forall (K V : Type) (eqd : forall a b : K, {a = b} + {a <> b}) (zero : V)
         (m0 : cstate K V) (ops : list (cop K V)),
    st_map m0 = [] -> monotone ops ->
    spec_run eqd zero m0 ops (map fst (snd (run_cacheof eqd zero m0 ops))).
Proof. exact @cacheof_refines_spec. Qed.
Print Assumptions C01_cacheof_refines_spec.

(* An expired value is never returned, cleaned up or not. *)
Theorem C01_never_returns_expired :
  forall (K V : Type) (eqd : forall a b : K, {a = b} + {a <> b}) (zero : V)
         (ops : list (cop K V)) (m0 : cstate K V) (k : K),
    st_map m0 = [] -> monotone ops ->
    let '(m, _) := run_cache eqd zero m0 ops in
    let s := fold_left (spec_next eqd zero) ops m0 in
    forall v, snd (fst (step_cache eqd zero m (OGet k))) = CVal v true ->
      exists i, lookup eqd k (st_map s) = Some i /\ iv i = v /\ expiredWithNow (st_now s) i = false.
Proof. exact @never_returns_expired. Qed.
Print Assumptions C01_never_returns_expired.

(* DeleteExpired, lazy deletion on read, traversals and Count change no view. *)
Theorem C01_cleanup_changes_no_view :
  forall (K V : Type) (eqd : forall a b : K, {a = b} + {a <> b}) (zero : V) (s : cstate K V) (o : cop K V),
    match o with
    | ODeleteExpired | OGet _ | OGetWithExpiration _ | OGetWithTTL _ | ORange _ _ | OItems _ | OCount => True
    | _ => False
    end -> spec_next eqd zero s o = s.
Proof. exact @cleanup_changes_no_view. Qed.
Print Assumptions C01_cleanup_changes_no_view.

(* Non-vacuity: a history that sits exactly on an expiry instant, then one tick
   later, touching the expired entry first with GetAndDelete. *)
Example C01_example :
  let m0 := {| st_map := []; st_now := 1000; st_dflt := NoExpiration; st_cb := None |} in
  let ops : list (cop Z Z) :=
    [OSet 1 7 5; OAdvance 5; OGet 1; OAdvance 1; OGet 1; OCount; OGetAndDelete 1; OCount] in
  monotone ops /\
  map fst (snd (run_cache zeqd (-1) m0 ops)) =
    [CUnit; CUnit; CVal 7 true; CUnit; CVal (-1) false; CNat 0; CVal (-1) false; CNat 0].
Proof. split; [repeat constructor; cbn; lia | vm_compute; reflexivity]. Qed.
Print Assumptions C01_example.
