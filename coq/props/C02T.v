(* C02T -- C02 with a clock that ADVANCES DURING the concurrent run.

   Machine (ConcT.v): Conc.v's machine (the cache methods of CacheModel.v /
   CacheOfModel.v run by any number of threads over ONE shared atomic map, a
   scheduling step = one map call / one read of the clock or of a setting / one
   callback / an invocation / a response; CSnapshot answered by an arbitrary
   oracle) with the clock in the configuration and one more scheduler move,
   [MTick dt] (0 <= dt).  ReadNow reads the current clock; a closure sees the
   clock of the instant of its (atomic) map call.  DFLT and CB constant.

   Notion (LinT.v): interval-timestamped linearizability.  Marks as in Lin.v; the
   specification state carries the clock, ticks of the history advance it; a call
   marked at clock c, invoked at c_inv and answering at c_res sees SpecTTL's state
   at clock c, except for ONE timestamp tau of its own interval:
     Set / SetDefault / SetForever   c_inv <= tau <= c    expiry instant armed from tau
     GetWithTTL                      c <= tau <= c_res    lifetime reported = ie - tau
     GetAndDelete                    c <= tau <= c_res    "expired" of the REMOVED entry judged at tau
     all other calls                 tau = c.
   The GetAndDelete line is a weakening FORCED by a counterexample
   ([C02T_getanddelete_refuted]): the method removes the entry and reads the
   clock afterwards.

   Calls: C02's list (C02_good.conc_ok): Set*, Get*, GetOr*, GetAnd*, Compute,
   Delete, GetAndDelete, DeleteExpired, Clear.  Start: any physical map related by
   C01's R to a specification state at the initial clock. *)
From CacheV Require Import Base SpecMap Client CacheModel CacheOfModel Ops SpecTTL Lin LinT Conc ConcT.
From CacheV.proofs Require Import C01_sim C02_good C02_lin LinT_facts LinT_tests C02T_good C02T_methods C02T_lin C02T_main C02T_methods_of C02T_ex.

Theorem C02T_cache_linearizable_ticking :
  forall (K V : Type) (eqd : forall a b : K, {a = b} + {a <> b}) (zero : V) (DFLT : Z) (CB : cbid)
         (now0 : Z) (P0 L0 : amap K (item V)) (todo : nat -> list (cop K V)) (sched : list (@move K V)),
    Rm eqd now0 DFLT CB P0 L0 ->
    (forall t, Forall conc_ok (todo t)) ->
    cache_linearizableT eqd zero (mk now0 DFLT CB L0)
      (historyT (snd (trun eqd (prog_cache eqd zero) DFLT CB (tinit now0 P0 todo) sched))).
Proof. exact @cache_linearizable_ticking. Qed.
Print Assumptions C02T_cache_linearizable_ticking.

Theorem C02T_cacheof_linearizable_ticking :
  forall (K V : Type) (eqd : forall a b : K, {a = b} + {a <> b}) (zero : V) (DFLT : Z) (CB : cbid)
         (now0 : Z) (P0 L0 : amap K (item V)) (todo : nat -> list (cop K V)) (sched : list (@move K V)),
    Rm eqd now0 DFLT CB P0 L0 ->
    (forall t, Forall conc_ok (todo t)) ->
    cache_linearizableT eqd zero (mk now0 DFLT CB L0)
      (historyT (snd (trun eqd (prog_cacheof eqd zero) DFLT CB (tinit now0 P0 todo) sched))).
Proof. exact @cacheof_linearizable_ticking. Qed.
Print Assumptions C02T_cacheof_linearizable_ticking.

(* the empty cache is a starting point *)
Theorem C02T_start_empty :
  forall (K V : Type) (eqd : forall a b : K, {a = b} + {a <> b}) (DFLT : Z) (CB : cbid) (now0 : Z),
    @Rm K V eqd now0 DFLT CB [] [].
Proof. intros. apply start_empty_ticking. Qed.

(* C05 / C06 per-thread monitors (C02_lin.mon_step) on the Conc.v labels of the trace, under ticks *)
Theorem C02T_cache_monitored_ticking :
  forall (K V : Type) (eqd : forall a b : K, {a = b} + {a <> b}) (zero : V) (DFLT : Z) (CB : cbid)
         (now0 : Z) (P0 L0 : amap K (item V)) (todo : nat -> list (cop K V)) (sched : list (@move K V)) (t : nat),
    Rm eqd now0 DFLT CB P0 L0 ->
    (forall t, Forall conc_ok (todo t)) ->
    mon_accepts CB t mon_idle (untick (snd (trun eqd (prog_cache eqd zero) DFLT CB (tinit now0 P0 todo) sched))).
Proof. exact @cache_monitored_ticking. Qed.
Print Assumptions C02T_cache_monitored_ticking.

Theorem C02T_cacheof_monitored_ticking :
  forall (K V : Type) (eqd : forall a b : K, {a = b} + {a <> b}) (zero : V) (DFLT : Z) (CB : cbid)
         (now0 : Z) (P0 L0 : amap K (item V)) (todo : nat -> list (cop K V)) (sched : list (@move K V)) (t : nat),
    Rm eqd now0 DFLT CB P0 L0 ->
    (forall t, Forall conc_ok (todo t)) ->
    mon_accepts CB t mon_idle (untick (snd (trun eqd (prog_cacheof eqd zero) DFLT CB (tinit now0 P0 todo) sched))).
Proof. exact @cacheof_monitored_ticking. Qed.
Print Assumptions C02T_cacheof_monitored_ticking.

(* the new notion is a conservative generalisation of Lin.v's *)
Theorem C02T_conservative :
  forall (K V : Type) (eqd : forall a b : K, {a = b} + {a <> b}) (zero : V) (s0 : cstate K V)
         (h : list (@hev (cop K V) (cres K V))),
    hist_no_adv h ->
    (cache_linearizableT eqd zero s0 (embed _ _ h) <-> linearizable _ _ _ (tspec eqd zero) s0 h).
Proof. exact @linearizableT_conservative. Qed.
Print Assumptions C02T_conservative.

(* the statement as first written (GetAndDelete exact at the clock of its mark) is FALSE of the model *)
Definition C02T_getanddelete_run := getanddelete_run.
Definition C02T_getanddelete_refuted := getanddelete_refuted.
Definition C02T_getanddelete_weak := getanddelete_weak.
Print Assumptions C02T_getanddelete_refuted.

(* non-vacuity: two threads, four ticks inside calls *)
Definition C02T_nonvacuous_run := ticking_run.
Definition C02T_nonvacuous := ticking_run_linearizable.
Definition C02T_nonvacuous_twin := ticking_run_twin.
Print Assumptions C02T_nonvacuous.

(* the weakening is confined to GetAndDelete: where it is not called, the statement as first written holds *)
Theorem C02T_strict_without_getanddelete :
  forall (K V : Type) (eqd : forall a b : K, {a = b} + {a <> b}) (zero : V) (DFLT : Z) (CB : cbid)
         (now0 : Z) (P0 L0 : amap K (item V)) (todo : nat -> list (cop K V)) (sched : list (@move K V)),
    Rm eqd now0 DFLT CB P0 L0 ->
    (forall t, Forall conc_ok (todo t)) ->
    (forall t o, In (HTInv t o) (historyT (snd (trun eqd (prog_cache eqd zero) DFLT CB (tinit now0 P0 todo) sched))) -> not_gad o) ->
    cache_linearizableT_strict eqd zero (mk now0 DFLT CB L0)
      (historyT (snd (trun eqd (prog_cache eqd zero) DFLT CB (tinit now0 P0 todo) sched))).
Proof.
  intros. apply linearizableT_strict_without_getanddelete; [assumption|]. apply cache_linearizable_ticking; assumption.
Qed.
Print Assumptions C02T_strict_without_getanddelete.
