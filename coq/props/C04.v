(* C04 -- MapOf (generic keys) is linearizable, also across grow, shrink and Clear.

   What is proved, on XMachine (the concurrent machine of mapof.go; one step =
   one atomic / lock / condition-variable operation of the Go code; replayed
   step by step against the real code by CORR-sched), for every key type with
   decidable equality, every hash function -- also one under which all keys
   collide in bucket index and tag --, seeds, policies, thread count, client
   program and schedule:
     C04_protocol      the locking / resize protocol invariant XInv holds in every
                       reachable state
     C04_cells         (XC) in every reachable state every published chain is a
                       whole number of buckets and holds each key at most once;
                       every slot is free, completely written -- in its key's
                       home chain, under its key's tag -- or in the middle of the
                       two-store insert / delete of the thread that holds the
                       bucket lock; every writer's program counter tells the
                       truth about its locked chain (what the locked search found,
                       which slot it is writing); the resizer's unpublished table
                       is clean and holds only keys of the buckets copied so far
     C04_vis_functional  what a lock-free reader can find in a published table
                       ([vis]: meta byte set and entry pointer set, in the key's
                       home chain) is a partial map: no key has two values
     C04_vis_step      (refinement step) one step of any thread changes [vis] of a
                       published table exactly as [lin_effect] of its program
                       counter says: the entry-pointer store of an update, of an
                       insert (after the meta store) or the link of a new bucket
                       binds the writer's key to its new value, the meta store of
                       a delete unbinds it, and NOTHING else changes anything --
                       no other key, no other table, no other kind of step
                       (locks, counters, resize copy into the unpublished table,
                       readers).  Hence a completed write is never lost and a
                       deleted key never reappears through another thread's steps,
                       for colliding keys as for any others.
     C04_sequential    run one call at a time, the table layer answers as a
                       builtin map for every hash, seed and policy (C11)
   Under the hypotheses [xhyps4]: index function in range, at least one slot per
   bucket, and the probe visits every slot carrying the tag and never a slot
   marked empty.  C04_instance: they hold for the extracted machine that
   CORR-sched replays against the code -- in particular for the SWAR byte search
   of util.go (markZeroBytes on the packed meta word; proofs/X_swar.v: a zero
   byte is always marked whatever the borrow from the bytes below, a byte with
   its top bit set never).
     C04_abs_step      (the abstract map, [abs] = what a reader loading m.table now
                       can find) every step of every thread from every reachable
                       state changes [abs] in exactly one of these ways:
                         - the linearization store of a writer working on the
                           CURRENT table updates / removes that writer's key;
                         - the store that publishes the new table of a grow or a
                           shrink leaves [abs] as it is -- nothing lost, nothing
                           resurrected, although writers were active on buckets
                           not yet copied (XR: the unpublished table holds what is
                           visible in the buckets copied so far; no writer is past
                           its post-lock checks on a copied bucket);
                         - the store that publishes the table of a Clear empties it;
                         - every other step (and every store into a table that is
                           no longer current) leaves [abs] unchanged.
     C04_clear_kt      [clear_kt kt] (the continuation is "return from Clear")
                       identifies the resizes that are Clears.
     C04_writer_atomic (proofs/X_atomic.v) every reachable state, every writer standing
                       before its linearization store on the CURRENT table: the abstract
                       map holds for its key exactly the value the writer found under the
                       lock (or nothing, if it found nothing), the update it is about to
                       publish is the user function applied to THAT value, and the store
                       changes the abstract map by exactly that update.  This is the
                       per-call content of linearizability for writers (and of C05's
                       "atomic per key").
     C04_load_hit      (proofs/X_loadhit.v) readers: while a thread stays inside one
                       lookup of key k in table tab, if its next step returns the value
                       v then the pair (k, v) was VISIBLE in that table (meta byte and
                       entry pointer both stored: a completely written pair under k) in
                       some state of the run since the lookup loaded its first meta
                       word -- also when the reader finds the entry of a slot whose
                       meta byte a delete has cleared meanwhile: the pair was visible
                       just before that store.  So a lookup never returns a value
                       stored under another key, a mix of two writes, or a pair that
                       was deleted before the lookup began.
     C04_load_no_miss  the other half: from the state in which the lookup is about to load
                       the first meta word of the chain, as long as the thread stays
                       inside the lookup and k is visible in table tab in every state
                       of the run, its next step is not a miss -- whatever the others do
                       to the other slots of the chain meanwhile (the visible slot of a
                       key does not move while the key stays visible: kpos_xstep).
     C04_load_miss     ... equivalently (visibility is decidable): a lookup that misses is
                       justified by a state of the run in which k was NOT visible in the
                       table -- "a completed write is never lost" as seen by readers.
     C04_linearizable  (proofs/X_stale.v, X_linpoints.v, X_linearizable.v) THE HISTORY-LEVEL THEOREM:
                       every run of XMachine whose calls are Load, Compute (i.e. Store,
                       LoadOrStore, LoadAndStore, LoadOrCompute, Compute, LoadAndDelete,
                       Delete: all are doCompute with a function and two flags) and Clear --
                       any number of threads, any schedule, any hash function, seeds and
                       resize policies -- is linearizable (Lin.v) with respect to an ordinary
                       map K -> option V whose operations answer and update as xspec says,
                       across grow, shrink and Clear.  The proof is a forward invariant that
                       carries the instrumented history split by table generation and inserts
                       marks INTO ITS PAST: a writer is marked at the end of the body of its
                       table's generation (the end of the history if that table is current,
                       just before the Clear's mark if the writer was overtaken by a Clear);
                       a Clear takes effect at its publish store; a reader is marked when it
                       returns, at a cut in the past at which the abstract map justified its
                       answer (C04_load_hit / C04_load_miss give the cut).  False of the
                       model, each with a vm_compute'd schedule in X_linearizable.v: "a
                       reader's linearization point is one of its own steps", "writers are
                       linearized in the order of their linearization stores also relative to
                       Clear", "no thread is past resizeInProgress() on a replaced table".
                       Size and Range are not linearizable operations of this map and are
                       excluded (okop); they are C08 and C07.
     C04_stale_frozen  after the publish of a grow or shrink nobody is ever again past its
                       checks on the replaced table and what it shows never changes again.
   *)
From CacheV Require Import Base SpecMap TableModel XMachine TabExec Exec XExec Lin.
From CacheV.proofs Require Import C11_lists C11_table C11_idx X_basic X_inv X_c13 X_inst X_own X_chain X_c04 X_lin X_resize X_swar X_atomic X_range X_loadhit.
From CacheV.proofs Require X_stale X_linpoints X_linearizable X_linearizable2.
From Coq Require Import NArith.
Local Open Scope nat_scope.

Theorem C04_protocol :
  forall (K V : Type) (eqd : forall a b : K, {a = b} + {a <> b}) hash idx tag nslots seeds g sh probe nstripes minlen grow_only,
    xhyps idx nstripes minlen -> forall len0 todo sched, 0 < len0 ->
    X_inv.XInv hash idx nslots nstripes
      (fst (@xrun K V eqd hash idx tag nslots seeds g sh probe nstripes minlen grow_only (xinit nslots seeds nstripes len0 todo) sched)).
Proof. exact @protocol_proof. Qed.
Print Assumptions C04_protocol.

Theorem C04_sequential :
  forall (K V A : Type) (eqd : forall a b : K, {a = b} + {a <> b})
         (hash : K -> N -> N) (idx : N -> nat -> nat) (tag : N -> N) (nslots : nat) (seeds : nat -> N)
         (grow_needed shrink_policy : nat -> nat -> bool),
    (forall h len, (0 < len)%nat -> (idx h len < len)%nat) ->
    forall fuel (ops : list (mop K V A)) (m : @tmap K V) (a : amap K V) m' rs,
      WFm hash idx tag nslots m -> meq eqd (C11_table.abs nslots m) a ->
      run_table eqd hash idx tag nslots seeds true grow_needed shrink_policy fuel m ops = Some (m', rs) ->
      let '(a', rs') := run_spec eqd a ops in
      WFm hash idx tag nslots m' /\ meq eqd (C11_table.abs nslots m') a' /\ Forall2 res_equiv rs rs'.
Proof.
  intros K V A eqd hash idx tag nslots seeds grow_needed shrink_policy Hidx fuel ops m a m' rs.
  exact (run_refines eqd hash idx tag nslots seeds true grow_needed shrink_policy Hidx fuel ops m a m' rs).
Qed.
Print Assumptions C04_sequential.

Theorem C04_cells :
  forall (K V : Type) (eqd : forall a b : K, {a = b} + {a <> b}) hash idx tag nslots seeds g sh probe nstripes minlen grow_only,
    xhyps4 idx nstripes minlen nslots probe -> forall len0 todo sched, 0 < len0 ->
    X_c04.XC hash idx tag nslots nstripes
      (fst (@xrun K V eqd hash idx tag nslots seeds g sh probe nstripes minlen grow_only (xinit nslots seeds nstripes len0 todo) sched)).
Proof. exact @cells_proof. Qed.
Print Assumptions C04_cells.

Theorem C04_vis_step :
  forall (K V : Type) (eqd : forall a b : K, {a = b} + {a <> b}) hash idx tag nslots seeds g sh probe nstripes minlen grow_only,
    xhyps4 idx nstripes minlen nslots probe -> forall len0 todo sched t s' ls tab k v, 0 < len0 ->
    let s := fst (@xrun K V eqd hash idx tag nslots seeds g sh probe nstripes minlen grow_only (xinit nslots seeds nstripes len0 todo) sched) in
    @xstep K V eqd hash idx tag nslots seeds g sh probe nstripes minlen grow_only s t = Some (s', ls) ->
    tab < length (g_tabs s) -> (forall u, newtab (g_pc s u) <> Some tab) ->
    (vis hash idx (@tab_at K V nslots nstripes s' tab) k v
     <-> upd_rel (vis hash idx (@tab_at K V nslots nstripes s tab)) (lin_effect (g_pc s t) tab) k v).
Proof. exact @vis_step_proof. Qed.
Print Assumptions C04_vis_step.

(* the old value a writer will report (LoadAndStore, Compute, LoadAndDelete) -- or the absence that makes
   its insert an insert -- is what readers can see at the moment of its linearization store *)
Theorem C04_writer_sees_vis :
  forall (K V : Type) (eqd : forall a b : K, {a = b} + {a <> b}) hash idx tag nslots seeds g sh probe nstripes minlen grow_only,
    xhyps4 idx nstripes minlen nslots probe -> forall len0 todo sched t, 0 < len0 ->
    let s := fst (@xrun K V eqd hash idx tag nslots seeds g sh probe nstripes minlen grow_only (xinit nslots seeds nstripes len0 todo) sched) in
    match g_pc s t with
    | PW_U1 cx tab _ old _ | PW_D1 cx tab _ old => vis hash idx (@tab_at K V nslots nstripes s tab) (cx_k cx) old
    | PW_I1 cx tab _ _ | PW_I2 cx tab _ _ | PW_N1 cx tab _ | PW_Sum cx tab _ _ =>
        forall v, ~ vis hash idx (@tab_at K V nslots nstripes s tab) (cx_k cx) v
    | _ => True
    end.
Proof. exact @writer_sees_vis_proof. Qed.
Print Assumptions C04_writer_sees_vis.

Theorem C04_vis_functional :
  forall (K V : Type) (eqd : forall a b : K, {a = b} + {a <> b}) hash idx tag nslots seeds g sh probe nstripes minlen grow_only,
    xhyps4 idx nstripes minlen nslots probe -> forall len0 todo sched tab k v1 v2, 0 < len0 ->
    let s := fst (@xrun K V eqd hash idx tag nslots seeds g sh probe nstripes minlen grow_only (xinit nslots seeds nstripes len0 todo) sched) in
    tab < length (g_tabs s) -> (forall u, newtab (g_pc s u) <> Some tab) ->
    vis hash idx (@tab_at K V nslots nstripes s tab) k v1 -> vis hash idx (@tab_at K V nslots nstripes s tab) k v2 -> v1 = v2.
Proof. exact @vis_functional_proof. Qed.
Print Assumptions C04_vis_functional.

Theorem C04_abs_step :
  forall (K V : Type) (eqd : forall a b : K, {a = b} + {a <> b}) hash idx tag nslots seeds g sh probe nstripes minlen grow_only,
    xhyps4 idx nstripes minlen nslots probe -> forall len0 todo sched t s' ls, 0 < len0 ->
    let s := fst (@xrun K V eqd hash idx tag nslots seeds g sh probe nstripes minlen grow_only (xinit nslots seeds nstripes len0 todo) sched) in
    @xstep K V eqd hash idx tag nslots seeds g sh probe nstripes minlen grow_only s t = Some (s', ls) ->
    match g_pc s t with
    | PR_Publish kt new =>
        (clear_kt kt /\ forall k v, ~ X_resize.abs hash idx nslots nstripes s' k v)
        \/ (~ clear_kt kt /\ forall k v, X_resize.abs hash idx nslots nstripes s' k v <-> X_resize.abs hash idx nslots nstripes s k v)
    | p => forall k v, X_resize.abs hash idx nslots nstripes s' k v <-> upd_rel (X_resize.abs hash idx nslots nstripes s) (lin_effect p (g_cur s)) k v
    end.
Proof. exact @abs_step_proof. Qed.
Print Assumptions C04_abs_step.

Theorem C04_clear_kt :
  forall (K V : Type) (eqd : forall a b : K, {a = b} + {a <> b}) hash idx tag nslots seeds g sh probe nstripes minlen grow_only,
    xhyps4 idx nstripes minlen nslots probe -> forall len0 todo sched t, 0 < len0 ->
    hint_ok (g_pc (fst (@xrun K V eqd hash idx tag nslots seeds g sh probe nstripes minlen grow_only (xinit nslots seeds nstripes len0 todo) sched)) t).
Proof. exact @clear_kt_proof. Qed.
Print Assumptions C04_clear_kt.

Theorem C04_writer_atomic :
  forall (K V : Type) (eqd : forall a b : K, {a = b} + {a <> b}) hash idx tag nslots seeds g sh probe nstripes minlen grow_only,
    xhyps4 idx nstripes minlen nslots probe -> forall len0 todo sched t k nw s' ls, (0 < len0)%nat ->
    let s := fst (@xrun K V eqd hash idx tag nslots seeds g sh probe nstripes minlen grow_only (xinit nslots seeds nstripes len0 todo) sched) in
    lin_effect (g_pc s t) (g_cur s) = Some (k, nw) ->
    @xstep K V eqd hash idx tag nslots seeds g sh probe nstripes minlen grow_only s t = Some (s', ls) ->
    exists cx old, cx_k cx = k /\ abs_is hash idx nslots nstripes s k old /\ cx_f cx old = nw
                   /\ (forall k' v, X_resize.abs hash idx nslots nstripes s' k' v
                                    <-> upd_rel (X_resize.abs hash idx nslots nstripes s) (Some (k, nw)) k' v).
Proof. exact @writer_atomic_proof. Qed.
Print Assumptions C04_writer_atomic.

Theorem C04_load_hit :
  forall (K V : Type) (eqd : forall a b : K, {a = b} + {a <> b}) hash idx tag nslots seeds g sh probe nstripes minlen grow_only,
    xhyps4 idx nstripes minlen nslots probe -> forall len0 todo sched0 sched t k lc tab v s2 ls2, (0 < len0)%nat ->
    let xr := @xrun K V eqd hash idx tag nslots seeds g sh probe nstripes minlen grow_only in
    let s := fst (xr (xinit nslots seeds nstripes len0 todo) sched0) in
    (* in every state of the run t is inside the lookup of k in table tab (which is published) *)
    along eqd hash idx tag nslots seeds g sh probe nstripes minlen grow_only (inlookup hash nslots nstripes t k lc tab) s sched ->
    (match g_pc s t with PL_Ent _ _ _ _ _ _ => False | _ => True end) ->
    @xstep K V eqd hash idx tag nslots seeds g sh probe nstripes minlen grow_only (fst (xr s sched)) t = Some (s2, ls2) ->
    (exists l, In l ls2 /\ hit t v l) ->
    ever eqd hash idx tag nslots seeds g sh probe nstripes minlen grow_only
         (fun s' => vis hash idx (tab_at nslots nstripes s' tab) k v) s sched.
Proof. exact @load_hit_proof. Qed.
Print Assumptions C04_load_hit.

Theorem C04_load_no_miss :
  forall (K V : Type) (eqd : forall a b : K, {a = b} + {a <> b}) hash idx tag nslots seeds g sh probe nstripes minlen grow_only,
    xhyps4 idx nstripes minlen nslots probe -> forall len0 todo sched0 sched t k lc tab s2 ls2, (0 < len0)%nat ->
    let xr := @xrun K V eqd hash idx tag nslots seeds g sh probe nstripes minlen grow_only in
    let s := fst (xr (xinit nslots seeds nstripes len0 todo) sched0) in
    (* in every state of the run t is inside the lookup of k in table tab, and k is visible in that table *)
    along eqd hash idx tag nslots seeds g sh probe nstripes minlen grow_only (stays hash idx nslots nstripes t k lc tab) s sched ->
    (exists k' lc' tab' h, g_pc s t = PL_Meta k' lc' tab' h 0) ->
    @xstep K V eqd hash idx tag nslots seeds g sh probe nstripes minlen grow_only (fst (xr s sched)) t = Some (s2, ls2) ->
    ~ In (XRes t (XRVal None false)) ls2 /\ (forall cx, g_pc s2 t <> PW_Table cx).
Proof. exact @load_no_miss_proof. Qed.
Print Assumptions C04_load_no_miss.

Theorem C04_load_miss :
  forall (K V : Type) (eqd : forall a b : K, {a = b} + {a <> b}) hash idx tag nslots seeds g sh probe nstripes minlen grow_only,
    xhyps4 idx nstripes minlen nslots probe -> forall len0 todo sched0 sched t k lc tab s2 ls2, (0 < len0)%nat ->
    let xr := @xrun K V eqd hash idx tag nslots seeds g sh probe nstripes minlen grow_only in
    let s := fst (xr (xinit nslots seeds nstripes len0 todo) sched0) in
    along eqd hash idx tag nslots seeds g sh probe nstripes minlen grow_only (inlookup hash nslots nstripes t k lc tab) s sched ->
    (exists k' lc' tab' h, g_pc s t = PL_Meta k' lc' tab' h 0) ->
    @xstep K V eqd hash idx tag nslots seeds g sh probe nstripes minlen grow_only (fst (xr s sched)) t = Some (s2, ls2) ->
    (In (XRes t (XRVal None false)) ls2 \/ exists cx, g_pc s2 t = PW_Table cx) ->
    ever eqd hash idx tag nslots seeds g sh probe nstripes minlen grow_only
         (fun s' => forall q, ~ kpos hash idx nslots nstripes k tab s' q) s sched.
Proof. exact @load_miss_proof. Qed.
Print Assumptions C04_load_miss.

Theorem C04_linearizable :
  forall (K V : Type) (eqd : forall a b : K, {a = b} + {a <> b}) hash idx tag nslots seeds g sh probe nstripes minlen grow_only,
    xhyps4 idx nstripes minlen nslots probe -> forall len0 todo sched, (0 < len0)%nat ->
    (forall t, Forall X_linpoints.okop (todo t)) ->
    linearizable (@xop K V) (@xres K V) (X_linpoints.amap K V) (X_linpoints.xspec eqd) X_linpoints.aempty
      (X_linpoints.xhist (snd (@xrun K V eqd hash idx tag nslots seeds g sh probe nstripes minlen grow_only (xinit nslots seeds nstripes len0 todo) sched))).
Proof. exact @X_linearizable.xmachine_linearizable_proof. Qed.
Print Assumptions C04_linearizable.

(* ... and for the extracted machine that CORR-sched replays against mapof.go *)
Theorem C04_linearizable_instance :
  forall (o : oracle) (sds : list N) (hint : Z) (todo : nat -> list xop_z) sched,
    (forall t, Forall X_linpoints.okop (todo t)) ->
    linearizable xop_z (@xres Z Z) (X_linpoints.amap Z Z) (X_linpoints.xspec zeqd) X_linpoints.aempty
      (X_linpoints.xhist (snd (@xrun Z Z zeqd (hash_of o) idx_mapof tag_mapof (Z.to_nat Params.entriesPerMapOfBucket) (seeds_of sds)
                         grow_needed_m shrink_policy_m probe_x nstripes_x (minlen_of_hint true hint) false
                         (x_machine_init sds hint todo) sched))).
Proof. exact X_linearizable.xmachine_linearizable_instance. Qed.
Print Assumptions C04_linearizable_instance.

(* ... with Range and Size calls allowed in the todo lists (no hypothesis on them at all) and dropped from the history *)
Theorem C04_linearizable_any_calls :
  forall (K V : Type) (eqd : forall a b : K, {a = b} + {a <> b}) hash idx tag nslots seeds g sh probe nstripes minlen grow_only,
    xhyps4 idx nstripes minlen nslots probe -> forall len0 todo sched, (0 < len0)%nat ->
    linearizable (@xop K V) (@xres K V) (X_linpoints.amap K V) (X_linpoints.xspec eqd) X_linpoints.aempty
      (X_linearizable2.hkeep (fun _ => false)
         (X_linpoints.xhist (snd (@xrun K V eqd hash idx tag nslots seeds g sh probe nstripes minlen grow_only (xinit nslots seeds nstripes len0 todo) sched)))).
Proof. exact @X_linearizable2.xmachine_linearizable2_proof. Qed.
Print Assumptions C04_linearizable_any_calls.

Theorem C04_stale_frozen :
  forall (K V : Type) (eqd : forall a b : K, {a = b} + {a <> b}) hash idx tag nslots seeds g sh probe nstripes minlen grow_only,
    xhyps4 idx nstripes minlen nslots probe -> forall len0 todo sched0 t kt new s1 ls sched, (0 < len0)%nat ->
    let s := fst (@xrun K V eqd hash idx tag nslots seeds g sh probe nstripes minlen grow_only (xinit nslots seeds nstripes len0 todo) sched0) in
    g_pc s t = PR_Publish kt new -> ~ clear_kt kt ->
    @xstep K V eqd hash idx tag nslots seeds g sh probe nstripes minlen grow_only s t = Some (s1, ls) ->
    g_cur s1 = S (g_cur s) /\
    along eqd hash idx tag nslots seeds g sh probe nstripes minlen grow_only
          (fun s' => (forall u, wtab (g_pc s' u) <> Some (g_cur s))
                     /\ forall k v, vis hash idx (tab_at nslots nstripes s' (g_cur s)) k v <-> X_resize.abs hash idx nslots nstripes s k v) s1 sched.
Proof. exact @X_stale.stale_grow_frozen_proof. Qed.
Print Assumptions C04_stale_frozen.

Theorem C04_instance :
  forall hint, xhyps4 idx_mapof nstripes_x (minlen_of_hint true hint) (Z.to_nat Params.entriesPerMapOfBucket) probe_x.
Proof. exact x_instance_hyps4. Qed.
Print Assumptions C04_instance.

(* the Go SWAR search itself, on the inputs the Go code is given *)
Theorem C04_swar :
  forall tags tg i, tags_ok tags -> (tg < 128)%N -> (length tags <= 5)%nat ->
    (In i (probe_swar tags tg) -> (i < length tags)%nat /\ nth i tags None <> None)
    /\ ((i < length tags)%nat -> nth i tags None = Some tg -> In i (probe_swar tags tg)).
Proof.
  intros tags tg i H1 H2 H3. split; [apply probe_swar_sound; assumption | apply probe_swar_complete; assumption].
Qed.
Print Assumptions C04_swar.

(* non-vacuity: all keys collide (constant hash); thread 0 has stored the meta byte
   of its insert and is about to store the entry pointer: lin_effect binds key 7 *)
Definition ex_run04 : @xstate nat nat :=
  fst (@xrun nat nat Nat.eq_dec (fun _ _ => 5%N) (fun h len => N.to_nat h mod len) (fun h => h) 2 (fun _ => 0%N)
             (fun _ _ => false) (fun _ _ => false) (fun tags tg => filter (fun i => match nth i tags None with Some t => N.eqb t tg | None => false end) (seq 0 (length tags)))
             (fun _ => 1) 1 false
             (xinit 2 (fun _ => 0%N) (fun _ => 1) 1 (fun t => if Nat.eqb t 0 then [XCompute 7 (fun _ => Some 1) false false false] else [XLoad 7]))
             [0; 0; 0; 0; 0; 0; 1; 1]).
Example C04_nonvacuous :
  lin_effect (g_pc ex_run04 0) 0 = Some (7, Some 1) /\ g_cur ex_run04 = 0 /\ (exists k lc h bi, g_pc ex_run04 1 = PL_Meta k lc 0 h bi).
Proof. split; [vm_compute; reflexivity | split; [vm_compute; reflexivity | do 4 eexists; vm_compute; reflexivity]]. Qed.
Print Assumptions C04_nonvacuous.

(* non-vacuity for C04_load_hit: key 7 is stored; thread 1 looks it up and has loaded the meta word
   (it stands at PL_Ent with slot 0 in its list); thread 0 then clears the meta byte (first store of its
   delete); the reader's next step still returns 1 -- the pair was visible when the meta word was loaded *)
Definition ex_xr04h (s : @xstate nat nat) sched :=
  @xrun nat nat Nat.eq_dec (fun _ _ => 5%N) (fun h len => N.to_nat h mod len) (fun h => h) 2 (fun _ => 0%N)
        (fun _ _ => false) (fun _ _ => false) (fun tags tg => filter (fun i => match nth i tags None with Some t => N.eqb t tg | None => false end) (seq 0 (length tags)))
        (fun _ => 1) 1 false s sched.
Definition ex_s04h : @xstate nat nat :=
  fst (ex_xr04h (xinit 2 (fun _ => 0%N) (fun _ => 1) 1
                       (fun t => if Nat.eqb t 0 then [XCompute 7 (fun _ => Some 1) false false false; XCompute 7 (fun _ => None) false false false]
                                 else if Nat.eqb t 1 then [XLoad 7] else []))
                (repeat 0 12 ++ [1; 1])).
Example C04_load_hit_nonvacuous :
  (exists h, g_pc ex_s04h 1 = PL_Meta 7 LPlain 0 h 0)
  /\ (exists cx pos old, g_pc (fst (ex_xr04h ex_s04h [1; 0; 0])) 0 = PW_D2 cx 0 pos old)
  /\ (exists h, g_pc (fst (ex_xr04h ex_s04h [1; 0; 0])) 1 = PL_Ent 7 LPlain 0 h 0 [0]).
Proof. split; [eexists; vm_compute; reflexivity|]. split; [do 3 eexists; vm_compute; reflexivity | eexists; vm_compute; reflexivity]. Qed.
Print Assumptions C04_load_hit_nonvacuous.

(* ... and for C04_load_no_miss: in that first state the reader stands before the first meta word and key 7 is visible in slot 0 *)
Example C04_load_no_miss_nonvacuous :
  (exists h, g_pc ex_s04h 1 = PL_Meta 7 LPlain 0 h 0)
  /\ kpos (fun _ _ => 5%N) (fun h len => N.to_nat h mod len) 2 (fun _ => 1) 7 0 ex_s04h 0.
Proof. split; [eexists; vm_compute; reflexivity|]. vm_compute. split; [lia|]. split; [discriminate | eexists; reflexivity]. Qed.
Print Assumptions C04_load_no_miss_nonvacuous.

(* non-vacuity and the three false statements (proofs/X_linearizable.v, vm_compute on the executable instance): a run in
   which a reader on a replaced table returns a value; a run in which a store completes after the Clear that overtook it
   has returned and must be ordered before it; a reader whose answer is justified only between its own steps *)
Definition C04_lin_stale_read_nonvacuous := X_linearizable.linearizable_stale_read.
Definition C04_lin_overtaken_store_nonvacuous := X_linearizable.linearizable_overtaken_store.
Definition C04_lin_between_steps_nonvacuous := X_linearizable.linearizable_read_between_steps.
Print Assumptions C04_lin_stale_read_nonvacuous.
Print Assumptions C04_lin_overtaken_store_nonvacuous.
Print Assumptions C04_lin_between_steps_nonvacuous.
