(* C02 -- Concurrent Cache/CacheOf calls are linearizable against the TTL-map semantics.

   Scope of the theorem: the cache methods (the programs of CacheModel, i.e.
   xsync_map.go) run by any number of threads under EVERY schedule, at the
   granularity of one map call / one read of the clock or of a setting / one
   callback; each map call is atomic (that the Go maps behave as atomic objects
   is C03/C04); clock, default expiration and callback are constant during the
   phase; what Range's snapshot hands to DeleteExpired is ARBITRARY (chosen by
   the schedule).  Calls: Set*, Get*, GetOr*, GetAnd*, Compute, Delete,
   GetAndDelete, DeleteExpired, Clear.
   C02_cache_over_mapof / C02_cache_over_map (proofs/CX_trans.v, CX_compose.v,
   CX_product.v, CX_mapof.v, CX_map.v): the hypothesis "each map call is atomic"
   REMOVED -- the cache methods run over the concurrent machines XMachine
   (mapof.go) and XMachineS (map.go) themselves, every map call of a method being
   executed primitive by primitive, interleaved with everybody else's, and every
   run from the empty cache is linearizable w.r.t. the TTL-map semantics.  The
   proof is compositional: the map-level projection of a run is linearizable
   (C04_linearizable / C03_linearizable, used as black boxes through a
   prophecy of the calls the threads will make); CX_compose turns a
   linearization of the map calls into a run of the atomic-map machine of Conc.v
   with the same cache-level history; C02_cache_linearizable concludes.
   C02_cache_over_mapof_range / C02_cache_over_map_range (CX_product2.v,
   CX_mapof2.v, CX_map2.v): the same with the traversal of DeleteExpired run ON
   THE MACHINE -- the product thread pushes the machine's Range, whose bucket
   locking is interleaved with everybody else's steps, and continues with
   exactly the pairs it visited (uses C04_linearizable_any_calls /
   C03_linearizable_with_range).
   Remaining scope limits: Count is not a linearizable call (Conc.v answers it
   atomically; it blocks in the product); clock and settings constant during a
   concurrent phase; initial state the empty cache.
   C02_cacheof_linearizable, C02_cacheof_over_mapof, C02_cacheof_over_map
   (proofs/C02_methods_of.v, C02_lin_gen.v, C02_lin_of.v, CX_cacheof.v): the same
   for the twin text CacheOfModel (xsync_mapof.go): every method body of the twin
   is step-similar to the original's on an arbitrary map (psim: same reads, same
   events, same map result and user-function count call by call), hence `good`;
   no schedule separates the twins. *)
From CacheV Require Import Base SpecMap Client CacheModel Ops SpecTTL Lin Conc.
From CacheV.proofs Require Import C01_sim C01_hist C02_good C02_methods C02_lin.
From CacheV Require XMachine XMachineS.

From CacheV.proofs Require X_lin XS_resize CX_trans CX_compose CX_product CX_mapof CX_map C02_methods_of C02_lin_gen C02_lin_of CX_cacheof CX_product2 CX_mapof2 CX_map2.
From Coq Require Import NArith.

Theorem C02_cache_linearizable :
  forall (K V : Type) (eqd : forall a b : K, {a = b} + {a <> b}) (zero : V) (NOW DFLT : Z) (CB : cbid)
         (P0 L0 : amap K (item V)) (todo : nat -> list (cop K V)) sched,
    (* the starting point: any physical map related to a specification state as in C01 *)
    Rm eqd NOW DFLT CB P0 L0 ->
    (forall t, Forall conc_ok (todo t)) ->
    linearizable _ _ _ (tspec eqd zero) (mk NOW DFLT CB L0)
      (history (snd (crun eqd (prog_cache eqd zero) NOW DFLT CB (cinit P0 todo) sched))).
Proof. exact @cache_linearizable. Qed.
Print Assumptions C02_cache_linearizable.

(* the empty cache is such a starting point *)
Theorem C02_start_empty :
  forall (K V : Type) (eqd : forall a b : K, {a = b} + {a <> b}) (NOW DFLT : Z) (CB : cbid),
    @Rm K V eqd NOW DFLT CB [] [].
Proof. intros. apply C01_hist.R_init. reflexivity. Qed.
Print Assumptions C02_start_empty.

(* ---------------- the cache over the concurrent maps themselves ---------------- *)

Theorem C02_cache_over_mapof :
  forall (K V : Type) (eqd : forall a b : K, {a = b} + {a <> b}) (zero : V) (NOW DFLT : Z) (CB : cbid)
         hash idx tag nslots seeds g sh probe nstripes minlen grow_only,
    X_lin.xhyps4 idx nstripes minlen nslots probe -> forall len0 (todo : nat -> list (cop K V)) sched, (0 < len0)%nat ->
    (forall t, Forall conc_ok (todo t)) ->
    linearizable _ _ _ (tspec eqd zero) (mk NOW DFLT CB [])
      (CX_mapof.cxhist eqd hash idx tag nslots seeds g sh probe nstripes minlen grow_only len0
              (prog_cache eqd zero) NOW DFLT CB todo sched).
Proof. intros. apply CX_mapof.cache_over_xmachine_linearizable; assumption. Qed.
Print Assumptions C02_cache_over_mapof.

Theorem C02_cache_over_map :
  forall (K V : Type) (eqd : forall a b : K, {a = b} + {a <> b}) (zero : V) (NOW DFLT : Z) (CB : cbid)
         hash idx tophash nslots seeds g sh nstripes minlen grow_only,
    @XS_resize.rhyps K hash idx tophash nslots minlen -> forall len0 (todo : nat -> list (cop K V)) sched, (0 < len0)%nat ->
    (forall t, Forall conc_ok (todo t)) ->
    linearizable _ _ _ (tspec eqd zero) (mk NOW DFLT CB [])
      (CX_map.cshist eqd hash idx tophash nslots seeds g sh nstripes minlen grow_only len0
              (prog_cache eqd zero) NOW DFLT CB todo sched).
Proof. intros. apply CX_map.cache_over_smachine_linearizable; assumption. Qed.
Print Assumptions C02_cache_over_map.

Definition C02_over_mapof_nonvacuous := CX_mapof.cache_over_xmachine_run.
Definition C02_over_map_nonvacuous := CX_map.cache_over_smachine_run_a.
Print Assumptions C02_over_mapof_nonvacuous.
Print Assumptions C02_over_map_nonvacuous.

(* ---------------- the twin text (CacheOf) ---------------- *)

Theorem C02_cacheof_linearizable :
  forall (K V : Type) (eqd : forall a b : K, {a = b} + {a <> b}) (zero : V) (NOW DFLT : Z) (CB : cbid)
         (P0 L0 : amap K (item V)) (todo : nat -> list (cop K V)) sched,
    Rm eqd NOW DFLT CB P0 L0 ->
    (forall t, Forall conc_ok (todo t)) ->
    linearizable _ _ _ (tspec eqd zero) (mk NOW DFLT CB L0)
      (history (snd (crun eqd (prog_cacheof eqd zero) NOW DFLT CB (cinit P0 todo) sched))).
Proof. exact @C02_lin_of.cacheof_linearizable. Qed.
Print Assumptions C02_cacheof_linearizable.

Theorem C02_cacheof_over_mapof :
  forall (K V : Type) (eqd : forall a b : K, {a = b} + {a <> b}) (zero : V) (NOW DFLT : Z) (CB : cbid)
         hash idx tag nslots seeds g sh probe nstripes minlen grow_only,
    X_lin.xhyps4 idx nstripes minlen nslots probe -> forall len0 (todo : nat -> list (cop K V)) sched, (0 < len0)%nat ->
    (forall t, Forall conc_ok (todo t)) ->
    linearizable _ _ _ (tspec eqd zero) (mk NOW DFLT CB [])
      (CX_mapof.cxhist eqd hash idx tag nslots seeds g sh probe nstripes minlen grow_only len0
              (prog_cacheof eqd zero) NOW DFLT CB todo sched).
Proof. intros. apply CX_cacheof.cacheof_over_xmachine_linearizable; assumption. Qed.
Print Assumptions C02_cacheof_over_mapof.

Theorem C02_cacheof_over_map :
  forall (K V : Type) (eqd : forall a b : K, {a = b} + {a <> b}) (zero : V) (NOW DFLT : Z) (CB : cbid)
         hash idx tophash nslots seeds g sh nstripes minlen grow_only,
    @XS_resize.rhyps K hash idx tophash nslots minlen -> forall len0 (todo : nat -> list (cop K V)) sched, (0 < len0)%nat ->
    (forall t, Forall conc_ok (todo t)) ->
    linearizable _ _ _ (tspec eqd zero) (mk NOW DFLT CB [])
      (CX_map.cshist eqd hash idx tophash nslots seeds g sh nstripes minlen grow_only len0
              (prog_cacheof eqd zero) NOW DFLT CB todo sched).
Proof. intros. apply CX_cacheof.cacheof_over_smachine_linearizable; assumption. Qed.
Print Assumptions C02_cacheof_over_map.

Definition C02_twin_run_nonvacuous := C02_lin_of.twin_run_same.
Print Assumptions C02_twin_run_nonvacuous.

(* ---------------- with the traversal of DeleteExpired run on the machine ---------------- *)

Theorem C02_cache_over_mapof_range :
  forall (K V : Type) (eqd : forall a b : K, {a = b} + {a <> b}) (zero : V) (NOW DFLT : Z) (CB : cbid)
         hash idx tag nslots seeds g sh probe nstripes minlen grow_only,
    X_lin.xhyps4 idx nstripes minlen nslots probe -> forall len0 (todo : nat -> list (cop K V)) sched, (0 < len0)%nat ->
    (forall t, Forall conc_ok (todo t)) ->
    linearizable _ _ _ (tspec eqd zero) (mk NOW DFLT CB [])
      (CX_mapof2.cx2hist eqd hash idx tag nslots seeds g sh probe nstripes minlen grow_only len0
               (prog_cache eqd zero) NOW DFLT CB todo sched).
Proof. intros. apply CX_mapof2.cache_over_xmachine_linearizable2; assumption. Qed.
Print Assumptions C02_cache_over_mapof_range.

Theorem C02_cache_over_map_range :
  forall (K V : Type) (eqd : forall a b : K, {a = b} + {a <> b}) (zero : V) (NOW DFLT : Z) (CB : cbid)
         hash idx tophash nslots seeds g sh nstripes minlen grow_only,
    @XS_resize.rhyps K hash idx tophash nslots minlen -> forall len0 (todo : nat -> list (cop K V)) sched, (0 < len0)%nat ->
    (forall t, Forall conc_ok (todo t)) ->
    linearizable _ _ _ (tspec eqd zero) (mk NOW DFLT CB [])
      (CX_map2.cs2hist eqd hash idx tophash nslots seeds g sh nstripes minlen grow_only len0
               (prog_cache eqd zero) NOW DFLT CB todo sched).
Proof. intros. apply CX_map2.cache_over_smachine_linearizable2; assumption. Qed.
Print Assumptions C02_cache_over_map_range.

(* a DeleteExpired whose traversal has visited an expired entry overlaps a Set of the same key; the re-check under
   the bucket lock (the repair of finding F3) keeps the fresh entry; with an explicit linearization *)
Definition C02_delete_expired_overlaps_set := CX_mapof2.delete_expired_overlaps_set.
Definition C02_delete_expired_overlaps_set_map := CX_map2.delete_expired_overlaps_set_map.
Print Assumptions C02_delete_expired_overlaps_set.
Print Assumptions C02_delete_expired_overlaps_set_map.

(* ---------------------------------------------------------------------------
   The static tie to the text of the cache layer.  gen/SrcFacts.v is produced on
   every run by a translator (harness/srcfacts/skeleton.go) from xsync_map.go and
   xsync_mapof.go: per public method, how often a syntactic path can perform each
   kind of primitive outside a closure run by the map, and how often such a closure
   can invoke a user function.  proofs/Skel*.v tie the model programs to it in both
   directions; a change of the call structure of a method breaks these statements.
   Each property uses the projection of the budgets it is about (SkelDefs.relax):
   C02 all primitives, C05 map calls and user functions, C06 callbacks, C14 clock
   and settings. *)
From CacheV.proofs Require SkelDefs Skel SkelMap.
From CacheV.gen Require SrcFacts.
From Coq Require String.

(* every path of every model program -- whatever the map, the clock and the settings answer --
   stays within what the source of the method can do (both texts, all primitives) *)
Theorem C02_model_within_source :
  forall (K V : Type) (eqd : forall a b : K, {a = b} + {a <> b}) (zero : V) (o : CacheV.Ops.cop K V),
    SkelDefs.is_call o ->
    (SkelDefs.within SrcFacts.budgets_map (CacheV.Ops.prog_cache eqd zero) o /\
     SkelDefs.within SrcFacts.budgets_mapof (CacheV.Ops.prog_cacheof eqd zero) o)%type.
Proof.
  intros K V eqd zero o H. split; [exact (Skel.cache_within_budget eqd zero o H)|exact (Skel.cacheof_within_budget eqd zero o H)].
Qed.
Print Assumptions C02_model_within_source.

(* ... and every entry of the source's budgets is attained by a run of the model: the source makes
   no map call, clock read, settings access or callback that the model does not know *)
Theorem C02_source_within_model :
  (SkelDefs.unattained SrcFacts.budgets_map (CacheV.Ops.prog_cache Z.eq_dec 0%Z) = [] /\
   SkelDefs.unattained SrcFacts.budgets_mapof (CacheV.Ops.prog_cacheof Z.eq_dec 0%Z) = [])%type.
Proof. split; [exact Skel.cache_budget_attained|exact Skel.cacheof_budget_attained]. Qed.
Print Assumptions C02_source_within_model.

(* the mechanism C02 rests on: in the source as it is now, each read-modify-write method is ONE Compute *)
Theorem C02_rmw_is_one_map_call :
  (SkelMap.single_compute SrcFacts.budgets_map = true /\ SkelMap.single_compute SrcFacts.budgets_mapof = true)%type.
Proof. exact SkelMap.rmw_single_compute. Qed.
Print Assumptions C02_rmw_is_one_map_call.

Example C02_within_discriminates :
  ~ SkelDefs.bounded (K := Z) (V := Z) 0 [(SrcFacts.TCompute, Some 1%nat)]
      (MapCall (CLoad 1%Z) (fun _ => MapCall (CStore 1%Z (SkelDefs.it 1 0)) (fun _ => Ret (@CUnit Z Z)))).
Proof. exact Skel.bounded_discriminates. Qed.
Print Assumptions C02_within_discriminates.
