(* C02 -- Concurrent Cache/CacheOf calls are linearizable against the TTL-map semantics.

   Scope of the theorem: the cache methods (the programs of CacheModel, i.e.
   xsync_map.go) run by any number of threads under EVERY schedule, at the
   granularity of one map call / one read of the clock or of a setting / one
   callback; each map call is atomic (that the Go maps behave as atomic objects
   is C03/C04); clock, default expiration and callback are constant during the
   phase; what Range's snapshot hands to DeleteExpired is ARBITRARY (chosen by
   the schedule).  Calls: Set*, Get*, GetOr*, GetAnd*, Compute, Delete,
   GetAndDelete, DeleteExpired, Clear. *)
From CacheV Require Import Base SpecMap Client CacheModel Ops SpecTTL Lin Conc.
From CacheV.proofs Require Import C01_sim C01_hist C02_good C02_methods C02_lin.

Theorem C02_cache_linearizable :
  forall (K V : Type) (eqd : forall a b : K, {a = b} + {a <> b}) (zero : V) (NOW DFLT : Z) (CB : cbid)
         (P0 L0 : amap K (item V)) (todo : nat -> list (cop K V)) sched,
    (* the starting point: any physical map related to a specification state as in C01 *)
    Rm eqd NOW DFLT CB P0 L0 ->
    (forall t, Forall conc_ok (todo t)) ->
    linearizable _ _ _ (tspec eqd zero) (mk NOW DFLT CB L0)
      (history (snd (crun eqd (prog_cache eqd zero) NOW DFLT CB (cinit P0 todo) sched))).
Proof. exact @cache_linearizable. Qed.
Print Assumptions C02_cache_linearizable.

(* the empty cache is such a starting point *)
Theorem C02_start_empty :
  forall (K V : Type) (eqd : forall a b : K, {a = b} + {a <> b}) (NOW DFLT : Z) (CB : cbid),
    @Rm K V eqd NOW DFLT CB [] [].
Proof. intros. apply C01_hist.R_init. reflexivity. Qed.
Print Assumptions C02_start_empty.
