(* C16X2 -- C16 at the cache level over XMachine, continued (props/C16X.v: Get): GetWithExpiration and
   GetWithTTL.  Same scope and same reading as C16X_cache_get_never_waits_over_mapof: EVERY reachable
   state of CX_mapof.v's product machine, the other threads anywhere; thread t between cache calls with
   the call next; the entry visible under k absent or unexpired at NOW; run ALONE the call completes
   within rd_bound + 5 moves (GetWithExpiration) / rd_bound + 6 moves (GetWithTTL: one more clock read
   when the entry has an expiry instant), its only map call being Load k, and answers what SpecTTL says
   of the visible content.  An expired-uncleaned entry is outside the property (re-checking Compute).
   CacheModel's text; the twin text and XMachineS are not done. *)
From CacheV Require Import Base SpecMap Client CacheModel Ops SpecTTL Lin Conc.
From CacheV.gen Require Import Params.
From CacheV Require XMachine.
From CacheV.proofs Require X_lin X_c16 CX_compose CX_product CX_mapof C16X_product C16X_mapof C16X_more.
From Coq Require Import NArith.
Import CX_compose CX_product.

Theorem C16X2_cache_getwithexpiration_never_waits_over_mapof :
  forall (K V : Type) (eqd : forall a b : K, {a = b} + {a <> b}) (zero : V) (NOW DFLT : Z) (CB : cbid)
         hash idx tag nslots seeds g sh probe nstripes minlen grow_only,
    X_lin.xhyps4 idx nstripes minlen nslots probe ->
    forall len0 (todo : nat -> list (cop K V)) sched t k rest, (0 < len0)%nat ->
    let run := CX_mapof.cxrun eqd hash idx tag nslots seeds g sh probe nstripes minlen grow_only (prog_cache eqd zero) NOW DFLT CB in
    let p := fst (fst (run (CX_mapof.cxinit nslots seeds nstripes len0 todo) sched)) in
    let tb := XMachine.tab_at nslots nstripes (p_x _ p) (XMachine.g_cur (p_x _ p)) in
    p_thr _ p t = QIdle -> p_todo _ p t = OGetWithExpiration k :: rest ->
    (forall i, X_lin.vis hash idx tb k i -> expiredWithNow NOW i = false) ->
    exists j c,
      let r := run p (repeat (t, []) j) in
      (j <= X_c16.rd_bound hash idx tag nslots probe nstripes (p_x _ p) (XMachine.PL_Table k XMachine.LPlain) + 5)%nat
      /\ cproj (snd (fst r)) = [HInv t (OGetWithExpiration k); HRes t c]
      /\ (exists mr, mproj (snd (fst r)) = [HInv t (CLoad k); HRes t mr])
      /\ ((exists i, X_lin.vis hash idx tb k i /\ expiredWithNow NOW i = false
                     /\ c = CValExp (iv i) (if (0 <? ie i)%Z then ie i else 0%Z) true)
          \/ ((forall i, ~ X_lin.vis hash idx tb k i) /\ c = CValExp zero 0 false))
      /\ p_thr _ (fst (fst r)) t = QIdle /\ p_todo _ (fst (fst r)) t = rest
      /\ (forall u, u <> t -> p_thr _ (fst (fst r)) u = p_thr _ p u).
Proof. intros. apply C16X_more.cache_getwithexpiration_never_waits_over_xmachine; assumption. Qed.
Print Assumptions C16X2_cache_getwithexpiration_never_waits_over_mapof.

Theorem C16X2_cache_getwithttl_never_waits_over_mapof :
  forall (K V : Type) (eqd : forall a b : K, {a = b} + {a <> b}) (zero : V) (NOW DFLT : Z) (CB : cbid)
         hash idx tag nslots seeds g sh probe nstripes minlen grow_only,
    X_lin.xhyps4 idx nstripes minlen nslots probe ->
    forall len0 (todo : nat -> list (cop K V)) sched t k rest, (0 < len0)%nat ->
    let run := CX_mapof.cxrun eqd hash idx tag nslots seeds g sh probe nstripes minlen grow_only (prog_cache eqd zero) NOW DFLT CB in
    let p := fst (fst (run (CX_mapof.cxinit nslots seeds nstripes len0 todo) sched)) in
    let tb := XMachine.tab_at nslots nstripes (p_x _ p) (XMachine.g_cur (p_x _ p)) in
    p_thr _ p t = QIdle -> p_todo _ p t = OGetWithTTL k :: rest ->
    (forall i, X_lin.vis hash idx tb k i -> expiredWithNow NOW i = false) ->
    exists j c,
      let r := run p (repeat (t, []) j) in
      (j <= X_c16.rd_bound hash idx tag nslots probe nstripes (p_x _ p) (XMachine.PL_Table k XMachine.LPlain) + 6)%nat
      /\ cproj (snd (fst r)) = [HInv t (OGetWithTTL k); HRes t c]
      /\ (exists mr, mproj (snd (fst r)) = [HInv t (CLoad k); HRes t mr])
      /\ ((exists i, X_lin.vis hash idx tb k i /\ expiredWithNow NOW i = false
                     /\ c = CValTTL (iv i) (if (0 <? ie i)%Z then (ie i - NOW)%Z else NoExpiration) true)
          \/ ((forall i, ~ X_lin.vis hash idx tb k i) /\ c = CValTTL zero 0 false))
      /\ p_thr _ (fst (fst r)) t = QIdle /\ p_todo _ (fst (fst r)) t = rest
      /\ (forall u, u <> t -> p_thr _ (fst (fst r)) u = p_thr _ p u).
Proof. intros. apply C16X_more.cache_getwithttl_never_waits_over_xmachine; assumption. Qed.
Print Assumptions C16X2_cache_getwithttl_never_waits_over_mapof.

(* the common part of every method of the form bind (get k) f *)
Definition C16X2_get_path := @C16X_more.get_path.
Print Assumptions C16X2_get_path.
