(* C16X -- C16 at the CACHE level over XMachine (MapOf).
   "A lookup of a present-and-unexpired or absent key (... Get ...) completes in a bounded number of
   the caller's own steps even if another goroutine is stalled indefinitely while holding the key's
   bucket or in the middle of a resize."

   C16X_cache_get_never_waits_over_mapof: in EVERY reachable state of CX_mapof.v's product machine
   (any cache calls, any number of threads, any schedule from the empty cache, constant clock; the
   OTHER threads anywhere: holding bucket locks, inside a user function, mid-resize, waiting), a
   thread t that stands between cache calls with Get k next, provided the entry visible under k in
   the current table is absent or unexpired at NOW, run ALONE (schedule repeat (t, []) j: nobody
   else moves) completes the call within
        j <= rd_bound (current table, k) + 5   moves
   (X_c16.rd_bound: the bound of the lock-free lookup; + invocation, hand-over, possibly the silent
   start of the goroutine, clock read, return), making exactly ONE map call, Load k, and answers
   (iv i, true) for the visible unexpired entry i, (zero, false) if nothing is visible: SpecTTL's Get
   on the visible content.  Nobody else has moved.
   OUTSIDE the property (and the theorem): an EXPIRED entry that has not been cleaned -- Get then
   makes a re-checking Compute, which takes the bucket lock and can wait for a stalled holder.
   Proved for Get and CacheModel's text; GetWithExpiration / GetWithTTL (same Load, one more clock
   read), Count (C08X's machine; X_c16 bounds the Size path too), the twin text (its Get returns
   iv zeroedV on a miss: needs its own unfolding) and XMachineS (XS_read) are NOT done.
   Route: C16X_product.solo_answer_b / solo_invoke_answer (C08X_product's solo machinery with an
   explicit bound and the map-level projection), C08X_product.prophecy_state + todo_ext,
   X_read.solo_load_visible_proof (= C16_value). *)
From CacheV Require Import Base SpecMap Client CacheModel Ops SpecTTL Lin Conc.
From CacheV Require XMachine.
From CacheV.proofs Require X_lin X_c16 CX_compose CX_product CX_mapof C16X_product C16X_mapof C16X_ex.
From Coq Require Import NArith.
Import CX_compose CX_product.

Theorem C16X_cache_get_never_waits_over_mapof :
  forall (K V : Type) (eqd : forall a b : K, {a = b} + {a <> b}) (zero : V) (NOW DFLT : Z) (CB : cbid)
         hash idx tag nslots seeds g sh probe nstripes minlen grow_only,
    X_lin.xhyps4 idx nstripes minlen nslots probe ->
    forall len0 (todo : nat -> list (cop K V)) sched t k rest, (0 < len0)%nat ->
    let run := CX_mapof.cxrun eqd hash idx tag nslots seeds g sh probe nstripes minlen grow_only (prog_cache eqd zero) NOW DFLT CB in
    let p := fst (fst (run (CX_mapof.cxinit nslots seeds nstripes len0 todo) sched)) in
    let tb := XMachine.tab_at nslots nstripes (p_x _ p) (XMachine.g_cur (p_x _ p)) in
    p_thr _ p t = QIdle -> p_todo _ p t = OGet k :: rest ->
    (forall i, X_lin.vis hash idx tb k i -> expiredWithNow NOW i = false) ->
    exists j c,
      let r := run p (repeat (t, []) j) in
      (j <= X_c16.rd_bound hash idx tag nslots probe nstripes (p_x _ p) (XMachine.PL_Table k XMachine.LPlain) + 5)%nat
      /\ cproj (snd (fst r)) = [HInv t (OGet k); HRes t c]
      /\ (exists mr, mproj (snd (fst r)) = [HInv t (CLoad k); HRes t mr])
      /\ C16X_mapof.get_answer hash idx NOW zero tb k c
      /\ p_thr _ (fst (fst r)) t = QIdle /\ p_todo _ (fst (fst r)) t = rest
      /\ (forall u, u <> t -> p_thr _ (fst (fst r)) u = p_thr _ p u).
Proof. intros. apply C16X_mapof.cache_get_never_waits_over_xmachine; assumption. Qed.
Print Assumptions C16X_cache_get_never_waits_over_mapof.

(* [get_answer tb k c]: (exists i, vis tb k i /\ expiredWithNow NOW i = false /\ c = CVal (iv i) true)
                        \/ ((forall i, ~ vis tb k i) /\ c = CVal zero false) *)
Definition C16X_get_answer := @C16X_mapof.get_answer.

(* the generic solo-run lemmas with the bound and the map-level projection *)
Definition C16X_solo_answer_b := @C16X_product.solo_answer_b.
Definition C16X_solo_invoke_answer := @C16X_product.solo_invoke_answer.
Print Assumptions C16X_solo_invoke_answer.

(* a run: the writer parked holding the bucket lock of the key, the reader's Get completes *)
Definition C16X_run := C16X_ex.get_while_writer_holds_the_lock.
Print Assumptions C16X_run.
