(* C16 -- Reads never wait for writers: lookups finish while a writer or resize stalls.

   Stated on XMachine (internal/xsync/mapof.go, one step = one atomic / lock
   primitive of the Go code; tied to it step by step by CORR-sched), for every
   hash, index, tag and probe function, seeds, policies, thread count, client
   program and schedule -- in particular every point at which the other threads
   may be suspended, because the state [s] below is any reachable one:

     C16_reads_never_wait   a thread inside Load, inside the read-only fast path
        of doCompute (LoadOrStore / LoadOrCompute / the cache's get) or inside
        Size can always take its next step, and running ALONE from there -- the
        others frozen wherever they are: inside a user function under a bucket
        lock, between the two stores of an insert or delete, between table copy
        and publish, in the wait set -- it leaves the read path (returns, or on
        a fast-path miss goes on to the locking path) within rd_bound of its
        own steps, a number fixed by the chain of the table generation it
        loaded; these steps are loads only and change nothing shared.
     C16_reader_step        each reader step, in any state (also when others
        do move in between): only loads, nothing shared changes.

   Cache level: C16 for Get / GetWithExpiration / GetWithTTL follows because
   their model (CacheModel.get) issues one MLoad and falls back to MCompute
   only for an expired entry (C09 / C02 method bodies).
     C16_value              "the value returned in that situation is the last
        completely written one": a Load k that has just been invoked, run alone
        from any reachable state, returns v exactly when (k, v) is VISIBLE in the
        current table (meta byte and entry pointer both stored), and absent
        otherwise -- a half-written insert is not seen, a half-done delete is
        already gone; by C04_abs_step the visible map is the one the completed
        linearization stores have built. *)
From CacheV Require Import Base SpecMap XMachine TabExec Exec XExec.
From CacheV.proofs Require Import X_basic X_inv X_c13 X_c16 X_inst X_own X_chain X_c04 X_lin X_read.
From Coq Require Import NArith.
Local Open Scope nat_scope.

Theorem C16_reads_never_wait :
  forall (K V : Type) (eqd : forall a b : K, {a = b} + {a <> b}) hash idx tag nslots seeds g sh probe nstripes minlen grow_only,
    xhyps idx nstripes minlen -> forall len0 todo sched t, 0 < len0 ->
    let xrun := @xrun K V eqd hash idx tag nslots seeds g sh probe nstripes minlen grow_only in
    let s := fst (xrun (xinit nslots seeds nstripes len0 todo) sched) in
    reader_pc (g_pc s t) = true ->
    @enabled K V eqd hash idx tag nslots seeds g sh probe nstripes minlen grow_only s t = true
    /\ exists m, m <= rd_bound hash idx tag nslots probe nstripes s (g_pc s t) /\
         let s' := fst (xrun s (repeat t m)) in
         reader_pc (g_pc s' t) = false /\ shared_eq s s' /\ (forall t', t' <> t -> g_pc s' t' = g_pc s t')
         /\ Forall (read_label t) (snd (xrun s (repeat t m))).
Proof. exact @reads_never_wait_proof. Qed.
Print Assumptions C16_reads_never_wait.

Theorem C16_reader_step :
  forall (K V : Type) (eqd : forall a b : K, {a = b} + {a <> b}) hash idx tag nslots seeds g sh probe nstripes minlen grow_only,
    forall (s : @xstate K V) t p s' ls, reader_pc p = true ->
    @step_pc K V eqd hash idx tag nslots seeds g sh probe nstripes minlen grow_only s t p = Some (s', ls) ->
    shared_eq s s' /\ (forall t', t' <> t -> g_pc s' t' = g_pc s t') /\ g_todo s' = g_todo s
    /\ Forall (read_label t) ls.
Proof. exact @reader_step_proof. Qed.
Print Assumptions C16_reader_step.

Theorem C16_value :
  forall (K V : Type) (eqd : forall a b : K, {a = b} + {a <> b}) hash idx tag nslots seeds g sh probe nstripes minlen grow_only,
    xhyps4 idx nstripes minlen nslots probe -> forall len0 todo sched t k rest, 0 < len0 ->
    let xrun := @xrun K V eqd hash idx tag nslots seeds g sh probe nstripes minlen grow_only in
    let s := fst (xrun (xinit nslots seeds nstripes len0 todo) sched) in
    (* t is idle and its next call is Load k; everybody else is wherever the schedule left them *)
    g_pc s t = PIdle -> g_todo s t = XLoad k :: rest ->
    exists m o, m <= rd_bound hash idx tag nslots probe nstripes (invoked s t (XLoad k) rest) (PL_Table k LPlain)
      /\ g_pc (fst (xrun s (repeat t m))) t = PIdle
      /\ In (XRes t (res_of o)) (snd (xrun s (repeat t m)))
      /\ (forall v, o = Some v <-> vis hash idx (tab_at nslots nstripes s (g_cur s)) k v)
      /\ g_tabs (fst (xrun s (repeat t m))) = g_tabs s /\ g_cur (fst (xrun s (repeat t m))) = g_cur s
      /\ (forall t', t' <> t -> g_pc (fst (xrun s (repeat t m))) t' = g_pc s t').
Proof. exact @solo_load_visible_proof. Qed.
Print Assumptions C16_value.

(* the read path is what start_pc says for Load, the load-if-exists calls and Size *)
Theorem C16_read_entry_points :
  forall (K V : Type) (k : K) (f : option V -> option V) ev co,
    reader_pc (@start_pc K V (XLoad k)) = true
    /\ reader_pc (start_pc (XCompute k f ev true co)) = true
    /\ reader_pc (@start_pc K V XSize) = true.
Proof. intros. repeat split. Qed.
Print Assumptions C16_read_entry_points.

Theorem C16_instance : forall hint, xhyps idx_mapof nstripes_x (minlen_of_hint true hint).
Proof. exact x_instance_hyps. Qed.
Print Assumptions C16_instance.

(* non-vacuity: a writer is parked holding the bucket lock (at PW_ChkTab, about
   to call the user function); the reader of the same key is on the read path *)
Definition ex_run16 : @xstate nat nat :=
  fst (@xrun nat nat Nat.eq_dec (fun k _ => N.of_nat k) (fun h len => N.to_nat h mod len) (fun h => h) 2 (fun _ => 0%N)
             (fun _ _ => false) (fun _ _ => false) (fun _ _ => []) (fun _ => 1) 1 false
             (xinit 2 (fun _ => 0%N) (fun _ => 1) 1
                    (fun t => if Nat.eqb t 0 then [XCompute 7 (fun _ => Some 1) true false true] else [XLoad 7]))
             [0; 0; 0; 0; 1; 1]).

Example C16_nonvacuous :
  (exists cx, g_pc ex_run16 0 = PW_ChkTab cx 0) /\ reader_pc (g_pc ex_run16 1) = true.
Proof. split; [eexists; vm_compute; reflexivity | vm_compute; reflexivity]. Qed.

(* ... and for C16_value: the same writer parked, the reader idle before its Load *)
Definition ex_run16v : @xstate nat nat :=
  fst (@xrun nat nat Nat.eq_dec (fun k _ => N.of_nat k) (fun h len => N.to_nat h mod len) (fun h => h) 2 (fun _ => 0%N)
             (fun _ _ => false) (fun _ _ => false) (fun _ _ => []) (fun _ => 1) 1 false
             (xinit 2 (fun _ => 0%N) (fun _ => 1) 1
                    (fun t => if Nat.eqb t 0 then [XCompute 7 (fun _ => Some 1) true false true] else [XLoad 7]))
             [0; 0; 0; 0; 1]).
Example C16_value_nonvacuous :
  (exists cx, g_pc ex_run16v 0 = PW_ChkTab cx 0) /\ g_pc ex_run16v 1 = PIdle /\ g_todo ex_run16v 1 = [XLoad 7].
Proof. split; [eexists; vm_compute; reflexivity | vm_compute; split; reflexivity]. Qed.
Print Assumptions C16_nonvacuous.
Print Assumptions C16_value_nonvacuous.
