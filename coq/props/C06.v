(* C06 -- Evicted callback fires exactly once per removed entry, with that very entry.
   Sequential part (every history, every clock schedule).  The interleaved part is props/C06c.v. *)
From CacheV Require Import Base SpecMap Client CacheModel CacheOfModel Ops SpecTTL.
From CacheV Require Import Conc.
From CacheV.proofs Require Import C06_seq C06_hist C12_twins C01_sim C02_good C02_methods C02_lin.
From CacheV.proofs Require X_lin XS_resize CX_mapof CX_map CX_monitor CX_monitor_inst.
From Coq Require Import NArith.

(* At every call of every history on Cache: the callbacks fired by the call are
   exactly the entries the call physically removed (Delete/GetAndDelete: the entry
   of that key if present; DeleteExpired: every entry expired at the instant the
   pass read; any other call: nothing), each once, with its own key and value,
   through the callback in force when the call began; and every removed entry is
   no longer retrievable afterwards and was that very stored value. *)
Theorem C06_fired_is_removed :
  forall (K V : Type) (eqd : forall a b : K, {a = b} + {a <> b}) (zero : V)
         (ops : list (cop K V)) (m0 : cstate K V),
    st_map m0 = [] -> monotone ops -> everywhere eqd zero (fire_law eqd) m0 ops.
Proof. exact @fire_law_everywhere. Qed.
Print Assumptions C06_fired_is_removed.

(* single-call form, for any state whose keys are distinct *)
Theorem C06_step :
  forall (K V : Type) (eqd : forall a b : K, {a = b} + {a <> b}) (zero : V) (m : cstate K V) (o : cop K V),
    NoDup (keys (st_map m)) ->
    let '(m', r, evs) := step_cache eqd zero m o in fires evs = expected_fires eqd m o.
Proof. exact @fires_step. Qed.
Print Assumptions C06_step.

(* CacheOf: same events as Cache, call by call (C12) *)
Theorem C06_cacheof_same :
  forall (K V : Type) (eqd : forall a b : K, {a = b} + {a <> b}) (zero : V) (m : cstate K V) (o : cop K V),
    step_cacheof eqd zero m o = step_cache eqd zero m o.
Proof. exact @twins_step. Qed.
Print Assumptions C06_cacheof_same.

(* Interleaved (any number of threads, EVERY schedule at map-call granularity,
   whatever Range's snapshots return): for every thread, the per-thread monitor is
   never violated.  The monitor appends to the thread's debt every entry that a
   map step of its current Delete / GetAndDelete / DeleteExpired call physically
   removed (ghost label LGone), demands of every callback event that it is the
   callback in force and pays the OLDEST debt with exactly that key and value,
   and demands at the response that nothing is owed: so every removal is
   reported once, with that very entry, and nothing else is ever reported -- no
   stale snapshot value, no double delivery by overlapping passes. *)
Theorem C06_concurrent :
  forall (K V : Type) (eqd : forall a b : K, {a = b} + {a <> b}) (zero : V) (NOW DFLT : Z) (CB : cbid)
         (P0 L0 : amap K (item V)) (todo : nat -> list (cop K V)) sched t,
    Rm eqd NOW DFLT CB P0 L0 -> (forall t, Forall conc_ok (todo t)) ->
    mon_accepts CB t mon_idle
      (snd (crun eqd (prog_cache eqd zero) NOW DFLT CB (cinit P0 todo) sched)).
Proof. exact @cache_monitored. Qed.
Print Assumptions C06_concurrent.

(* the callback runs outside the map call: a closure (code under the bucket
   lock) has no way to fire -- its only effects are [aux] (captured variables,
   user-function count); EFire is emitted by the method body after the map call
   returned.  This is the typing of [closure] and [prog] in Client.v. *)
Example C06_example :
  let m0 : cstate Z Z := {| st_map := []; st_now := 1000; st_dflt := -2000000000; st_cb := Some 1%nat |} in
  let ops := [OSet 1 7 5; OSet 2 8 0; OAdvance 6; ODeleteExpired; ODelete 2; ODelete 2; OGetAndDelete 1] in
  map (fun x => fires (snd x)) (snd (run_cache Z.eq_dec (-1) m0 ops)) =
    [[]; []; []; [(1%nat, 1, 7)]; [(1%nat, 2, 8)]; []; []].
Proof. vm_compute. reflexivity. Qed.
Print Assumptions C06_example.

(* ---------------- the monitors over the concurrent maps themselves (C06 and C05) ----------------
   proofs/CX_monitor.v, CX_monitor_inst.v: every run of the cache methods over XMachine (mapof.go) and over
   XMachineS (map.go) -- map calls executed primitive by primitive and interleaved -- is accepted, thread by
   thread, by the same monitor as C06_concurrent: the callback fires exactly once per entry its call removed,
   with that entry, after the removal (in a thread the order is: invocation, the map call whose linearization
   store is the physical removal, the machine's answer, the callback, the response), never for a live entry;
   the user function runs exactly as often as the call's answer says.  Both cache texts.  Not a monitor
   statement and false of both machines (schedule: CX_monitor_inst.lgone_is_at_the_answer): callbacks of
   DIFFERENT threads come in the order of the removals. *)
Theorem C06_concurrent_over_mapof :
  forall (K V : Type) (eqd : forall a b : K, {a = b} + {a <> b}) (zero : V) (NOW DFLT : Z) (CB : cbid)
         hash idx tag nslots seeds g sh probe nstripes minlen grow_only,
    X_lin.xhyps4 idx nstripes minlen nslots probe -> forall len0 (todo : nat -> list (cop K V)) sched t, (0 < len0)%nat ->
    (forall u, Forall conc_ok (todo u)) ->
    mon_accepts CB t mon_idle
      (CX_monitor_inst.cxlabels eqd hash idx tag nslots seeds g sh probe nstripes minlen grow_only len0 (prog_cache eqd zero) NOW DFLT CB todo sched)
    /\ mon_accepts CB t mon_idle
      (CX_monitor_inst.cxlabels eqd hash idx tag nslots seeds g sh probe nstripes minlen grow_only len0 (prog_cacheof eqd zero) NOW DFLT CB todo sched).
Proof.
  intros. split; [apply CX_monitor_inst.cache_monitored_over_xmachine | apply CX_monitor_inst.cacheof_monitored_over_xmachine]; assumption.
Qed.
Print Assumptions C06_concurrent_over_mapof.

Theorem C06_concurrent_over_map :
  forall (K V : Type) (eqd : forall a b : K, {a = b} + {a <> b}) (zero : V) (NOW DFLT : Z) (CB : cbid)
         hash idx tophash nslots seeds g sh nstripes minlen grow_only,
    @XS_resize.rhyps K hash idx tophash nslots minlen -> forall len0 (todo : nat -> list (cop K V)) sched t, (0 < len0)%nat ->
    (forall u, Forall conc_ok (todo u)) ->
    mon_accepts CB t mon_idle
      (CX_monitor_inst.cslabels eqd hash idx tophash nslots seeds g sh nstripes minlen grow_only len0 (prog_cache eqd zero) NOW DFLT CB todo sched)
    /\ mon_accepts CB t mon_idle
      (CX_monitor_inst.cslabels eqd hash idx tophash nslots seeds g sh nstripes minlen grow_only len0 (prog_cacheof eqd zero) NOW DFLT CB todo sched).
Proof.
  intros. split; [apply CX_monitor_inst.cache_monitored_over_smachine | apply CX_monitor_inst.cacheof_monitored_over_smachine]; assumption.
Qed.
Print Assumptions C06_concurrent_over_map.

Definition C06_monitored_run_nonvacuous := CX_monitor_inst.monitored_run_over_xmachine.
Definition C06_callback_order_across_threads := CX_monitor_inst.lgone_is_at_the_answer.
Print Assumptions C06_monitored_run_nonvacuous.
Print Assumptions C06_callback_order_across_threads.

(* ---------------------------------------------------------------------------
   The static tie to the text of the cache layer.  gen/SrcFacts.v is produced on
   every run by a translator (harness/srcfacts/skeleton.go) from xsync_map.go and
   xsync_mapof.go: per public method, how often a syntactic path can perform each
   kind of primitive outside a closure run by the map, and how often such a closure
   can invoke a user function.  proofs/Skel*.v tie the model programs to it in both
   directions; a change of the call structure of a method breaks these statements.
   Each property uses the projection of the budgets it is about (SkelDefs.relax):
   C02 all primitives, C05 map calls and user functions, C06 callbacks, C14 clock
   and settings. *)
From CacheV.proofs Require SkelDefs SkelCb.
From CacheV.gen Require SrcFacts.
From Coq Require String.

(* callbacks: the model programs load and invoke the evicted callback where the source does *)
Theorem C06_model_callbacks_within_source :
  forall (K V : Type) (eqd : forall a b : K, {a = b} + {a <> b}) (zero : V) (o : CacheV.Ops.cop K V),
    SkelDefs.is_call o ->
    (SkelDefs.within (SkelDefs.relax SkelDefs.P_cb false SrcFacts.budgets_map) (CacheV.Ops.prog_cache eqd zero) o /\
     SkelDefs.within (SkelDefs.relax SkelDefs.P_cb false SrcFacts.budgets_mapof) (CacheV.Ops.prog_cacheof eqd zero) o)%type.
Proof.
  intros K V eqd zero o H. split; [exact (SkelCb.cache_within_on eqd zero o H)|exact (SkelCb.cacheof_within_on eqd zero o H)].
Qed.
Print Assumptions C06_model_callbacks_within_source.
Theorem C06_source_callbacks_within_model :
  (SkelDefs.unattained_on SkelDefs.P_cb false SrcFacts.budgets_map (CacheV.Ops.prog_cache Z.eq_dec 0%Z) = [] /\
   SkelDefs.unattained_on SkelDefs.P_cb false SrcFacts.budgets_mapof (CacheV.Ops.prog_cacheof Z.eq_dec 0%Z) = [])%type.
Proof. exact SkelCb.attained_on. Qed.
Print Assumptions C06_source_callbacks_within_model.

(* the callback is invoked by the removers only, and never from a closure the map runs under a bucket lock *)
Theorem C06_source_only_removers_fire :
  (SkelCb.fires SrcFacts.budgets_map = SkelCb.remover_names /\ SkelCb.fires SrcFacts.budgets_mapof = SkelCb.remover_names)%type.
Proof. exact SkelCb.only_removers_fire. Qed.
Print Assumptions C06_source_only_removers_fire.
Theorem C06_source_no_callback_under_lock :
  (SkelCb.no_fire_locked SrcFacts.budgets_map = true /\ SkelCb.no_fire_locked SrcFacts.budgets_mapof = true)%type.
Proof. exact SkelCb.no_callback_under_lock. Qed.
Print Assumptions C06_source_no_callback_under_lock.
