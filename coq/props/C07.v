(* C07 -- Range/Items visit each qualifying entry once, never a phantom or expired one.
   C07_cache_range / C07_cache_items / C07_visits_are_events / C07_map_range_exact:
   sequential histories (cache level; table level).
   EVERY schedule of the concurrent machine XMachine (mapof.go; the machine that
   CORR-sched replays step by step against the real code), proofs/X_range.v:
     C07_range_once      the visits a thread has made since its last invocation
                         have pairwise distinct keys -- in every reachable state,
                         whatever stores, deletes, grows, shrinks and Clears the
                         other threads interleave (the traversal walks ONE table,
                         bucket by bucket; a key's home bucket in a table never
                         changes; within a bucket keys are unique);
     C07_range_snapshot  no phantom, nothing of the bucket missed: the pairs the
                         traversal holds after locking bucket i are exactly what
                         is visible in bucket i of the traversed table while it
                         holds that lock (a half-written insert is not among
                         them, a half-done delete is already gone);
     C07_range_protocol  the traversal starts at bucket 0 of the table current
                         when it loads the pointer, locks a bucket only when it
                         is free, hands exactly the pairs taken to the visitor,
                         in order, and goes on with the next bucket until the
                         last one.
     C07_range_complete  a traversal stands before bucket 0 of table tab; if the pair
                         (k, v) is visible in that table in every state the run
                         goes through, then by the time the traversing thread is
                         idle again the visitor has been called with (k, v),
                         whatever the other threads did meanwhile.  ("Visible in
                         the traversed table": a table that has been replaced by a
                         grow / shrink / Clear is no longer written -- C04, XR --
                         so a pair of the table current at the pointer load that
                         nobody deletes or overwrites stays visible in it.)
   Not in XMachine: the early stop and visitors that mutate the map (XMachineS
   has nested calls; searched there and on the real code). *)
From CacheV Require Import Base SpecMap Client CacheModel CacheOfModel Ops SpecTTL.
From CacheV Require Import TableModel.
From CacheV.proofs Require Import C01_sim C01_ops C07_range C11_lists C11_table.
From Coq Require Import NArith.
From CacheV Require Import XMachine.
From CacheV.proofs Require Import X_lin X_range.

(* Whatever order the map hands out its pairs in (the hint), a traversal of the
   cache visits no key twice, only pairs that are current and unexpired at the
   instant read when it began, goes on exactly while the visitor says so, and --
   unless the visitor stopped it -- visits every live entry; a nil visitor visits
   nothing; the traversal changes nothing. *)
Theorem C07_cache_range :
  forall (K V : Type) (eqd : forall a b : K, {a = b} + {a <> b}) (zero : V)
         (f : option (K -> V -> bool)) hint (m s : cstate K V),
    R eqd m s ->
    let '(m', r, evs) := step_cache eqd zero m (ORange f hint) in
    spec_ok eqd zero s (ORange f hint) r /\ R eqd m' s.
Proof. intros K V eqd zero f hint. exact (sim_Range eqd zero f hint). Qed.
Print Assumptions C07_cache_range.

Theorem C07_cache_items :
  forall (K V : Type) (eqd : forall a b : K, {a = b} + {a <> b}) (zero : V) hint (m s : cstate K V),
    R eqd m s ->
    let '(m', r, evs) := step_cache eqd zero m (OItems hint) in
    spec_ok eqd zero s (OItems hint) r /\ R eqd m' s.
Proof. intros K V eqd zero hint. exact (sim_Items eqd zero hint). Qed.
Print Assumptions C07_cache_items.

(* the visitor is invoked exactly on the pairs reported, in that order *)
Theorem C07_visits_are_events :
  forall (K V : Type) (eqd : forall a b : K, {a = b} + {a <> b}) now (f : K -> V -> bool)
         (l : list (K * item V)) vis (m : cstate K V),
    run_seq eqd (range_loop now f l vis) m =
    (m, CList (vis ++ visits now f l), map (fun '(k, v) => EVisit k v) (visits now f l)).
Proof. exact @run_range_loop. Qed.
Print Assumptions C07_visits_are_events.

(* Map / MapOf, sequentially (no concurrent writer): what Range hands out is each
   pair of the abstract map exactly once -- no key twice, no phantom, nothing
   missing -- for every hash, seed, bucket size and resize history. *)
Theorem C07_map_range_exact :
  forall (K V A : Type) (eqd : forall a b : K, {a = b} + {a <> b})
         (hash : K -> N -> N) (idx : N -> nat -> nat) (tag : N -> N) (nslots : nat) (seeds : nat -> N)
         (variant : bool) (grow_needed shrink_policy : nat -> nat -> bool) fuel (m : @tmap K V) (a : amap K V),
    WFm hash idx tag nslots m -> meq eqd (abs nslots m) a ->
    exists l, @table_step K V A eqd hash idx tag nslots seeds variant grow_needed shrink_policy fuel m MSnapshot
                = Some (m, RSnap l)
              /\ NoDup (keys l) /\ Permutation l a.
Proof.
  intros K V A eqd hash idx tag nslots seeds variant g s fuel m a Hm Hq.
  exists (abs nslots m). split; [reflexivity|]. split; [apply Hq | apply (meq_perm eqd); exact Hq].
Qed.
Print Assumptions C07_map_range_exact.

(* ---------------- every schedule (MapOf machine) ---------------- *)

Theorem C07_range_once :
  forall (K V : Type) (eqd : forall a b : K, {a = b} + {a <> b})
         (hash : K -> N -> N) (idx : N -> nat -> nat) (tag : N -> N) (nslots : nat) (seeds : nat -> N)
         (grow_needed shrink_policy : nat -> Z -> bool) (probe : list (option N) -> N -> list nat)
         (nstripes : nat -> nat) (minlen : nat) (grow_only : bool),
    xhyps4 idx nstripes minlen nslots probe ->
    forall len0 todo sched t, (0 < len0)%nat ->
    NoDup (map fst (cv t [] (snd (@xrun K V eqd hash idx tag nslots seeds grow_needed shrink_policy probe nstripes minlen grow_only
                                        (xinit nslots seeds nstripes len0 todo) sched)))).
Proof. exact @range_once_proof. Qed.
Print Assumptions C07_range_once.

Theorem C07_range_snapshot :
  forall (K V : Type) (eqd : forall a b : K, {a = b} + {a <> b})
         (hash : K -> N -> N) (idx : N -> nat -> nat) (tag : N -> N) (nslots : nat) (seeds : nat -> N)
         (grow_needed shrink_policy : nat -> Z -> bool) (probe : list (option N) -> N -> list nat)
         (nstripes : nat -> nat) (minlen : nat) (grow_only : bool),
    xhyps4 idx nstripes minlen nslots probe ->
    forall len0 todo sched t tab i snap, (0 < len0)%nat ->
    let s := fst (@xrun K V eqd hash idx tag nslots seeds grow_needed shrink_policy probe nstripes minlen grow_only
                         (xinit nslots seeds nstripes len0 todo) sched) in
    g_pc s t = PG_Unlock tab i snap ->
    NoDup (map fst snap)
    /\ (forall k v, In (k, v) snap <-> (X_lin.vis hash idx (tab_at nslots nstripes s tab) k v /\ home hash idx (tab_at nslots nstripes s tab) k = i))
    /\ lock_of (tab_at nslots nstripes s tab) i = Some t.
Proof. exact @range_snapshot_proof. Qed.
Print Assumptions C07_range_snapshot.

Theorem C07_range_complete :
  forall (K V : Type) (eqd : forall a b : K, {a = b} + {a <> b})
         (hash : K -> N -> N) (idx : N -> nat -> nat) (tag : N -> N) (nslots : nat) (seeds : nat -> N)
         (grow_needed shrink_policy : nat -> Z -> bool) (probe : list (option N) -> N -> list nat)
         (nstripes : nat -> nat) (minlen : nat) (grow_only : bool),
    xhyps4 idx nstripes minlen nslots probe ->
    forall len0 todo sched0 sched t tab k v, (0 < len0)%nat ->
    let xr := @xrun K V eqd hash idx tag nslots seeds grow_needed shrink_policy probe nstripes minlen grow_only in
    let s0 := fst (xr (xinit nslots seeds nstripes len0 todo) sched0) in
    g_pc s0 t = PG_Lock tab 0 ->
    along eqd hash idx tag nslots seeds grow_needed shrink_policy probe nstripes minlen grow_only
          (fun s => X_lin.vis hash idx (tab_at nslots nstripes s tab) k v) s0 sched ->
    g_pc (fst (xr s0 sched)) t = PIdle ->
    In (k, v) (allvis t (snd (xr s0 sched))).
Proof. exact @range_complete_proof. Qed.
Print Assumptions C07_range_complete.

Theorem C07_range_protocol :
  forall (K V : Type) (eqd : forall a b : K, {a = b} + {a <> b})
         (hash : K -> N -> N) (idx : N -> nat -> nat) (tag : N -> N) (nslots : nat) (seeds : nat -> N)
         (grow_needed shrink_policy : nat -> Z -> bool) (probe : list (option N) -> N -> list nat)
         (nstripes : nat -> nat) (minlen : nat) (grow_only : bool) (s s' : @xstate K V) t ls,
    let xstep := @xstep K V eqd hash idx tag nslots seeds grow_needed shrink_policy probe nstripes minlen grow_only in
    let step_pc := @step_pc K V eqd hash idx tag nslots seeds grow_needed shrink_policy probe nstripes minlen grow_only in
    (g_pc s t = PG_Table -> step_pc s t PG_Table = Some (s', ls) ->
       ((0 < x_len (tab_at nslots nstripes s (g_cur s)))%nat /\ g_pc s' t = PG_Lock (g_cur s) 0)
       \/ (x_len (tab_at nslots nstripes s (g_cur s)) = 0%nat /\ g_pc s' t = PIdle))
    /\ (forall tab i, g_pc s t = PG_Lock tab i -> xstep s t = Some (s', ls) ->
          lock_of (tab_at nslots nstripes s tab) i = None
          /\ g_pc s' t = PG_Unlock tab i (live_pairs (chain_of (tab_at nslots nstripes s tab) i)))
    /\ (forall tab i snap, g_pc s t = PG_Unlock tab i snap -> xstep s t = Some (s', ls) ->
          cv t [] ls = snap
          /\ (((S i < x_len (tab_at nslots nstripes s tab))%nat /\ g_pc s' t = PG_Lock tab (S i))
              \/ ((x_len (tab_at nslots nstripes s tab) <= S i)%nat /\ g_pc s' t = PIdle))).
Proof.
  intros K V eqd hash idx tag nslots seeds g sh probe nstripes minlen grow_only s s' t ls xs sp. subst xs sp. split; [|split].
  - intros Hp E. eapply range_start; eassumption.
  - intros tab i Hp E. eapply range_lock; eassumption.
  - intros tab i snap Hp E. eapply range_visits; eassumption.
Qed.
Print Assumptions C07_range_protocol.

(* non-vacuity: thread 0 has stored two colliding keys; thread 1 traverses and stands
   between lock and unlock of bucket 0 holding both pairs; after the unlock step its
   visits are these two *)
Definition ex_sched07 : list nat := (repeat 0 20 ++ [1; 1; 1])%nat.
Definition ex_xrun07 sched :=
  @xrun nat nat Nat.eq_dec (fun _ _ => 5%N) (fun h len => (N.to_nat h mod len)%nat) (fun h => h) 2%nat (fun _ => 0%N)
        (fun _ _ => false) (fun _ _ => false) (fun tags tg => filter (fun i => match nth i tags None with Some t => N.eqb t tg | None => false end) (seq 0%nat (length tags)))
        (fun _ => 1%nat) 1%nat false
        (xinit 2%nat (fun _ => 0%N) (fun _ => 1%nat) 1%nat
               (fun t => if Nat.eqb t 0%nat then [XCompute 7%nat (fun _ => Some 1%nat) false false false; XCompute 8%nat (fun _ => Some 2%nat) false false false]
                         else if Nat.eqb t 1%nat then [XRange] else []))
        sched.
Example C07_nonvacuous :
  g_pc (fst (ex_xrun07 ex_sched07)) 1%nat = PG_Unlock 0 0 [(7, 1); (8, 2)]%nat
  /\ cv 1%nat [] (snd (ex_xrun07 (ex_sched07 ++ [1%nat]))) = [(7, 1); (8, 2)]%nat.
Proof. vm_compute. split; reflexivity. Qed.
Print Assumptions C07_nonvacuous.

(* ... and for C07_range_complete: the same run one step earlier (thread 1 stands before bucket 0
   of table 0), continued by thread 1 alone until it is idle again; (7, 1) is visible throughout *)
Definition ex_hash07 : nat -> N -> N := fun _ _ => 5%N.
Definition ex_idx07 : N -> nat -> nat := fun h len => (N.to_nat h mod len)%nat.
Definition ex_probe07 : list (option N) -> N -> list nat :=
  fun tags tg => filter (fun i => match nth i tags None with Some t => N.eqb t tg | None => false end) (seq 0%nat (length tags)).
Example C07_complete_nonvacuous :
  let s0 := fst (ex_xrun07 (repeat 0 20 ++ [1; 1])%nat) in
  g_pc s0 1%nat = PG_Lock 0 0
  /\ along Nat.eq_dec ex_hash07 ex_idx07 (fun h => h) 2%nat (fun _ => 0%N) (fun _ _ => false) (fun _ _ => false) ex_probe07 (fun _ => 1%nat) 1%nat false
           (fun s => X_lin.vis ex_hash07 ex_idx07 (tab_at 2%nat (fun _ => 1%nat) s 0%nat) 7%nat 1%nat) s0 [1; 1]%nat
  /\ g_pc (fst (@xrun nat nat Nat.eq_dec ex_hash07 ex_idx07 (fun h => h) 2%nat (fun _ => 0%N) (fun _ _ => false) (fun _ _ => false) ex_probe07
                       (fun _ => 1%nat) 1%nat false s0 [1; 1]%nat)) 1%nat = PIdle.
Proof.
  cbv zeta. split. { vm_compute. reflexivity. } split. 2:{ vm_compute. reflexivity. }
  cbn [along]. repeat match goal with |- context [xstep ?a ?b ?c ?d ?e ?f ?g ?h ?i ?j ?k ?l ?s ?u] =>
    let r := eval vm_compute in (xstep a b c d e f g h i j k l s u) in change (xstep a b c d e f g h i j k l s u) with r; cbv iota beta end.
  repeat split; (exists 0%nat; vm_compute; (split; [lia|]); (split; [discriminate | reflexivity])).
Qed.
Print Assumptions C07_complete_nonvacuous.
