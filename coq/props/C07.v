(* C07 -- Range/Items visit each qualifying entry once, never a phantom or expired one.
   Cache level, sequential.  Map level: props/C11.v; interleaved: props/C07c.v. *)
From CacheV Require Import Base SpecMap Client CacheModel CacheOfModel Ops SpecTTL.
From CacheV Require Import TableModel.
From CacheV.proofs Require Import C01_sim C01_ops C07_range C11_lists C11_table.
From Coq Require Import NArith.

(* Whatever order the map hands out its pairs in (the hint), a traversal of the
   cache visits no key twice, only pairs that are current and unexpired at the
   instant read when it began, goes on exactly while the visitor says so, and --
   unless the visitor stopped it -- visits every live entry; a nil visitor visits
   nothing; the traversal changes nothing. *)
Theorem C07_cache_range :
  forall (K V : Type) (eqd : forall a b : K, {a = b} + {a <> b}) (zero : V)
         (f : option (K -> V -> bool)) hint (m s : cstate K V),
    R eqd m s ->
    let '(m', r, evs) := step_cache eqd zero m (ORange f hint) in
    spec_ok eqd zero s (ORange f hint) r /\ R eqd m' s.
Proof. intros K V eqd zero f hint. exact (sim_Range eqd zero f hint). Qed.
Print Assumptions C07_cache_range.

Theorem C07_cache_items :
  forall (K V : Type) (eqd : forall a b : K, {a = b} + {a <> b}) (zero : V) hint (m s : cstate K V),
    R eqd m s ->
    let '(m', r, evs) := step_cache eqd zero m (OItems hint) in
    spec_ok eqd zero s (OItems hint) r /\ R eqd m' s.
Proof. intros K V eqd zero hint. exact (sim_Items eqd zero hint). Qed.
Print Assumptions C07_cache_items.

(* the visitor is invoked exactly on the pairs reported, in that order *)
Theorem C07_visits_are_events :
  forall (K V : Type) (eqd : forall a b : K, {a = b} + {a <> b}) now (f : K -> V -> bool)
         (l : list (K * item V)) vis (m : cstate K V),
    run_seq eqd (range_loop now f l vis) m =
    (m, CList (vis ++ visits now f l), map (fun '(k, v) => EVisit k v) (visits now f l)).
Proof. exact @run_range_loop. Qed.
Print Assumptions C07_visits_are_events.

(* Map / MapOf, sequentially (no concurrent writer): what Range hands out is each
   pair of the abstract map exactly once -- no key twice, no phantom, nothing
   missing -- for every hash, seed, bucket size and resize history. *)
Theorem C07_map_range_exact :
  forall (K V A : Type) (eqd : forall a b : K, {a = b} + {a <> b})
         (hash : K -> N -> N) (idx : N -> nat -> nat) (tag : N -> N) (nslots : nat) (seeds : nat -> N)
         (variant : bool) (grow_needed shrink_policy : nat -> nat -> bool) fuel (m : @tmap K V) (a : amap K V),
    WFm hash idx tag nslots m -> meq eqd (abs nslots m) a ->
    exists l, @table_step K V A eqd hash idx tag nslots seeds variant grow_needed shrink_policy fuel m MSnapshot
                = Some (m, RSnap l)
              /\ NoDup (keys l) /\ Permutation l a.
Proof.
  intros K V A eqd hash idx tag nslots seeds variant g s fuel m a Hm Hq.
  exists (abs nslots m). split; [reflexivity|]. split; [apply Hq | apply (meq_perm eqd); exact Hq].
Qed.
Print Assumptions C07_map_range_exact.
