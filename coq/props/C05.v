(* C05 -- Get-or-create and compute calls are atomic per key; user function runs once.

   Cache level: the calls are linearizable (C02), so they take effect one at a
   time in some order; what the specification then says about racing
   get-or-create calls is C05_single_winner.  The number of user-function
   invocations per call is checked along every run by the per-thread monitor
   (C05_fn_count_concurrent: Compute exactly once, GetOrCompute once iff it
   reports loaded=false, no other call ever).
   Map level: the sequential table model reports the user function's side
   effect exactly when the specification does (theorems C05_map_compute_once and C05_map_loadorcompute_once), also when the insert
   first has to grow the table (the grow-retry precedes the call in do_compute);
   interleavings of the map internals are C03/C04 (see there).
   EVERY schedule of the concurrent machine XMachine (mapof.go; replayed step by
   step against the real code, user-function calls included): C05_x_fn_at_most_once
   -- from the invocation of a call on, the calling thread evaluates the user
   function at most once, whatever retries the call goes through (bucket found
   locked by a resize, table replaced meanwhile, chain full -> grow -> retry,
   waiting for another thread's resize); and as long as a deciding step of the
   call is still reachable (cdone = false) it has not evaluated it at all.  The
   evaluation happens in the deciding step, under the bucket lock, after the checks
   of the resizing flag and of the table pointer (XMachine.step_pc, PW_ChkTab /
   PW_Sum). *)
From CacheV Require Import Base SpecMap Client CacheModel Ops SpecTTL Lin Conc TableModel.
From CacheV.proofs Require Import C01_sim C02_good C02_methods C02_lin C05_spec C11_lists C11_table C05_map.
From Coq Require Import NArith.
From CacheV Require Import XMachine.
From CacheV.proofs Require Import X_c13 X_fn.

Theorem C05_single_winner :
  forall (K V : Type) (eqd : forall a b : K, {a = b} + {a <> b}) (zero : V)
         k (s s' : cstate K V) o1 r1 l,
    0 <= st_now s -> in_int64 (st_now s) -> in_int64 (st_dflt s) ->
    vw eqd s k = None ->
    is_getor k o1 -> Forall (fun or => is_getor k (fst or)) l ->
    srun eqd zero s ((o1, r1) :: l) s' ->
    r1 = CVal (getor_val zero o1) false
    /\ Forall (fun or => snd or = CVal (getor_val zero o1) true) l.
Proof. exact @single_winner. Qed.
Print Assumptions C05_single_winner.

(* along every run of the concurrent cache machine, for every thread: the
   monitor (which, at each response, demands fn_ok: Compute invoked the user
   function exactly once, GetOrCompute once iff loaded=false, every other call
   never) is never violated *)
Theorem C05_fn_count_concurrent :
  forall (K V : Type) (eqd : forall a b : K, {a = b} + {a <> b}) (zero : V) (NOW DFLT : Z) (CB : cbid)
         (P0 L0 : amap K (item V)) (todo : nat -> list (cop K V)) sched t,
    Rm eqd NOW DFLT CB P0 L0 -> (forall t, Forall conc_ok (todo t)) ->
    mon_accepts CB t mon_idle
      (snd (crun eqd (prog_cache eqd zero) NOW DFLT CB (cinit P0 todo) sched)).
Proof. exact @cache_monitored. Qed.
Print Assumptions C05_fn_count_concurrent.

(* map level, sequential, any hash / seeds / policy: Compute reports the user
   function's effect exactly once; LoadOrCompute exactly when it did not load *)
Theorem C05_map_compute_once :
  forall (K V A : Type) (eqd : forall a b : K, {a = b} + {a <> b})
         (hash : K -> N -> N) (idx : N -> nat -> nat) (tag : N -> N) (nslots : nat) (seeds : nat -> N)
         (variant : bool) (g s : nat -> nat -> bool),
    (forall h len, (0 < len)%nat -> (idx h len < len)%nat) ->
    forall fuel (m : @tmap K V) a k f m' r,
      WFm hash idx tag nslots m -> meq eqd (abs nslots m) a ->
      @table_step K V A eqd hash idx tag nslots seeds variant g s fuel m (MCompute k f) = Some (m', r) ->
      exists v ok x, r = RVal v ok (Some x) /\ x = snd (f (lookup eqd k a)).
Proof.
  intros K V A eqd hash idx tag nslots seeds variant g s Hidx. exact (compute_once eqd hash idx tag nslots seeds variant g s Hidx).
Qed.
Print Assumptions C05_map_compute_once.

Theorem C05_map_loadorcompute_once :
  forall (K V A : Type) (eqd : forall a b : K, {a = b} + {a <> b})
         (hash : K -> N -> N) (idx : N -> nat -> nat) (tag : N -> N) (nslots : nat) (seeds : nat -> N)
         (variant : bool) (g s : nat -> nat -> bool),
    (forall h len, (0 < len)%nat -> (idx h len < len)%nat) ->
    forall fuel (m : @tmap K V) a k f m' r,
      WFm hash idx tag nslots m -> meq eqd (abs nslots m) a ->
      @table_step K V A eqd hash idx tag nslots seeds variant g s fuel m (MLoadOrCompute k f) = Some (m', r) ->
      match lookup eqd k a with
      | Some old => r = RVal (Some old) true None                  (* loaded: not invoked *)
      | None => r = RVal (Some (fst (f tt))) false (Some (snd (f tt)))   (* stored: invoked once *)
      end.
Proof.
  intros K V A eqd hash idx tag nslots seeds variant g s Hidx. exact (loadorcompute_once eqd hash idx tag nslots seeds variant g s Hidx).
Qed.
Print Assumptions C05_map_loadorcompute_once.

(* ---------------- every schedule (MapOf machine) ---------------- *)

Theorem C05_x_fn_at_most_once :
  forall (K V : Type) (eqd : forall a b : K, {a = b} + {a <> b})
         (hash : K -> N -> N) (idx : N -> nat -> nat) (tag : N -> N) (nslots : nat) (seeds : nat -> N)
         (grow_needed shrink_policy : nat -> Z -> bool) (probe : list (option N) -> N -> list nat)
         (nstripes : nat -> nat) (minlen : nat) (grow_only : bool),
    xhyps idx nstripes minlen ->
    forall len0 todo sched t, (0 < len0)%nat ->
    let r := @xrun K V eqd hash idx tag nslots seeds grow_needed shrink_policy probe nstripes minlen grow_only
                   (xinit nslots seeds nstripes len0 todo) sched in
    (fnc t 0 (snd r) <= 1)%nat /\ (cdone (g_pc (fst r) t) = false -> fnc t 0 (snd r) = 0%nat).
Proof.
  intros K V eqd hash idx tag nslots seeds g sh probe nstripes minlen grow_only [H1 [H2 H3]] len0 todo sched t Hl.
  apply (fn_at_most_once eqd hash idx tag nslots seeds g sh probe nstripes minlen grow_only H1 H2 H3 len0 todo sched t Hl).
Qed.
Print Assumptions C05_x_fn_at_most_once.

(* non-vacuity: thread 0 computes on an absent key with an observable function; before the
   deciding step it has evaluated nothing and a decision is still to come, after it the count is 1 *)
Definition ex_xrun05 sched :=
  @xrun nat nat Nat.eq_dec (fun _ _ => 5%N) (fun h len => (N.to_nat h mod len)%nat) (fun h => h) 2%nat (fun _ => 0%N)
        (fun _ _ => false) (fun _ _ => false) (fun tags tg => filter (fun i => match nth i tags None with Some t => N.eqb t tg | None => false end) (seq 0%nat (length tags)))
        (fun _ => 1%nat) 1%nat false
        (xinit 2%nat (fun _ => 0%N) (fun _ => 1%nat) 1%nat
               (fun t => if Nat.eqb t 0%nat then [XCompute 7%nat (fun _ => Some 1%nat) true false false] else []))
        sched.
Example C05_x_nonvacuous :
  cdone (g_pc (fst (ex_xrun05 [0; 0; 0; 0]%nat)) 0%nat) = false /\ fnc 0%nat 0%nat (snd (ex_xrun05 [0; 0; 0; 0]%nat)) = 0%nat
  /\ fnc 0%nat 0%nat (snd (ex_xrun05 (repeat 0%nat 12))) = 1%nat /\ g_pc (fst (ex_xrun05 (repeat 0%nat 12))) 0%nat = PIdle.
Proof. vm_compute. repeat split; reflexivity. Qed.
Print Assumptions C05_x_nonvacuous.

(* ---------------------------------------------------------------------------
   The static tie to the text of the cache layer.  gen/SrcFacts.v is produced on
   every run by a translator (harness/srcfacts/skeleton.go) from xsync_map.go and
   xsync_mapof.go: per public method, how often a syntactic path can perform each
   kind of primitive outside a closure run by the map, and how often such a closure
   can invoke a user function.  proofs/Skel*.v tie the model programs to it in both
   directions; a change of the call structure of a method breaks these statements.
   Each property uses the projection of the budgets it is about (SkelDefs.relax):
   C02 all primitives, C05 map calls and user functions, C06 callbacks, C14 clock
   and settings. *)
From CacheV.proofs Require SkelDefs SkelMap.
From CacheV.gen Require SrcFacts.
From Coq Require String.

(* map calls and user-function invocations: the model programs make the map calls the source makes, no more and no fewer,
   and their closures invoke the user function at most as often as the source's *)
Theorem C05_model_map_calls_within_source :
  forall (K V : Type) (eqd : forall a b : K, {a = b} + {a <> b}) (zero : V) (o : CacheV.Ops.cop K V),
    SkelDefs.is_call o ->
    (SkelDefs.within (SkelDefs.relax SkelDefs.P_map true SrcFacts.budgets_map) (CacheV.Ops.prog_cache eqd zero) o /\
     SkelDefs.within (SkelDefs.relax SkelDefs.P_map true SrcFacts.budgets_mapof) (CacheV.Ops.prog_cacheof eqd zero) o)%type.
Proof.
  intros K V eqd zero o H. split; [exact (SkelMap.cache_within_on eqd zero o H)|exact (SkelMap.cacheof_within_on eqd zero o H)].
Qed.
Print Assumptions C05_model_map_calls_within_source.
Theorem C05_source_map_calls_within_model :
  (SkelDefs.unattained_on SkelDefs.P_map true SrcFacts.budgets_map (CacheV.Ops.prog_cache Z.eq_dec 0%Z) = [] /\
   SkelDefs.unattained_on SkelDefs.P_map true SrcFacts.budgets_mapof (CacheV.Ops.prog_cacheof Z.eq_dec 0%Z) = [])%type.
Proof. exact SkelMap.attained_on. Qed.
Print Assumptions C05_source_map_calls_within_model.

(* the source's closures invoke a user function at most once, and only GetOrCompute / Compute have one *)
Theorem C05_source_fn_once_per_closure :
  (SkelMap.fn_budget_ok SrcFacts.budgets_map = true /\ SkelMap.fn_budget_ok SrcFacts.budgets_mapof = true)%type.
Proof. exact SkelMap.fn_once_per_closure. Qed.
Print Assumptions C05_source_fn_once_per_closure.
Theorem C05_get_or_create_is_one_map_call :
  (SkelMap.single_compute SrcFacts.budgets_map = true /\ SkelMap.single_compute SrcFacts.budgets_mapof = true)%type.
Proof. exact SkelMap.rmw_single_compute. Qed.
Print Assumptions C05_get_or_create_is_one_map_call.
Theorem C05_source_fully_translated :
  (SkelMap.no_unknown SrcFacts.budgets_map = true /\ SkelMap.no_unknown SrcFacts.budgets_mapof = true)%type.
Proof. exact SkelMap.source_fully_translated. Qed.
Print Assumptions C05_source_fully_translated.
