(* C05 -- Get-or-create and compute calls are atomic per key; user function runs once.

   Cache level: the calls are linearizable (C02), so they take effect one at a
   time in some order; what the specification then says about racing
   get-or-create calls is C05_single_winner.  The number of user-function
   invocations per call is checked along every run by the per-thread monitor
   (C05_fn_count_concurrent: Compute exactly once, GetOrCompute once iff it
   reports loaded=false, no other call ever).
   Map level: the sequential table model reports the user function's side
   effect exactly when the specification does (theorems C05_map_compute_once and C05_map_loadorcompute_once), also when the insert
   first has to grow the table (the grow-retry precedes the call in do_compute);
   interleavings of the map internals are C03/C04 (see there). *)
From CacheV Require Import Base SpecMap Client CacheModel Ops SpecTTL Lin Conc TableModel.
From CacheV.proofs Require Import C01_sim C02_good C02_methods C02_lin C05_spec C11_lists C11_table C05_map.
From Coq Require Import NArith.

Theorem C05_single_winner :
  forall (K V : Type) (eqd : forall a b : K, {a = b} + {a <> b}) (zero : V)
         k (s s' : cstate K V) o1 r1 l,
    0 <= st_now s -> in_int64 (st_now s) -> in_int64 (st_dflt s) ->
    vw eqd s k = None ->
    is_getor k o1 -> Forall (fun or => is_getor k (fst or)) l ->
    srun eqd zero s ((o1, r1) :: l) s' ->
    r1 = CVal (getor_val zero o1) false
    /\ Forall (fun or => snd or = CVal (getor_val zero o1) true) l.
Proof. exact @single_winner. Qed.
Print Assumptions C05_single_winner.

(* along every run of the concurrent cache machine, for every thread: the
   monitor (which, at each response, demands fn_ok: Compute invoked the user
   function exactly once, GetOrCompute once iff loaded=false, every other call
   never) is never violated *)
Theorem C05_fn_count_concurrent :
  forall (K V : Type) (eqd : forall a b : K, {a = b} + {a <> b}) (zero : V) (NOW DFLT : Z) (CB : cbid)
         (P0 L0 : amap K (item V)) (todo : nat -> list (cop K V)) sched t,
    Rm eqd NOW DFLT CB P0 L0 -> (forall t, Forall conc_ok (todo t)) ->
    mon_accepts CB t mon_idle
      (snd (crun eqd (prog_cache eqd zero) NOW DFLT CB (cinit P0 todo) sched)).
Proof. exact @cache_monitored. Qed.
Print Assumptions C05_fn_count_concurrent.

(* map level, sequential, any hash / seeds / policy: Compute reports the user
   function's effect exactly once; LoadOrCompute exactly when it did not load *)
Theorem C05_map_compute_once :
  forall (K V A : Type) (eqd : forall a b : K, {a = b} + {a <> b})
         (hash : K -> N -> N) (idx : N -> nat -> nat) (tag : N -> N) (nslots : nat) (seeds : nat -> N)
         (variant : bool) (g s : nat -> nat -> bool),
    (forall h len, (0 < len)%nat -> (idx h len < len)%nat) ->
    forall fuel (m : @tmap K V) a k f m' r,
      WFm hash idx tag nslots m -> meq eqd (abs nslots m) a ->
      @table_step K V A eqd hash idx tag nslots seeds variant g s fuel m (MCompute k f) = Some (m', r) ->
      exists v ok x, r = RVal v ok (Some x) /\ x = snd (f (lookup eqd k a)).
Proof.
  intros K V A eqd hash idx tag nslots seeds variant g s Hidx. exact (compute_once eqd hash idx tag nslots seeds variant g s Hidx).
Qed.
Print Assumptions C05_map_compute_once.

Theorem C05_map_loadorcompute_once :
  forall (K V A : Type) (eqd : forall a b : K, {a = b} + {a <> b})
         (hash : K -> N -> N) (idx : N -> nat -> nat) (tag : N -> N) (nslots : nat) (seeds : nat -> N)
         (variant : bool) (g s : nat -> nat -> bool),
    (forall h len, (0 < len)%nat -> (idx h len < len)%nat) ->
    forall fuel (m : @tmap K V) a k f m' r,
      WFm hash idx tag nslots m -> meq eqd (abs nslots m) a ->
      @table_step K V A eqd hash idx tag nslots seeds variant g s fuel m (MLoadOrCompute k f) = Some (m', r) ->
      match lookup eqd k a with
      | Some old => r = RVal (Some old) true None                  (* loaded: not invoked *)
      | None => r = RVal (Some (fst (f tt))) false (Some (snd (f tt)))   (* stored: invoked once *)
      end.
Proof.
  intros K V A eqd hash idx tag nslots seeds variant g s Hidx. exact (loadorcompute_once eqd hash idx tag nslots seeds variant g s Hidx).
Qed.
Print Assumptions C05_map_loadorcompute_once.
