(* C08X -- C08 at the CACHE level over the concurrent machines.
   "Whenever no modifying call is in progress, Count equals the exact number of keys physically
   present -- for caches the live entries plus expired entries not yet cleaned -- no matter what
   history of concurrent inserts, deletes, grows, shrinks and clears preceded.  Count never
   under-reports the live entries."

   The product machine of CX_product.v (threads running the cache methods, every MapCall a
   whole call of the map machine executed primitive by primitive, interleaved with everybody
   else's) over XMachine (mapof.go) and over XMachineS (map.go), with Size run ON THE MACHINE
   (C08X_mapof.sup8 / back8).  ANY cache calls (C02's list, Count, Items, ... -- nothing here
   depends on linearizability), any number of threads, any schedule, from the empty cache; the
   clock constant (one phase of Conc.v).

   C08X_cache_count_quiescent_over_mapof / _over_map: in every reachable state of the product
   machine in which NO thread is inside a cache call and thread t's next call is Count, thread t
   run alone invokes Count and answers CNat n with
     n = the number of pairs of the machine's current table (X_count.tpairs / XS_size.tpairs:
         a duplicate-free enumeration of exactly what lock-free readers can find there),
     n = live entries + expired entries not yet removed,   n >= live entries.
   Quiescence is stated at the cache level (every thread between cache calls), which is what a
   client can arrange; it implies the machine-level condition of C08_quiescent_exact.
   C08X_count_answer_allowed: IF the table's pairs are related by C01's R to a specification state,
   SpecTTL allows the answer (live_keys <= n <= entries of the specification).  That the quiescent
   table IS so related to the state of the linearized run is not proved (see NOTES).
   Route: proofs/C08X_product.v (prophecy WITH STATES: the map machine inside a reachable product
   state sits on a run with todo lists fixed in advance; a thread run alone takes the machine's
   answer), C08X_mapof.v, C08X_map.v; runs: C08X_ex.v. *)
From CacheV Require Import Base SpecMap Client CacheModel CacheOfModel Ops SpecTTL Lin Conc.
From CacheV Require XMachine XMachineS.
From CacheV.proofs Require C01_sim C02_good X_lin X_count XS_size XS_abs CX_compose CX_product C08X_product C08X_mapof C08X_map C08X_ex.
From Coq Require Import NArith.
Import CX_compose CX_product.

Theorem C08X_cache_count_quiescent_over_mapof :
  forall (K V : Type) (eqd : forall a b : K, {a = b} + {a <> b}) (zero : V) (NOW DFLT : Z) (CB : cbid)
         hash idx tag nslots seeds g sh probe nstripes minlen grow_only,
    X_lin.xhyps4 idx nstripes minlen nslots probe ->
    forall len0 (todo : nat -> list (cop K V)) sched t rest, (0 < len0)%nat ->
    let run := C08X_mapof.c8run eqd hash idx tag nslots seeds g sh probe nstripes minlen grow_only (prog_cache eqd zero) NOW DFLT CB in
    let p := fst (fst (run (C08X_mapof.c8init nslots seeds nstripes len0 todo) sched)) in
    (forall u, p_thr _ p u = QIdle) -> p_todo _ p t = OCount :: rest ->
    let tb := XMachine.tab_at nslots nstripes (p_x _ p) (XMachine.g_cur (p_x _ p)) in
    let l := X_count.tpairs tb in
    (exists j, let r := run p (repeat (t, []) j) in
       cproj (snd (fst r)) = [HInv t OCount; HRes t (CNat (length l))]
       /\ p_thr _ (fst (fst r)) t = QIdle /\ p_todo _ (fst (fst r)) t = rest)
    /\ (forall k v, In (k, v) l <-> X_lin.vis hash idx tb k v) /\ NoDup (map fst l)
    /\ length l = (length (C08X_mapof.live_pairs NOW l) + length (C08X_mapof.dead_pairs NOW l))%nat
    /\ (length (C08X_mapof.live_pairs NOW l) <= length l)%nat.
Proof. intros. apply C08X_mapof.cache_count_quiescent_over_xmachine; assumption. Qed.
Print Assumptions C08X_cache_count_quiescent_over_mapof.

Theorem C08X_cache_count_quiescent_over_map :
  forall (K V : Type) (eqd : forall a b : K, {a = b} + {a <> b}) (zero : V) (NOW DFLT : Z) (CB : cbid)
         hash idx tophash nslots seeds g sh nstripes minlen grow_only,
    XS_size.szhyps hash idx tophash nslots nstripes minlen ->
    forall len0 (todo : nat -> list (cop K V)) sched t rest, (0 < len0)%nat ->
    let run := C08X_map.c8srun eqd hash idx tophash nslots seeds g sh nstripes minlen grow_only (prog_cache eqd zero) NOW DFLT CB in
    let p := fst (fst (run (C08X_map.c8sinit nslots seeds nstripes len0 todo) sched)) in
    (forall u, p_thr _ p u = QIdle) -> p_todo _ p t = OCount :: rest ->
    let tb := XMachineS.stab_at nslots nstripes (p_x _ p) (XMachineS.h_cur (p_x _ p)) in
    let l := XS_size.tpairs tb in
    (exists j, let r := run p (repeat (t, []) j) in
       cproj (snd (fst r)) = [HInv t OCount; HRes t (CNat (length l))]
       /\ p_thr _ (fst (fst r)) t = QIdle /\ p_todo _ (fst (fst r)) t = rest)
    /\ (forall k v, In (k, v) l <-> XS_abs.sabs hash idx tophash nslots nstripes (p_x _ p) k v) /\ NoDup (map fst l)
    /\ length l = (length (C08X_map.live_pairs_s NOW l) + length (C08X_map.dead_pairs_s NOW l))%nat
    /\ (length (C08X_map.live_pairs_s NOW l) <= length l)%nat.
Proof. intros. apply C08X_map.cache_count_quiescent_over_smachine; assumption. Qed.
Print Assumptions C08X_cache_count_quiescent_over_map.

(* the twin text (CacheOf) *)
Definition C08X_cacheof_count_quiescent_over_mapof := @C08X_mapof.cacheof_count_quiescent_over_xmachine.
Definition C08X_cacheof_count_quiescent_over_map := @C08X_map.cacheof_count_quiescent_over_smachine.
Print Assumptions C08X_cacheof_count_quiescent_over_mapof.
Print Assumptions C08X_cacheof_count_quiescent_over_map.

(* the specification side, conditionally *)
Theorem C08X_count_answer_allowed :
  forall (K V : Type) (eqd : forall a b : K, {a = b} + {a <> b}) (zero : V) (NOW DFLT : Z) (CB : cbid)
         (l : list (K * item V)) (s : cstate K V),
    C01_sim.R eqd (C02_good.mk NOW DFLT CB l) s -> spec_ok eqd zero s OCount (CNat (length l)).
Proof. intros. eapply C08X_mapof.count_answer_allowed; eassumption. Qed.
Print Assumptions C08X_count_answer_allowed.

(* the generic facts about the product machine *)
Definition C08X_prophecy_state := @C08X_product.prophecy_state.
Definition C08X_solo_call := @C08X_product.solo_call.
Print Assumptions C08X_prophecy_state.
Print Assumptions C08X_solo_call.

(* runs on the executable instances: 125 inserts by one thread (the table grows), an already expired entry and an
   insert + delete by another, then Count at quiescence: 126 = 125 live + 1 expired-uncleaned; and by the theorems *)
Definition C08X_run_mapof := C08X_ex.count_over_xmachine_run.
Definition C08X_run_mapof_by_theorem := C08X_ex.count_over_xmachine_by_theorem.
Definition C08X_run_map := C08X_ex.count_over_smachine_run.
Definition C08X_run_map_by_theorem := C08X_ex.count_over_smachine_by_theorem.
Print Assumptions C08X_run_mapof_by_theorem.
Print Assumptions C08X_run_map_by_theorem.
