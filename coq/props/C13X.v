(* C13X -- C13 (every call returns) for Cache / CacheOf at the CACHE level, over the product machine
   "cache methods over XMachine (mapof.go)" of CX_product2.v / CX_mapof2.v ([gstep] / [pafter] of
   CX_range.v; every map call -- the traversals of Range / Items / DeleteExpired included -- is a whole
   call of the machine, its primitive steps interleaved with everybody else's, also while the table
   grows, shrinks or is cleared).  proofs/CX_term.v, CX_term2.v; concrete run in proofs/CX_term_ex.v.

     C13X_cache_can_always_finish   NO REACHABLE CONFIGURATION IS DOOMED: from the configuration reached
        from the empty cache by ANY schedule sched0 there is a finite continuation after which EVERY thread
        has returned from EVERY call ([all_returned]: idle at the cache level, nothing left on its list)
        and the map machine inside is at rest ([machine_at_rest]: every map thread idle -- or never
        started -- with an empty todo list; nobody stands at a program counter that holds a bucket lock,
        resizeMu or the resizer role (X_term.quiet_all); the resizing flag is clear, resizeMu is free,
        every bucket lock word of every table is free -- cf. C13_locks_released).  So no call can be
        deadlocked, spinning for ever with no way out, or left waiting for a resize that has finished.
     C13X_cache_solo_call_completes  in a configuration that is calm for t (X_term.calm: no other thread
        holds a bucket lock, resizeMu or the resizer role, nobody waits) thread t, idle with a next call,
        moved ALONE, returns from that call within finitely many moves, leaves the others untouched and
        the configuration calm for t.
     C13X_cacheof_*   the same for the twin text (xsync_mapof.go).
   Hypotheses: xhyps4 / 0 < len0 as everywhere; X_term.ghyp (grow_needed len sum = true -> len < sum:
   needed already at the map level, C13_growth_hypothesis_needed; true of the code's policy,
   C13_termination_instance); sup lets every map call but the traversal through to the machine (the
   traversal always runs on it) -- with sup := xsup Count / Items block at Size (C07X);
   [runnable]: every call except SetDefaultExpiration / SetEvictedCallback, which the product machine
   (constant settings) does not execute; the calls of the run are spread over finitely many threads.
   Route: cache programs are finite trees -- induction on the program ([solo_prog]); a pending map call is
   finished by X_term.solo_call through [Reach] + [replay_until]; from an arbitrary configuration first
   X_term.can_finish for the machine, followed by the product ([replay_all]: a machine thread that has
   not started is never scheduled), then the threads one after the other ([quiet_all_complete]).
   Existence of a finishing continuation, not fairness: C13_fair_termination is not lifted. *)
From CacheV Require Import Base SpecMap Client CacheModel CacheOfModel Ops SpecTTL Lin Conc XMachine.
From CacheV.proofs Require Import X_lin X_term CX_compose CX_product2 CX_range CX_term CX_term2.
From Coq Require Import NArith.

(* ---------------- xsync_map.go ---------------- *)

Theorem C13X_cache_can_always_finish :
  forall (K V : Type) (eqd : forall a b : K, {a = b} + {a <> b}) (hash : K -> N -> N) (idx : N -> nat -> nat) (tag : N -> N) (nslots : nat)
         (seeds : nat -> N) (grow_needed shrink_policy : nat -> Z -> bool) (probe : list (option N) -> N -> list nat) (nstripes : nat -> nat)
         (minlen : nat) (grow_only : bool) (len0 : nat) (zero : V) (sup : cmop K V -> bool) (NOW DFLT : Z) (CB : cbid),
    xhyps4 idx nstripes minlen nslots probe -> (0 < len0)%nat -> X_term.ghyp grow_needed ->
    (forall mo : cmop K V, mo <> CSnapshot -> sup mo = true) ->
    forall (cands : list nat) (todo0 : nat -> list (cop K V)) (sched0 : list nat),
    (forall u, Forall runnable (todo0 u)) -> (forall u, ~ In u cands -> todo0 u = []) ->
    exists cont : list nat,
      let p' := pafter eqd hash idx tag nslots seeds grow_needed shrink_policy probe nstripes minlen grow_only (prog_cache eqd zero) NOW DFLT CB sup (pafter eqd hash idx tag nslots seeds grow_needed shrink_policy probe nstripes minlen grow_only (prog_cache eqd zero) NOW DFLT CB sup (ginit nslots seeds nstripes len0 todo0) sched0) cont in
      all_returned p' /\ machine_at_rest hash idx nslots nstripes (p_x _ p').
Proof. exact @cache_can_always_finish_mapof. Qed.
Print Assumptions C13X_cache_can_always_finish.

Theorem C13X_cache_solo_call_completes :
  forall (K V : Type) (eqd : forall a b : K, {a = b} + {a <> b}) (hash : K -> N -> N) (idx : N -> nat -> nat) (tag : N -> N) (nslots : nat)
         (seeds : nat -> N) (grow_needed shrink_policy : nat -> Z -> bool) (probe : list (option N) -> N -> list nat) (nstripes : nat -> nat)
         (minlen : nat) (grow_only : bool) (len0 : nat) (zero : V) (sup : cmop K V -> bool) (NOW DFLT : Z) (CB : cbid),
    xhyps4 idx nstripes minlen nslots probe -> (0 < len0)%nat -> X_term.ghyp grow_needed ->
    (forall mo : cmop K V, mo <> CSnapshot -> sup mo = true) ->
    forall (todo0 : nat -> list (cop K V)) (sched0 : list nat) (t : nat) (o : cop K V) (rest : list (cop K V)),
    let p := pafter eqd hash idx tag nslots seeds grow_needed shrink_policy probe nstripes minlen grow_only (prog_cache eqd zero) NOW DFLT CB sup (ginit nslots seeds nstripes len0 todo0) sched0 in
    X_term.calm hash idx nslots nstripes (p_x _ p) t -> p_thr _ p t = QIdle -> p_todo _ p t = o :: rest -> runnable o ->
    exists (n : nat) (r : cres K V),
      let p' := pafter eqd hash idx tag nslots seeds grow_needed shrink_policy probe nstripes minlen grow_only (prog_cache eqd zero) NOW DFLT CB sup p (repeat t n) in
      p_thr _ p' t = QIdle /\ p_todo _ p' t = rest
      /\ (forall u, u <> t -> p_thr _ p' u = p_thr _ p u /\ p_todo _ p' u = p_todo _ p u)
      /\ cproj (pouts eqd hash idx tag nslots seeds grow_needed shrink_policy probe nstripes minlen grow_only (prog_cache eqd zero) NOW DFLT CB sup p (repeat t n)) = [HInv t o; HRes t r]
      /\ X_term.calm hash idx nslots nstripes (p_x _ p') t.
Proof. exact @cache_solo_call_completes_mapof. Qed.
Print Assumptions C13X_cache_solo_call_completes.

(* ---------------- xsync_mapof.go ---------------- *)

Theorem C13X_cacheof_can_always_finish :
  forall (K V : Type) (eqd : forall a b : K, {a = b} + {a <> b}) (hash : K -> N -> N) (idx : N -> nat -> nat) (tag : N -> N) (nslots : nat)
         (seeds : nat -> N) (grow_needed shrink_policy : nat -> Z -> bool) (probe : list (option N) -> N -> list nat) (nstripes : nat -> nat)
         (minlen : nat) (grow_only : bool) (len0 : nat) (zero : V) (sup : cmop K V -> bool) (NOW DFLT : Z) (CB : cbid),
    xhyps4 idx nstripes minlen nslots probe -> (0 < len0)%nat -> X_term.ghyp grow_needed ->
    (forall mo : cmop K V, mo <> CSnapshot -> sup mo = true) ->
    forall (cands : list nat) (todo0 : nat -> list (cop K V)) (sched0 : list nat),
    (forall u, Forall runnable (todo0 u)) -> (forall u, ~ In u cands -> todo0 u = []) ->
    exists cont : list nat,
      let p' := pafter eqd hash idx tag nslots seeds grow_needed shrink_policy probe nstripes minlen grow_only (prog_cacheof eqd zero) NOW DFLT CB sup (pafter eqd hash idx tag nslots seeds grow_needed shrink_policy probe nstripes minlen grow_only (prog_cacheof eqd zero) NOW DFLT CB sup (ginit nslots seeds nstripes len0 todo0) sched0) cont in
      all_returned p' /\ machine_at_rest hash idx nslots nstripes (p_x _ p').
Proof. exact @cacheof_can_always_finish_mapof. Qed.
Print Assumptions C13X_cacheof_can_always_finish.

Theorem C13X_cacheof_solo_call_completes :
  forall (K V : Type) (eqd : forall a b : K, {a = b} + {a <> b}) (hash : K -> N -> N) (idx : N -> nat -> nat) (tag : N -> N) (nslots : nat)
         (seeds : nat -> N) (grow_needed shrink_policy : nat -> Z -> bool) (probe : list (option N) -> N -> list nat) (nstripes : nat -> nat)
         (minlen : nat) (grow_only : bool) (len0 : nat) (zero : V) (sup : cmop K V -> bool) (NOW DFLT : Z) (CB : cbid),
    xhyps4 idx nstripes minlen nslots probe -> (0 < len0)%nat -> X_term.ghyp grow_needed ->
    (forall mo : cmop K V, mo <> CSnapshot -> sup mo = true) ->
    forall (todo0 : nat -> list (cop K V)) (sched0 : list nat) (t : nat) (o : cop K V) (rest : list (cop K V)),
    let p := pafter eqd hash idx tag nslots seeds grow_needed shrink_policy probe nstripes minlen grow_only (prog_cacheof eqd zero) NOW DFLT CB sup (ginit nslots seeds nstripes len0 todo0) sched0 in
    X_term.calm hash idx nslots nstripes (p_x _ p) t -> p_thr _ p t = QIdle -> p_todo _ p t = o :: rest -> runnable o ->
    exists (n : nat) (r : cres K V),
      let p' := pafter eqd hash idx tag nslots seeds grow_needed shrink_policy probe nstripes minlen grow_only (prog_cacheof eqd zero) NOW DFLT CB sup p (repeat t n) in
      p_thr _ p' t = QIdle /\ p_todo _ p' t = rest
      /\ (forall u, u <> t -> p_thr _ p' u = p_thr _ p u /\ p_todo _ p' u = p_todo _ p u)
      /\ cproj (pouts eqd hash idx tag nslots seeds grow_needed shrink_policy probe nstripes minlen grow_only (prog_cacheof eqd zero) NOW DFLT CB sup p (repeat t n)) = [HInv t o; HRes t r]
      /\ X_term.calm hash idx nslots nstripes (p_x _ p') t.
Proof. exact @cacheof_solo_call_completes_mapof. Qed.
Print Assumptions C13X_cacheof_solo_call_completes.

