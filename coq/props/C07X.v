(* C07X -- C07 for Cache / CacheOf UNDER CONCURRENCY (cache level): Range / Items over the
   concurrent map machine XMachine (mapof.go), every map call -- the traversal included -- run
   on the machine, its primitive steps interleaved with everybody else's (the product machine
   of CX_product2.v / CX_mapof2.v; here for EVERY set [sup] of map calls that are let through to
   the machine: sup := xsup is cx2step of CX_mapof2.v verbatim, [C07X_cx2_is_gstep]).
   proofs/CX_range.v, CX_range2.v, CX_range3.v; concrete runs in proofs/CX_range_ex.v.

   A call is a WINDOW of a run from the empty cache: after the moves sched0 thread t is idle with
   the call o next on its list ([call_window]); after the further moves sched -- of ANY threads,
   any schedule -- t is idle again with exactly this call consumed; [range_call .. l] says moreover
   that t's history over the window contains the response CList l (the pairs handed to the visitor,
   in order; for Items the pairs returned).  o is Range f hint, or Items hint and f = always true
   ([is_range]).  NOW and the settings are constant.

     C07X_range_returns     t's history over the window is exactly [HInv t o; HRes t (CList l)];
     C07X_range_once        (a) the keys of l are pairwise distinct;
     C07X_range_no_phantom  (b) for every (k, v) of l there is a configuration INSIDE the window at
                            which the traversal was under way on a table tab and an item i with
                            iv i = v, not expired at NOW, was visible under k in that table
                            ([seen_at]: vis of X_lin / X_range in the table the traversal walks);
     C07X_range_no_phantom_tab   (b) sharper: ONE table tab for all the pairs of l, and tab was the
                            CURRENT table at a configuration of the window (where the traversal
                            loaded the pointer);
     C07X_range_no_phantom_abs   (b) when the current table is the same at every configuration of the
                            window (no grow / shrink / Clear published meanwhile): every pair of l
                            was in the abstract map ([abs] of X_resize.v) at a configuration of the
                            window -- "a value actually stored under k, current at some moment of
                            the traversal";
     C07X_range_complete    (c) an item i, not expired at NOW, that is visible under k in the walked
                            table at every configuration of the window at which the traversal is
                            under way, is in l as (k, iv i), provided the visitor said true on
                            every pair of l (always so for Items);
     C07X_range_pending     a call whose traversal is still under way (whether or not it ever
                            returns): the pairs collected so far have distinct keys and each was
                            seen in the walked table at a configuration of the window;
     C07X_cacheof_*         the same for the twin text (xsync_mapof.go);
     C07X_cx2_range_once    (a) spelled out over cx2run / cx2init of CX_mapof2.v.
   Derived from C07_range_once / _snapshot / the invariant of _complete (X_range.v) through
   [Reach]: the machine state of every configuration of a product run is reached by a run of
   XMachine from an initial state with the same label trace.
   Not covered: "visible in the CURRENT table" when a resize is published during the traversal
   (the walked table is then stale: CX_range_ex.range_visit_in_current_table_refuted shows a pair
   handed to the visitor after a Clear and a failed Get of another thread have returned).  Under sup := xsup Items blocks at
   its Size call (CX_range_ex.items_blocked_under_xsup): its statements are vacuous there and
   have content for any sup with sup CSize = true (CX_range_ex.items_runs). *)
From CacheV Require Import Base SpecMap Client CacheModel CacheOfModel Ops SpecTTL Lin Conc XMachine.
From CacheV.proofs Require Import X_lin X_resize X_range CX_compose CX_mapof CX_product2 CX_mapof2 CX_range CX_range2 CX_range3.
From Coq Require Import NArith.
From CacheV Require XMachineS.
From CacheV.proofs Require XS_read CX_map CX_map2.
From CacheV.proofs Require Import CX_rangeS.

(* ---------------- xsync_map.go ---------------- *)

Theorem C07X_range_returns :
  forall (K V : Type) (eqd : forall a b : K, {a = b} + {a <> b})
         (hash : K -> N -> N) (idx : N -> nat -> nat) (tag : N -> N) (nslots : nat) (seeds : nat -> N)
         (grow_needed shrink_policy : nat -> Z -> bool) (probe : list (option N) -> N -> list nat)
         (nstripes : nat -> nat) (minlen : nat) (grow_only : bool) (len0 : nat) (zero : V),
    xhyps4 idx nstripes minlen nslots probe -> (0 < len0)%nat ->
    forall (sup : cmop K V -> bool) (NOW DFLT : Z) (CB : cbid) (todo0 : nat -> list (cop K V)) (sched0 sched : list nat)
           (t : nat) (o : cop K V) (f : K -> V -> bool) (hint : list K) (rest : list (cop K V)),
    is_range o f hint ->
    call_window eqd hash idx tag nslots seeds grow_needed shrink_policy probe nstripes minlen grow_only len0 (prog_cache eqd zero) sup NOW DFLT CB todo0 sched0 sched t o rest ->
    exists l, window_hist eqd hash idx tag nslots seeds grow_needed shrink_policy probe nstripes minlen grow_only len0 (prog_cache eqd zero) sup NOW DFLT CB todo0 sched0 sched t = [HInv t o; HRes t (CList l)].
Proof. exact @cache_range_returns. Qed.
Print Assumptions C07X_range_returns.

Theorem C07X_range_once :
  forall (K V : Type) (eqd : forall a b : K, {a = b} + {a <> b})
         (hash : K -> N -> N) (idx : N -> nat -> nat) (tag : N -> N) (nslots : nat) (seeds : nat -> N)
         (grow_needed shrink_policy : nat -> Z -> bool) (probe : list (option N) -> N -> list nat)
         (nstripes : nat -> nat) (minlen : nat) (grow_only : bool) (len0 : nat) (zero : V),
    xhyps4 idx nstripes minlen nslots probe -> (0 < len0)%nat ->
    forall (sup : cmop K V -> bool) (NOW DFLT : Z) (CB : cbid) (todo0 : nat -> list (cop K V)) (sched0 sched : list nat)
           (t : nat) (o : cop K V) (f : K -> V -> bool) (hint : list K) (rest : list (cop K V)),
    is_range o f hint ->
    forall l, range_call eqd hash idx tag nslots seeds grow_needed shrink_policy probe nstripes minlen grow_only len0 (prog_cache eqd zero) sup NOW DFLT CB todo0 sched0 sched t o rest l -> NoDup (map fst l).
Proof. exact @cache_range_once. Qed.
Print Assumptions C07X_range_once.

Theorem C07X_range_no_phantom :
  forall (K V : Type) (eqd : forall a b : K, {a = b} + {a <> b})
         (hash : K -> N -> N) (idx : N -> nat -> nat) (tag : N -> N) (nslots : nat) (seeds : nat -> N)
         (grow_needed shrink_policy : nat -> Z -> bool) (probe : list (option N) -> N -> list nat)
         (nstripes : nat -> nat) (minlen : nat) (grow_only : bool) (len0 : nat) (zero : V),
    xhyps4 idx nstripes minlen nslots probe -> (0 < len0)%nat ->
    forall (sup : cmop K V -> bool) (NOW DFLT : Z) (CB : cbid) (todo0 : nat -> list (cop K V)) (sched0 sched : list nat)
           (t : nat) (o : cop K V) (f : K -> V -> bool) (hint : list K) (rest : list (cop K V)),
    is_range o f hint ->
    forall l k v, range_call eqd hash idx tag nslots seeds grow_needed shrink_policy probe nstripes minlen grow_only len0 (prog_cache eqd zero) sup NOW DFLT CB todo0 sched0 sched t o rest l -> In (k, v) l ->
    exists a b tab i, sched = a ++ b
      /\ seen_at hash idx nslots nstripes (conf_at eqd hash idx tag nslots seeds grow_needed shrink_policy probe nstripes minlen grow_only len0 (prog_cache eqd zero) sup NOW DFLT CB todo0 sched0 a) t tab k i
      /\ iv i = v /\ expiredWithNow NOW i = false.
Proof. exact @cache_range_no_phantom. Qed.
Print Assumptions C07X_range_no_phantom.

Theorem C07X_range_complete :
  forall (K V : Type) (eqd : forall a b : K, {a = b} + {a <> b})
         (hash : K -> N -> N) (idx : N -> nat -> nat) (tag : N -> N) (nslots : nat) (seeds : nat -> N)
         (grow_needed shrink_policy : nat -> Z -> bool) (probe : list (option N) -> N -> list nat)
         (nstripes : nat -> nat) (minlen : nat) (grow_only : bool) (len0 : nat) (zero : V),
    xhyps4 idx nstripes minlen nslots probe -> (0 < len0)%nat ->
    forall (sup : cmop K V -> bool) (NOW DFLT : Z) (CB : cbid) (todo0 : nat -> list (cop K V)) (sched0 sched : list nat)
           (t : nat) (o : cop K V) (f : K -> V -> bool) (hint : list K) (rest : list (cop K V)),
    is_range o f hint ->
    forall l k (i : item V), range_call eqd hash idx tag nslots seeds grow_needed shrink_policy probe nstripes minlen grow_only len0 (prog_cache eqd zero) sup NOW DFLT CB todo0 sched0 sched t o rest l ->
    expiredWithNow NOW i = false ->
    (forall a b tab, sched = a ++ b -> traversing t (conf_at eqd hash idx tag nslots seeds grow_needed shrink_policy probe nstripes minlen grow_only len0 (prog_cache eqd zero) sup NOW DFLT CB todo0 sched0 a) tab ->
                     X_lin.vis hash idx (tab_at nslots nstripes (p_x _ (conf_at eqd hash idx tag nslots seeds grow_needed shrink_policy probe nstripes minlen grow_only len0 (prog_cache eqd zero) sup NOW DFLT CB todo0 sched0 a)) tab) k i) ->
    (forall k' v', In (k', v') l -> f k' v' = true) ->
    In (k, iv i) l.
Proof. exact @cache_range_complete. Qed.
Print Assumptions C07X_range_complete.

Theorem C07X_range_no_phantom_tab :
  forall (K V : Type) (eqd : forall a b : K, {a = b} + {a <> b})
         (hash : K -> N -> N) (idx : N -> nat -> nat) (tag : N -> N) (nslots : nat) (seeds : nat -> N)
         (grow_needed shrink_policy : nat -> Z -> bool) (probe : list (option N) -> N -> list nat)
         (nstripes : nat -> nat) (minlen : nat) (grow_only : bool) (len0 : nat) (zero : V),
    xhyps4 idx nstripes minlen nslots probe -> (0 < len0)%nat ->
    forall (sup : cmop K V -> bool) (NOW DFLT : Z) (CB : cbid) (todo0 : nat -> list (cop K V)) (sched0 sched : list nat)
           (t : nat) (o : cop K V) (f : K -> V -> bool) (hint : list K) (rest : list (cop K V)),
    is_range o f hint ->
    forall l, range_call eqd hash idx tag nslots seeds grow_needed shrink_policy probe nstripes minlen grow_only len0 (prog_cache eqd zero) sup NOW DFLT CB todo0 sched0 sched t o rest l ->
    exists tab, (exists a0 b0, sched = a0 ++ b0 /\ g_cur (p_x _ (conf_at eqd hash idx tag nslots seeds grow_needed shrink_policy probe nstripes minlen grow_only len0 (prog_cache eqd zero) sup NOW DFLT CB todo0 sched0 a0)) = tab)
      /\ forall k v, In (k, v) l ->
           exists a b i, sched = a ++ b /\ seen_at hash idx nslots nstripes (conf_at eqd hash idx tag nslots seeds grow_needed shrink_policy probe nstripes minlen grow_only len0 (prog_cache eqd zero) sup NOW DFLT CB todo0 sched0 a) t tab k i
                         /\ iv i = v /\ expiredWithNow NOW i = false.
Proof. exact @cache_range_no_phantom_tab. Qed.
Print Assumptions C07X_range_no_phantom_tab.

Theorem C07X_range_no_phantom_abs :
  forall (K V : Type) (eqd : forall a b : K, {a = b} + {a <> b})
         (hash : K -> N -> N) (idx : N -> nat -> nat) (tag : N -> N) (nslots : nat) (seeds : nat -> N)
         (grow_needed shrink_policy : nat -> Z -> bool) (probe : list (option N) -> N -> list nat)
         (nstripes : nat -> nat) (minlen : nat) (grow_only : bool) (len0 : nat) (zero : V),
    xhyps4 idx nstripes minlen nslots probe -> (0 < len0)%nat ->
    forall (sup : cmop K V -> bool) (NOW DFLT : Z) (CB : cbid) (todo0 : nat -> list (cop K V)) (sched0 sched : list nat)
           (t : nat) (o : cop K V) (f : K -> V -> bool) (hint : list K) (rest : list (cop K V)),
    is_range o f hint ->
    forall l c, range_call eqd hash idx tag nslots seeds grow_needed shrink_policy probe nstripes minlen grow_only len0 (prog_cache eqd zero) sup NOW DFLT CB todo0 sched0 sched t o rest l ->
    (forall a b, sched = a ++ b -> g_cur (p_x _ (conf_at eqd hash idx tag nslots seeds grow_needed shrink_policy probe nstripes minlen grow_only len0 (prog_cache eqd zero) sup NOW DFLT CB todo0 sched0 a)) = c) ->
    forall k v, In (k, v) l ->
      exists a b i, sched = a ++ b /\ X_resize.abs hash idx nslots nstripes (p_x _ (conf_at eqd hash idx tag nslots seeds grow_needed shrink_policy probe nstripes minlen grow_only len0 (prog_cache eqd zero) sup NOW DFLT CB todo0 sched0 a)) k i
                    /\ iv i = v /\ expiredWithNow NOW i = false.
Proof. exact @cache_range_no_phantom_abs. Qed.
Print Assumptions C07X_range_no_phantom_abs.

Theorem C07X_range_pending :
  forall (K V : Type) (eqd : forall a b : K, {a = b} + {a <> b})
         (hash : K -> N -> N) (idx : N -> nat -> nat) (tag : N -> N) (nslots : nat) (seeds : nat -> N)
         (grow_needed shrink_policy : nat -> Z -> bool) (probe : list (option N) -> N -> list nat)
         (nstripes : nat -> nat) (minlen : nat) (grow_only : bool) (len0 : nat) (zero : V),
    xhyps4 idx nstripes minlen nslots probe -> (0 < len0)%nat ->
    forall (sup : cmop K V -> bool) (NOW DFLT : Z) (CB : cbid) (todo0 : nat -> list (cop K V)) (sched0 sched : list nat)
           (t : nat) (o : cop K V) (f : K -> V -> bool) (hint : list K) (rest : list (cop K V)),
    is_range o f hint ->
    forall o' k' acc,
    p_thr _ (conf_at eqd hash idx tag nslots seeds grow_needed shrink_policy probe nstripes minlen grow_only len0 (prog_cache eqd zero) sup NOW DFLT CB todo0 sched0 []) t = QIdle -> p_todo _ (conf_at eqd hash idx tag nslots seeds grow_needed shrink_policy probe nstripes minlen grow_only len0 (prog_cache eqd zero) sup NOW DFLT CB todo0 sched0 []) t = o :: rest ->
    p_thr _ (conf_at eqd hash idx tag nslots seeds grow_needed shrink_policy probe nstripes minlen grow_only len0 (prog_cache eqd zero) sup NOW DFLT CB todo0 sched0 sched) t = QSWait o' k' acc -> p_todo _ (conf_at eqd hash idx tag nslots seeds grow_needed shrink_policy probe nstripes minlen grow_only len0 (prog_cache eqd zero) sup NOW DFLT CB todo0 sched0 sched) t = rest ->
    NoDup (map fst acc)
    /\ exists tab, (exists a0 b0, sched = a0 ++ b0 /\ g_cur (p_x _ (conf_at eqd hash idx tag nslots seeds grow_needed shrink_policy probe nstripes minlen grow_only len0 (prog_cache eqd zero) sup NOW DFLT CB todo0 sched0 a0)) = tab)
         /\ forall k i, In (k, i) acc -> exists a b, sched = a ++ b /\ seen_at hash idx nslots nstripes (conf_at eqd hash idx tag nslots seeds grow_needed shrink_policy probe nstripes minlen grow_only len0 (prog_cache eqd zero) sup NOW DFLT CB todo0 sched0 a) t tab k i.
Proof. exact @cache_range_pending. Qed.
Print Assumptions C07X_range_pending.

(* ---------------- xsync_mapof.go ---------------- *)

Theorem C07X_cacheof_range_returns :
  forall (K V : Type) (eqd : forall a b : K, {a = b} + {a <> b})
         (hash : K -> N -> N) (idx : N -> nat -> nat) (tag : N -> N) (nslots : nat) (seeds : nat -> N)
         (grow_needed shrink_policy : nat -> Z -> bool) (probe : list (option N) -> N -> list nat)
         (nstripes : nat -> nat) (minlen : nat) (grow_only : bool) (len0 : nat) (zero : V),
    xhyps4 idx nstripes minlen nslots probe -> (0 < len0)%nat ->
    forall (sup : cmop K V -> bool) (NOW DFLT : Z) (CB : cbid) (todo0 : nat -> list (cop K V)) (sched0 sched : list nat)
           (t : nat) (o : cop K V) (f : K -> V -> bool) (hint : list K) (rest : list (cop K V)),
    is_range o f hint ->
    call_window eqd hash idx tag nslots seeds grow_needed shrink_policy probe nstripes minlen grow_only len0 (prog_cacheof eqd zero) sup NOW DFLT CB todo0 sched0 sched t o rest ->
    exists l, window_hist eqd hash idx tag nslots seeds grow_needed shrink_policy probe nstripes minlen grow_only len0 (prog_cacheof eqd zero) sup NOW DFLT CB todo0 sched0 sched t = [HInv t o; HRes t (CList l)].
Proof. exact @cacheof_range_returns. Qed.
Print Assumptions C07X_cacheof_range_returns.

Theorem C07X_cacheof_range_once :
  forall (K V : Type) (eqd : forall a b : K, {a = b} + {a <> b})
         (hash : K -> N -> N) (idx : N -> nat -> nat) (tag : N -> N) (nslots : nat) (seeds : nat -> N)
         (grow_needed shrink_policy : nat -> Z -> bool) (probe : list (option N) -> N -> list nat)
         (nstripes : nat -> nat) (minlen : nat) (grow_only : bool) (len0 : nat) (zero : V),
    xhyps4 idx nstripes minlen nslots probe -> (0 < len0)%nat ->
    forall (sup : cmop K V -> bool) (NOW DFLT : Z) (CB : cbid) (todo0 : nat -> list (cop K V)) (sched0 sched : list nat)
           (t : nat) (o : cop K V) (f : K -> V -> bool) (hint : list K) (rest : list (cop K V)),
    is_range o f hint ->
    forall l, range_call eqd hash idx tag nslots seeds grow_needed shrink_policy probe nstripes minlen grow_only len0 (prog_cacheof eqd zero) sup NOW DFLT CB todo0 sched0 sched t o rest l -> NoDup (map fst l).
Proof. exact @cacheof_range_once. Qed.
Print Assumptions C07X_cacheof_range_once.

Theorem C07X_cacheof_range_no_phantom :
  forall (K V : Type) (eqd : forall a b : K, {a = b} + {a <> b})
         (hash : K -> N -> N) (idx : N -> nat -> nat) (tag : N -> N) (nslots : nat) (seeds : nat -> N)
         (grow_needed shrink_policy : nat -> Z -> bool) (probe : list (option N) -> N -> list nat)
         (nstripes : nat -> nat) (minlen : nat) (grow_only : bool) (len0 : nat) (zero : V),
    xhyps4 idx nstripes minlen nslots probe -> (0 < len0)%nat ->
    forall (sup : cmop K V -> bool) (NOW DFLT : Z) (CB : cbid) (todo0 : nat -> list (cop K V)) (sched0 sched : list nat)
           (t : nat) (o : cop K V) (f : K -> V -> bool) (hint : list K) (rest : list (cop K V)),
    is_range o f hint ->
    forall l k v, range_call eqd hash idx tag nslots seeds grow_needed shrink_policy probe nstripes minlen grow_only len0 (prog_cacheof eqd zero) sup NOW DFLT CB todo0 sched0 sched t o rest l -> In (k, v) l ->
    exists a b tab i, sched = a ++ b
      /\ seen_at hash idx nslots nstripes (conf_at eqd hash idx tag nslots seeds grow_needed shrink_policy probe nstripes minlen grow_only len0 (prog_cacheof eqd zero) sup NOW DFLT CB todo0 sched0 a) t tab k i
      /\ iv i = v /\ expiredWithNow NOW i = false.
Proof. exact @cacheof_range_no_phantom. Qed.
Print Assumptions C07X_cacheof_range_no_phantom.

Theorem C07X_cacheof_range_complete :
  forall (K V : Type) (eqd : forall a b : K, {a = b} + {a <> b})
         (hash : K -> N -> N) (idx : N -> nat -> nat) (tag : N -> N) (nslots : nat) (seeds : nat -> N)
         (grow_needed shrink_policy : nat -> Z -> bool) (probe : list (option N) -> N -> list nat)
         (nstripes : nat -> nat) (minlen : nat) (grow_only : bool) (len0 : nat) (zero : V),
    xhyps4 idx nstripes minlen nslots probe -> (0 < len0)%nat ->
    forall (sup : cmop K V -> bool) (NOW DFLT : Z) (CB : cbid) (todo0 : nat -> list (cop K V)) (sched0 sched : list nat)
           (t : nat) (o : cop K V) (f : K -> V -> bool) (hint : list K) (rest : list (cop K V)),
    is_range o f hint ->
    forall l k (i : item V), range_call eqd hash idx tag nslots seeds grow_needed shrink_policy probe nstripes minlen grow_only len0 (prog_cacheof eqd zero) sup NOW DFLT CB todo0 sched0 sched t o rest l ->
    expiredWithNow NOW i = false ->
    (forall a b tab, sched = a ++ b -> traversing t (conf_at eqd hash idx tag nslots seeds grow_needed shrink_policy probe nstripes minlen grow_only len0 (prog_cacheof eqd zero) sup NOW DFLT CB todo0 sched0 a) tab ->
                     X_lin.vis hash idx (tab_at nslots nstripes (p_x _ (conf_at eqd hash idx tag nslots seeds grow_needed shrink_policy probe nstripes minlen grow_only len0 (prog_cacheof eqd zero) sup NOW DFLT CB todo0 sched0 a)) tab) k i) ->
    (forall k' v', In (k', v') l -> f k' v' = true) ->
    In (k, iv i) l.
Proof. exact @cacheof_range_complete. Qed.
Print Assumptions C07X_cacheof_range_complete.

Theorem C07X_cacheof_range_no_phantom_tab :
  forall (K V : Type) (eqd : forall a b : K, {a = b} + {a <> b})
         (hash : K -> N -> N) (idx : N -> nat -> nat) (tag : N -> N) (nslots : nat) (seeds : nat -> N)
         (grow_needed shrink_policy : nat -> Z -> bool) (probe : list (option N) -> N -> list nat)
         (nstripes : nat -> nat) (minlen : nat) (grow_only : bool) (len0 : nat) (zero : V),
    xhyps4 idx nstripes minlen nslots probe -> (0 < len0)%nat ->
    forall (sup : cmop K V -> bool) (NOW DFLT : Z) (CB : cbid) (todo0 : nat -> list (cop K V)) (sched0 sched : list nat)
           (t : nat) (o : cop K V) (f : K -> V -> bool) (hint : list K) (rest : list (cop K V)),
    is_range o f hint ->
    forall l, range_call eqd hash idx tag nslots seeds grow_needed shrink_policy probe nstripes minlen grow_only len0 (prog_cacheof eqd zero) sup NOW DFLT CB todo0 sched0 sched t o rest l ->
    exists tab, (exists a0 b0, sched = a0 ++ b0 /\ g_cur (p_x _ (conf_at eqd hash idx tag nslots seeds grow_needed shrink_policy probe nstripes minlen grow_only len0 (prog_cacheof eqd zero) sup NOW DFLT CB todo0 sched0 a0)) = tab)
      /\ forall k v, In (k, v) l ->
           exists a b i, sched = a ++ b /\ seen_at hash idx nslots nstripes (conf_at eqd hash idx tag nslots seeds grow_needed shrink_policy probe nstripes minlen grow_only len0 (prog_cacheof eqd zero) sup NOW DFLT CB todo0 sched0 a) t tab k i
                         /\ iv i = v /\ expiredWithNow NOW i = false.
Proof. exact @cacheof_range_no_phantom_tab. Qed.
Print Assumptions C07X_cacheof_range_no_phantom_tab.

Theorem C07X_cacheof_range_no_phantom_abs :
  forall (K V : Type) (eqd : forall a b : K, {a = b} + {a <> b})
         (hash : K -> N -> N) (idx : N -> nat -> nat) (tag : N -> N) (nslots : nat) (seeds : nat -> N)
         (grow_needed shrink_policy : nat -> Z -> bool) (probe : list (option N) -> N -> list nat)
         (nstripes : nat -> nat) (minlen : nat) (grow_only : bool) (len0 : nat) (zero : V),
    xhyps4 idx nstripes minlen nslots probe -> (0 < len0)%nat ->
    forall (sup : cmop K V -> bool) (NOW DFLT : Z) (CB : cbid) (todo0 : nat -> list (cop K V)) (sched0 sched : list nat)
           (t : nat) (o : cop K V) (f : K -> V -> bool) (hint : list K) (rest : list (cop K V)),
    is_range o f hint ->
    forall l c, range_call eqd hash idx tag nslots seeds grow_needed shrink_policy probe nstripes minlen grow_only len0 (prog_cacheof eqd zero) sup NOW DFLT CB todo0 sched0 sched t o rest l ->
    (forall a b, sched = a ++ b -> g_cur (p_x _ (conf_at eqd hash idx tag nslots seeds grow_needed shrink_policy probe nstripes minlen grow_only len0 (prog_cacheof eqd zero) sup NOW DFLT CB todo0 sched0 a)) = c) ->
    forall k v, In (k, v) l ->
      exists a b i, sched = a ++ b /\ X_resize.abs hash idx nslots nstripes (p_x _ (conf_at eqd hash idx tag nslots seeds grow_needed shrink_policy probe nstripes minlen grow_only len0 (prog_cacheof eqd zero) sup NOW DFLT CB todo0 sched0 a)) k i
                    /\ iv i = v /\ expiredWithNow NOW i = false.
Proof. exact @cacheof_range_no_phantom_abs. Qed.
Print Assumptions C07X_cacheof_range_no_phantom_abs.

Theorem C07X_cacheof_range_pending :
  forall (K V : Type) (eqd : forall a b : K, {a = b} + {a <> b})
         (hash : K -> N -> N) (idx : N -> nat -> nat) (tag : N -> N) (nslots : nat) (seeds : nat -> N)
         (grow_needed shrink_policy : nat -> Z -> bool) (probe : list (option N) -> N -> list nat)
         (nstripes : nat -> nat) (minlen : nat) (grow_only : bool) (len0 : nat) (zero : V),
    xhyps4 idx nstripes minlen nslots probe -> (0 < len0)%nat ->
    forall (sup : cmop K V -> bool) (NOW DFLT : Z) (CB : cbid) (todo0 : nat -> list (cop K V)) (sched0 sched : list nat)
           (t : nat) (o : cop K V) (f : K -> V -> bool) (hint : list K) (rest : list (cop K V)),
    is_range o f hint ->
    forall o' k' acc,
    p_thr _ (conf_at eqd hash idx tag nslots seeds grow_needed shrink_policy probe nstripes minlen grow_only len0 (prog_cacheof eqd zero) sup NOW DFLT CB todo0 sched0 []) t = QIdle -> p_todo _ (conf_at eqd hash idx tag nslots seeds grow_needed shrink_policy probe nstripes minlen grow_only len0 (prog_cacheof eqd zero) sup NOW DFLT CB todo0 sched0 []) t = o :: rest ->
    p_thr _ (conf_at eqd hash idx tag nslots seeds grow_needed shrink_policy probe nstripes minlen grow_only len0 (prog_cacheof eqd zero) sup NOW DFLT CB todo0 sched0 sched) t = QSWait o' k' acc -> p_todo _ (conf_at eqd hash idx tag nslots seeds grow_needed shrink_policy probe nstripes minlen grow_only len0 (prog_cacheof eqd zero) sup NOW DFLT CB todo0 sched0 sched) t = rest ->
    NoDup (map fst acc)
    /\ exists tab, (exists a0 b0, sched = a0 ++ b0 /\ g_cur (p_x _ (conf_at eqd hash idx tag nslots seeds grow_needed shrink_policy probe nstripes minlen grow_only len0 (prog_cacheof eqd zero) sup NOW DFLT CB todo0 sched0 a0)) = tab)
         /\ forall k i, In (k, i) acc -> exists a b, sched = a ++ b /\ seen_at hash idx nslots nstripes (conf_at eqd hash idx tag nslots seeds grow_needed shrink_policy probe nstripes minlen grow_only len0 (prog_cacheof eqd zero) sup NOW DFLT CB todo0 sched0 a) t tab k i.
Proof. exact @cacheof_range_pending. Qed.
Print Assumptions C07X_cacheof_range_pending.

(* ---------------- the link to CX_mapof2.v ---------------- *)

Theorem C07X_cx2_is_gstep :
  forall (K V : Type) (eqd : forall a b : K, {a = b} + {a <> b})
         (hash : K -> N -> N) (idx : N -> nat -> nat) (tag : N -> N) (nslots : nat) (seeds : nat -> N)
         (grow_needed shrink_policy : nat -> Z -> bool) (probe : list (option N) -> N -> list nat)
         (nstripes : nat -> nat) (minlen : nat) (grow_only : bool) (len0 : nat)
         (NOW DFLT : Z) (CB : cbid) (todo0 : nat -> list (cop K V)) (progs : cop K V -> prog K V (cres K V)),
    CX_range.gstep eqd hash idx tag nslots seeds grow_needed shrink_policy probe nstripes minlen grow_only progs NOW DFLT CB (@xsup K V)
    = cx2step eqd hash idx tag nslots seeds grow_needed shrink_policy probe nstripes minlen grow_only progs NOW DFLT CB
    /\ CX_range.grun eqd hash idx tag nslots seeds grow_needed shrink_policy probe nstripes minlen grow_only progs NOW DFLT CB (@xsup K V)
       = cx2run eqd hash idx tag nslots seeds grow_needed shrink_policy probe nstripes minlen grow_only progs NOW DFLT CB
    /\ CX_range.ginit nslots seeds nstripes len0 todo0 = cx2init nslots seeds nstripes len0 todo0.
Proof. exact @cx2_is_gstep. Qed.
Print Assumptions C07X_cx2_is_gstep.

Theorem C07X_cx2_range_once :
  forall (K V : Type) (eqd : forall a b : K, {a = b} + {a <> b})
         (hash : K -> N -> N) (idx : N -> nat -> nat) (tag : N -> N) (nslots : nat) (seeds : nat -> N)
         (grow_needed shrink_policy : nat -> Z -> bool) (probe : list (option N) -> N -> list nat)
         (nstripes : nat -> nat) (minlen : nat) (grow_only : bool) (len0 : nat) (zero : V),
    xhyps4 idx nstripes minlen nslots probe -> (0 < len0)%nat ->
    forall NOW DFLT CB (todo0 : nat -> list (cop K V)) (sched0 sched : list nat) (t : nat) (o : cop K V) f hint (rest : list (cop K V)),
    is_range o f hint ->
    let run := cx2run eqd hash idx tag nslots seeds grow_needed shrink_policy probe nstripes minlen grow_only (prog_cache eqd zero) NOW DFLT CB in
    let p0 := fst (fst (run (cx2init nslots seeds nstripes len0 todo0) sched0)) in
    let p1 := fst (fst (run p0 sched)) in
    let outs := snd (fst (run p0 sched)) in
    p_thr _ p0 t = QIdle -> p_todo _ p0 t = o :: rest -> p_thr _ p1 t = QIdle -> p_todo _ p1 t = rest ->
    forall l, In (OC (HRes t (CList l))) outs -> NoDup (map fst l).
Proof. exact @cx2_range_once. Qed.
Print Assumptions C07X_cx2_range_once.

(* ---------------- over XMachineS (Map, map.go): (a) ---------------- *)
(* proofs/CX_rangeS.v: the same product machine over XMachineS (CX_map2.v; cs2step is the instance
   sup := ssup, [C07X_cs2_is_gstep]), for every sup that does not let Size through (s2_ok SSize = False
   in CX_map2.v; hence ORange only -- Items blocks at its Size call).  The window of thread t's call
   Range f hint ([call_windowS]) -- whatever the other threads do meanwhile -- ends with the response
   CList l, and the keys of l are pairwise distinct.  (b), (c) are not ported to XMachineS. *)

Theorem C07X_cacheS_range_once :
  forall (K V : Type) (eqd : forall a b : K, {a = b} + {a <> b}) (hash : K -> N -> N) (idx : N -> nat -> nat) (tophash : N -> N)
         (nslots : nat) (seeds : nat -> N) (grow_needed shrink_policy : nat -> Z -> bool) (nstripes : nat -> nat) (minlen : nat) (grow_only : bool)
         (len0 : nat) (zero : V),
    XS_read.rdhyps hash idx tophash nslots minlen -> (0 < len0)%nat ->
    forall sup : cmop K V -> bool, sup CSize = false ->
    forall (NOW DFLT : Z) (CB : cbid) (todo0 : nat -> list (cop K V)) (sched0 sched : list nat) (t : nat) (f : K -> V -> bool) (hint : list K)
           (rest : list (cop K V)),
    call_windowS eqd hash idx tophash nslots seeds grow_needed shrink_policy nstripes minlen grow_only len0 (prog_cache eqd zero) sup NOW DFLT CB todo0
                 sched0 sched t (ORange (Some f) hint) rest ->
    exists l : list (K * V),
      window_histS eqd hash idx tophash nslots seeds grow_needed shrink_policy nstripes minlen grow_only len0 (prog_cache eqd zero) sup NOW DFLT CB todo0
                   sched0 sched t = [HInv t (ORange (Some f) hint); HRes t (CList l)] /\ NoDup (map fst l).
Proof. exact @cacheS_range_once. Qed.
Print Assumptions C07X_cacheS_range_once.

Theorem C07X_cacheofS_range_once :
  forall (K V : Type) (eqd : forall a b : K, {a = b} + {a <> b}) (hash : K -> N -> N) (idx : N -> nat -> nat) (tophash : N -> N)
         (nslots : nat) (seeds : nat -> N) (grow_needed shrink_policy : nat -> Z -> bool) (nstripes : nat -> nat) (minlen : nat) (grow_only : bool)
         (len0 : nat) (zero : V),
    XS_read.rdhyps hash idx tophash nslots minlen -> (0 < len0)%nat ->
    forall sup : cmop K V -> bool, sup CSize = false ->
    forall (NOW DFLT : Z) (CB : cbid) (todo0 : nat -> list (cop K V)) (sched0 sched : list nat) (t : nat) (f : K -> V -> bool) (hint : list K)
           (rest : list (cop K V)),
    call_windowS eqd hash idx tophash nslots seeds grow_needed shrink_policy nstripes minlen grow_only len0 (prog_cacheof eqd zero) sup NOW DFLT CB todo0
                 sched0 sched t (ORange (Some f) hint) rest ->
    exists l : list (K * V),
      window_histS eqd hash idx tophash nslots seeds grow_needed shrink_policy nstripes minlen grow_only len0 (prog_cacheof eqd zero) sup NOW DFLT CB todo0
                   sched0 sched t = [HInv t (ORange (Some f) hint); HRes t (CList l)] /\ NoDup (map fst l).
Proof. exact @cacheofS_range_once. Qed.
Print Assumptions C07X_cacheofS_range_once.

Theorem C07X_cs2_is_gstep :
  forall (K V : Type) (eqd : forall a b : K, {a = b} + {a <> b}) (hash : K -> N -> N) (idx : N -> nat -> nat) (tophash : N -> N)
         (nslots : nat) (seeds : nat -> N) (grow_needed shrink_policy : nat -> Z -> bool) (nstripes : nat -> nat) (minlen : nat) (grow_only : bool)
         (len0 : nat) (NOW DFLT : Z) (CB : cbid) (todo0 : nat -> list (cop K V)) (progs : cop K V -> prog K V (cres K V)),
    CX_rangeS.gstep eqd hash idx tophash nslots seeds grow_needed shrink_policy nstripes minlen grow_only progs NOW DFLT CB (@CX_map.ssup K V)
    = CX_map2.cs2step eqd hash idx tophash nslots seeds grow_needed shrink_policy nstripes minlen grow_only progs NOW DFLT CB
    /\ CX_rangeS.grun eqd hash idx tophash nslots seeds grow_needed shrink_policy nstripes minlen grow_only progs NOW DFLT CB (@CX_map.ssup K V)
       = CX_map2.cs2run eqd hash idx tophash nslots seeds grow_needed shrink_policy nstripes minlen grow_only progs NOW DFLT CB
    /\ CX_rangeS.ginit nslots seeds nstripes len0 todo0 = CX_map2.cs2init nslots seeds nstripes len0 todo0.
Proof. exact @cs2_is_gstep. Qed.
Print Assumptions C07X_cs2_is_gstep.
