(* C10 -- Keys are matched by Go equality for every comparable key type.

   Proved: for EVERY key type with decidable equality and EVERY hasher that is a
   function of the key (hence gives equal hashes to equal keys) -- a constant
   one included -- MapOf matches keys by equality exactly as a builtin map.
   NOT provable here, checked by correspondence (native/hasher, a catalogue of
   every comparable kind): that the Go default hasher IS such a function of the
   key's ==-class (deterministic, total, independent of memory the key merely
   points to).  That is the hypothesis under which this theorem applies. *)
From CacheV Require Import Base SpecMap TableModel.
From CacheV.proofs Require Import C11_lists C11_table.
From Coq Require Import NArith.

Theorem C10_keys_by_equality :
  forall (K V A : Type) (eqd : forall a b : K, {a = b} + {a <> b})
         (hasher : K -> N -> N)                      (* any function of the key and the seed *)
         (idx : N -> nat -> nat) (tag : N -> N) (nslots : nat) (seeds : nat -> N)
         (grow_needed shrink_policy : nat -> nat -> bool),
    (forall h len, (0 < len)%nat -> (idx h len < len)%nat) ->
    forall fuel (ops : list (mop K V A)) (m : @tmap K V) (a : amap K V) m' rs,
      WFm hasher idx tag nslots m -> meq eqd (abs nslots m) a ->
      run_table eqd hasher idx tag nslots seeds true grow_needed shrink_policy fuel m ops = Some (m', rs) ->
      let '(a', rs') := run_spec eqd a ops in
      WFm hasher idx tag nslots m' /\ meq eqd (abs nslots m') a' /\ Forall2 res_equiv rs rs'.
Proof.
  intros K V A eqd hasher idx tag nslots seeds grow_needed shrink_policy Hidx fuel ops m a m' rs.
  exact (run_refines eqd hasher idx tag nslots seeds true grow_needed shrink_policy Hidx fuel ops m a m' rs).
Qed.
Print Assumptions C10_keys_by_equality.

(* distinct keys never alias even when their hashes collide completely:
   the instance with a constant hasher *)
Corollary C10_total_collision :
  forall (K V A : Type) (eqd : forall a b : K, {a = b} + {a <> b}) (c : N)
         (idx : N -> nat -> nat) (tag : N -> N) (nslots : nat) (seeds : nat -> N)
         (grow_needed shrink_policy : nat -> nat -> bool),
    (forall h len, (0 < len)%nat -> (idx h len < len)%nat) ->
    forall fuel (ops : list (mop K V A)) (m : @tmap K V) (a : amap K V) m' rs,
      WFm (fun _ _ => c) idx tag nslots m -> meq eqd (abs nslots m) a ->
      run_table eqd (fun _ _ => c) idx tag nslots seeds true grow_needed shrink_policy fuel m ops = Some (m', rs) ->
      let '(a', rs') := run_spec eqd a ops in
      meq eqd (abs nslots m') a' /\ Forall2 res_equiv rs rs'.
Proof.
  intros K V A eqd c idx tag nslots seeds grow_needed shrink_policy Hidx fuel ops m a m' rs Hw Hq Hr.
  pose proof (run_refines eqd (fun _ _ => c) idx tag nslots seeds true grow_needed shrink_policy Hidx fuel ops m a m' rs Hw Hq Hr) as H.
  destruct (run_spec eqd a ops) as [a' rs']. tauto.
Qed.
Print Assumptions C10_total_collision.
