(* C02TX -- the ticking theorem (props/C02T.v) with the hypothesis "each map call is atomic"
   REMOVED: the cache methods run over the concurrent machines XMachine (mapof.go) and
   XMachineS (map.go) themselves, every map call executed primitive by primitive, interleaved
   with everybody else's steps AND WITH TICKS OF THE CLOCK; every TICK-SAFE run from the empty
   cache is linearizable in the interval-timestamped sense of LinT.v w.r.t. SpecTTL.

   THE ASSUMPTION (cxsafeT / cssafeT = CXT_product.tick_safe along the run): no tick while a
   Compute call -- a map call that carries a closure: Get's re-check, GetOrSet, GetAndSet,
   GetAndRefresh, GetOrCompute, Compute, DeleteExpired's re-check -- is in flight, i.e. between
   the step that hands it to the map machine and the step that takes its answer.  Ticks inside
   Load / Store / LoadAndDelete / Delete / Clear calls, and between any two steps of the cache
   methods (in particular between a clock read and the map call that follows, between a map
   call and the clock read that follows) are unrestricted.
   Why: the map machines take pure functions, so the product machine hands a closure to the map
   with the clock of the instant of the hand-over; ConcT.v's closure sees the clock of the
   instant of its atomic call; the composition (CXT_compose.v) executes the atomic call at the
   call's map-level linearization mark, which the theorems C04_linearizable / C03_linearizable
   give as a black box somewhere between invocation and response.
   WITHOUT the assumption the statement is FALSE of this product machine:
   [C02TX_closure_clock_refuted].  Proof route: CXT_compose.v (timed combined traces ->
   a run of ConcT.v's atomic machine with the same history, ticks in order), CXT_product.v
   (product machine with ticks, prophecy of the todo lists), CXT_mapof.v, CXT_map.v. *)
From CacheV Require Import Base SpecMap Client CacheModel CacheOfModel Ops SpecTTL Lin LinT Conc ConcT.
From CacheV.proofs Require Import C01_sim C02_good C02_lin LinT_facts LinT_tests C02T_main.
From CacheV Require XMachine XMachineS.
From CacheV.proofs Require X_lin XS_resize CXT_compose CXT_product CXT_mapof CXT_map CXT_ex.
From Coq Require Import NArith.

Theorem C02TX_cache_over_mapof_ticking :
  forall (K V : Type) (eqd : forall a b : K, {a = b} + {a <> b}) (zero : V) (DFLT : Z) (CB : cbid)
         hash idx tag nslots seeds g sh probe nstripes minlen grow_only,
    X_lin.xhyps4 idx nstripes minlen nslots probe ->
    forall len0 now0 (todo : nat -> list (cop K V)) (sched : list (@move K V)), (0 < len0)%nat ->
    (forall t, Forall conc_ok (todo t)) ->
    CXT_mapof.cxsafeT eqd hash idx tag nslots seeds g sh probe nstripes minlen grow_only len0 (prog_cache eqd zero) DFLT CB now0 todo sched ->
    cache_linearizableT eqd zero (mk now0 DFLT CB [])
      (CXT_mapof.cxhistT eqd hash idx tag nslots seeds g sh probe nstripes minlen grow_only len0 (prog_cache eqd zero) DFLT CB now0 todo sched).
Proof. intros. apply CXT_mapof.cache_over_xmachine_linearizable_ticking; assumption. Qed.
Print Assumptions C02TX_cache_over_mapof_ticking.

Theorem C02TX_cache_over_map_ticking :
  forall (K V : Type) (eqd : forall a b : K, {a = b} + {a <> b}) (zero : V) (DFLT : Z) (CB : cbid)
         hash idx tophash nslots seeds g sh nstripes minlen grow_only,
    @XS_resize.rhyps K hash idx tophash nslots minlen ->
    forall len0 now0 (todo : nat -> list (cop K V)) (sched : list (@move K V)), (0 < len0)%nat ->
    (forall t, Forall conc_ok (todo t)) ->
    CXT_map.cssafeT eqd hash idx tophash nslots seeds g sh nstripes minlen grow_only len0 (prog_cache eqd zero) DFLT CB now0 todo sched ->
    cache_linearizableT eqd zero (mk now0 DFLT CB [])
      (CXT_map.cshistT eqd hash idx tophash nslots seeds g sh nstripes minlen grow_only len0 (prog_cache eqd zero) DFLT CB now0 todo sched).
Proof. intros. apply CXT_map.cache_over_smachine_linearizable_ticking; assumption. Qed.
Print Assumptions C02TX_cache_over_map_ticking.

Theorem C02TX_cacheof_over_mapof_ticking :
  forall (K V : Type) (eqd : forall a b : K, {a = b} + {a <> b}) (zero : V) (DFLT : Z) (CB : cbid)
         hash idx tag nslots seeds g sh probe nstripes minlen grow_only,
    X_lin.xhyps4 idx nstripes minlen nslots probe ->
    forall len0 now0 (todo : nat -> list (cop K V)) (sched : list (@move K V)), (0 < len0)%nat ->
    (forall t, Forall conc_ok (todo t)) ->
    CXT_mapof.cxsafeT eqd hash idx tag nslots seeds g sh probe nstripes minlen grow_only len0 (prog_cacheof eqd zero) DFLT CB now0 todo sched ->
    cache_linearizableT eqd zero (mk now0 DFLT CB [])
      (CXT_mapof.cxhistT eqd hash idx tag nslots seeds g sh probe nstripes minlen grow_only len0 (prog_cacheof eqd zero) DFLT CB now0 todo sched).
Proof. intros. apply CXT_mapof.cacheof_over_xmachine_linearizable_ticking; assumption. Qed.
Print Assumptions C02TX_cacheof_over_mapof_ticking.

Theorem C02TX_cacheof_over_map_ticking :
  forall (K V : Type) (eqd : forall a b : K, {a = b} + {a <> b}) (zero : V) (DFLT : Z) (CB : cbid)
         hash idx tophash nslots seeds g sh nstripes minlen grow_only,
    @XS_resize.rhyps K hash idx tophash nslots minlen ->
    forall len0 now0 (todo : nat -> list (cop K V)) (sched : list (@move K V)), (0 < len0)%nat ->
    (forall t, Forall conc_ok (todo t)) ->
    CXT_map.cssafeT eqd hash idx tophash nslots seeds g sh nstripes minlen grow_only len0 (prog_cacheof eqd zero) DFLT CB now0 todo sched ->
    cache_linearizableT eqd zero (mk now0 DFLT CB [])
      (CXT_map.cshistT eqd hash idx tophash nslots seeds g sh nstripes minlen grow_only len0 (prog_cacheof eqd zero) DFLT CB now0 todo sched).
Proof. intros. apply CXT_map.cacheof_over_smachine_linearizable_ticking; assumption. Qed.
Print Assumptions C02TX_cacheof_over_map_ticking.

(* the assumption is decidable along a run of finitely many threads *)
Definition C02TX_safe_decided_mapof := @CXT_mapof.cxsafebT_sound.
Definition C02TX_safe_decided_map := @CXT_map.cssafebT_sound.

(* the machine-independent composition: a timed combined trace whose map-level projection is linearizable
   (one map_step per call, each closure with the clock it was given) has the cache-level history of a run of ConcT.v *)
Definition C02TX_compose := @CXT_compose.compose_traceT.
Print Assumptions C02TX_compose.

(* non-vacuity: runs on the executable instances with ticks INSIDE map calls, and their linearizability by the theorems *)
Definition C02TX_over_mapof_nonvacuous_run := CXT_ex.cache_over_xmachine_ticking_run.
Definition C02TX_over_mapof_nonvacuous := CXT_ex.cache_over_xmachine_ticking_run_linearizable.
Definition C02TX_over_map_nonvacuous_run := CXT_ex.cache_over_smachine_ticking_run.
Definition C02TX_over_map_nonvacuous := CXT_ex.cache_over_smachine_ticking_run_linearizable.
Definition C02TX_twin_runs := CXT_ex.cacheof_over_machines_ticking_run.
Print Assumptions C02TX_over_mapof_nonvacuous.
Print Assumptions C02TX_over_map_nonvacuous.

(* without the assumption: a run of the product machine over XMachine with a tick while a Compute is in flight,
   whose history is NOT linearizable *)
Definition C02TX_closure_clock_run := CXT_ex.closure_clock_run.
Definition C02TX_closure_clock_refuted := CXT_ex.closure_clock_refuted.
Print Assumptions C02TX_closure_clock_refuted.
