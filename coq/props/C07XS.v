(* C07XS -- C07 for Cache / CacheOf UNDER CONCURRENCY over the Map machine XMachineS (map.go):
   (b) no phantom and (c) completeness for Range at the cache level (proofs/CX_rangeS2.v; (a) is
   C07X_cacheS_range_once in props/C07X.v).  The product machine of CX_product2.v / CX_map2.v (cs2step is
   the instance sup := ssup, C07X_cs2_is_gstep), for every sup with sup CSize = false; the traversal of
   a cache method is the machine's Range with a SILENT visitor (s2_range), so a traversing thread has
   no Range frame.  [range_callS .. progs l]: after sched0 thread t is idle with Range f hint next on its
   list, after the further moves sched (any threads, any schedule) it is idle again with exactly that
   call consumed, and its history over sched contains the response CList l.
     C07XS_range_no_phantom      (b) every (k, v) of l: at a configuration inside the window at which the
                                 traversal was under way on a table tab ([traversingS]: thread t stands in
                                 lockBucket / unlockBucket of the Range on tab), an item i with iv i = v,
                                 not expired at NOW, was visible under k in that table ([seen_atS]: svis of
                                 XS_vis.v = what a lock-free reader finds);
     C07XS_range_no_phantom_tab  (b) sharper: ONE table for all pairs, and it was the CURRENT table at a
                                 configuration of the window (where the traversal loaded m.table);
     C07XS_range_complete        (c) an item i not expired at NOW that is visible under k in the walked
                                 table at every configuration of the window at which the traversal is under
                                 way OR WAS UNDER WAY ONE MOVE EARLIER ([under_wayS]; XS_range.JP_step asks
                                 for visibility after each step, hence also right after the last unlock)
                                 is in l as (k, iv i), if the visitor said true on every pair of l;
     C07XS_cacheof_*             the same for the twin text.
   From XS_range.range_snapshot_proof / JP_step / range_once_proof through [Reach] of CX_rangeS.v.
   Not covered: Items over XMachineS (s2_ok SSize = False in CX_map2.v: Size is not run on this machine),
   "visible in the CURRENT table" when a new table is published during the call. *)
From CacheV Require Import Base SpecMap Client CacheModel CacheOfModel Ops SpecTTL Lin Conc XMachineS.
From CacheV.proofs Require Import XS_vis XS_read CX_compose CX_product2 CX_map CX_map2 CX_rangeS CX_rangeS2.
From Coq Require Import NArith.

(* ---------------- xsync_map.go ---------------- *)

Theorem C07XS_range_no_phantom :
  forall (K V : Type) (eqd : forall a b : K, {a = b} + {a <> b}) (hash : K -> N -> N) (idx : N -> nat -> nat) (tophash : N -> N) (nslots : nat) (seeds : nat -> N)
         (grow_needed shrink_policy : nat -> Z -> bool) (nstripes : nat -> nat) (minlen : nat) (grow_only : bool) (len0 : nat) (zero : V),
    XS_read.rdhyps hash idx tophash nslots minlen -> (0 < len0)%nat ->
    forall sup : cmop K V -> bool, sup CSize = false ->
    forall (NOW DFLT : Z) (CB : cbid) (todo0 : nat -> list (cop K V)) (sched0 sched : list nat) (t : nat) (f : K -> V -> bool) (hint : list K) (rest : list (cop K V))
           (l : list (K * V)) (k : K) (v : V),
    range_callS eqd hash idx tophash nslots seeds grow_needed shrink_policy nstripes minlen grow_only len0 sup NOW DFLT CB todo0 sched0 sched t f hint rest (prog_cache eqd zero) l -> In (k, v) l ->
    exists (a b : list nat) (tab : nat) (i : item V), sched = a ++ b
      /\ seen_atS hash idx tophash nslots nstripes t (conf_atS eqd hash idx tophash nslots seeds grow_needed shrink_policy nstripes minlen grow_only len0 sup NOW DFLT CB todo0 sched0 (prog_cache eqd zero) a) tab k i /\ iv i = v /\ expiredWithNow NOW i = false.
Proof. exact @cacheS_range_no_phantom. Qed.
Print Assumptions C07XS_range_no_phantom.

Theorem C07XS_range_no_phantom_tab :
  forall (K V : Type) (eqd : forall a b : K, {a = b} + {a <> b}) (hash : K -> N -> N) (idx : N -> nat -> nat) (tophash : N -> N) (nslots : nat) (seeds : nat -> N)
         (grow_needed shrink_policy : nat -> Z -> bool) (nstripes : nat -> nat) (minlen : nat) (grow_only : bool) (len0 : nat) (zero : V),
    XS_read.rdhyps hash idx tophash nslots minlen -> (0 < len0)%nat ->
    forall sup : cmop K V -> bool, sup CSize = false ->
    forall (NOW DFLT : Z) (CB : cbid) (todo0 : nat -> list (cop K V)) (sched0 sched : list nat) (t : nat) (f : K -> V -> bool) (hint : list K) (rest : list (cop K V))
           (l : list (K * V)),
    range_callS eqd hash idx tophash nslots seeds grow_needed shrink_policy nstripes minlen grow_only len0 sup NOW DFLT CB todo0 sched0 sched t f hint rest (prog_cache eqd zero) l ->
    exists tab : nat, (exists a0 b0 : list nat, sched = a0 ++ b0 /\ h_cur (p_x _ (conf_atS eqd hash idx tophash nslots seeds grow_needed shrink_policy nstripes minlen grow_only len0 sup NOW DFLT CB todo0 sched0 (prog_cache eqd zero) a0)) = tab)
      /\ forall (k : K) (v : V), In (k, v) l ->
           exists (a b : list nat) (i : item V), sched = a ++ b
             /\ seen_atS hash idx tophash nslots nstripes t (conf_atS eqd hash idx tophash nslots seeds grow_needed shrink_policy nstripes minlen grow_only len0 sup NOW DFLT CB todo0 sched0 (prog_cache eqd zero) a) tab k i /\ iv i = v /\ expiredWithNow NOW i = false.
Proof. exact @cacheS_range_no_phantom_tab. Qed.
Print Assumptions C07XS_range_no_phantom_tab.

Theorem C07XS_range_complete :
  forall (K V : Type) (eqd : forall a b : K, {a = b} + {a <> b}) (hash : K -> N -> N) (idx : N -> nat -> nat) (tophash : N -> N) (nslots : nat) (seeds : nat -> N)
         (grow_needed shrink_policy : nat -> Z -> bool) (nstripes : nat -> nat) (minlen : nat) (grow_only : bool) (len0 : nat) (zero : V),
    XS_read.rdhyps hash idx tophash nslots minlen -> (0 < len0)%nat ->
    forall sup : cmop K V -> bool, sup CSize = false ->
    forall (NOW DFLT : Z) (CB : cbid) (todo0 : nat -> list (cop K V)) (sched0 sched : list nat) (t : nat) (f : K -> V -> bool) (hint : list K) (rest : list (cop K V))
           (l : list (K * V)) (k : K) (i : item V),
    range_callS eqd hash idx tophash nslots seeds grow_needed shrink_policy nstripes minlen grow_only len0 sup NOW DFLT CB todo0 sched0 sched t f hint rest (prog_cache eqd zero) l -> expiredWithNow NOW i = false ->
    (forall (a b : list nat) (tab : nat), sched = a ++ b ->
       under_wayS eqd hash idx tophash nslots seeds grow_needed shrink_policy nstripes minlen grow_only len0 sup NOW DFLT CB todo0 sched0 t (prog_cache eqd zero) a tab ->
       XS_vis.svis hash idx tophash nslots (tabof nslots nstripes (conf_atS eqd hash idx tophash nslots seeds grow_needed shrink_policy nstripes minlen grow_only len0 sup NOW DFLT CB todo0 sched0 (prog_cache eqd zero) a) tab) k i) ->
    (forall (k' : K) (v' : V), In (k', v') l -> f k' v' = true) -> In (k, iv i) l.
Proof. exact @cacheS_range_complete. Qed.
Print Assumptions C07XS_range_complete.

(* ---------------- xsync_mapof.go ---------------- *)

Theorem C07XS_cacheof_range_no_phantom :
  forall (K V : Type) (eqd : forall a b : K, {a = b} + {a <> b}) (hash : K -> N -> N) (idx : N -> nat -> nat) (tophash : N -> N) (nslots : nat) (seeds : nat -> N)
         (grow_needed shrink_policy : nat -> Z -> bool) (nstripes : nat -> nat) (minlen : nat) (grow_only : bool) (len0 : nat) (zero : V),
    XS_read.rdhyps hash idx tophash nslots minlen -> (0 < len0)%nat ->
    forall sup : cmop K V -> bool, sup CSize = false ->
    forall (NOW DFLT : Z) (CB : cbid) (todo0 : nat -> list (cop K V)) (sched0 sched : list nat) (t : nat) (f : K -> V -> bool) (hint : list K) (rest : list (cop K V))
           (l : list (K * V)) (k : K) (v : V),
    range_callS eqd hash idx tophash nslots seeds grow_needed shrink_policy nstripes minlen grow_only len0 sup NOW DFLT CB todo0 sched0 sched t f hint rest (prog_cacheof eqd zero) l -> In (k, v) l ->
    exists (a b : list nat) (tab : nat) (i : item V), sched = a ++ b
      /\ seen_atS hash idx tophash nslots nstripes t (conf_atS eqd hash idx tophash nslots seeds grow_needed shrink_policy nstripes minlen grow_only len0 sup NOW DFLT CB todo0 sched0 (prog_cacheof eqd zero) a) tab k i /\ iv i = v /\ expiredWithNow NOW i = false.
Proof. exact @cacheofS_range_no_phantom. Qed.
Print Assumptions C07XS_cacheof_range_no_phantom.

Theorem C07XS_cacheof_range_no_phantom_tab :
  forall (K V : Type) (eqd : forall a b : K, {a = b} + {a <> b}) (hash : K -> N -> N) (idx : N -> nat -> nat) (tophash : N -> N) (nslots : nat) (seeds : nat -> N)
         (grow_needed shrink_policy : nat -> Z -> bool) (nstripes : nat -> nat) (minlen : nat) (grow_only : bool) (len0 : nat) (zero : V),
    XS_read.rdhyps hash idx tophash nslots minlen -> (0 < len0)%nat ->
    forall sup : cmop K V -> bool, sup CSize = false ->
    forall (NOW DFLT : Z) (CB : cbid) (todo0 : nat -> list (cop K V)) (sched0 sched : list nat) (t : nat) (f : K -> V -> bool) (hint : list K) (rest : list (cop K V))
           (l : list (K * V)),
    range_callS eqd hash idx tophash nslots seeds grow_needed shrink_policy nstripes minlen grow_only len0 sup NOW DFLT CB todo0 sched0 sched t f hint rest (prog_cacheof eqd zero) l ->
    exists tab : nat, (exists a0 b0 : list nat, sched = a0 ++ b0 /\ h_cur (p_x _ (conf_atS eqd hash idx tophash nslots seeds grow_needed shrink_policy nstripes minlen grow_only len0 sup NOW DFLT CB todo0 sched0 (prog_cacheof eqd zero) a0)) = tab)
      /\ forall (k : K) (v : V), In (k, v) l ->
           exists (a b : list nat) (i : item V), sched = a ++ b
             /\ seen_atS hash idx tophash nslots nstripes t (conf_atS eqd hash idx tophash nslots seeds grow_needed shrink_policy nstripes minlen grow_only len0 sup NOW DFLT CB todo0 sched0 (prog_cacheof eqd zero) a) tab k i /\ iv i = v /\ expiredWithNow NOW i = false.
Proof. exact @cacheofS_range_no_phantom_tab. Qed.
Print Assumptions C07XS_cacheof_range_no_phantom_tab.

Theorem C07XS_cacheof_range_complete :
  forall (K V : Type) (eqd : forall a b : K, {a = b} + {a <> b}) (hash : K -> N -> N) (idx : N -> nat -> nat) (tophash : N -> N) (nslots : nat) (seeds : nat -> N)
         (grow_needed shrink_policy : nat -> Z -> bool) (nstripes : nat -> nat) (minlen : nat) (grow_only : bool) (len0 : nat) (zero : V),
    XS_read.rdhyps hash idx tophash nslots minlen -> (0 < len0)%nat ->
    forall sup : cmop K V -> bool, sup CSize = false ->
    forall (NOW DFLT : Z) (CB : cbid) (todo0 : nat -> list (cop K V)) (sched0 sched : list nat) (t : nat) (f : K -> V -> bool) (hint : list K) (rest : list (cop K V))
           (l : list (K * V)) (k : K) (i : item V),
    range_callS eqd hash idx tophash nslots seeds grow_needed shrink_policy nstripes minlen grow_only len0 sup NOW DFLT CB todo0 sched0 sched t f hint rest (prog_cacheof eqd zero) l -> expiredWithNow NOW i = false ->
    (forall (a b : list nat) (tab : nat), sched = a ++ b ->
       under_wayS eqd hash idx tophash nslots seeds grow_needed shrink_policy nstripes minlen grow_only len0 sup NOW DFLT CB todo0 sched0 t (prog_cacheof eqd zero) a tab ->
       XS_vis.svis hash idx tophash nslots (tabof nslots nstripes (conf_atS eqd hash idx tophash nslots seeds grow_needed shrink_policy nstripes minlen grow_only len0 sup NOW DFLT CB todo0 sched0 (prog_cacheof eqd zero) a) tab) k i) ->
    (forall (k' : K) (v' : V), In (k', v') l -> f k' v' = true) -> In (k, iv i) l.
Proof. exact @cacheofS_range_complete. Qed.
Print Assumptions C07XS_cacheof_range_complete.

