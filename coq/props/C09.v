(* C09 -- Expiration instants are computed and reported exactly as the TTL dictates.
   Statements only.  (The refinement C01 transports the statements about SpecTTL
   to both cache models; CORR-cache-seq compares reported instants with the Go code.) *)
From CacheV Require Import Base SpecMap Client CacheModel CacheOfModel Ops SpecTTL.
From CacheV.gen Require Import Params.
From CacheV.proofs Require Import C09_exp.

(* d > 0 (after substituting the default for the sentinel): call time + d *)
Theorem C09_expiration_positive :
  forall dflt now d, 0 < effective dflt d -> in_int64 (now + effective dflt d) ->
    spec_expiration dflt now d = now + effective dflt d.
Proof. exact expiration_positive. Qed.
Print Assumptions C09_expiration_positive.

(* any other d <= 0, or a default below 1ns: never expires *)
Theorem C09_expiration_never :
  forall dflt now d, effective dflt d <= 0 -> spec_expiration dflt now d = 0.
Proof. exact expiration_never. Qed.
Print Assumptions C09_expiration_never.

Theorem C09_nonpositive_argument :
  forall dflt now d, d <= 0 -> d <> DefaultExpiration -> spec_expiration dflt now d = 0.
Proof. exact expiration_nonpositive_arg. Qed.
Print Assumptions C09_nonpositive_argument.

Theorem C09_sentinels : DefaultExpiration <> NoExpiration /\ DefaultExpiration < 1 /\ NoExpiration < 1.
Proof. exact (conj sentinels_distinct sentinels_nonpositive). Qed.
Print Assumptions C09_sentinels.

(* the guard [in_int64 (now + d)] is needed: beyond it the code's int64 sum wraps
   and the entry silently never expires (finding F6, recorded as a known finding) *)
Theorem C09_overflow_refuted :
  exists dflt now d, 0 < now /\ 0 < d /\ in_int64 now /\ in_int64 d /\ d <> DefaultExpiration
    /\ spec_expiration dflt now d < 0.
Proof. exact expiration_overflow_refuted. Qed.
Print Assumptions C09_overflow_refuted.

(* construction: defaults < 1ns become NoExpiration, the janitor runs iff the
   interval is positive, the capacity has a floor -- on every constructor path *)
Theorem C09_new_normalised :
  forall (K V : Type) now0 opts,
    let b := @CacheModel.New K V now0 opts in
    let cfg := fold_left CacheModel.apply_opt opts CacheModel.DefaultConfig in
    st_dflt (CacheModel.b_state b) = (if CacheModel.cfg_dflt cfg <? 1 then NoExpiration else CacheModel.cfg_dflt cfg)
    /\ CacheModel.b_janitor b = (0 <? CacheModel.cfg_interval cfg)
    /\ DefaultMinCapacity <= CacheModel.b_presize b
    /\ st_map (CacheModel.b_state b) = [] /\ st_now (CacheModel.b_state b) = now0
    /\ st_cb (CacheModel.b_state b) = CacheModel.cfg_cb cfg.
Proof. exact @new_normalised. Qed.
Print Assumptions C09_new_normalised.

Theorem C09_newdefault_normalised :
  forall (K V : Type) now0 dflt interval cbs,
    let b := @CacheModel.NewDefault K V now0 dflt interval cbs in
    st_dflt (CacheModel.b_state b) = (if dflt <? 1 then NoExpiration else dflt)
    /\ CacheModel.b_janitor b = (0 <? interval)
    /\ CacheModel.b_presize b = DefaultMinCapacity
    /\ st_map (CacheModel.b_state b) = [] /\ st_now (CacheModel.b_state b) = now0.
Proof. exact @newdefault_normalised. Qed.
Print Assumptions C09_newdefault_normalised.

(* arming calls arm from the time of that call with the default in force then *)
Theorem C09_arm_sets :
  forall (K V : Type) (eqd : forall a b : K, {a = b} + {a <> b}) (zero : V) s o k d,
    arms eqd zero s o k = Some d ->
    exists i, lookup eqd k (st_map (spec_next eqd zero s o)) = Some i
              /\ ie i = spec_expiration (st_dflt s) (st_now s) d.
Proof. exact @arm_sets. Qed.
Print Assumptions C09_arm_sets.

(* everything else leaves the stored instant untouched *)
Theorem C09_untouched :
  forall (K V : Type) (eqd : forall a b : K, {a = b} + {a <> b}) (zero : V) s o k,
    arms eqd zero s o k = None -> removes eqd zero s o k = false ->
    lookup eqd k (st_map (spec_next eqd zero s o)) = lookup eqd k (st_map s).
Proof. exact @untouched. Qed.
Print Assumptions C09_untouched.

(* GetWithExpiration reports exactly the stored instant, GetWithTTL the time remaining to it *)
Theorem C09_reported :
  forall (K V : Type) (eqd : forall a b : K, {a = b} + {a <> b}) (zero : V) (s : cstate K V) k i,
    vw eqd s k = Some i ->
    spec_ok eqd zero s (OGetWithExpiration k) (CValExp (iv i) (if 0 <? ie i then ie i else 0) true)
    /\ spec_ok eqd zero s (OGetWithTTL k)
         (CValTTL (iv i) (if 0 <? ie i then ie i - st_now s else NoExpiration) true).
Proof. exact @reported. Qed.
Print Assumptions C09_reported.
