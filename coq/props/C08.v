(* C08 -- Size/Count is exact whenever no modification is in flight.
   C08_count_laws / C08_map_size: sequential histories (cache level; table level).
   C08_counter_invariant / C08_quiescent_exact: EVERY schedule of the concurrent
   machine XMachine (internal/xsync/mapof.go, step by step -- the machine that
   CORR-sched replays against the real code): in every reachable state and for
   every table ever created
        visible entries = sum of the counter stripes + additions still owed,
   a writer owing +1 from the store that makes its insert visible to its
   addSize(+1) (which comes after the unlock) and -1 from the meta store of its
   delete to its addSize(-1); the copy of a resize adds to the new table's counter
   exactly the entries it places there, whatever writers do meanwhile on the
   buckets not yet copied; a Clear installs a zero table.  Hence at every point
   where no modifying call is in flight a Size call returns exactly the number
   of pairs of the current table -- a duplicate-free enumeration of what lock-free
   readers can find there, which is what a Range visits.
   Map variant (map.go, XMachineS): props/C03.v -- C03_counter (slots with a key =
   counter + additions owed, every table, every reachable state). *)
From CacheV Require Import Base SpecMap Client CacheModel CacheOfModel Ops SpecTTL.
From CacheV Require Import TableModel.
From CacheV.proofs Require Import C06_hist C08_cache C11_lists C11_table.
From Coq Require Import NArith.
From CacheV Require Import XMachine.
From CacheV.proofs Require Import X_lin X_count.

(* After any history: Count is the number of keys physically present (live entries
   plus expired entries not yet cleaned); it never under-reports the live entries;
   right after DeleteExpired it equals the live entries; right after Clear it is 0. *)
Theorem C08_count_laws :
  forall (K V : Type) (eqd : forall a b : K, {a = b} + {a <> b}) (zero : V)
         (ops : list (cop K V)) (m0 : cstate K V),
    st_map m0 = [] -> monotone ops ->
    let '(m, _) := run_cache eqd zero m0 ops in
    let s := fold_left (spec_next eqd zero) ops m0 in
    snd (fst (step_cache eqd zero m OCount)) = CNat (length (st_map m))
    /\ (length (live_keys eqd s) <= length (st_map m))%nat
    /\ (let '(m1, _, _) := step_cache eqd zero m ODeleteExpired in
        snd (fst (step_cache eqd zero m1 OCount)) = CNat (length (live_keys eqd s)))
    /\ (let '(m1, _, _) := step_cache eqd zero m OClear in
        snd (fst (step_cache eqd zero m1 OCount)) = CNat 0).
Proof. exact @count_laws. Qed.
Print Assumptions C08_count_laws.

(* Map / MapOf, sequentially: after any history -- whatever grows, shrinks and
   clears it went through -- Size answers the number of pairs of the abstract
   map, which is also the number of pairs a Range visits (for every hash, seed,
   bucket size and policy). *)
Theorem C08_map_size :
  forall (K V A : Type) (eqd : forall a b : K, {a = b} + {a <> b})
         (hash : K -> N -> N) (idx : N -> nat -> nat) (tag : N -> N) (nslots : nat) (seeds : nat -> N)
         (variant : bool) (grow_needed shrink_policy : nat -> nat -> bool),
    (forall h len, (0 < len)%nat -> (idx h len < len)%nat) ->
    forall fuel (m : @tmap K V) (a : amap K V),
      WFm hash idx tag nslots m -> meq eqd (abs nslots m) a ->
      @table_step K V A eqd hash idx tag nslots seeds variant grow_needed shrink_policy fuel m MSize
        = Some (m, RSize (length a))
      /\ exists l, @table_step K V A eqd hash idx tag nslots seeds variant grow_needed shrink_policy fuel m MSnapshot
                     = Some (m, RSnap l) /\ length l = length a.
Proof.
  intros K V A eqd hash idx tag nslots seeds variant g s Hidx fuel m a Hm Hq. split.
  - pose proof (table_refines eqd hash idx tag nslots seeds variant g s Hidx fuel m a (@MSize K V A) m
                  (RSize (t_size (cur nslots m))) Hm Hq eq_refl) as H.
    cbn in H. destruct H as [_ [_ H]]. cbn. rewrite H. reflexivity.
  - exists (abs nslots m). split; [reflexivity | apply (meq_length eqd); exact Hq].
Qed.
Print Assumptions C08_map_size.

(* ---------------- every schedule (MapOf machine) ---------------- *)

Theorem C08_counter_invariant :
  forall (K V : Type) (eqd : forall a b : K, {a = b} + {a <> b})
         (hash : K -> N -> N) (idx : N -> nat -> nat) (tag : N -> N) (nslots : nat) (seeds : nat -> N)
         (grow_needed shrink_policy : nat -> Z -> bool) (probe : list (option N) -> N -> list nat)
         (nstripes : nat -> nat) (minlen : nat) (grow_only : bool),
    xhyps4 idx nstripes minlen nslots probe ->
    forall len0 todo sched, (0 < len0)%nat ->
    let s := fst (@xrun K V eqd hash idx tag nslots seeds grow_needed shrink_policy probe nstripes minlen grow_only
                         (xinit nslots seeds nstripes len0 todo) sched) in
    forall tab, (tab < length (g_tabs s))%nat ->
      tcount (tab_at nslots nstripes s tab)
      = (sum_z (x_size (tab_at nslots nstripes s tab)) + owed_all s tab (nodup Nat.eq_dec sched))%Z.
Proof. exact @reachable_count_proof. Qed.
Print Assumptions C08_counter_invariant.

Theorem C08_quiescent_exact :
  forall (K V : Type) (eqd : forall a b : K, {a = b} + {a <> b})
         (hash : K -> N -> N) (idx : N -> nat -> nat) (tag : N -> N) (nslots : nat) (seeds : nat -> N)
         (grow_needed shrink_policy : nat -> Z -> bool) (probe : list (option N) -> N -> list nat)
         (nstripes : nat -> nat) (minlen : nat) (grow_only : bool),
    xhyps4 idx nstripes minlen nslots probe ->
    forall len0 todo sched t rest, (0 < len0)%nat ->
    let xr := @xrun K V eqd hash idx tag nslots seeds grow_needed shrink_policy probe nstripes minlen grow_only in
    let s := fst (xr (xinit nslots seeds nstripes len0 todo) sched) in
    (* nobody is inside a modifying call; t is idle and its next call is Size *)
    (forall u, modifying (g_pc s u) = false) -> g_pc s t = PIdle -> g_todo s t = XSize :: rest ->
    let l := tpairs (tab_at nslots nstripes s (g_cur s)) in
    let r := xr s (repeat t (S (nstr (tab_at nslots nstripes s (g_cur s))))) in
    In (XRes t (XRNat (Z.of_nat (length l)))) (snd r)
    /\ (forall k v, In (k, v) l <-> X_lin.vis hash idx (tab_at nslots nstripes s (g_cur s)) k v) /\ NoDup (map fst l)
    /\ g_pc (fst r) t = PIdle /\ g_tabs (fst r) = g_tabs s /\ g_cur (fst r) = g_cur s.
Proof. exact @quiescent_size_exact_proof. Qed.
Print Assumptions C08_quiescent_exact.

(* non-vacuity: two threads insert colliding keys, a third will call Size; after a
   round-robin schedule the writers are done and the third thread is idle before its call *)
Definition ex_run08 : @xstate nat nat :=
  fst (@xrun nat nat Nat.eq_dec (fun _ _ => 5%N) (fun h len => (N.to_nat h mod len)%nat) (fun h => h) 2%nat (fun _ => 0%N)
             (fun _ _ => false) (fun _ _ => false) (fun tags tg => filter (fun i => match nth i tags None with Some t => N.eqb t tg | None => false end) (seq 0%nat (length tags)))
             (fun _ => 1%nat) 1%nat false
             (xinit 2%nat (fun _ => 0%N) (fun _ => 1%nat) 1%nat
                    (fun t => if Nat.eqb t 0%nat then [XCompute 7%nat (fun _ => Some 1%nat) false false false]
                              else if Nat.eqb t 1%nat then [XCompute 8%nat (fun _ => Some 2%nat) false false false] else if Nat.eqb t 2%nat then [XSize] else []))
             (concat (repeat [0; 1]%nat 16%nat) ++ [2]%nat)).
Example C08_nonvacuous :
  g_pc ex_run08 2%nat = PIdle /\ g_todo ex_run08 2%nat = [XSize] /\ modifying (g_pc ex_run08 0%nat) = false /\ modifying (g_pc ex_run08 1%nat) = false
  /\ length (tpairs (tab_at 2%nat (fun _ => 1%nat) ex_run08 (g_cur ex_run08))) = 2%nat.
Proof. vm_compute. repeat split; reflexivity. Qed.
Print Assumptions C08_nonvacuous.
