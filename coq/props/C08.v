(* C08 -- Size/Count is exact whenever no modification is in flight.
   Cache level (sequential histories).  Map level: props/C11.v (Size = length of the
   abstract map after every call); interleaved: props/C08c.v. *)
From CacheV Require Import Base SpecMap Client CacheModel CacheOfModel Ops SpecTTL.
From CacheV Require Import TableModel.
From CacheV.proofs Require Import C06_hist C08_cache C11_lists C11_table.
From Coq Require Import NArith.

(* After any history: Count is the number of keys physically present (live entries
   plus expired entries not yet cleaned); it never under-reports the live entries;
   right after DeleteExpired it equals the live entries; right after Clear it is 0. *)
Theorem C08_count_laws :
  forall (K V : Type) (eqd : forall a b : K, {a = b} + {a <> b}) (zero : V)
         (ops : list (cop K V)) (m0 : cstate K V),
    st_map m0 = [] -> monotone ops ->
    let '(m, _) := run_cache eqd zero m0 ops in
    let s := fold_left (spec_next eqd zero) ops m0 in
    snd (fst (step_cache eqd zero m OCount)) = CNat (length (st_map m))
    /\ (length (live_keys eqd s) <= length (st_map m))%nat
    /\ (let '(m1, _, _) := step_cache eqd zero m ODeleteExpired in
        snd (fst (step_cache eqd zero m1 OCount)) = CNat (length (live_keys eqd s)))
    /\ (let '(m1, _, _) := step_cache eqd zero m OClear in
        snd (fst (step_cache eqd zero m1 OCount)) = CNat 0).
Proof. exact @count_laws. Qed.
Print Assumptions C08_count_laws.

(* Map / MapOf, sequentially: after any history -- whatever grows, shrinks and
   clears it went through -- Size answers the number of pairs of the abstract
   map, which is also the number of pairs a Range visits (for every hash, seed,
   bucket size and policy). *)
Theorem C08_map_size :
  forall (K V A : Type) (eqd : forall a b : K, {a = b} + {a <> b})
         (hash : K -> N -> N) (idx : N -> nat -> nat) (tag : N -> N) (nslots : nat) (seeds : nat -> N)
         (variant : bool) (grow_needed shrink_policy : nat -> nat -> bool),
    (forall h len, (0 < len)%nat -> (idx h len < len)%nat) ->
    forall fuel (m : @tmap K V) (a : amap K V),
      WFm hash idx tag nslots m -> meq eqd (abs nslots m) a ->
      @table_step K V A eqd hash idx tag nslots seeds variant grow_needed shrink_policy fuel m MSize
        = Some (m, RSize (length a))
      /\ exists l, @table_step K V A eqd hash idx tag nslots seeds variant grow_needed shrink_policy fuel m MSnapshot
                     = Some (m, RSnap l) /\ length l = length a.
Proof.
  intros K V A eqd hash idx tag nslots seeds variant g s Hidx fuel m a Hm Hq. split.
  - pose proof (table_refines eqd hash idx tag nslots seeds variant g s Hidx fuel m a (@MSize K V A) m
                  (RSize (t_size (cur nslots m))) Hm Hq eq_refl) as H.
    cbn in H. destruct H as [_ [_ H]]. cbn. rewrite H. reflexivity.
  - exists (abs nslots m). split; [reflexivity | apply (meq_length eqd); exact Hq].
Qed.
Print Assumptions C08_map_size.
