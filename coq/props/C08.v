(* C08 -- Size/Count is exact whenever no modification is in flight.
   Cache level (sequential histories).  Map level: props/C11.v (Size = length of the
   abstract map after every call); interleaved: props/C08c.v. *)
From CacheV Require Import Base SpecMap Client CacheModel CacheOfModel Ops SpecTTL.
From CacheV.proofs Require Import C06_hist C08_cache.

(* After any history: Count is the number of keys physically present (live entries
   plus expired entries not yet cleaned); it never under-reports the live entries;
   right after DeleteExpired it equals the live entries; right after Clear it is 0. *)
Theorem C08_count_laws :
  forall (K V : Type) (eqd : forall a b : K, {a = b} + {a <> b}) (zero : V)
         (ops : list (cop K V)) (m0 : cstate K V),
    st_map m0 = [] -> monotone ops ->
    let '(m, _) := run_cache eqd zero m0 ops in
    let s := fold_left (spec_next eqd zero) ops m0 in
    snd (fst (step_cache eqd zero m OCount)) = CNat (length (st_map m))
    /\ (length (live_keys eqd s) <= length (st_map m))%nat
    /\ (let '(m1, _, _) := step_cache eqd zero m ODeleteExpired in
        snd (fst (step_cache eqd zero m1 OCount)) = CNat (length (live_keys eqd s)))
    /\ (let '(m1, _, _) := step_cache eqd zero m OClear in
        snd (fst (step_cache eqd zero m1 OCount)) = CNat 0).
Proof. exact @count_laws. Qed.
Print Assumptions C08_count_laws.
