(* C03 -- Map (string keys) is linearizable, also across grow, shrink and Clear.

   What is proved:
     C03_sequential    run one call at a time, the table layer of map.go
                       (variant = false: 3 slots, shrink request when the whole
                       chain is empty) answers as a builtin map for every hash
                       function, seed stream and policy (C11)
     C03_reads_never_block  on XMachineS (the concurrent machine of map.go at the
                       granularity of one atomic operation: spin lock in the
                       top-hash word, value / key / value snapshot with retry,
                       key and value pointers stored separately; replayed step by
                       step against the real code by CORR-sched): in every
                       reachable state a thread inside Load, the read-only fast
                       path of doCompute or Size can take its next step, and that
                       step is a load which changes nothing shared (also C16 for
                       the Map variant)
     C03_resize_protocol    on XMachineS, every reachable state: a thread that has
                       returned holds neither resizeMu nor the resizer role; resizeMu
                       has one holder; the resizing flag is set exactly while one
                       thread is between winning the CAS and resetting it (through
                       all the lockBucket / copy / unlockBucket steps of the copy);
                       a thread is in the wait set of resizeCond only while the
                       flag is set or the waking broadcast is still to come (no
                       lost wake-up) -- also for calls made by a Range visitor
                       from inside the Range (C13 for the Map variant)
     C03_bucket_locks  on XMachineS, every reachable state (proofs/XS_lock.v): the spin
                       lock inside the top-hash word of a root bucket names thread t
                       exactly when t's program counter is between the successful CAS
                       of lockBucket and the StoreUint64 of unlockBucket for that
                       bucket (doCompute, copyBucket, Range alike); two threads never
                       hold the same bucket; a thread holds at most one; continuations,
                       Range frames, idle and returned threads hold none (C13 / C14
                       for the Map variant).  Hypothesis nslots <= 3: with four slots
                       the MODEL's word encoding overlaps the lock bit and the lock can
                       be stolen (XS_inst.hslots_needed is the schedule); map.go has 3.
     C03_write_ownership    (proofs/XS_own.v) a step changes the cells of a bucket --
                       its key / value pointers or any bit of its words above the lock
                       bit -- only if the stepping thread holds that bucket's lock, or
                       the table is the unpublished table of the resize it is running,
                       which no other thread or frame refers to (C14 for Map).
     C03_counter       (proofs/XS_count.v) in every reachable state, for every table:
                       slots with a key = sum of the counter stripes + additions still
                       owed by threads between their key store / key erase and their
                       AddInt64; hence the counter is exact for a table nobody owes to
                       (C08 for Map).
     C03_instance      the extracted machine that CORR-sched replays against map.go
                       meets the hypotheses.
     C03_cells         (proofs/XS_cells.v) every reachable state, every published table,
                       every bucket: the chain is shaped, keys are unique in it, and every
                       slot is free, complete (key, value, presence bit, top hash of the
                       key, key's home bucket is this one) or in one of the four exact
                       half-written shapes of the thread named in the bucket's lock word,
                       as that thread's program counter tells (QW_I2, QW_I3, QW_D2, QW_D3).
                       Extra hypothesis: top hashes are 20-bit (true of tag_map on uint64).
     C03_vis_step      (proofs/XS_vis.v) what a Load that starts now can find in a published
                       table changes only at the linearization store of the holder of the
                       bucket lock, as an update / removal of that writer's key:
                       update = the value-pointer store (QW_U1); insert = the KEY-pointer
                       store, last of the three (QW_I3; after the first two a reader still
                       misses); insert into a new bucket = the store of b.next (QW_N1);
                       delete = the store that erases the top hash, first of the three
                       (QW_D1).  C03_vis_functional: at most one value per key.
     C03_abs_step      (proofs/XS_abs.v) the abstract map (what is visible in the current
                       table) changes by exactly that update at a linearization store on
                       the current table and not at all at any other step that keeps the
                       table pointer; the store that publishes a table makes the abstract
                       map the visible content of that table, which is empty when the
                       table was allocated by a Clear.
     C03_abs_step_all  (proofs/XS_resize.v) the complete statement, as C04_abs_step for
                       MapOf: every step of every thread from every reachable state
                       changes the abstract map in exactly one of these ways -- a
                       linearization store on the current table updates / removes that
                       writer's key; the publish of a grow or shrink leaves it unchanged
                       (XR: the unpublished table holds what is visible in the buckets
                       copied so far; no writer past resizeInProgress() sits on a copied
                       bucket), although writers are active on buckets not yet copied;
                       the publish of a Clear empties it; nothing else changes it.
                       C03_clear_kt: the continuation identifies the resizes that are Clears.
     C03_value         (proofs/XS_read.v; C16's last sentence for Map) a thread that is idle
                       with Load k as its next call, run alone from any reachable state
                       (everybody else frozen wherever they are), returns within rd_bound of
                       its own steps -- one LoadUint64 per bucket, value / key / value per
                       matching slot, one LoadPointer of next -- changes nothing shared, and
                       returns v exactly when (k, v) is in the abstract map (svis of the
                       current table), "absent" otherwise: the snapshot retry never fires
                       when nobody else moves.
   the concurrent behaviour of map.go beyond the above is decided by the step correspondence and by search: the real code under
   the controlled scheduler (random / PCT schedules at the granularity of single
   atomic operations, tables at the grow / shrink thresholds, Clear), every
   history checked for linearizability against map[string]interface{}. *)
From CacheV Require Import Base SpecMap TableModel TabExec Exec XMachineS XExec XExecS Lin.
From CacheV.proofs Require Import C11_lists C11_table C11_idx X_maps XS_inv XS_lock XS_own XS_count XS_inst XS_cells XS_vis XS_abs XS_cinst XS_resize XS_rinst XS_read XS_rdinst XS_loadhit XS_lhinst XS_fn XS_size XS_loadmiss XS_lminst XS_range.
From CacheV.proofs Require X_linpoints LinGen XS_stale XS_linpoints XS_linearizable XS_linpoints2 XS_linearizable2.
From CacheV.proofs Require XS_term.
From Coq Require Import NArith.

Theorem C03_sequential :
  forall (K V A : Type) (eqd : forall a b : K, {a = b} + {a <> b})
         (hash : K -> N -> N) (idx : N -> nat -> nat) (tag : N -> N) (nslots : nat) (seeds : nat -> N)
         (grow_needed shrink_policy : nat -> nat -> bool),
    (forall h len, (0 < len)%nat -> (idx h len < len)%nat) ->
    forall fuel (ops : list (mop K V A)) (m : @tmap K V) (a : amap K V) m' rs,
      WFm hash idx tag nslots m -> meq eqd (abs nslots m) a ->
      run_table eqd hash idx tag nslots seeds false grow_needed shrink_policy fuel m ops = Some (m', rs) ->
      let '(a', rs') := run_spec eqd a ops in
      WFm hash idx tag nslots m' /\ meq eqd (abs nslots m') a' /\ Forall2 res_equiv rs rs'.
Proof.
  intros K V A eqd hash idx tag nslots seeds grow_needed shrink_policy Hidx fuel ops m a m' rs.
  exact (run_refines eqd hash idx tag nslots seeds false grow_needed shrink_policy Hidx fuel ops m a m' rs).
Qed.
Print Assumptions C03_sequential.

Theorem C03_reads_never_block :
  forall (K V : Type) (eqd : forall a b : K, {a = b} + {a <> b}) hash idx tophash nslots seeds g sh nstripes minlen grow_only len0 todo sched t,
    let s := fst (@srun K V eqd hash idx tophash nslots seeds g sh nstripes minlen grow_only (sinit nslots seeds nstripes len0 todo) sched) in
    sreader_pc (h_pc s t) = true ->
    exists s' ls, @sstep K V eqd hash idx tophash nslots seeds g sh nstripes minlen grow_only s t = Some (s', ls)
      /\ sshared_eq s s' /\ (forall t', t' <> t -> h_pc s' t' = h_pc s t') /\ Forall (sread_label t) ls.
Proof. exact @map_reads_never_block. Qed.
Print Assumptions C03_reads_never_block.

Theorem C03_resize_protocol :
  forall (K V : Type) (eqd : forall a b : K, {a = b} + {a <> b}) hash idx tophash nslots seeds g sh nstripes minlen grow_only len0 todo sched,
    let s := fst (@srun K V eqd hash idx tophash nslots seeds g sh nstripes minlen grow_only (sinit nslots seeds nstripes len0 todo) sched) in
    (forall t, h_pc s t = QIdle -> h_rmu s <> Some t /\ (h_resizing s = true -> exists t', t' <> t /\ srz (h_pc s t') = true))
    /\ (forall t t', smu (h_pc s t) = true -> smu (h_pc s t') = true -> t = t')
    /\ (forall t t', srz (h_pc s t) = true -> srz (h_pc s t') = true -> t = t')
    /\ (h_resizing s = true <-> exists t, srz (h_pc s t) = true)
    /\ (forall t hn kt, h_pc s t = QT_Waiting hn kt -> h_resizing s = true \/ exists t', sbcast (h_pc s t') = true).
Proof. exact @map_resize_protocol. Qed.
Print Assumptions C03_resize_protocol.

(* non-vacuity: a writer holds the bucket lock of key 7 (it is past the CAS), a reader of key 7 is on the read path *)
Definition ex_run03 : @mstate nat nat :=
  fst (@srun nat nat Nat.eq_dec (fun k _ => N.of_nat k) (fun h len => Nat.modulo (N.to_nat h) len) (fun h => h) 3%nat (fun _ => 0%N)
             (fun _ _ => false) (fun _ _ => false) (fun _ => 1%nat) 1%nat false
             (sinit 3%nat (fun _ => 0%N) (fun _ => 1%nat) 1%nat
                    (fun t => if Nat.eqb t 0%nat then [SCompute 7%nat (fun _ => Some 1%nat) true false true] else [SLoad 7%nat]))
             [0; 0; 0; 0; 0; 1; 1]%nat).
Example C03_nonvacuous :
  (exists cx, h_pc ex_run03 0%nat = QW_ChkTab cx 0%nat) /\ sreader_pc (h_pc ex_run03 1%nat) = true.
Proof. split; [eexists; vm_compute; reflexivity | vm_compute; reflexivity]. Qed.
Print Assumptions C03_nonvacuous.

(* ---------------- bucket locks, write ownership, counter (XMachineS, every schedule) ---------------- *)

Theorem C03_bucket_locks :
  forall (K V : Type) (eqd : forall a b : K, {a = b} + {a <> b}) hash idx tophash nslots seeds g sh nstripes minlen grow_only,
    shyps idx minlen nslots -> forall len0 todo sched, (0 < len0)%nat ->
    let s := fst (@srun K V eqd hash idx tophash nslots seeds g sh nstripes minlen grow_only (sinit nslots seeds nstripes len0 todo) sched) in
    (forall t tab b, lock_of nslots nstripes s tab b = Some t <-> sholds hash idx nslots nstripes s (h_pc s t) = Some (tab, b))
    /\ (forall t t' tab b, sholds hash idx nslots nstripes s (h_pc s t) = Some (tab, b) ->
                           sholds hash idx nslots nstripes s (h_pc s t') = Some (tab, b) -> t = t')
    /\ (forall t tab b tab' b', lock_of nslots nstripes s tab b = Some t -> lock_of nslots nstripes s tab' b' = Some t -> tab' = tab /\ b' = b)
    /\ (forall t tab b, h_pc s t = QIdle \/ h_pc s t = QStart -> lock_of nslots nstripes s tab b <> Some t).
Proof.
  intros K V eqd hash idx tophash nslots seeds g sh nstripes minlen grow_only [H1 [H2 H3]] len0 todo sched Hl s.
  pose proof (reachable_XL eqd hash idx tophash nslots seeds g sh nstripes minlen grow_only H3 H1 H2 len0 todo sched Hl) as HX.
  fold s in HX. split; [|split; [|split]].
  - intros t tab b. apply (lock_iff hash idx nslots nstripes s t tab b HX).
  - intros t t' tab b. apply (lock_mutex hash idx nslots nstripes s t t' tab b HX).
  - intros t tab b tab' b'. apply (lock_one hash idx nslots nstripes s t tab b tab' b' HX).
  - intros t tab b. apply (idle_no_lock hash idx nslots nstripes s t tab b HX).
Qed.
Print Assumptions C03_bucket_locks.

Theorem C03_write_ownership :
  forall (K V : Type) (eqd : forall a b : K, {a = b} + {a <> b}) hash idx tophash nslots seeds g sh nstripes minlen grow_only,
    shyps idx minlen nslots -> forall len0 todo sched t s' ls tab b, (0 < len0)%nat ->
    let s := fst (@srun K V eqd hash idx tophash nslots seeds g sh nstripes minlen grow_only (sinit nslots seeds nstripes len0 todo) sched) in
    @sstep K V eqd hash idx tophash nslots seeds g sh nstripes minlen grow_only s t = Some (s', ls) ->
    (tab < length (h_tabs s))%nat ->
    cells (stab_at nslots nstripes s' tab) b <> cells (stab_at nslots nstripes s tab) b ->
    lock_of nslots nstripes s tab b = Some t
    \/ (snewtab (h_pc s t) = Some tab /\ (h_cur s < tab)%nat /\ S tab = length (h_tabs s)
        /\ (forall t', t' <> t -> XS_own.tabs_le (h_cur s) (h_pc s t') /\ snewtab (h_pc s t') = None)
        /\ (forall t' fr, h_frame s t' = Some fr -> XS_own.tabs_le (h_cur s) (rf_after fr) /\ snewtab (rf_after fr) = None)).
Proof.
  intros K V eqd hash idx tophash nslots seeds g sh nstripes minlen grow_only [H1 [H2 H3]] len0 todo sched t s' ls tab b Hl.
  apply (reachable_write_ownership eqd hash idx tophash nslots seeds g sh nstripes minlen grow_only H3 H1 H2 len0 todo sched t s' ls tab b Hl).
Qed.
Print Assumptions C03_write_ownership.

Theorem C03_counter :
  forall (K V : Type) (eqd : forall a b : K, {a = b} + {a <> b}) hash idx tophash nslots seeds g sh nstripes minlen grow_only,
    shyps_count idx minlen nslots nstripes -> forall len0 todo sched, (0 < len0)%nat ->
    let s := fst (@srun K V eqd hash idx tophash nslots seeds g sh nstripes minlen grow_only (sinit nslots seeds nstripes len0 todo) sched) in
    (forall x, (x < length (h_tabs s))%nat ->
       XS_count.tcount (stab_at nslots nstripes s x)
       = (ssum_z (m_size (stab_at nslots nstripes s x)) + XS_count.owed_all s x (nodup Nat.eq_dec sched))%Z)
    /\ (forall x, (x < length (h_tabs s))%nat -> (forall t, XS_count.owed x (h_pc s t) = 0%Z) ->
          ssum_z (m_size (stab_at nslots nstripes s x)) = XS_count.tcount (stab_at nslots nstripes s x)).
Proof.
  intros K V eqd hash idx tophash nslots seeds g sh nstripes minlen grow_only [[H1 [H2 H3]] H4] len0 todo sched Hl s. split.
  - apply (reachable_count eqd hash idx tophash nslots seeds g sh nstripes minlen grow_only H3 H1 H2 H4 len0 todo sched Hl).
  - intros x Hx Ho.
    apply (quiescent_size eqd hash idx tophash nslots seeds g sh nstripes minlen grow_only H3 H1 H2 H4 len0 todo sched x Hl Hx Ho).
Qed.
Print Assumptions C03_counter.

Theorem C03_instance :
  forall hint, shyps_count idx_map (minlen_of_hint false hint) (nslots_of false) nstripes_x.
Proof. exact s_instance_hyps_count. Qed.
Print Assumptions C03_instance.

(* non-vacuity (proofs/XS_inst.v): a state with a lock held and a spinning second thread; a state with one key,
   counter 0 and one addition owed; and the schedule that steals a lock when nslots = 4 *)
Example C03_locks_nonvacuous :
  let s := ex_sched [0; 0; 0; 0; 1; 1]%nat in
  sholds (fun k _ => N.of_nat k) (fun h len => Nat.modulo (N.to_nat h) len) 3%nat (fun _ => 1%nat) s (h_pc s 0%nat) = Some (0%nat, 0%nat)
  /\ lock_of 3%nat (fun _ => 1%nat) s 0%nat 0%nat = Some 0%nat.
Proof. exact lock_nonvacuous. Qed.
Print Assumptions C03_locks_nonvacuous.
Example C03_counter_nonvacuous :
  let s := ex_sched [0; 0; 0; 0; 0; 0; 0; 0; 0; 0; 0]%nat in
  XS_count.tcount (stab_at 3%nat (fun _ => 1%nat) s 0%nat) = 1%Z
  /\ ssum_z (m_size (stab_at 3%nat (fun _ => 1%nat) s 0%nat)) = 0%Z
  /\ XS_count.owed 0%nat (h_pc s 0%nat) = 1%Z.
Proof. exact count_nonvacuous. Qed.
Print Assumptions C03_counter_nonvacuous.

(* ---------------- cells, visibility, abstract map (XMachineS, every schedule) ---------------- *)

Theorem C03_cells :
  forall (K V : Type) (eqd : forall a b : K, {a = b} + {a <> b}) hash idx tophash nslots seeds g sh nstripes minlen grow_only,
    shyps_cells hash idx tophash minlen nslots -> forall len0 todo sched, (0 < len0)%nat ->
    let s := fst (@srun K V eqd hash idx tophash nslots seeds g sh nstripes minlen grow_only (sinit nslots seeds nstripes len0 todo) sched) in
    forall tab b, (tab <= h_cur s)%nat -> (b < m_len (tabT nslots nstripes (h_tabs s) tab))%nat ->
      let tb := tabT nslots nstripes (h_tabs s) tab in
      XS_cells.shaped nslots (schain_of tb b) (ctops tb b) /\ XS_cells.uniq (schain_of tb b)
      /\ forall pos, (pos < length (schain_of tb b))%nat ->
           let sl := nth pos (schain_of tb b) empty_mslot in
           let e := topent nslots (ctops tb b) pos in
           sfree sl e \/ sfull hash idx tophash tb b sl e
           \/ (exists t cx, lock_of nslots nstripes s tab b = Some t /\ shome hash idx tb (sc_k cx) = b
                 /\ ((exists nv, h_pc s t = QW_I2 cx tab pos nv /\ ms_key sl = None /\ ms_val sl = None /\ e = (true, ktop hash tophash tb (sc_k cx)))
                     \/ (exists nv id, h_pc s t = QW_I3 cx tab pos nv /\ ms_key sl = None /\ ms_val sl = Some (nv, id) /\ e = (true, ktop hash tophash tb (sc_k cx)))
                     \/ (exists old ne id, h_pc s t = QW_D2 cx tab pos old ne /\ ms_key sl = Some (sc_k cx) /\ ms_val sl = Some (old, id) /\ fst e = false)
                     \/ (exists old ne, h_pc s t = QW_D3 cx tab pos old ne /\ ms_key sl = Some (sc_k cx) /\ ms_val sl = None /\ fst e = false))).
Proof.
  intros K V eqd hash idx tophash nslots seeds g sh nstripes minlen grow_only [[H1 [H2 H3]] [H4 H5]] len0 todo sched Hl s tab b Ht Hb tb.
  pose proof (reachable_XB eqd hash idx tophash nslots seeds g sh nstripes minlen grow_only H3 H4 H5 H1 H2 len0 todo sched Hl) as HX. fold s in HX.
  destruct (chain_keys hash idx tophash nslots nstripes s tab b HX Ht Hb) as [A B]. split; [exact A|]. split; [exact B|].
  intros pos Hp. apply (slot_states hash idx tophash nslots nstripes s tab b pos HX Ht Hb Hp).
Qed.
Print Assumptions C03_cells.

Theorem C03_vis_step :
  forall (K V : Type) (eqd : forall a b : K, {a = b} + {a <> b}) hash idx tophash nslots seeds g sh nstripes minlen grow_only,
    shyps_cells hash idx tophash minlen nslots -> forall len0 todo sched t s' ls tab k v, (0 < len0)%nat ->
    let s := fst (@srun K V eqd hash idx tophash nslots seeds g sh nstripes minlen grow_only (sinit nslots seeds nstripes len0 todo) sched) in
    @sstep K V eqd hash idx tophash nslots seeds g sh nstripes minlen grow_only s t = Some (s', ls) -> (tab <= h_cur s)%nat ->
    (svis hash idx tophash nslots (tabT nslots nstripes (h_tabs s') tab) k v
     <-> XS_vis.upd_rel (svis hash idx tophash nslots (tabT nslots nstripes (h_tabs s) tab)) (XS_vis.lin_effect (h_pc s t) tab) k v).
Proof.
  intros K V eqd hash idx tophash nslots seeds g sh nstripes minlen grow_only [[H1 [H2 H3]] [H4 H5]] len0 todo sched t s' ls tab k v Hl.
  apply (reachable_vis eqd hash idx tophash nslots seeds g sh nstripes minlen grow_only H3 H4 H5 H1 H2 len0 todo sched t s' ls tab k v Hl).
Qed.
Print Assumptions C03_vis_step.

Theorem C03_vis_functional :
  forall (K V : Type) (eqd : forall a b : K, {a = b} + {a <> b}) hash idx tophash nslots seeds g sh nstripes minlen grow_only,
    shyps_cells hash idx tophash minlen nslots -> forall len0 todo sched tab k v v', (0 < len0)%nat ->
    let s := fst (@srun K V eqd hash idx tophash nslots seeds g sh nstripes minlen grow_only (sinit nslots seeds nstripes len0 todo) sched) in
    (tab <= h_cur s)%nat ->
    svis hash idx tophash nslots (tabT nslots nstripes (h_tabs s) tab) k v ->
    svis hash idx tophash nslots (tabT nslots nstripes (h_tabs s) tab) k v' -> v = v'.
Proof.
  intros K V eqd hash idx tophash nslots seeds g sh nstripes minlen grow_only [[H1 [H2 H3]] [H4 H5]] len0 todo sched tab k v v' Hl s Ht.
  pose proof (reachable_XB eqd hash idx tophash nslots seeds g sh nstripes minlen grow_only H3 H4 H5 H1 H2 len0 todo sched Hl) as HX. fold s in HX.
  apply (svis_fun hash idx tophash nslots nstripes H3 H1 s tab k v v' HX Ht).
Qed.
Print Assumptions C03_vis_functional.

Theorem C03_abs_step :
  forall (K V : Type) (eqd : forall a b : K, {a = b} + {a <> b}) hash idx tophash nslots seeds g sh nstripes minlen grow_only,
    shyps_cells hash idx tophash minlen nslots -> forall len0 todo sched t s' ls k v, (0 < len0)%nat ->
    let s := fst (@srun K V eqd hash idx tophash nslots seeds g sh nstripes minlen grow_only (sinit nslots seeds nstripes len0 todo) sched) in
    @sstep K V eqd hash idx tophash nslots seeds g sh nstripes minlen grow_only s t = Some (s', ls) ->
    (h_cur s' = h_cur s
     /\ (sabs hash idx tophash nslots nstripes s' k v
         <-> XS_vis.upd_rel (sabs hash idx tophash nslots nstripes s) (XS_vis.lin_effect (h_pc s t) (h_cur s)) k v))
    \/ (exists kt new, h_pc s t = QR_Publish kt new /\ h_cur s' = new /\ (h_cur s < new)%nat
          /\ (sabs hash idx tophash nslots nstripes s' k v <-> svis hash idx tophash nslots (tabT nslots nstripes (h_tabs s) new) k v)).
Proof.
  intros K V eqd hash idx tophash nslots seeds g sh nstripes minlen grow_only [[H1 [H2 H3]] [H4 H5]] len0 todo sched t s' ls k v Hl s E.
  pose proof (reachable_XB eqd hash idx tophash nslots seeds g sh nstripes minlen grow_only H3 H4 H5 H1 H2 len0 todo sched Hl) as HX. fold s in HX.
  apply (XS_abs.abs_step eqd hash idx tophash nslots seeds g sh nstripes minlen grow_only H3 H4 H1 H2 s t s' ls k v HX E).
Qed.
Print Assumptions C03_abs_step.

(* the table a Clear allocates has no key, and publishing a table without keys empties the abstract map *)
Theorem C03_clear_empties :
  forall (K V : Type) (eqd : forall a b : K, {a = b} + {a <> b}) hash idx tophash nslots seeds g sh nstripes minlen grow_only,
    shyps_cells hash idx tophash minlen nslots -> forall len0 todo sched t s' ls, (0 < len0)%nat ->
    let s := fst (@srun K V eqd hash idx tophash nslots seeds g sh nstripes minlen grow_only (sinit nslots seeds nstripes len0 todo) sched) in
    @sstep K V eqd hash idx tophash nslots seeds g sh nstripes minlen grow_only s t = Some (s', ls) ->
    (forall kt, h_pc s t = QR_Table SHClear kt ->
       h_pc s' t = QR_Publish kt (length (h_tabs s)) /\ forall k, ~ tkey (tabT nslots nstripes (h_tabs s') (length (h_tabs s))) k)
    /\ (forall kt new, h_pc s t = QR_Publish kt new -> (forall k, ~ tkey (tabT nslots nstripes (h_tabs s) new) k) ->
         forall k v, ~ sabs hash idx tophash nslots nstripes s' k v).
Proof.
  intros K V eqd hash idx tophash nslots seeds g sh nstripes minlen grow_only [[H1 [H2 H3]] [H4 H5]] len0 todo sched t s' ls Hl s E.
  pose proof (reachable_XB eqd hash idx tophash nslots seeds g sh nstripes minlen grow_only H3 H4 H5 H1 H2 len0 todo sched Hl) as HX. fold s in HX.
  split.
  - intros kt Hp. apply (clear_alloc eqd hash idx tophash nslots seeds g sh nstripes minlen grow_only H3 H4 H2 s t s' ls kt E Hp).
  - intros kt new Hp Hk. apply (publish_no_keys eqd hash idx tophash nslots seeds g sh nstripes minlen grow_only H3 H4 H1 H2 s t s' ls kt new HX E Hp Hk).
Qed.
Print Assumptions C03_clear_empties.

Theorem C03_cells_instance :
  forall o hint, oracle64 o -> shyps_cells (hash_of o) idx_map tag_map (minlen_of_hint false hint) (nslots_of false).
Proof. exact s_instance_hyps_cells. Qed.
Print Assumptions C03_cells_instance.

(* non-vacuity: a slot in the middle of an insert (value stored, key not yet), as its writer's program counter tells *)
Example C03_cells_nonvacuous :
  let s := ex_sched [0; 0; 0; 0; 0; 0; 0; 0; 0; 0]%nat in
  let sl := nth 0 (schain_of (stab_at 3%nat (fun _ => 1%nat) s 0%nat) 0%nat) empty_mslot in
  (exists cx, h_pc s 0%nat = QW_I3 cx 0%nat 0%nat 1%nat)
  /\ ms_key sl = None /\ ms_val sl = Some (1%nat, 0%nat)
  /\ topent 3%nat (ctops (stab_at 3%nat (fun _ => 1%nat) s 0%nat) 0%nat) 0%nat = (true, 7%N).
Proof. exact cells_nonvacuous. Qed.
Print Assumptions C03_cells_nonvacuous.

(* ---------------- the abstract map, complete (XMachineS, every schedule) ---------------- *)

Theorem C03_abs_step_all :
  forall (K V : Type) (eqd : forall a b : K, {a = b} + {a <> b}) hash idx tophash nslots seeds g sh nstripes minlen grow_only,
    rhyps hash idx tophash nslots minlen -> forall len0 todo sched t s' ls, (0 < len0)%nat ->
    let s := fst (@srun K V eqd hash idx tophash nslots seeds g sh nstripes minlen grow_only (sinit nslots seeds nstripes len0 todo) sched) in
    @sstep K V eqd hash idx tophash nslots seeds g sh nstripes minlen grow_only s t = Some (s', ls) ->
    match h_pc s t with
    | QR_Publish kt new =>
        (clear_kt kt /\ forall k v, ~ sabs hash idx tophash nslots nstripes s' k v)
        \/ (~ clear_kt kt /\ forall k v, sabs hash idx tophash nslots nstripes s' k v <-> sabs hash idx tophash nslots nstripes s k v)
    | p => forall k v, sabs hash idx tophash nslots nstripes s' k v
                       <-> XS_vis.upd_rel (sabs hash idx tophash nslots nstripes s) (XS_vis.lin_effect p (h_cur s)) k v
    end.
Proof. exact @reachable_abs_step. Qed.
Print Assumptions C03_abs_step_all.

Theorem C03_clear_kt :
  forall (K V : Type) (eqd : forall a b : K, {a = b} + {a <> b}) hash idx tophash nslots seeds g sh nstripes minlen grow_only,
    rhyps hash idx tophash nslots minlen -> forall len0 todo sched t, (0 < len0)%nat ->
    XS_resize.hint_ok (h_pc (fst (@srun K V eqd hash idx tophash nslots seeds g sh nstripes minlen grow_only (sinit nslots seeds nstripes len0 todo) sched)) t).
Proof. exact @XS_resize.clear_kt_proof. Qed.
Print Assumptions C03_clear_kt.

Theorem C03_resize_instance :
  forall o hint, oracle64 o -> rhyps (hash_of o) idx_map tag_map (nslots_of false) (minlen_of_hint false hint).
Proof. exact s_instance_rhyps. Qed.
Print Assumptions C03_resize_instance.

(* non-vacuity (proofs/XS_rinst.v): a state in the middle of a grow with a writer past resizeInProgress()
   on a bucket the copy has not reached *)
Example C03_resize_nonvacuous :
  let s := gex_run (repeat 0 20 ++ repeat 1 5 ++ repeat 2 18)%nat in
  progress (h_pc s 2%nat) = Some (0%nat, 1%nat, 1%nat)
  /\ committed (h_pc s 1%nat) = Some (0%nat, 3%nat)
  /\ XS_lock.sholds gex_hash gex_idx 1%nat (fun _ => 1%nat) s (h_pc s 1%nat) = Some (0%nat, 1%nat)
  /\ h_cur s = 0%nat /\ h_resizing s = true.
Proof. exact resize_nonvacuous. Qed.
Print Assumptions C03_resize_nonvacuous.

(* ---------------- a lookup run alone returns the abstract map's value (XMachineS) ---------------- *)

Theorem C03_value :
  forall (K V : Type) (eqd : forall a b : K, {a = b} + {a <> b}) hash idx tophash nslots seeds g sh nstripes minlen grow_only,
    rdhyps hash idx tophash nslots minlen -> forall len0 todo sched t k rest, (0 < len0)%nat ->
    let sr := @srun K V eqd hash idx tophash nslots seeds g sh nstripes minlen grow_only in
    let s := fst (sr (sinit nslots seeds nstripes len0 todo) sched) in
    h_pc s t = QIdle -> h_todo s t = SLoad k :: rest ->
    exists m o, (m <= rd_bound hash idx nslots nstripes s (QL_Table k SLPlain))%nat
      /\ h_pc (fst (sr s (repeat t m))) t = QIdle
      /\ In (SRes t (sres_of o)) (snd (sr s (repeat t m)))
      /\ (forall v, o = Some v <-> sabs hash idx tophash nslots nstripes s k v)
      /\ sshared_eq s (fst (sr s (repeat t m)))
      /\ (forall t', t' <> t -> h_pc (fst (sr s (repeat t m))) t' = h_pc s t').
Proof. exact @s_call_load_visible_proof. Qed.
Print Assumptions C03_value.

Example C03_value_nonvacuous :
  h_pc rd_ex 1%nat = QIdle /\ h_todo rd_ex 1%nat = [SLoad 7%nat]
  /\ rd_bound (fun k _ => N.of_nat k) (fun h len => Nat.modulo (N.to_nat h) len) 3%nat (fun _ => 1%nat) rd_ex (QL_Table 7%nat SLPlain) = 12%nat
  /\ last (snd (@srun nat nat Nat.eq_dec (fun k _ => N.of_nat k) (fun h len => Nat.modulo (N.to_nat h) len) (fun h => h) 3%nat (fun _ => 0%N)
                     (fun _ _ => false) (fun _ _ => false) (fun _ => 1%nat) 1%nat false rd_ex (repeat 1 5)%nat)) (SStep 0%nat SKStart)
     = SRes 1%nat (SRVal (Some 1%nat) true).
Proof. exact read_nonvacuous. Qed.
Print Assumptions C03_value_nonvacuous.

(* ---------------- readers under every schedule; user function; Size (XMachineS) ---------------- *)

Theorem C03_load_hit :
  forall (K V : Type) (eqd : forall a b : K, {a = b} + {a <> b}) hash idx tophash nslots seeds g sh nstripes minlen grow_only,
    lhhyps hash idx tophash nslots minlen -> forall len0 todo sched0 sched t k lc tab v s2 ls2, (0 < len0)%nat ->
    let sr := @srun K V eqd hash idx tophash nslots seeds g sh nstripes minlen grow_only in
    let s := fst (sr (sinit nslots seeds nstripes len0 todo) sched0) in
    salong eqd hash idx tophash nslots seeds g sh nstripes minlen grow_only (XS_loadhit.inlookup hash nslots nstripes t k lc tab) s sched ->
    (match h_pc s t with QL_Val _ _ _ _ _ _ | QL_Key _ _ _ _ _ _ _ | QL_Val2 _ _ _ _ _ _ _ _ => False | _ => True end) ->
    @sstep K V eqd hash idx tophash nslots seeds g sh nstripes minlen grow_only (fst (sr s sched)) t = Some (s2, ls2) ->
    (exists l, In l ls2 /\ XS_loadhit.hit t v l) ->
    sever eqd hash idx tophash nslots seeds g sh nstripes minlen grow_only
          (fun s' => svis hash idx tophash nslots (stab_at nslots nstripes s' tab) k v) s sched.
Proof. exact @s_load_hit_proof. Qed.
Print Assumptions C03_load_hit.

Theorem C03_fn_at_most_once :
  forall (K V : Type) (eqd : forall a b : K, {a = b} + {a <> b}) hash idx tophash nslots seeds g sh nstripes minlen grow_only len0 todo sched t,
    let r := @srun K V eqd hash idx tophash nslots seeds g sh nstripes minlen grow_only (sinit nslots seeds nstripes len0 todo) sched in
    fst (XS_fn.fnc t (0, 0)%nat (snd r)) = 0%nat /\ (snd (XS_fn.fnc t (0, 0)%nat (snd r)) <= 1)%nat
    /\ (XS_fn.cdone (h_pc (fst r) t) = false -> snd (XS_fn.fnc t (0, 0)%nat (snd r)) = 0%nat)
    /\ (XS_fn.crange (h_pc (fst r) t) = true -> snd (XS_fn.fnc t (0, 0)%nat (snd r)) = 0%nat).
Proof. exact @XS_fn.fn_at_most_once. Qed.
Print Assumptions C03_fn_at_most_once.

Theorem C03_quiescent_size_exact :
  forall (K V : Type) (eqd : forall a b : K, {a = b} + {a <> b}) hash idx tophash nslots seeds g sh nstripes minlen grow_only,
    szhyps hash idx tophash nslots nstripes minlen -> forall len0 todo sched t rest, (0 < len0)%nat ->
    let sr := @srun K V eqd hash idx tophash nslots seeds g sh nstripes minlen grow_only in
    let s := fst (sr (sinit nslots seeds nstripes len0 todo) sched) in
    (forall u, XS_size.modifying (h_pc s u) = false) -> h_pc s t = QIdle -> h_todo s t = SSize :: rest ->
    let tb := stab_at nslots nstripes s (h_cur s) in
    let l := XS_size.tpairs tb in
    let r := sr s (repeat t (S (snstr tb))) in
    In (SRes t (SRNat (Z.of_nat (length l)))) (snd r)
    /\ (forall k v, In (k, v) l <-> sabs hash idx tophash nslots nstripes s k v) /\ NoDup (map fst l)
    /\ h_pc (fst r) t = QIdle /\ sshared_eq s (fst r)
    /\ (forall t', t' <> t -> h_pc (fst r) t' = h_pc s t').
Proof. exact @XS_size.quiescent_size_exact. Qed.
Print Assumptions C03_quiescent_size_exact.

(* non-vacuity (vm_compute'd states in proofs/XS_lhinst.v, XS_fn.v, XS_size.v): a reader that has loaded the bucket
   word, a deleter that has then cleared the presence bit, the reader still returning the value; a Compute whose
   grow-retry gives one evaluation and two nested visitor calls counted separately; a quiescent state where Size returns 3 *)
Definition C03_load_hit_nonvacuous := loadhit_nonvacuous.
Definition C03_fn_nonvacuous := XS_fn.fn_nonvacuous.
Definition C03_size_nonvacuous := XS_size.size_nonvacuous.
Print Assumptions C03_load_hit_nonvacuous.
Print Assumptions C03_fn_nonvacuous.
Print Assumptions C03_size_nonvacuous.

(* ---------------- misses; traversals with re-entrant visitors (XMachineS, every schedule) ---------------- *)

Theorem C03_load_no_miss :
  forall (K V : Type) (eqd : forall a b : K, {a = b} + {a <> b}) hash idx tophash nslots seeds g sh nstripes minlen grow_only,
    lhhyps hash idx tophash nslots minlen -> forall len0 todo sched0 sched t k lc tab s2 ls2, (0 < len0)%nat ->
    let sr := @srun K V eqd hash idx tophash nslots seeds g sh nstripes minlen grow_only in
    let s := fst (sr (sinit nslots seeds nstripes len0 todo) sched0) in
    salong eqd hash idx tophash nslots seeds g sh nstripes minlen grow_only (XS_loadmiss.stays hash idx tophash nslots nstripes t k lc tab) s sched ->
    (exists k' lc' tab' h, h_pc s t = QL_Top k' lc' tab' h 0) ->
    @sstep K V eqd hash idx tophash nslots seeds g sh nstripes minlen grow_only (fst (sr s sched)) t = Some (s2, ls2) ->
    ~ endchain t (fst (sr s sched)) ls2.
Proof. exact @s_load_no_miss_proof. Qed.
Print Assumptions C03_load_no_miss.

Theorem C03_load_absent :
  forall (K V : Type) (eqd : forall a b : K, {a = b} + {a <> b}) hash idx tophash nslots seeds g sh nstripes minlen grow_only,
    lhhyps hash idx tophash nslots minlen -> forall len0 todo sched0 sched t k lc tab s2 ls2, (0 < len0)%nat ->
    let sr := @srun K V eqd hash idx tophash nslots seeds g sh nstripes minlen grow_only in
    let s := fst (sr (sinit nslots seeds nstripes len0 todo) sched0) in
    salong eqd hash idx tophash nslots seeds g sh nstripes minlen grow_only (XS_loadhit.inlookup hash nslots nstripes t k lc tab) s sched ->
    (exists k' lc' tab' h, h_pc s t = QL_Top k' lc' tab' h 0) ->
    @sstep K V eqd hash idx tophash nslots seeds g sh nstripes minlen grow_only (fst (sr s sched)) t = Some (s2, ls2) ->
    In (SRes t (SRVal None false)) ls2 \/ In (SSubRes t (SRVal None false)) ls2 ->
    sever eqd hash idx tophash nslots seeds g sh nstripes minlen grow_only
          (fun s' => forall v, ~ svis hash idx tophash nslots (stab_at nslots nstripes s' tab) k v) s sched.
Proof. exact @s_load_absent_proof. Qed.
Print Assumptions C03_load_absent.

Theorem C03_range_once :
  forall (K V : Type) (eqd : forall a b : K, {a = b} + {a <> b}) hash idx tophash nslots seeds g sh nstripes minlen grow_only,
    rdhyps hash idx tophash nslots minlen -> forall len0 todo sched t, (0 < len0)%nat ->
    NoDup (map fst (XS_range.cv t [] (snd (@srun K V eqd hash idx tophash nslots seeds g sh nstripes minlen grow_only (sinit nslots seeds nstripes len0 todo) sched)))).
Proof. exact @XS_range.range_once_proof. Qed.
Print Assumptions C03_range_once.

Theorem C03_range_snapshot :
  forall (K V : Type) (eqd : forall a b : K, {a = b} + {a <> b}) hash idx tophash nslots seeds g sh nstripes minlen grow_only,
    rdhyps hash idx tophash nslots minlen -> forall len0 todo sched t tab b w snap vf a, (0 < len0)%nat ->
    let s := fst (@srun K V eqd hash idx tophash nslots seeds g sh nstripes minlen grow_only (sinit nslots seeds nstripes len0 todo) sched) in
    h_pc s t = QU_Load tab b (Some (snap, vf)) a \/ h_pc s t = QU_Store tab b w (Some (snap, vf)) a ->
    NoDup (map fst snap)
    /\ (forall k v, In (k, v) snap <-> (svis hash idx tophash nslots (stab_at nslots nstripes s tab) k v
                                        /\ shome hash idx (stab_at nslots nstripes s tab) k = b))
    /\ lock_of nslots nstripes s tab b = Some t.
Proof. exact @XS_range.range_snapshot_proof. Qed.
Print Assumptions C03_range_snapshot.

Theorem C03_range_complete :
  forall (K V : Type) (eqd : forall a b : K, {a = b} + {a <> b}) hash idx tophash nslots seeds g sh nstripes minlen grow_only,
    rdhyps hash idx tophash nslots minlen -> forall len0 todo sched0 sched t tab vf k v, (0 < len0)%nat ->
    let sr := @srun K V eqd hash idx tophash nslots seeds g sh nstripes minlen grow_only in
    let s0 := fst (sr (sinit nslots seeds nstripes len0 todo) sched0) in
    h_pc s0 t = QK_Load tab 0 (LKRange vf) ->
    XS_range.along eqd hash idx tophash nslots seeds g sh nstripes minlen grow_only
          (fun s => svis hash idx tophash nslots (stab_at nslots nstripes s tab) k v) s0 sched ->
    h_pc (fst (sr s0 sched)) t = QIdle ->
    In (k, v) (XS_range.allvis t (snd (sr s0 sched))).
Proof. exact @XS_range.range_complete_proof. Qed.
Print Assumptions C03_range_complete.

Definition C03_nomiss_nonvacuous := nomiss_nonvacuous.
Definition C03_miss_nonvacuous := miss_nonvacuous.
Definition C03_range_nonvacuous := XS_range.range_nonvacuous.
Print Assumptions C03_nomiss_nonvacuous.
Print Assumptions C03_miss_nonvacuous.
Print Assumptions C03_range_nonvacuous.

(* ---------------- linearizability of map.go's machine ---------------- *)

Theorem C03_linearizable :
  forall (K V : Type) (eqd : forall a b : K, {a = b} + {a <> b}) hash idx tophash nslots seeds g sh nstripes minlen grow_only,
    rhyps hash idx tophash nslots minlen -> forall len0 todo sched, (0 < len0)%nat ->
    (forall t, Forall XS_linpoints.sokop (todo t)) ->
    linearizable (@sop K V) (@sres V) (X_linpoints.amap K V) (XS_linpoints.sspec eqd) X_linpoints.aempty
      (XS_linpoints.shist (snd (@srun K V eqd hash idx tophash nslots seeds g sh nstripes minlen grow_only (sinit nslots seeds nstripes len0 todo) sched))).
Proof. exact @XS_linearizable.smachine_linearizable_proof. Qed.
Print Assumptions C03_linearizable.

Theorem C03_linearizable_with_range :
  forall (K V : Type) (eqd : forall a b : K, {a = b} + {a <> b}) hash idx tophash nslots seeds g sh nstripes minlen grow_only,
    rhyps hash idx tophash nslots minlen -> forall len0 todo sched, (0 < len0)%nat ->
    (forall t, Forall XS_linpoints2.sokop2 (todo t)) ->
    linearizable (@sop K V) (@sres V) (X_linpoints.amap K V) (XS_linpoints.sspec eqd) X_linpoints.aempty
      (@XS_linearizable2.srunh K V eqd hash idx tophash nslots seeds g sh nstripes minlen grow_only (sinit nslots seeds nstripes len0 todo) sched).
Proof. exact @XS_linearizable2.smachine_linearizable2_proof. Qed.
Print Assumptions C03_linearizable_with_range.

Definition C03_lin_between_steps_nonvacuous := XS_linearizable.s_linearizable_read_between_steps.
Definition C03_lin_stale_table_nonvacuous := XS_linearizable.s_linearizable_stale_table_read.
Definition C03_lin_overtaken_store_nonvacuous := XS_linearizable.s_linearizable_overtaken_store.
Definition C03_lin_overtaken_decision_nonvacuous := XS_linearizable.s_linearizable_overtaken_decision.
Definition C03_lin_range_visitor_nonvacuous := XS_linearizable2.s_linearizable_range_visitor.
Print Assumptions C03_lin_between_steps_nonvacuous.
Print Assumptions C03_lin_stale_table_nonvacuous.
Print Assumptions C03_lin_overtaken_store_nonvacuous.
Print Assumptions C03_lin_overtaken_decision_nonvacuous.
Print Assumptions C03_lin_range_visitor_nonvacuous.

(* ---------------- termination (XMachineS) ---------------- *)

Theorem C03_solo_completion :
  forall (K V : Type) (eqd : forall a b : K, {a = b} + {a <> b}) hash idx tophash nslots seeds g sh nstripes minlen grow_only,
    XS_term.sthyps hash idx tophash nslots nstripes minlen -> XS_term.ghyp g -> forall len0 todo sched t o rest, (0 < len0)%nat ->
    let sr := @srun K V eqd hash idx tophash nslots seeds g sh nstripes minlen grow_only in
    let s := fst (sr (sinit nslots seeds nstripes len0 todo) sched) in
    XS_term.calm hash idx nslots nstripes s t -> h_pc s t = QIdle -> h_todo s t = o :: rest ->
    exists m,
      let r := sr s (repeat t m) in
      h_pc (fst r) t = QIdle /\ h_todo (fst r) t = rest
      /\ In (SInv t o) (snd r) /\ (exists res, In (SRes t res) (snd r))
      /\ XS_term.calm hash idx nslots nstripes (fst r) t
      /\ (forall u, u <> t -> h_pc (fst r) u = h_pc s u /\ h_todo (fst r) u = h_todo s u /\ h_frame (fst r) u = h_frame s u)
      /\ (XS_term.nsub t (snd r) <= XS_term.vbound nslots nstripes s o)%nat.
Proof. exact @XS_term.s_solo_call_g_proof. Qed.
Print Assumptions C03_solo_completion.

Theorem C03_can_always_finish :
  forall (K V : Type) (eqd : forall a b : K, {a = b} + {a <> b}) hash idx tophash nslots seeds g sh nstripes minlen grow_only,
    XS_term.sthyps hash idx tophash nslots nstripes minlen -> XS_term.ghyp g -> forall len0 todo sched ths, (0 < len0)%nat ->
    (forall u, In u sched -> In u ths) ->
    let sr := @srun K V eqd hash idx tophash nslots seeds g sh nstripes minlen grow_only in
    let s := fst (sr (sinit nslots seeds nstripes len0 todo) sched) in
    exists cont, let r := sr s cont in
      (forall t, In t ths -> h_pc (fst r) t = QIdle /\ h_todo (fst r) t = [])
      /\ (forall u, ~ In u ths -> h_pc (fst r) u = QStart /\ h_todo (fst r) u = h_todo s u).
Proof. exact @XS_term.s_can_always_finish. Qed.
Print Assumptions C03_can_always_finish.

Definition C03_solo_nonvacuous := XS_term.s_solo_nonvacuous.
Definition C03_nested_nonvacuous := XS_term.s_nested_nonvacuous.
Definition C03_can_finish_nonvacuous := XS_term.s_can_finish_nonvacuous.
Definition C03_growth_hypothesis_needed := XS_term.s_solo_writer_grows_forever.
Print Assumptions C03_solo_nonvacuous.
Print Assumptions C03_nested_nonvacuous.
Print Assumptions C03_can_finish_nonvacuous.
Print Assumptions C03_growth_hypothesis_needed.

(* ---------------- fairness on the Map machine (proofs/XS_fair.v) ----------------
   On XMachineS a thread that spins on a bucket spin lock is ENABLED and its steps change only its own program counter,
   so "every enabled step makes progress" is false and MapOf's fairness argument does not apply as it stands.
   C03_fair_progress (unconditional: no growth hypothesis, any visitors): from every reachable state in which some thread
   of ths is not done, every weakly fair infinite schedule executes, after finitely many spinning / void steps, a step of a
   thread of ths that is enabled and NOT spinning -- the lock holder, the resizeMu holder, the resizer or the thread itself
   is always such a thread (helpful-thread scheme): no livelock on the spin locks.
   C03_fair_termination_readonly_partial: for workloads of Load, Size and Range with silent visitors (Ranges still contend on
   the spin locks) every fair schedule finishes every call.  The general statement for writers needs the measure of X_fair
   ported to this machine (interface: XS_fair.s_fair_cond); it is NOT proved -- for writers, termination on Map is
   C03_solo_completion / C03_can_always_finish. *)
From CacheV.proofs Require XS_fair.
Definition C03_fair_progress := @XS_fair.s_fair_progress_proof.
Definition C03_fair_progress_instance := @XS_fair.s_machine_fair_progress.
Definition C03_fair_termination_readonly_partial := @XS_fair.s_fair_termination_readonly.
Definition C03_fair_nonvacuous := XS_fair.s_fair_nonvacuous.
Print Assumptions C03_fair_progress.
Print Assumptions C03_fair_progress_instance.
Print Assumptions C03_fair_termination_readonly_partial.
Print Assumptions C03_fair_nonvacuous.

(* writers, in systems in which no resize can start (grow_needed identically false, grow_only): every fair schedule finishes
   every call -- the (Good, M) pair for XS_fair.s_fair_cond on the program counters of Load / Compute / silent Range / Size.
   NOT the extracted machine (its growth policy is not identically false): a stage of the general theorem, kept because its
   measure (lock hand-over W5, chain stores W3, chain-length cap) is the part that differs from MapOf's. *)
From CacheV.proofs Require XS_fair2.
Definition C03_fair_termination_writers_no_resize_partial := @XS_fair2.s_fair_termination_no_visitor_calls_no_resize.
Print Assumptions C03_fair_termination_writers_no_resize_partial.
