(* C03 -- Map (string keys) is linearizable, also across grow, shrink and Clear.

   What is proved:
     C03_sequential    run one call at a time, the table layer of map.go
                       (variant = false: 3 slots, shrink request when the whole
                       chain is empty) answers as a builtin map for every hash
                       function, seed stream and policy (C11)
     C03_reads_never_block  on XMachineS (the concurrent machine of map.go at the
                       granularity of one atomic operation: spin lock in the
                       top-hash word, value / key / value snapshot with retry,
                       key and value pointers stored separately; replayed step by
                       step against the real code by CORR-sched): in every
                       reachable state a thread inside Load, the read-only fast
                       path of doCompute or Size can take its next step, and that
                       step is a load which changes nothing shared (also C16 for
                       the Map variant)
     C03_resize_protocol    on XMachineS, every reachable state: a thread that has
                       returned holds neither resizeMu nor the resizer role; resizeMu
                       has one holder; the resizing flag is set exactly while one
                       thread is between winning the CAS and resetting it (through
                       all the lockBucket / copy / unlockBucket steps of the copy);
                       a thread is in the wait set of resizeCond only while the
                       flag is set or the waking broadcast is still to come (no
                       lost wake-up) -- also for calls made by a Range visitor
                       from inside the Range (C13 for the Map variant)
   No invariant about the cells of XMachineS is proved yet (MapOf's are: C04);
   the concurrent behaviour of map.go is decided by the step correspondence and by search: the real code under
   the controlled scheduler (random / PCT schedules at the granularity of single
   atomic operations, tables at the grow / shrink thresholds, Clear), every
   history checked for linearizability against map[string]interface{}. *)
From CacheV Require Import Base SpecMap TableModel TabExec Exec XMachineS.
From CacheV.proofs Require Import C11_lists C11_table C11_idx X_maps XS_inv.
From Coq Require Import NArith.

Theorem C03_sequential :
  forall (K V A : Type) (eqd : forall a b : K, {a = b} + {a <> b})
         (hash : K -> N -> N) (idx : N -> nat -> nat) (tag : N -> N) (nslots : nat) (seeds : nat -> N)
         (grow_needed shrink_policy : nat -> nat -> bool),
    (forall h len, (0 < len)%nat -> (idx h len < len)%nat) ->
    forall fuel (ops : list (mop K V A)) (m : @tmap K V) (a : amap K V) m' rs,
      WFm hash idx tag nslots m -> meq eqd (abs nslots m) a ->
      run_table eqd hash idx tag nslots seeds false grow_needed shrink_policy fuel m ops = Some (m', rs) ->
      let '(a', rs') := run_spec eqd a ops in
      WFm hash idx tag nslots m' /\ meq eqd (abs nslots m') a' /\ Forall2 res_equiv rs rs'.
Proof.
  intros K V A eqd hash idx tag nslots seeds grow_needed shrink_policy Hidx fuel ops m a m' rs.
  exact (run_refines eqd hash idx tag nslots seeds false grow_needed shrink_policy Hidx fuel ops m a m' rs).
Qed.
Print Assumptions C03_sequential.

Theorem C03_reads_never_block :
  forall (K V : Type) (eqd : forall a b : K, {a = b} + {a <> b}) hash idx tophash nslots seeds g sh nstripes minlen grow_only len0 todo sched t,
    let s := fst (@srun K V eqd hash idx tophash nslots seeds g sh nstripes minlen grow_only (sinit nslots seeds nstripes len0 todo) sched) in
    sreader_pc (h_pc s t) = true ->
    exists s' ls, @sstep K V eqd hash idx tophash nslots seeds g sh nstripes minlen grow_only s t = Some (s', ls)
      /\ sshared_eq s s' /\ (forall t', t' <> t -> h_pc s' t' = h_pc s t') /\ Forall (sread_label t) ls.
Proof. exact @map_reads_never_block. Qed.
Print Assumptions C03_reads_never_block.

Theorem C03_resize_protocol :
  forall (K V : Type) (eqd : forall a b : K, {a = b} + {a <> b}) hash idx tophash nslots seeds g sh nstripes minlen grow_only len0 todo sched,
    let s := fst (@srun K V eqd hash idx tophash nslots seeds g sh nstripes minlen grow_only (sinit nslots seeds nstripes len0 todo) sched) in
    (forall t, h_pc s t = QIdle -> h_rmu s <> Some t /\ (h_resizing s = true -> exists t', t' <> t /\ srz (h_pc s t') = true))
    /\ (forall t t', smu (h_pc s t) = true -> smu (h_pc s t') = true -> t = t')
    /\ (forall t t', srz (h_pc s t) = true -> srz (h_pc s t') = true -> t = t')
    /\ (h_resizing s = true <-> exists t, srz (h_pc s t) = true)
    /\ (forall t hn kt, h_pc s t = QT_Waiting hn kt -> h_resizing s = true \/ exists t', sbcast (h_pc s t') = true).
Proof. exact @map_resize_protocol. Qed.
Print Assumptions C03_resize_protocol.

(* non-vacuity: a writer holds the bucket lock of key 7 (it is past the CAS), a reader of key 7 is on the read path *)
Definition ex_run03 : @mstate nat nat :=
  fst (@srun nat nat Nat.eq_dec (fun k _ => N.of_nat k) (fun h len => Nat.modulo (N.to_nat h) len) (fun h => h) 3%nat (fun _ => 0%N)
             (fun _ _ => false) (fun _ _ => false) (fun _ => 1%nat) 1%nat false
             (sinit 3%nat (fun _ => 0%N) (fun _ => 1%nat) 1%nat
                    (fun t => if Nat.eqb t 0%nat then [SCompute 7%nat (fun _ => Some 1%nat) true false true] else [SLoad 7%nat]))
             [0; 0; 0; 0; 0; 1; 1]%nat).
Example C03_nonvacuous :
  (exists cx, h_pc ex_run03 0%nat = QW_ChkTab cx 0%nat) /\ sreader_pc (h_pc ex_run03 1%nat) = true.
Proof. split; [eexists; vm_compute; reflexivity | vm_compute; reflexivity]. Qed.
Print Assumptions C03_nonvacuous.
