(* C03 -- Map (string keys) is linearizable, also across grow, shrink and Clear.

   What is proved:
     C03_sequential    run one call at a time, the table layer of map.go
                       (variant = false: 3 slots, shrink request when the whole
                       chain is empty) answers as a builtin map for every hash
                       function, seed stream and policy (C11)
     C03_reads_never_block  on XMachineS (the concurrent machine of map.go at the
                       granularity of one atomic operation: spin lock in the
                       top-hash word, value / key / value snapshot with retry,
                       key and value pointers stored separately; replayed step by
                       step against the real code by CORR-sched): in every
                       reachable state a thread inside Load, the read-only fast
                       path of doCompute or Size can take its next step, and that
                       step is a load which changes nothing shared (also C16 for
                       the Map variant)
     C03_resize_protocol    on XMachineS, every reachable state: a thread that has
                       returned holds neither resizeMu nor the resizer role; resizeMu
                       has one holder; the resizing flag is set exactly while one
                       thread is between winning the CAS and resetting it (through
                       all the lockBucket / copy / unlockBucket steps of the copy);
                       a thread is in the wait set of resizeCond only while the
                       flag is set or the waking broadcast is still to come (no
                       lost wake-up) -- also for calls made by a Range visitor
                       from inside the Range (C13 for the Map variant)
     C03_bucket_locks  on XMachineS, every reachable state (proofs/XS_lock.v): the spin
                       lock inside the top-hash word of a root bucket names thread t
                       exactly when t's program counter is between the successful CAS
                       of lockBucket and the StoreUint64 of unlockBucket for that
                       bucket (doCompute, copyBucket, Range alike); two threads never
                       hold the same bucket; a thread holds at most one; continuations,
                       Range frames, idle and returned threads hold none (C13 / C14
                       for the Map variant).  Hypothesis nslots <= 3: with four slots
                       the MODEL's word encoding overlaps the lock bit and the lock can
                       be stolen (XS_inst.hslots_needed is the schedule); map.go has 3.
     C03_write_ownership    (proofs/XS_own.v) a step changes the cells of a bucket --
                       its key / value pointers or any bit of its words above the lock
                       bit -- only if the stepping thread holds that bucket's lock, or
                       the table is the unpublished table of the resize it is running,
                       which no other thread or frame refers to (C14 for Map).
     C03_counter       (proofs/XS_count.v) in every reachable state, for every table:
                       slots with a key = sum of the counter stripes + additions still
                       owed by threads between their key store / key erase and their
                       AddInt64; hence the counter is exact for a table nobody owes to
                       (C08 for Map).
     C03_instance      the extracted machine that CORR-sched replays against map.go
                       meets the hypotheses.
   Not proved for Map: the invariant about values and key uniqueness (MapOf: C04_cells),
   the abstract map and its steps (MapOf: C04_abs_step);
   the concurrent behaviour of map.go beyond the above is decided by the step correspondence and by search: the real code under
   the controlled scheduler (random / PCT schedules at the granularity of single
   atomic operations, tables at the grow / shrink thresholds, Clear), every
   history checked for linearizability against map[string]interface{}. *)
From CacheV Require Import Base SpecMap TableModel TabExec Exec XMachineS XExec XExecS.
From CacheV.proofs Require Import C11_lists C11_table C11_idx X_maps XS_inv XS_lock XS_own XS_count XS_inst.
From Coq Require Import NArith.

Theorem C03_sequential :
  forall (K V A : Type) (eqd : forall a b : K, {a = b} + {a <> b})
         (hash : K -> N -> N) (idx : N -> nat -> nat) (tag : N -> N) (nslots : nat) (seeds : nat -> N)
         (grow_needed shrink_policy : nat -> nat -> bool),
    (forall h len, (0 < len)%nat -> (idx h len < len)%nat) ->
    forall fuel (ops : list (mop K V A)) (m : @tmap K V) (a : amap K V) m' rs,
      WFm hash idx tag nslots m -> meq eqd (abs nslots m) a ->
      run_table eqd hash idx tag nslots seeds false grow_needed shrink_policy fuel m ops = Some (m', rs) ->
      let '(a', rs') := run_spec eqd a ops in
      WFm hash idx tag nslots m' /\ meq eqd (abs nslots m') a' /\ Forall2 res_equiv rs rs'.
Proof.
  intros K V A eqd hash idx tag nslots seeds grow_needed shrink_policy Hidx fuel ops m a m' rs.
  exact (run_refines eqd hash idx tag nslots seeds false grow_needed shrink_policy Hidx fuel ops m a m' rs).
Qed.
Print Assumptions C03_sequential.

Theorem C03_reads_never_block :
  forall (K V : Type) (eqd : forall a b : K, {a = b} + {a <> b}) hash idx tophash nslots seeds g sh nstripes minlen grow_only len0 todo sched t,
    let s := fst (@srun K V eqd hash idx tophash nslots seeds g sh nstripes minlen grow_only (sinit nslots seeds nstripes len0 todo) sched) in
    sreader_pc (h_pc s t) = true ->
    exists s' ls, @sstep K V eqd hash idx tophash nslots seeds g sh nstripes minlen grow_only s t = Some (s', ls)
      /\ sshared_eq s s' /\ (forall t', t' <> t -> h_pc s' t' = h_pc s t') /\ Forall (sread_label t) ls.
Proof. exact @map_reads_never_block. Qed.
Print Assumptions C03_reads_never_block.

Theorem C03_resize_protocol :
  forall (K V : Type) (eqd : forall a b : K, {a = b} + {a <> b}) hash idx tophash nslots seeds g sh nstripes minlen grow_only len0 todo sched,
    let s := fst (@srun K V eqd hash idx tophash nslots seeds g sh nstripes minlen grow_only (sinit nslots seeds nstripes len0 todo) sched) in
    (forall t, h_pc s t = QIdle -> h_rmu s <> Some t /\ (h_resizing s = true -> exists t', t' <> t /\ srz (h_pc s t') = true))
    /\ (forall t t', smu (h_pc s t) = true -> smu (h_pc s t') = true -> t = t')
    /\ (forall t t', srz (h_pc s t) = true -> srz (h_pc s t') = true -> t = t')
    /\ (h_resizing s = true <-> exists t, srz (h_pc s t) = true)
    /\ (forall t hn kt, h_pc s t = QT_Waiting hn kt -> h_resizing s = true \/ exists t', sbcast (h_pc s t') = true).
Proof. exact @map_resize_protocol. Qed.
Print Assumptions C03_resize_protocol.

(* non-vacuity: a writer holds the bucket lock of key 7 (it is past the CAS), a reader of key 7 is on the read path *)
Definition ex_run03 : @mstate nat nat :=
  fst (@srun nat nat Nat.eq_dec (fun k _ => N.of_nat k) (fun h len => Nat.modulo (N.to_nat h) len) (fun h => h) 3%nat (fun _ => 0%N)
             (fun _ _ => false) (fun _ _ => false) (fun _ => 1%nat) 1%nat false
             (sinit 3%nat (fun _ => 0%N) (fun _ => 1%nat) 1%nat
                    (fun t => if Nat.eqb t 0%nat then [SCompute 7%nat (fun _ => Some 1%nat) true false true] else [SLoad 7%nat]))
             [0; 0; 0; 0; 0; 1; 1]%nat).
Example C03_nonvacuous :
  (exists cx, h_pc ex_run03 0%nat = QW_ChkTab cx 0%nat) /\ sreader_pc (h_pc ex_run03 1%nat) = true.
Proof. split; [eexists; vm_compute; reflexivity | vm_compute; reflexivity]. Qed.
Print Assumptions C03_nonvacuous.

(* ---------------- bucket locks, write ownership, counter (XMachineS, every schedule) ---------------- *)

Theorem C03_bucket_locks :
  forall (K V : Type) (eqd : forall a b : K, {a = b} + {a <> b}) hash idx tophash nslots seeds g sh nstripes minlen grow_only,
    shyps idx minlen nslots -> forall len0 todo sched, (0 < len0)%nat ->
    let s := fst (@srun K V eqd hash idx tophash nslots seeds g sh nstripes minlen grow_only (sinit nslots seeds nstripes len0 todo) sched) in
    (forall t tab b, lock_of nslots nstripes s tab b = Some t <-> sholds hash idx nslots nstripes s (h_pc s t) = Some (tab, b))
    /\ (forall t t' tab b, sholds hash idx nslots nstripes s (h_pc s t) = Some (tab, b) ->
                           sholds hash idx nslots nstripes s (h_pc s t') = Some (tab, b) -> t = t')
    /\ (forall t tab b tab' b', lock_of nslots nstripes s tab b = Some t -> lock_of nslots nstripes s tab' b' = Some t -> tab' = tab /\ b' = b)
    /\ (forall t tab b, h_pc s t = QIdle \/ h_pc s t = QStart -> lock_of nslots nstripes s tab b <> Some t).
Proof.
  intros K V eqd hash idx tophash nslots seeds g sh nstripes minlen grow_only [H1 [H2 H3]] len0 todo sched Hl s.
  pose proof (reachable_XL eqd hash idx tophash nslots seeds g sh nstripes minlen grow_only H3 H1 H2 len0 todo sched Hl) as HX.
  fold s in HX. split; [|split; [|split]].
  - intros t tab b. apply (lock_iff hash idx nslots nstripes s t tab b HX).
  - intros t t' tab b. apply (lock_mutex hash idx nslots nstripes s t t' tab b HX).
  - intros t tab b tab' b'. apply (lock_one hash idx nslots nstripes s t tab b tab' b' HX).
  - intros t tab b. apply (idle_no_lock hash idx nslots nstripes s t tab b HX).
Qed.
Print Assumptions C03_bucket_locks.

Theorem C03_write_ownership :
  forall (K V : Type) (eqd : forall a b : K, {a = b} + {a <> b}) hash idx tophash nslots seeds g sh nstripes minlen grow_only,
    shyps idx minlen nslots -> forall len0 todo sched t s' ls tab b, (0 < len0)%nat ->
    let s := fst (@srun K V eqd hash idx tophash nslots seeds g sh nstripes minlen grow_only (sinit nslots seeds nstripes len0 todo) sched) in
    @sstep K V eqd hash idx tophash nslots seeds g sh nstripes minlen grow_only s t = Some (s', ls) ->
    (tab < length (h_tabs s))%nat ->
    cells (stab_at nslots nstripes s' tab) b <> cells (stab_at nslots nstripes s tab) b ->
    lock_of nslots nstripes s tab b = Some t
    \/ (snewtab (h_pc s t) = Some tab /\ (h_cur s < tab)%nat /\ S tab = length (h_tabs s)
        /\ (forall t', t' <> t -> XS_own.tabs_le (h_cur s) (h_pc s t') /\ snewtab (h_pc s t') = None)
        /\ (forall t' fr, h_frame s t' = Some fr -> XS_own.tabs_le (h_cur s) (rf_after fr) /\ snewtab (rf_after fr) = None)).
Proof.
  intros K V eqd hash idx tophash nslots seeds g sh nstripes minlen grow_only [H1 [H2 H3]] len0 todo sched t s' ls tab b Hl.
  apply (reachable_write_ownership eqd hash idx tophash nslots seeds g sh nstripes minlen grow_only H3 H1 H2 len0 todo sched t s' ls tab b Hl).
Qed.
Print Assumptions C03_write_ownership.

Theorem C03_counter :
  forall (K V : Type) (eqd : forall a b : K, {a = b} + {a <> b}) hash idx tophash nslots seeds g sh nstripes minlen grow_only,
    shyps_count idx minlen nslots nstripes -> forall len0 todo sched, (0 < len0)%nat ->
    let s := fst (@srun K V eqd hash idx tophash nslots seeds g sh nstripes minlen grow_only (sinit nslots seeds nstripes len0 todo) sched) in
    (forall x, (x < length (h_tabs s))%nat ->
       XS_count.tcount (stab_at nslots nstripes s x)
       = (ssum_z (m_size (stab_at nslots nstripes s x)) + XS_count.owed_all s x (nodup Nat.eq_dec sched))%Z)
    /\ (forall x, (x < length (h_tabs s))%nat -> (forall t, XS_count.owed x (h_pc s t) = 0%Z) ->
          ssum_z (m_size (stab_at nslots nstripes s x)) = XS_count.tcount (stab_at nslots nstripes s x)).
Proof.
  intros K V eqd hash idx tophash nslots seeds g sh nstripes minlen grow_only [[H1 [H2 H3]] H4] len0 todo sched Hl s. split.
  - apply (reachable_count eqd hash idx tophash nslots seeds g sh nstripes minlen grow_only H3 H1 H2 H4 len0 todo sched Hl).
  - intros x Hx Ho.
    apply (quiescent_size eqd hash idx tophash nslots seeds g sh nstripes minlen grow_only H3 H1 H2 H4 len0 todo sched x Hl Hx Ho).
Qed.
Print Assumptions C03_counter.

Theorem C03_instance :
  forall hint, shyps_count idx_map (minlen_of_hint false hint) (nslots_of false) nstripes_x.
Proof. exact s_instance_hyps_count. Qed.
Print Assumptions C03_instance.

(* non-vacuity (proofs/XS_inst.v): a state with a lock held and a spinning second thread; a state with one key,
   counter 0 and one addition owed; and the schedule that steals a lock when nslots = 4 *)
Example C03_locks_nonvacuous :
  let s := ex_sched [0; 0; 0; 0; 1; 1]%nat in
  sholds (fun k _ => N.of_nat k) (fun h len => Nat.modulo (N.to_nat h) len) 3%nat (fun _ => 1%nat) s (h_pc s 0%nat) = Some (0%nat, 0%nat)
  /\ lock_of 3%nat (fun _ => 1%nat) s 0%nat 0%nat = Some 0%nat.
Proof. exact lock_nonvacuous. Qed.
Example C03_counter_nonvacuous :
  let s := ex_sched [0; 0; 0; 0; 0; 0; 0; 0; 0; 0; 0]%nat in
  XS_count.tcount (stab_at 3%nat (fun _ => 1%nat) s 0%nat) = 1%Z
  /\ ssum_z (m_size (stab_at 3%nat (fun _ => 1%nat) s 0%nat)) = 0%Z
  /\ XS_count.owed 0%nat (h_pc s 0%nat) = 1%Z.
Proof. exact count_nonvacuous. Qed.
Print Assumptions C03_counter_nonvacuous.
