(* C03 -- Map (string keys) is linearizable, also across grow, shrink and Clear.

   What is proved:
     C03_sequential    run one call at a time, the table layer of map.go
                       (variant = false: 3 slots, shrink request when the whole
                       chain is empty) answers as a builtin map for every hash
                       function, seed stream and policy (C11)
   (further statements are added below as the development grows.)
   The concurrent behaviour of map.go is decided by search: the real code under
   the controlled scheduler (random / PCT schedules at the granularity of single
   atomic operations, tables at the grow / shrink thresholds, Clear), every
   history checked for linearizability against map[string]interface{}. *)
From CacheV Require Import Base SpecMap TableModel TabExec Exec.
From CacheV.proofs Require Import C11_lists C11_table C11_idx.
From Coq Require Import NArith.

Theorem C03_sequential :
  forall (K V A : Type) (eqd : forall a b : K, {a = b} + {a <> b})
         (hash : K -> N -> N) (idx : N -> nat -> nat) (tag : N -> N) (nslots : nat) (seeds : nat -> N)
         (grow_needed shrink_policy : nat -> nat -> bool),
    (forall h len, (0 < len)%nat -> (idx h len < len)%nat) ->
    forall fuel (ops : list (mop K V A)) (m : @tmap K V) (a : amap K V) m' rs,
      WFm hash idx tag nslots m -> meq eqd (abs nslots m) a ->
      run_table eqd hash idx tag nslots seeds false grow_needed shrink_policy fuel m ops = Some (m', rs) ->
      let '(a', rs') := run_spec eqd a ops in
      WFm hash idx tag nslots m' /\ meq eqd (abs nslots m') a' /\ Forall2 res_equiv rs rs'.
Proof.
  intros K V A eqd hash idx tag nslots seeds grow_needed shrink_policy Hidx fuel ops m a m' rs.
  exact (run_refines eqd hash idx tag nslots seeds false grow_needed shrink_policy Hidx fuel ops m a m' rs).
Qed.
Print Assumptions C03_sequential.
