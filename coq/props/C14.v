(* C14 -- Concurrent API use is free of data races and publishes values safely.

   The Go memory model is not formalised here; what the model can carry is the
   DISCIPLINE that makes the plain accesses of the code race-free, stated on
   XMachine (mapof.go at the granularity of one atomic / lock operation, replayed
   step by step against the real code by CORR-sched) for every reachable state:

     C14_write_ownership   a step changes the cells of a bucket chain only if
        the stepping thread holds that bucket's lock (and then nobody else does:
        C13_mutual_exclusion), or the chain belongs to the table the resizer has
        allocated and not yet published -- the last table, beyond m.table, which
        no other thread's program counter refers to.
     C14_table_discipline  (XT) every table a thread refers to was published
        (index <= m.table) except the resizer's own new table; the resizer copies
        from the current table.
     C14_readers_only_load (C16_reader_step) the lock-free read path performs
        loads only.
   In the machine every cell a lock-free reader looks at (meta byte, entry
   pointer, next pointer, table pointer, counters, flag) is written by one
   labelled atomic store per step; that the Go code uses sync/atomic for exactly
   these accesses, and plain accesses only under the bucket lock or on the
   unpublished table, is checked on the source by the access inventory
   (harness/inventory), and at run time by the Go race detector (native/race).
   Map variant (map.go, XMachineS): props/C03.v -- C03_write_ownership (a step changes the
   key / value pointers of a bucket or any bit of its words above the lock bit only if the
   stepping thread holds that bucket's lock, or the table is its own unpublished one). *)
From CacheV Require Import Base SpecMap XMachine.
From CacheV.proofs Require Import X_basic X_inv X_c13 X_c16 X_own.
From Coq Require Import NArith.
Local Open Scope nat_scope.

Theorem C14_write_ownership :
  forall (K V : Type) (eqd : forall a b : K, {a = b} + {a <> b}) hash idx tag nslots seeds g sh probe nstripes minlen grow_only,
    xhyps idx nstripes minlen -> forall len0 todo sched t s' ls tab b, 0 < len0 ->
    let s := fst (@xrun K V eqd hash idx tag nslots seeds g sh probe nstripes minlen grow_only (xinit nslots seeds nstripes len0 todo) sched) in
    @xstep K V eqd hash idx tag nslots seeds g sh probe nstripes minlen grow_only s t = Some (s', ls) ->
    tab < length (g_tabs s) ->
    chain_of (@tab_at K V nslots nstripes s' tab) b <> chain_of (@tab_at K V nslots nstripes s tab) b ->
    lock_of (@tab_at K V nslots nstripes s tab) b = Some t
    \/ (g_cur s < tab /\ S tab = length (g_tabs s)
        /\ forall t', t' <> t -> tabs_le (g_cur s) (g_pc s t') /\ newtab (g_pc s t') = None).
Proof. exact @write_ownership_proof. Qed.
Print Assumptions C14_write_ownership.

Theorem C14_table_discipline :
  forall (K V : Type) (eqd : forall a b : K, {a = b} + {a <> b}) hash idx tag nslots seeds g sh probe nstripes minlen grow_only,
    xhyps idx nstripes minlen -> forall len0 todo sched, 0 < len0 ->
    XT (fst (@xrun K V eqd hash idx tag nslots seeds g sh probe nstripes minlen grow_only (xinit nslots seeds nstripes len0 todo) sched)).
Proof. exact @table_discipline_proof. Qed.
Print Assumptions C14_table_discipline.

Theorem C14_readers_only_load :
  forall (K V : Type) (eqd : forall a b : K, {a = b} + {a <> b}) hash idx tag nslots seeds g sh probe nstripes minlen grow_only,
    forall (s : @xstate K V) t p s' ls, reader_pc p = true ->
    @step_pc K V eqd hash idx tag nslots seeds g sh probe nstripes minlen grow_only s t p = Some (s', ls) ->
    shared_eq s s' /\ (forall t', t' <> t -> g_pc s' t' = g_pc s t') /\ g_todo s' = g_todo s
    /\ Forall (read_label t) ls.
Proof. exact @reader_step_proof. Qed.
Print Assumptions C14_readers_only_load.

(* non-vacuity: thread 0 is in the middle of an insert (meta byte stored, entry
   pointer not yet): its next step changes the chain, and it holds the lock *)
Definition ex_run14 : @xstate nat nat :=
  fst (@xrun nat nat Nat.eq_dec (fun k _ => N.of_nat k) (fun h len => N.to_nat h mod len) (fun h => h) 2 (fun _ => 0%N)
             (fun _ _ => false) (fun _ _ => false) (fun _ _ => []) (fun _ => 1) 1 false
             (xinit 2 (fun _ => 0%N) (fun _ => 1) 1 (fun _ => [XCompute 7 (fun _ => Some 1) false false false]))
             [0; 0; 0; 0; 0; 0]).
Example C14_nonvacuous :
  (exists cx nv, g_pc ex_run14 0 = PW_I2 cx 0 0 nv) /\ lock_of (@tab_at nat nat 2 (fun _ => 1) ex_run14 0) 0 = Some 0.
Proof. split; [do 2 eexists; vm_compute; reflexivity | vm_compute; reflexivity]. Qed.
Print Assumptions C14_nonvacuous.

(* ---------------------------------------------------------------------------
   The static tie to the text of the cache layer.  gen/SrcFacts.v is produced on
   every run by a translator (harness/srcfacts/skeleton.go) from xsync_map.go and
   xsync_mapof.go: per public method, how often a syntactic path can perform each
   kind of primitive outside a closure run by the map, and how often such a closure
   can invoke a user function.  proofs/Skel*.v tie the model programs to it in both
   directions; a change of the call structure of a method breaks these statements.
   Each property uses the projection of the budgets it is about (SkelDefs.relax):
   C02 all primitives, C05 map calls and user functions, C06 callbacks, C14 clock
   and settings. *)
From CacheV.proofs Require SkelDefs SkelSet.
From CacheV.gen Require SrcFacts.
From Coq Require String.

(* the clock and the settings: the settings are reached through their atomic.Value only (the translator recognises
   c.defaultExpiration.Load/Store and c.evictedCallback.Load/Store), and the model's ReadNow / ReadDflt / ReadCb /
   WriteDflt / WriteCb match the source's accesses one for one *)
Theorem C14_model_reads_settings_where_source_does :
  forall (K V : Type) (eqd : forall a b : K, {a = b} + {a <> b}) (zero : V) (o : CacheV.Ops.cop K V),
    SkelDefs.is_call o ->
    (SkelDefs.within (SkelDefs.relax SkelDefs.P_set false SrcFacts.budgets_map) (CacheV.Ops.prog_cache eqd zero) o /\
     SkelDefs.within (SkelDefs.relax SkelDefs.P_set false SrcFacts.budgets_mapof) (CacheV.Ops.prog_cacheof eqd zero) o)%type.
Proof.
  intros K V eqd zero o H. split; [exact (SkelSet.cache_within_on eqd zero o H)|exact (SkelSet.cacheof_within_on eqd zero o H)].
Qed.
Print Assumptions C14_model_reads_settings_where_source_does.
Theorem C14_settings_through_atomic_value :
  (SkelDefs.unattained_on SkelDefs.P_set false SrcFacts.budgets_map (CacheV.Ops.prog_cache Z.eq_dec 0%Z) = [] /\
   SkelDefs.unattained_on SkelDefs.P_set false SrcFacts.budgets_mapof (CacheV.Ops.prog_cacheof Z.eq_dec 0%Z) = [])%type.
Proof. exact SkelSet.attained_on. Qed.
Print Assumptions C14_settings_through_atomic_value.
