(* SpecTTLExec.v -- a boolean version of [spec_ok], so that the failing-input
   search can test an observed answer against the specification itself rather
   than against the model.  Definitions only; soundness is in proofs/. *)
From CacheV Require Import Base SpecMap Client Ops SpecTTL.
From CacheV.gen Require Import Params.

Section SpecTTLExec.
  Context {K V : Type}.
  Variable eqd : forall a b : K, {a = b} + {a <> b}.
  Variable veqd : forall a b : V, {a = b} + {a <> b}.
  Variable zero : V.

  Definition cres_eq_dec : forall a b : cres K V, {a = b} + {a <> b}.
  Proof.
    pose proof Z.eq_dec. pose proof Nat.eq_dec. pose proof Bool.bool_dec.
    assert (forall a b : K * V, {a = b} + {a <> b}) by decide equality.
    assert (forall a b : list (K * V), {a = b} + {a <> b}) by (apply list_eq_dec; auto).
    assert (forall a b : option nat, {a = b} + {a <> b}) by decide equality.
    decide equality.
  Defined.

  Definition cres_eqb (a b : cres K V) : bool := if cres_eq_dec a b then true else false.

  Fixpoint nodupb (l : list K) : bool :=
    match l with
    | [] => true
    | k :: t => negb (if in_dec eqd k t then true else false) && nodupb t
    end.

  Definition pair_liveb (s : sstate) (p : K * V) : bool :=
    match vw eqd s (fst p) with
    | Some i => if veqd (iv i) (snd p) then true else false
    | None => false
    end.

  (* f true on all but the last element *)
  Fixpoint go_onb (f : K -> V -> bool) (l : list (K * V)) : bool :=
    match l with
    | [] => true
    | [_] => true
    | (k, v) :: t => f k v && go_onb f t
    end.

  Definition last_falseb (f : K -> V -> bool) (l : list (K * V)) : bool :=
    match rev l with
    | (k, v) :: _ => negb (f k v)
    | [] => false
    end.

  Definition inb (l : list (K * V)) (k : K) (v : V) : bool :=
    existsb (fun p => (if eqd (fst p) k then true else false) && (if veqd (snd p) v then true else false)) l.

  Definition range_okb (s : sstate) (f : K -> V -> bool) (l : list (K * V)) : bool :=
    nodupb (map fst l)
    && forallb (pair_liveb s) l
    && go_onb f l
    && (last_falseb f l
        || (forallb (fun p => f (fst p) (snd p)) l
            && forallb (fun k => match vw eqd s k with
                                 | Some i => inb l k (iv i)
                                 | None => true
                                 end) (keys (st_map s)))).

  Definition det (s : sstate) (o : cop K V) : option (cres K V) :=
    match o with
    | OGet k =>
        Some match vw eqd s k with Some i => CVal (iv i) true | None => CVal zero false end
    | OGetWithExpiration k =>
        Some match vw eqd s k with
             | Some i => CValExp (iv i) (if 0 <? ie i then ie i else 0) true
             | None => CValExp zero 0 false
             end
    | OGetWithTTL k =>
        Some match vw eqd s k with
             | Some i => CValTTL (iv i) (if 0 <? ie i then ie i - st_now s else NoExpiration) true
             | None => CValTTL zero 0 false
             end
    | OGetOrSet k v _ | OGetOrCompute k v _ | OGetAndSet k v _ =>
        Some match vw eqd s k with Some i => CVal (iv i) true | None => CVal v false end
    | OGetAndRefresh k _ | OGetAndDelete k =>
        Some match vw eqd s k with Some i => CVal (iv i) true | None => CVal zero false end
    | OCompute k fn _ =>
        Some match vw eqd s k with
             | Some i => let '(v, del) := fn (iv i) true in
                         if del then CVal (iv i) false else CVal v true
             | None => let '(v, del) := fn zero false in
                       if del then CVal zero false else CVal v true
             end
    | ORange None _ => Some (CList [])
    | OGetDflt => Some (CDur (st_dflt s))
    | OGetCb => Some (CCb (st_cb s))
    | OSet _ _ _ | OSetDefault _ _ | OSetForever _ _ | ODelete _ | ODeleteExpired
    | OClear | OSetDflt _ | OSetCb _ | OAdvance _ => Some CUnit
    | ORange (Some _) _ | OItems _ | OCount => None
    end.

  Definition spec_okb (s : sstate) (o : cop K V) (r : cres K V) : bool :=
    match det s o with
    | Some r' => cres_eqb r r'
    | None =>
        match o, r with
        | ORange (Some f) _, CList l => range_okb s f l
        | OItems _, CList l => range_okb s (fun _ _ => true) l
        | OCount, CNat n =>
            (length (live_keys eqd s) <=? n)%nat && (n <=? length (st_map s))%nat
        | _, _ => false
        end
    end.

End SpecTTLExec.
