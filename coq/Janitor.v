(* Janitor.v -- the lifecycle around newXsyncMap / newXsyncMapOf:

     c := &xsyncMap{..., stop: make(chan struct{})}
     if cfg.CleanupInterval > 0 {
       go func() { ticker := time.NewTicker(cfg.CleanupInterval); defer ticker.Stop()
                   for { select { case <-ticker.C: c.DeleteExpired()
                                  case <-c.stop:   return } } }() }
     cache := &xsyncMapWrapper{c}
     runtime.SetFinalizer(cache, func(m *xsyncMapWrapper) { close(m.stop) })

   as a labelled transition system.  What the runtime contributes (the ticker
   fires, the collector finds the wrapper unreachable and runs the finalizer,
   select eventually takes a ready case) appears as transitions that MAY happen;
   the theorems say what can never happen and what remains possible.
   No proofs here. *)
From CacheV Require Import Base.

Inductive jan := JNone | JRunning | JReturned.

Record life := {
  l_reachable : bool;      (* the wrapper is reachable from the program *)
  l_stop_closed : bool;    (* close(m.stop) has run *)
  l_finalized : bool;      (* the finalizer has run (at most once) *)
  l_jan : jan;             (* the janitor goroutine *)
  l_ticks : nat;           (* DeleteExpired passes it has made *)
}.

Definition born (janitor_started : bool) : life :=
  {| l_reachable := true; l_stop_closed := false; l_finalized := false;
     l_jan := if janitor_started then JRunning else JNone; l_ticks := 0 |}.

Inductive llabel := LDrop | LFinalize | LTick | LObserveStop.

Definition lstep (s : life) (a : llabel) : option life :=
  match a with
  | LDrop =>                                   (* the program drops its last reference *)
      if l_reachable s then
        Some {| l_reachable := false; l_stop_closed := l_stop_closed s; l_finalized := l_finalized s;
                l_jan := l_jan s; l_ticks := l_ticks s |}
      else None
  | LFinalize =>                               (* GC: only an unreachable wrapper, once *)
      if negb (l_reachable s) && negb (l_finalized s) then
        Some {| l_reachable := false; l_stop_closed := true; l_finalized := true;
                l_jan := l_jan s; l_ticks := l_ticks s |}
      else None
  | LTick =>                                   (* select took the ticker case *)
      match l_jan s with
      | JRunning =>
          Some {| l_reachable := l_reachable s; l_stop_closed := l_stop_closed s; l_finalized := l_finalized s;
                  l_jan := JRunning; l_ticks := S (l_ticks s) |}
      | _ => None
      end
  | LObserveStop =>                            (* select took the stop case: return *)
      match l_jan s with
      | JRunning =>
          if l_stop_closed s then
            Some {| l_reachable := l_reachable s; l_stop_closed := true; l_finalized := l_finalized s;
                    l_jan := JReturned; l_ticks := l_ticks s |}
          else None
      | _ => None
      end
  end.

Fixpoint lrun (s : life) (tr : list llabel) : option life :=
  match tr with
  | [] => Some s
  | a :: t => match lstep s a with Some s' => lrun s' t | None => None end
  end.
