(* GENERATED from the source of the repository by harness/srcfacts on every run -- do not edit. *)
From Coq Require Import ZArith List.
Import ListNotations.
Local Open Scope Z_scope.

(* package cache *)
Definition NoExpiration : Z := (-2000000000).
Definition DefaultExpiration : Z := (-1000000000).
Definition DefaultCleanupInterval : Z := 10000000000.
Definition DefaultMinCapacity : Z := 96.

(* package xsync *)
Definition mapGrowHint : Z := 0.
Definition mapShrinkHint : Z := 1.
Definition mapClearHint : Z := 2.
Definition entriesPerMapBucket : Z := 3.
Definition mapShrinkFraction : Z := 128.
Definition mapLoadFactor_num : Z := 3.
Definition mapLoadFactor_den : Z := 4.
Definition defaultMinMapTableLen : Z := 32.
Definition minMapCounterLen : Z := 8.
Definition maxMapCounterLen : Z := 32.
Definition topHashMask : Z := 18446726481523507200.
Definition entriesPerMapOfBucket : Z := 5.
Definition defaultMeta : Z := 9259542123273814144.
Definition metaMask : Z := 1099511627775.
Definition defaultMetaMasked : Z := 551911719040.
Definition emptyMetaSlot : Z := 128.
Definition cacheLineSize : Z := 64.
Definition topHashEntryMasks : list Z := [18446726481523507200; 17592169267200; 16777200].

