(* GENERATED from /repo by harness/srcfacts on every run -- do not edit. *)
From Coq Require Import ZArith.
Open Scope Z_scope.
Definition NoExpiration : Z := -2000000000.
Definition DefaultExpiration : Z := -1000000000.
Definition DefaultCleanupInterval : Z := 10000000000.
Definition DefaultMinCapacity : Z := 96.
