(* GENERATED from the source of the repository by harness/srcfacts on every run -- do not edit. *)
From Coq Require Import String List.
Import ListNotations.
Local Open Scope string_scope.

(* xsync_map.go: func newXsyncMap *)
Definition janitor_guard_map : string := "cfg.CleanupInterval > 0".
Definition janitor_captures_map : list string := ["c"; "cfg"].
Definition janitor_tick_map : string := "c.DeleteExpired()".
Definition finalizer_target_map : string := "cache".
Definition finalizer_target_def_map : string := "&xsyncMapWrapper{c}".
Definition finalizer_body_map : string := "{ close(m.stop) }".

(* xsync_mapof.go: func newXsyncMapOf *)
Definition janitor_guard_mapof : string := "cfg.CleanupInterval > 0".
Definition janitor_captures_mapof : list string := ["c"; "cfg"].
Definition janitor_tick_mapof : string := "c.DeleteExpired()".
Definition finalizer_target_mapof : string := "cache".
Definition finalizer_target_def_mapof : string := "&xsyncMapOfWrapper[K, V]{c}".
Definition finalizer_body_mapof : string := "{ close(m.stop) }".

