(* GENERATED from the source of the repository by harness/srcfacts on every run -- do not edit. *)
From Coq Require Import String List.
Import ListNotations.
Local Open Scope string_scope.

(* xsync_map.go: func newXsyncMap *)
Definition janitor_guard_map : string := "cfg.CleanupInterval > 0".
Definition janitor_captures_map : list string := ["c"; "cfg"].
Definition janitor_tick_map : string := "c.DeleteExpired()".
Definition finalizer_target_map : string := "cache".
Definition finalizer_target_def_map : string := "&xsyncMapWrapper{c}".
Definition finalizer_body_map : string := "{ close(m.stop) }".

(* xsync_mapof.go: func newXsyncMapOf *)
Definition janitor_guard_mapof : string := "cfg.CleanupInterval > 0".
Definition janitor_captures_mapof : list string := ["c"; "cfg"].
Definition janitor_tick_mapof : string := "c.DeleteExpired()".
Definition finalizer_target_mapof : string := "cache".
Definition finalizer_target_def_mapof : string := "&xsyncMapOfWrapper[K, V]{c}".
Definition finalizer_body_mapof : string := "{ close(m.stop) }".

(* ---- call budgets of the cache methods (translator: harness/srcfacts/skeleton.go) ---- *)
Inductive stok := TLoad | TStore | TCompute | TLoadAndDelete | TDelete | TClear | TSize | TSnapshot
  | TNow | TDflt | TWDflt | TCb | TWCb | TFire | TUserFn
  | TLoadOrStore | TLoadAndStore | TLoadOrCompute | TUnknown | TFireLocked.

(* xsync_map.go: call budgets of the methods of xsyncMap (see harness/srcfacts/skeleton.go) *)
Definition budgets_map : list (string * (list (stok * option nat) * nat)) := [
  ("Clear", ([(TClear, Some 1)], 0));
  ("Compute", ([(TCompute, Some 1)], 1));
  ("Count", ([(TSize, Some 1)], 0));
  ("DefaultExpiration", ([(TDflt, Some 1)], 0));
  ("Delete", ([(TCb, Some 1); (TFire, Some 1); (TLoadAndDelete, Some 1); (TNow, Some 1)], 0));
  ("DeleteExpired", ([(TCb, Some 1); (TCompute, None); (TFire, None); (TNow, Some 1); (TSnapshot, Some 1)], 0));
  ("EvictedCallback", ([(TCb, Some 1)], 0));
  ("Get", ([(TCompute, Some 1); (TLoad, Some 1); (TNow, Some 1)], 0));
  ("GetAndDelete", ([(TCb, Some 1); (TFire, Some 1); (TLoadAndDelete, Some 1); (TNow, Some 1)], 0));
  ("GetAndRefresh", ([(TCompute, Some 1)], 0));
  ("GetAndSet", ([(TCompute, Some 1)], 0));
  ("GetOrCompute", ([(TCompute, Some 1)], 1));
  ("GetOrSet", ([(TCompute, Some 1)], 0));
  ("GetWithExpiration", ([(TCompute, Some 1); (TLoad, Some 1); (TNow, Some 1)], 0));
  ("GetWithTTL", ([(TCompute, Some 1); (TLoad, Some 1); (TNow, Some 2)], 0));
  ("Items", ([(TNow, Some 1); (TSnapshot, Some 1); (TSize, Some 1); (TUserFn, None)], 0));
  ("Range", ([(TNow, Some 1); (TSnapshot, Some 1); (TUserFn, None)], 0));
  ("Set", ([(TDflt, Some 1); (TNow, Some 1); (TStore, Some 1)], 0));
  ("SetDefault", ([(TDflt, Some 1); (TNow, Some 1); (TStore, Some 1)], 0));
  ("SetDefaultExpiration", ([(TWDflt, Some 1)], 0));
  ("SetEvictedCallback", ([(TWCb, Some 1)], 0));
  ("SetForever", ([(TDflt, Some 1); (TNow, Some 1); (TStore, Some 1)], 0))
].

(* xsync_mapof.go: call budgets of the methods of xsyncMapOf (see harness/srcfacts/skeleton.go) *)
Definition budgets_mapof : list (string * (list (stok * option nat) * nat)) := [
  ("Clear", ([(TClear, Some 1)], 0));
  ("Compute", ([(TCompute, Some 1)], 1));
  ("Count", ([(TSize, Some 1)], 0));
  ("DefaultExpiration", ([(TDflt, Some 1)], 0));
  ("Delete", ([(TCb, Some 1); (TFire, Some 1); (TLoadAndDelete, Some 1); (TNow, Some 1)], 0));
  ("DeleteExpired", ([(TCb, Some 1); (TCompute, None); (TFire, None); (TNow, Some 1); (TSnapshot, Some 1)], 0));
  ("EvictedCallback", ([(TCb, Some 1)], 0));
  ("Get", ([(TCompute, Some 1); (TLoad, Some 1); (TNow, Some 1)], 0));
  ("GetAndDelete", ([(TCb, Some 1); (TFire, Some 1); (TLoadAndDelete, Some 1); (TNow, Some 1)], 0));
  ("GetAndRefresh", ([(TCompute, Some 1)], 0));
  ("GetAndSet", ([(TCompute, Some 1)], 0));
  ("GetOrCompute", ([(TCompute, Some 1)], 1));
  ("GetOrSet", ([(TCompute, Some 1)], 0));
  ("GetWithExpiration", ([(TCompute, Some 1); (TLoad, Some 1); (TNow, Some 1)], 0));
  ("GetWithTTL", ([(TCompute, Some 1); (TLoad, Some 1); (TNow, Some 2)], 0));
  ("Items", ([(TNow, Some 1); (TSnapshot, Some 1); (TSize, Some 1); (TUserFn, None)], 0));
  ("Range", ([(TNow, Some 1); (TSnapshot, Some 1); (TUserFn, None)], 0));
  ("Set", ([(TDflt, Some 1); (TNow, Some 1); (TStore, Some 1)], 0));
  ("SetDefault", ([(TDflt, Some 1); (TNow, Some 1); (TStore, Some 1)], 0));
  ("SetDefaultExpiration", ([(TWDflt, Some 1)], 0));
  ("SetEvictedCallback", ([(TWCb, Some 1)], 0));
  ("SetForever", ([(TDflt, Some 1); (TNow, Some 1); (TStore, Some 1)], 0))
].

