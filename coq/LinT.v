(* LinT.v -- interval-timestamped linearizability: Lin.v for a clock that
   advances during the run.

   A history is a list of invocations, responses and TICKS (the clock advances
   by dt >= 0).  As in Lin.v one marks, for every completed call (and for any of
   the pending ones), a point between its invocation and its response; the
   marked calls, in the order of their marks, must form a legal run of the
   specification, whose state carries the clock, the ticks of the history
   advancing it.  A call marked at clock c, invoked at clock c_inv and answering
   at clock c_res takes effect atomically at its mark and sees the
   specification state of that instant at clock c -- except that it may have
   used ONE timestamp [tau] of its own interval [c_inv, c_res] instead of c for
   ONE purpose that depends on the call ([stamp_ok] says where in the interval
   tau may lie, [spec s tau o r s'] what it is used for).  The mark carries tau
   and the call's final answer.

   For the TTL cache (second section):
     Set / SetDefault / SetForever   c_inv <= tau <= c   the expiry instant armed is computed from tau
     GetWithTTL                      c <= tau <= c_res   the remaining lifetime reported is ie - tau
     GetAndDelete                    c <= tau <= c_res   "expired" of the REMOVED entry is judged at tau
                                                         (this line is a WEAKENING forced by a
                                                          counterexample, see [tspecT_strict] and
                                                          proofs/LinT_tests.v; without it: tau = c)
     every other call                tau = c             exactly SpecTTL at clock c
   and, for all calls, which entries are visible (= not expired), what is stored
   and what is removed is exactly as SpecTTL says at clock c.
   No proofs here. *)
From CacheV Require Import Base SpecMap Client Ops SpecTTL Lin.
From CacheV.gen Require Import Params.

Section LinT.
  Variables Op Res St : Type.
  Variable clock : St -> Z.                        (* the clock of a specification state *)
  Variable tick : St -> Z -> St.                   (* time passes *)
  (* [stamp_ok o c_inv c tau]: a call o invoked at clock c_inv and marked at clock c may use tau
     (whatever the answer, tau <= c_res is required when the call answers) *)
  Variable stamp_ok : Op -> Z -> Z -> Z -> Prop.
  (* [spec s tau o r s']: in state s (at clock [clock s]) the call o using the timestamp tau may answer r and leave s' *)
  Variable spec : St -> Z -> Op -> Res -> St -> Prop.

  Inductive hevT :=
  | HTInv (t : nat) (o : Op)
  | HTRes (t : nat) (r : Res)
  | HTTick (dt : Z).

  (* an instrumented history: the same, with the marks *)
  Inductive ievT :=
  | ITInv (t : nat) (o : Op)
  | ITLin (t : nat) (o : Op) (tau : Z) (r : Res)   (* thread t's pending call o takes effect here, using tau, and will answer r *)
  | ITRes (t : nat) (r : Res)
  | ITTick (dt : Z).

  Fixpoint eraseT (l : list ievT) : list hevT :=
    match l with
    | [] => []
    | ITInv t o :: r => HTInv t o :: eraseT r
    | ITLin _ _ _ _ :: r => eraseT r
    | ITRes t x :: r => HTRes t x :: eraseT r
    | ITTick dt :: r => HTTick dt :: eraseT r
    end.

  (* per-thread protocol: idle -> invoked o at clock c_inv -> marked (o, r) using tau -> idle (answering r, at a clock >= tau) *)
  Inductive tstatT := TIdleT | TInvokedT (o : Op) (c_inv : Z) | TLinearizedT (o : Op) (r : Res) (tau : Z).

  (* well-formedness of the marks and legality of the run they describe, in one judgement
     (Lin.v's wf_inst and legal; the clock ties them together) *)
  Inductive legalT : St -> (nat -> tstatT) -> list ievT -> Prop :=
  | lt_nil s st : legalT s st []
  | lt_inv s st t o l :
      st t = TIdleT ->
      legalT s (upd st t (TInvokedT o (clock s))) l ->
      legalT s st (ITInv t o :: l)
  | lt_tick s st dt l :
      0 <= dt ->
      legalT (tick s dt) st l ->
      legalT s st (ITTick dt :: l)
  | lt_lin s st t o c_inv tau r s' l :
      st t = TInvokedT o c_inv ->
      stamp_ok o c_inv (clock s) tau ->
      spec s tau o r s' ->
      legalT s' (upd st t (TLinearizedT o r tau)) l ->
      legalT s st (ITLin t o tau r :: l)
  | lt_res s st t o r tau l :
      st t = TLinearizedT o r tau ->
      tau <= clock s ->
      legalT s (upd st t TIdleT) l ->
      legalT s st (ITRes t r :: l).

  Definition linearizableT (s0 : St) (h : list hevT) : Prop :=
    exists i : list ievT, eraseT i = h /\ legalT s0 (fun _ => TIdleT) i.

  (* a history of Lin.v is a history without ticks *)
  Fixpoint embed (h : list (@hev Op Res)) : list hevT :=
    match h with
    | [] => []
    | HInv t o :: r => HTInv t o :: embed r
    | HRes t x :: r => HTRes t x :: embed r
    end.

End LinT.

Arguments HTInv {Op Res}.
Arguments HTRes {Op Res}.
Arguments HTTick {Op Res}.
Arguments ITInv {Op Res}.
Arguments ITLin {Op Res}.
Arguments ITRes {Op Res}.
Arguments ITTick {Op Res}.
Arguments TIdleT {Op Res}.
Arguments TInvokedT {Op Res}.
Arguments TLinearizedT {Op Res}.

(* ------------------------------------------------------------------ *)
(* the TTL cache *)

Section LinTTL.
  Context {K V : Type}.
  Variable eqd : forall a b : K, {a = b} + {a <> b}.
  Variable zero : V.

  Notation cop := (cop K V).
  Notation cres := (cres K V).
  Notation sstate := (@sstate K V).

  (* where in its interval a call's own timestamp may lie *)
  Inductive stamp_kind := SPre | SPost | SExact.

  Definition stamp_in (k : stamp_kind) (c_inv c tau : Z) : Prop :=
    match k with
    | SPre => c_inv <= tau <= c        (* read before the call took effect *)
    | SPost => c <= tau                (* read after it (and before it answers: see lt_res) *)
    | SExact => tau = c
    end.

  Definition kindT (o : cop) : stamp_kind :=
    match o with
    | OSet _ _ _ | OSetDefault _ _ | OSetForever _ _ => SPre
    | OGetWithTTL _ | OGetAndDelete _ => SPost
    | _ => SExact
    end.

  (* as the statement was first written: GetAndDelete exact.  REFUTED (proofs/LinT_tests.v) *)
  Definition kindT_strict (o : cop) : stamp_kind :=
    match o with
    | OSet _ _ _ | OSetDefault _ _ | OSetForever _ _ => SPre
    | OGetWithTTL _ => SPost
    | _ => SExact
    end.

  Definition stampT (o : cop) : Z -> Z -> Z -> Prop := stamp_in (kindT o).
  Definition stampT_strict (o : cop) : Z -> Z -> Z -> Prop := stamp_in (kindT_strict o).

  (* SpecTTL's [arm] with the instant computed from tau instead of st_now s *)
  Definition arm_at (s : sstate) (tau : Z) (v : V) (d : Z) : item V :=
    {| iv := v; ie := spec_expiration (st_dflt s) tau d |}.

  (* what a call using tau may answer and what it leaves, in state s at clock st_now s.
     Visibility ([vw s]), what is stored and what is removed: always at clock st_now s. *)
  Definition tspecT (s : sstate) (tau : Z) (o : cop) (r : cres) (s' : sstate) : Prop :=
    match o with
    | OSet k v d =>
        r = CUnit /\ s' = set_L s (insert eqd k (arm_at s tau v d) (st_map s))
    | OSetDefault k v =>
        r = CUnit /\ s' = set_L s (insert eqd k (arm_at s tau v DefaultExpiration) (st_map s))
    | OSetForever k v =>
        r = CUnit /\ s' = set_L s (insert eqd k (arm_at s tau v NoExpiration) (st_map s))
    | OGetWithTTL k =>
        s' = s /\
        r = match vw eqd s k with
            | Some i => CValTTL (iv i) (if 0 <? ie i then ie i - tau else NoExpiration) true
            | None => CValTTL zero 0 false
            end
    | OGetAndDelete k =>
        (* removes whatever is there; reports it unless it has expired BY tau *)
        s' = spec_next eqd zero s o /\
        r = match view eqd tau (st_map s) k with Some i => CVal (iv i) true | None => CVal zero false end
    | _ => spec_ok eqd zero s o r /\ s' = spec_next eqd zero s o
    end.

  (* as first written: GetAndDelete exactly SpecTTL at the clock of the mark *)
  Definition tspecT_strict (s : sstate) (tau : Z) (o : cop) (r : cres) (s' : sstate) : Prop :=
    match o with
    | OGetAndDelete _ => spec_ok eqd zero s o r /\ s' = spec_next eqd zero s o
    | _ => tspecT s tau o r s'
    end.

  Definition cache_linearizableT : sstate -> list (@hevT cop cres) -> Prop :=
    linearizableT cop cres sstate (@st_now K V) (@advance K V) stampT tspecT.

  Definition cache_linearizableT_strict : sstate -> list (@hevT cop cres) -> Prop :=
    linearizableT cop cres sstate (@st_now K V) (@advance K V) stampT_strict tspecT_strict.

End LinTTL.
