(* XExecS.v -- the executable instance of XMachineS used by the step-by-step
   correspondence for Map (bin/vlib/xcorrs.py): keys are the small integers of
   the scenarios (the driver's strings "" and "k<n>"), values are [option Z]
   (None = a nil interface value, "v":null), the numbers of map.go (Params.v),
   hashes and seeds given by an oracle.
   No proofs here. *)
From CacheV Require Import Base SpecMap XMachineS TabExec Exec XExec.
From CacheV.gen Require Import Params.
From Coq Require Import NArith.
Local Open Scope nat_scope.

(* growThreshold := float64(tableLen) * entriesPerMapBucket * mapLoadFactor; sumSize() > int64(growThreshold) *)
Definition grow_needed_s (len : nat) (sum : Z) : bool :=
  (Z.of_nat len * entriesPerMapBucket * mapLoadFactor_num / mapLoadFactor_den <? sum)%Z.
(* sumSize() <= int64((tableLen * entriesPerMapBucket) / mapShrinkFraction) *)
Definition shrink_policy_s (len : nat) (sum : Z) : bool :=
  (sum <=? Z.of_nat len * entriesPerMapBucket / mapShrinkFraction)%Z.

Definition sval := option Z.
Definition mstate_z := @mstate Z sval.
Definition sop_z := @sop Z sval.

(* newMapTable: the counter length is that of mapof.go (nstripes_x) *)
Definition s_machine_init (seeds : list N) (hint : Z) (todo : nat -> list sop_z) : mstate_z :=
  @sinit Z sval (nslots_of false) (seeds_of seeds) nstripes_x (minlen_of_hint false hint) todo.

Definition s_machine_step (o : oracle) (seeds : list N) (hint : Z) (s : mstate_z) (t : nat)
  : option (mstate_z * list (@slabel Z sval)) :=
  @sstep Z sval zeqd (hash_of o) idx_map tag_map (nslots_of false) (seeds_of seeds)
         grow_needed_s shrink_policy_s nstripes_x (minlen_of_hint false hint) false s t.

(* the user-function family of the scheduler driver (harness/README.md), on values that may be nil *)
Definition sfn_of (f : xfn) : option sval -> option sval :=
  fun o =>
    match f, o with
    | XFSet v, _ => Some (Some v)
    | XFIncr, Some (Some old) => Some (Some (old + 1)%Z)
    | XFIncr, _ => Some (Some 1%Z)
    | XFDel, _ => None
    | XFDelIf v, Some (Some old) => if (old =? v)%Z then None else Some (Some old)
    | XFDelIf v, Some None => Some None
    | XFDelIf v, None => Some (Some v)
    | XFNoopDelAbs, Some old => Some old
    | XFNoopDelAbs, None => None
    end.

Definition s_store k (v : sval) : sop_z := SCompute k (fun _ => Some v) false false false.
Definition s_loadorstore k (v : sval) : sop_z := SCompute k (fun _ => Some v) false true false.
Definition s_loadandstore k (v : sval) : sop_z := SCompute k (fun _ => Some v) false false false.
Definition s_loadorcompute k (v : sval) : sop_z := SCompute k (fun _ => Some v) true true false.
Definition s_compute k f : sop_z := SCompute k (sfn_of f) true false true.
Definition s_loadanddelete k : sop_z := SCompute k (fun _ => None) false false false.

(* Range and its visitors (harness/README.md): all; del = Delete(k); store:<v> = Store(k, v);
   ins:<base> = Store(base + k, visited value) *)
Definition cx_store (k : Z) (v : sval) : @scx Z sval :=
  {| sc_k := k; sc_f := fun _ => Some v; sc_ev := false; sc_lie := false; sc_co := false |}.
Definition cx_delete (k : Z) : @scx Z sval :=
  {| sc_k := k; sc_f := fun _ => None; sc_ev := false; sc_lie := false; sc_co := false |}.
Definition s_range_all : sop_z := SRange (fun _ _ => None).
Definition s_range_del : sop_z := SRange (fun k _ => Some (cx_delete k)).
Definition s_range_store (v : Z) : sop_z := SRange (fun k _ => Some (cx_store k (Some v))).
Definition s_range_ins (base : Z) : sop_z := SRange (fun k v => Some (cx_store (base + k)%Z v)).

Definition s_cur_table (s : mstate_z) : @mtable Z sval := stab_at (nslots_of false) nstripes_x s (h_cur s).
Definition s_word_val (w : bword) : N := word_val w.
