(* CX_trans.v -- Stage A of the composition "cache methods over the concurrent map".

   1. [lin_transfer]: linearizability transfers along a refinement of specifications.
      Level 1 (the machine: operations Op1, answers Res1, states St1) and level 2 (the
      client's view: Op2 / Res2 / St2) are connected by an operation translation
      [f : Op2 -> Op1], an answer translation [g : Op2 -> Res1 -> Res2] (the answer is read
      back in the light of the call that was made) and a state relation [R].  If every
      level-1 transition of a translated call is matched by the level-2 specification
      ([sim]), then a level-2 history that is the eventwise image of a linearizable
      level-1 history ([hrel]) is linearizable; the linearization points are the same.

   2. The instance for MapOf: a cache map call [cmop] (Client.v) becomes an operation of
      XMachine ([translate]: CLoad -> XLoad; CStore, CCompute, CLoadAndDelete, CDelete ->
      XCompute with the function and flags of XExec.v's wrappers; CClear -> XClear), the
      machine's answer is read back as the [imres] the cache program continues with
      ([back]), the abstract map [K -> option item] of X_linpoints is related to the
      association list of SpecMap by [lookup] ([Rst]), and [xspec] on a translated call
      is [map_step] on the call ([trans_spec], [trans_sim]).

      MODELLING DECISION (recorded in NOTES.md): a Go closure passed to Compute reports
      through captured variables ([aux]); XMachine's functions are pure [option V ->
      option V] and its answers carry no [aux].  The closure's effects are a function of
      the one argument it is invoked with under the bucket lock, i.e. of the OLD value.
      [translate] therefore asks XMachine for the old value (flag co = false: XMachine
      uses cx_co only to build the answer) and [back] replays the closure on it to obtain
      [aux] and the answer Compute gives.  CSize / CSnapshot are not translated here
      ([mapcall_ok]): Size and Range of the machine are not linearizable. *)
From CacheV Require Import Base SpecMap Client Lin XMachine.
From CacheV.proofs Require Import X_linpoints.
Local Open Scope nat_scope.

(* ---------------- 1. transfer of linearizability along a refinement ---------------- *)

Section Transfer.
  Variables Op1 Res1 St1 : Type.
  Variable spec1 : St1 -> Op1 -> Res1 -> St1 -> Prop.
  Variables Op2 Res2 St2 : Type.
  Variable spec2 : St2 -> Op2 -> Res2 -> St2 -> Prop.
  Variable f : Op2 -> Op1.
  Variable g : Op2 -> Res1 -> Res2.
  Variable ok2 : Op2 -> Prop.
  Variable R : St1 -> St2 -> Prop.

  Hypothesis sim : forall s1 s2 o r s1', R s1 s2 -> ok2 o -> spec1 s1 (f o) r s1' ->
    exists s2', spec2 s2 o (g o r) s2' /\ R s1' s2'.

  (* h2 is the eventwise image of h1; p = the level-2 call each thread has pending *)
  Inductive hrel : (nat -> option Op2) -> list (hev Op1 Res1) -> list (hev Op2 Res2) -> Prop :=
  | hrel_nil p : hrel p [] []
  | hrel_inv p t o h1 h2 : ok2 o -> hrel (upd p t (Some o)) h1 h2 -> hrel p (HInv t (f o) :: h1) (HInv t o :: h2)
  | hrel_res p t o r h1 h2 : p t = Some o -> hrel (upd p t None) h1 h2 -> hrel p (HRes t r :: h1) (HRes t (g o r) :: h2).

  Lemma wf_inst_ext (Op Res : Type) (i : list (iev Op Res)) : forall st st',
    (forall t, st t = st' t) -> wf_inst Op Res st i -> wf_inst Op Res st' i.
  Proof.
    induction i as [|e l IH]; intros st st' He Hw; [constructor|].
    inversion Hw; subst.
    - constructor; [rewrite <- He; assumption|].
      eapply IH; [|eassumption]. intros t'. unfold upd. destruct (Nat.eq_dec t' t); [reflexivity | apply He].
    - constructor; [rewrite <- He; assumption|].
      eapply IH; [|eassumption]. intros t'. unfold upd. destruct (Nat.eq_dec t' t); [reflexivity | apply He].
    - econstructor; [rewrite <- He; eassumption|].
      eapply IH; [|eassumption]. intros t'. unfold upd. destruct (Nat.eq_dec t' t); [reflexivity | apply He].
  Qed.

  (* the level-2 status of a thread, from its level-1 status and its pending call *)
  Definition st2of (p : nat -> option Op2) (st1 : nat -> tstat Op1 Res1) (t : nat) : tstat Op2 Res2 :=
    match st1 t, p t with
    | TInvoked _, Some o => TInvoked o
    | TLinearized _ r, Some o => TLinearized o (g o r)
    | _, _ => TIdle
    end.

  Definition pinv (p : nat -> option Op2) (st1 : nat -> tstat Op1 Res1) : Prop :=
    forall t, match st1 t with
              | TIdle => True
              | TInvoked o1 | TLinearized o1 _ => exists o, p t = Some o /\ o1 = f o /\ ok2 o
              end.

  Lemma hrel_inv_i p t o1 h1 h2 : hrel p (HInv t o1 :: h1) h2 ->
    exists o h2', o1 = f o /\ ok2 o /\ h2 = HInv t o :: h2' /\ hrel (upd p t (Some o)) h1 h2'.
  Proof. intros H. inversion H; subst. eexists; eexists; repeat split; eauto. Qed.

  Lemma hrel_res_i p t r h1 h2 : hrel p (HRes t r :: h1) h2 ->
    exists o h2', p t = Some o /\ h2 = HRes t (g o r) :: h2' /\ hrel (upd p t None) h1 h2'.
  Proof. intros H. inversion H; subst. eexists; eexists; repeat split; eauto. Qed.

  Lemma wf_inv_i (Op Res : Type) st t o (l : list (iev Op Res)) : wf_inst Op Res st (IInv t o :: l) ->
    st t = TIdle /\ wf_inst Op Res (upd st t (TInvoked o)) l.
  Proof. intros H. inversion H; subst. split; assumption. Qed.

  Lemma wf_lin_i (Op Res : Type) st t o r (l : list (iev Op Res)) : wf_inst Op Res st (ILin t o r :: l) ->
    st t = TInvoked o /\ wf_inst Op Res (upd st t (TLinearized o r)) l.
  Proof. intros H. inversion H; subst. split; assumption. Qed.

  Lemma wf_res_i (Op Res : Type) st t r (l : list (iev Op Res)) : wf_inst Op Res st (IRes t r :: l) ->
    exists o, st t = TLinearized o r /\ wf_inst Op Res (upd st t TIdle) l.
  Proof. intros H. inversion H; subst. eexists. split; eassumption. Qed.

  Lemma legal_inv_i (Op Res St : Type) spec s t o (l : list (iev Op Res)) :
    legal Op Res St spec s (IInv t o :: l) -> legal Op Res St spec s l.
  Proof. intros H. inversion H; subst. assumption. Qed.

  Lemma legal_res_i (Op Res St : Type) spec s t r (l : list (iev Op Res)) :
    legal Op Res St spec s (IRes t r :: l) -> legal Op Res St spec s l.
  Proof. intros H. inversion H; subst. assumption. Qed.

  Lemma legal_lin_i (Op Res St : Type) spec s t o r (l : list (iev Op Res)) :
    legal Op Res St spec s (ILin t o r :: l) -> exists s', spec s o r s' /\ legal Op Res St spec s' l.
  Proof. intros H. inversion H; subst. eexists. split; eassumption. Qed.

  Lemma transfer_inst : forall (i1 : list (iev Op1 Res1)) p st1 s1 h2 s2,
    wf_inst Op1 Res1 st1 i1 -> legal Op1 Res1 St1 spec1 s1 i1 -> hrel p (erase Op1 Res1 i1) h2 ->
    pinv p st1 -> R s1 s2 ->
    exists i2, erase Op2 Res2 i2 = h2 /\ wf_inst Op2 Res2 (st2of p st1) i2 /\ legal Op2 Res2 St2 spec2 s2 i2.
  Proof.
    induction i1 as [|e l IH]; intros p st1 s1 h2 s2 Hw Hl Hh Hp HR.
    - cbn in Hh. inversion Hh; subst. exists []. split; [reflexivity|]. split; constructor.
    - destruct e as [t o1|t o1 r|t r]; cbn [erase] in Hh.
      + (* invocation *)
        apply hrel_inv_i in Hh. destruct Hh as [o [h2' [Eo [Hok [Eh Hh]]]]]. subst o1 h2.
        apply wf_inv_i in Hw. destruct Hw as [Hst Hw]. apply legal_inv_i in Hl.
        destruct (IH (upd p t (Some o)) (upd st1 t (TInvoked (f o))) s1 h2' s2) as [i2 [E [W L]]]; try assumption.
        { intros t'. unfold upd. destruct (Nat.eq_dec t' t) as [->|Hn].
          - exists o. auto.
          - apply Hp. }
        exists (IInv t o :: i2). split; [cbn; rewrite E; reflexivity|]. split.
        * constructor.
          -- unfold st2of. rewrite Hst. reflexivity.
          -- eapply wf_inst_ext; [|exact W]. intros t'. unfold st2of, upd.
             destruct (Nat.eq_dec t' t); reflexivity.
        * constructor. exact L.
      + (* mark *)
        apply wf_lin_i in Hw. destruct Hw as [Hst Hw]. apply legal_lin_i in Hl. destruct Hl as [s' [Hsp Hl]].
        pose proof (Hp t) as Hpt. rewrite Hst in Hpt. destruct Hpt as [o [Ep [Eo Hok]]]. subst o1.
        destruct (sim s1 s2 o r s' HR Hok Hsp) as [s2' [Hs2 HR']].
        destruct (IH p (upd st1 t (TLinearized (f o) r)) s' h2 s2') as [i2 [E [W L]]]; try assumption.
        { intros t'. unfold upd. destruct (Nat.eq_dec t' t) as [->|Hn].
          - exists o. auto.
          - apply Hp. }
        exists (ILin t o (g o r) :: i2). split; [cbn; exact E|]. split.
        * constructor.
          -- unfold st2of. rewrite Hst, Ep. reflexivity.
          -- eapply wf_inst_ext; [|exact W]. intros t'. unfold st2of, upd.
             destruct (Nat.eq_dec t' t) as [->|Hn]; [rewrite Ep; reflexivity | reflexivity].
        * econstructor; eassumption.
      + (* response *)
        apply hrel_res_i in Hh. destruct Hh as [o [h2' [Ep [Eh Hh]]]]. subst h2.
        apply wf_res_i in Hw. destruct Hw as [o1 [Hst Hw]]. apply legal_res_i in Hl.
        destruct (IH (upd p t None) (upd st1 t TIdle) s1 h2' s2) as [i2 [E [W L]]]; try assumption.
        { intros t'. unfold upd. destruct (Nat.eq_dec t' t) as [->|Hn]; [exact I | apply Hp]. }
        exists (IRes t (g o r) :: i2). split; [cbn; rewrite E; reflexivity|]. split.
        * econstructor.
          -- unfold st2of. rewrite Hst, Ep. reflexivity.
          -- eapply wf_inst_ext; [|exact W]. intros t'. unfold st2of, upd.
             destruct (Nat.eq_dec t' t); reflexivity.
        * constructor. exact L.
  Qed.

  Theorem lin_transfer s1 s2 h1 h2 :
    R s1 s2 -> hrel (fun _ => None) h1 h2 ->
    linearizable Op1 Res1 St1 spec1 s1 h1 -> linearizable Op2 Res2 St2 spec2 s2 h2.
  Proof.
    intros HR Hh [i1 [E [W L]]]. subst h1.
    destruct (transfer_inst i1 (fun _ => None) (fun _ => TIdle) s1 h2 s2 W L Hh) as [i2 [E2 [W2 L2]]].
    - intros t. exact I.
    - exact HR.
    - exists i2. split; [exact E2|]. split; [|exact L2].
      eapply wf_inst_ext; [|exact W2]. intros t. reflexivity.
  Qed.

End Transfer.

Arguments hrel {Op1 Res1 Op2 Res2}.
Arguments hrel_nil {Op1 Res1 Op2 Res2}.
Arguments hrel_inv {Op1 Res1 Op2 Res2}.
Arguments hrel_res {Op1 Res1 Op2 Res2}.

(* ---------------- 2. cache map calls as operations of XMachine (MapOf) ---------------- *)

Section Trans.
  Context {K V : Type}.
  Variable eqd : forall a b : K, {a = b} + {a <> b}.
  Variable e : env.          (* the clock and default expiration the closures read: constant during a phase *)

  Notation item := (item V).
  Notation cmop := (cmop K V).
  Notation imres := (imres K V).
  Notation xop := (@xop K item).
  Notation xres := (@xres K item).

  (* the calls a cache method may make concurrently: everything but Size and Range *)
  Definition mapcall_ok (o : cmop) : Prop :=
    match o with CSize | CSnapshot => False | _ => True end.

  (* the pure function XMachine is given for a closure: None = delete *)
  Definition cfun (c : closure V) : option item -> option item :=
    fun old => let '(nv, del, _) := c e old in if del then None else Some nv.

  Definition translate (o : cmop) : xop :=
    match o with
    | CLoad k => XLoad k
    | CStore k i => XCompute k (fun _ => Some i) false false false        (* XExec.x_store *)
    | CCompute k c => XCompute k (cfun c) true false false                  (* x_compute, asking for the old value *)
    | CLoadAndDelete k => XCompute k (fun _ => None) false false false     (* x_loadanddelete *)
    | CDelete k => XCompute k (fun _ => None) false false false            (* x_delete *)
    | CClear => XClear
    | CSize => XSize
    | CSnapshot => XRange
    end.

  (* the old value, from the answer of a Compute that was asked for it *)
  Definition old_of (v : option item) (ok : bool) : option item := if ok then v else None.

  (* what Compute answers and what its closure assigned, given the old value *)
  Definition compute_res (c : closure V) (old : option item) : imres :=
    let '(nv, del, a) := c e old in
    match old, del with
    | Some o, true => RVal (Some o) false (Some a)
    | None, true => RVal None false (Some a)
    | _, false => RVal (Some nv) true (Some a)
    end.

  Definition back (o : cmop) (r : xres) : imres :=
    match o, r with
    | CLoad _, XRVal v ok => RVal v ok None
    | CCompute _ c, XRVal v ok => compute_res c (old_of v ok)
    | CLoadAndDelete _, XRVal v ok => RVal v ok None
    | (CStore _ _ | CDelete _ | CClear), _ => RUnit
    | _, _ => RUnit
    end.

  Lemma translate_okop o : mapcall_ok o -> okop (translate o).
  Proof. destruct o; cbn; auto. Qed.

  (* the abstract map of X_linpoints and the association list of SpecMap *)
  Definition Rst (mx : amap K item) (m : Base.amap K item) : Prop := forall k, mx k = lookup eqd k m.

  Lemma Rst_empty : Rst aempty [].
  Proof. intros k. reflexivity. Qed.

  Lemma Rst_insert mx m k v : Rst mx m -> Rst (aset eqd mx k (Some v)) (insert eqd k v m).
  Proof. intros H k'. unfold aset. rewrite lookup_insert. destruct (eqd k' k); [reflexivity | apply H]. Qed.

  Lemma Rst_remove mx m k : Rst mx m -> Rst (aset eqd mx k None) (remove eqd k m).
  Proof. intros H k'. unfold aset. rewrite lookup_remove. destruct (eqd k' k); [reflexivity | apply H]. Qed.

  (* the specification of the translated call is map_step of the call *)
  Theorem trans_spec mx m o : Rst mx m -> mapcall_ok o ->
    Rst (spec_next eqd mx (translate o)) (fst (map_step eqd m (to_mop e o)))
    /\ back o (spec_res mx (translate o)) = snd (map_step eqd m (to_mop e o)).
  Proof.
    intros HR Hok. destruct o as [k|k i|k c|k|k| | |]; cbn in Hok; try contradiction;
      cbn [translate to_mop map_step spec_next spec_res back].
    - (* Load *)
      rewrite (HR k). destruct (lookup eqd k m); cbn; split; auto.
    - (* Store *)
      rewrite (HR k). destruct (lookup eqd k m); cbn; split; try reflexivity; apply Rst_insert; exact HR.
    - (* Compute *)
      rewrite (HR k). unfold cfun, compute_res, old_of.
      destruct (lookup eqd k m) as [old|] eqn:El.
      + destruct (c e (Some old)) as [[nv del] a] eqn:Ec. destruct del; cbn.
        * rewrite Ec. split; [apply Rst_remove; exact HR | reflexivity].
        * rewrite Ec. split; [apply Rst_insert; exact HR | reflexivity].
      + destruct (c e None) as [[nv del] a] eqn:Ec. destruct del; cbn.
        * rewrite Ec. split; [exact HR | reflexivity].
        * rewrite Ec. split; [apply Rst_insert; exact HR | reflexivity].
    - (* LoadAndDelete *)
      rewrite (HR k). destruct (lookup eqd k m) eqn:El; cbn; split; try reflexivity; [apply Rst_remove; exact HR | exact HR].
    - (* Delete *)
      rewrite (HR k). destruct (lookup eqd k m) eqn:El; cbn; split; try reflexivity; [apply Rst_remove; exact HR |].
      rewrite (remove_absent eqd k m El). exact HR.
    - (* Clear *)
      split; [apply Rst_empty | reflexivity].
  Qed.

  (* the map calls of the cache as a sequential specification on the association list:
     exactly the atomic step of Conc.v *)
  Definition cmspec (m : Base.amap K item) (o : cmop) (r : imres) (m' : Base.amap K item) : Prop :=
    o <> CSnapshot /\ map_step eqd m (to_mop e o) = (m', r).

  Theorem trans_sim mx m o r mx' : Rst mx m -> mapcall_ok o -> xspec eqd mx (translate o) r mx' ->
    exists m', cmspec m o (back o r) m' /\ Rst mx' m'.
  Proof.
    intros HR Hok [_ [Er Em]]. subst r mx'.
    destruct (trans_spec mx m o HR Hok) as [A B].
    exists (fst (map_step eqd m (to_mop e o))). split; [|exact A]. split.
    - destruct o; cbn in Hok; try contradiction; discriminate.
    - rewrite B. destruct (map_step eqd m (to_mop e o)); reflexivity.
  Qed.

  (* a history of cache map calls that is the image of a linearizable history of XMachine
     operations is linearizable with respect to the atomic map of Conc.v *)
  Theorem mapof_lin_transfer hx hm :
    hrel translate back mapcall_ok (fun _ => None) hx hm ->
    linearizable xop xres (amap K item) (xspec eqd) aempty hx ->
    linearizable cmop imres (Base.amap K item) cmspec [] hm.
  Proof.
    intros Hh Hl.
    eapply (lin_transfer xop xres (amap K item) (xspec eqd) cmop imres (Base.amap K item) cmspec
              translate back mapcall_ok Rst); [|apply Rst_empty|exact Hh|exact Hl].
    intros s1 s2 o r s1' HR Hok Hs. apply (trans_sim s1 s2 o r s1' HR Hok Hs).
  Qed.

End Trans.

Print Assumptions mapof_lin_transfer.
Print Assumptions trans_spec.
