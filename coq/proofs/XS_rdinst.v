(* XS_rdinst.v -- the executable instance of XMachineS (XExecS) has the solo-Load
   theorem of XS_read.v (oracle hashes being 64-bit values); non-vacuity. *)
From CacheV Require Import Base SpecMap XMachineS TabExec Exec XExec XExecS.
From CacheV.gen Require Import Params.
From CacheV.proofs Require Import X_maps X_inst XS_lock XS_inv XS_own XS_count XS_inst XS_cells XS_vis XS_abs XS_cinst XS_read.
From Coq Require Import NArith Lia.

Lemma s_instance_rdhyps o hint : oracle64 o -> rdhyps (hash_of o) idx_map tag_map (nslots_of false) (minlen_of_hint false hint).
Proof.
  intros Ho. destruct (s_instance_hyps_cells o hint Ho) as [[H1 [H2 H3]] [H4 H5]].
  split; [split; assumption|]. split; [exact H5|]. split; assumption.
Qed.

Notation s_srun' o seeds hint :=
  (srun zeqd (hash_of o) idx_map tag_map (nslots_of false) (seeds_of seeds) grow_needed_s shrink_policy_s
        nstripes_x (minlen_of_hint false hint) false).

(* an idle thread of the extracted Map machine whose next call is Load k, run alone from any reachable state *)
Theorem s_machine_call_load (o : oracle) (seeds : list N) (hint : Z) (todo : nat -> list sop_z) (sched : list nat) t k rest : oracle64 o ->
  let s := fst (s_srun' o seeds hint (s_machine_init seeds hint todo) sched) in
  h_pc s t = QIdle -> h_todo s t = SLoad k :: rest ->
  exists m r, (m <= rd_bound (hash_of o) idx_map (nslots_of false) nstripes_x s (QL_Table k SLPlain))%nat
    /\ h_pc (fst (s_srun' o seeds hint s (repeat t m))) t = QIdle
    /\ In (SRes t (sres_of r)) (snd (s_srun' o seeds hint s (repeat t m)))
    /\ (forall v, r = Some v <-> sabs (hash_of o) idx_map tag_map (nslots_of false) nstripes_x s k v)
    /\ sshared_eq s (fst (s_srun' o seeds hint s (repeat t m)))
    /\ (forall t', t' <> t -> h_pc (fst (s_srun' o seeds hint s (repeat t m))) t' = h_pc s t').
Proof.
  intros Ho. unfold s_machine_init.
  apply (s_call_load_visible_proof zeqd (hash_of o) idx_map tag_map (nslots_of false) (seeds_of seeds) grow_needed_s shrink_policy_s nstripes_x
           (minlen_of_hint false hint) false (s_instance_rdhyps o hint Ho)).
  apply minlen_of_hint_pos.
Qed.

(* ---------------- non-vacuity ---------------- *)
(* thread 0 has stored (7, 1) and returned; thread 1 has started, is idle, and its next call is Load 7.
   Run alone it returns (Some 1, true) with its 5th step (invocation + LoadPointer m.table, LoadUint64, value, key, value again),
   within the bound 1 + (3*3+2) * 1 = 12. *)
Definition rd_ex : @mstate nat nat := ex_sched (repeat 0 20 ++ [1])%nat.

Example read_nonvacuous :
  h_pc rd_ex 1%nat = QIdle /\ h_todo rd_ex 1%nat = [SLoad 7%nat]
  /\ rd_bound (fun k _ => N.of_nat k) (fun h len => Nat.modulo (N.to_nat h) len) 3%nat (fun _ => 1%nat) rd_ex (QL_Table 7%nat SLPlain) = 12%nat
  /\ last (snd (@srun nat nat Nat.eq_dec (fun k _ => N.of_nat k) (fun h len => Nat.modulo (N.to_nat h) len) (fun h => h) 3%nat (fun _ => 0%N)
                     (fun _ _ => false) (fun _ _ => false) (fun _ => 1%nat) 1%nat false rd_ex (repeat 1 5)%nat)) (SStep 0%nat SKStart)
     = SRes 1%nat (SRVal (Some 1%nat) true).
Proof. repeat split; vm_compute; reflexivity. Qed.
