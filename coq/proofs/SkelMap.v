(* SkelMap.v -- the map calls and user-function invocations of the cache methods (C05, C02): projection P_map of the budgets *)
From CacheV Require Import Base SpecMap Client CacheModel CacheOfModel Ops.
From CacheV.gen Require Import Params SrcFacts.
From CacheV.proofs Require Export SkelDefs.
From CacheV.proofs Require Import SkelTac.
From Coq Require Import String ZArith List Lia Bool.
Import ListNotations.
Local Open Scope nat_scope.

Section Within.
  Context {K V : Type}.
  Variable eqd : forall a b : K, {a = b} + {a <> b}.
  Variable zero : V.

  Theorem cache_within_on (o : cop K V) :
    is_call o -> within (relax P_map true budgets_map) (prog_cache eqd zero) o.
  Proof. solve_within_cache. Qed.

  Theorem cacheof_within_on (o : cop K V) :
    is_call o -> within (relax P_map true budgets_mapof) (prog_cacheof eqd zero) o.
  Proof. solve_within_cacheof. Qed.
End Within.

Theorem attained_on :
  unattained_on P_map true budgets_map (prog_cache Z.eq_dec 0%Z) = [] /\
  unattained_on P_map true budgets_mapof (prog_cacheof Z.eq_dec 0%Z) = [].
Proof. split; vm_compute; reflexivity. Qed.

(* C02's mechanism: each read-modify-write method is ONE Compute on the map and nothing else outside it *)
Definition rmw_methods : list string := ["GetOrSet"; "GetAndSet"; "GetAndRefresh"; "GetOrCompute"; "Compute"]%string.

Definition single_compute (tbl : list (string * (budget * nat))) : bool :=
  forallb (fun m => match lookup_s m tbl with
                    | Some ([(TCompute, Some 1)], _) => true
                    | _ => false
                    end) rmw_methods.

Theorem rmw_single_compute : single_compute budgets_map = true /\ single_compute budgets_mapof = true.
Proof. split; vm_compute; reflexivity. Qed.

(* C05: no closure of the source can invoke a user function twice, and only GetOrCompute / Compute have one *)
Definition fn_budget_ok (tbl : list (string * (budget * nat))) : bool :=
  forallb (fun e => let '(n, (_, cf)) := e in
                    if String.eqb n "GetOrCompute" || String.eqb n "Compute" then Nat.eqb cf 1 else Nat.eqb cf 0) tbl.

Theorem fn_once_per_closure : fn_budget_ok budgets_map = true /\ fn_budget_ok budgets_mapof = true.
Proof. split; vm_compute; reflexivity. Qed.


(* the translator met nothing it could not account for: no unknown map method, no call back into the map from a closure,
   no goroutine started by a method, no unsupported syntactic form *)
Definition no_unknown (tbl : list (string * (budget * nat))) : bool :=
  forallb (fun e => forallb (fun tn => negb (stok_beq (fst tn) TUnknown)) (fst (snd e))) tbl.

Theorem source_fully_translated : no_unknown budgets_map = true /\ no_unknown budgets_mapof = true.
Proof. split; vm_compute; reflexivity. Qed.
