(* XS_fn.v -- the user function of Compute / LoadOrCompute on XMachineS (Map, map.go),
   every schedule (C05): between the invocation of a call and its return the function is
   evaluated AT MOST ONCE -- whatever retries the call goes through (spinning on the
   bucket lock, a resize in progress, the table replaced meanwhile, chain full -> grow ->
   retry, waiting for another thread's resize) and whatever the other threads do.
   The function is evaluated (label [SFn]) in the step that decides the call: the
   LoadUint64 of the last scanned bucket (QW_Scan) or the last stripe load of sumSize()
   (QW_Sum, chain full and no grow), under the bucket lock.  From that step on the call
   only stores, unlocks, adds to the counter, possibly runs a shrink, and returns.

   What "a call" is.  A Range visitor may call the map (labels SSubInv .. SSubRes, the
   Range frame [h_frame]); such a nested call is a call of its own.  The counter is a
   two-level stack (saved, current):
       SInv t _      (0, 0)               a top-level call starts
       SSubInv t _   (current, 0)         the visitor's call starts: the Range's count is saved
       SSubRes t _   (0, saved)           it returns: the Range's count is restored
       SFn t _ _     (saved, current + 1)
   PROVED for every reachable state: saved = 0, current <= 1; current = 0 as long as a
   decision step of the running call is still reachable ([cdone] false) and at every
   program counter of Range itself ([crange]): Range never evaluates a user function, so
   what is saved at SSubInv and restored at SSubRes is 0.  And for EVERY PREFIX of the
   trace (also inside a scheduling step, which may emit SSubRes, visits and the next
   SSubInv together) current <= 1.
   Needs only the resize-protocol invariant SI of XS_inv.v (no hypothesis on the
   parameters). *)
From CacheV Require Import Base SpecMap XMachineS.
From CacheV.proofs Require Import X_maps XS_inv.
From Coq Require Import NArith Lia.
Local Open Scope nat_scope.

Section SFnSec.
  Context {K V : Type}.
  Variable eqd : forall a b : K, {a = b} + {a <> b}.
  Variable hash : K -> N -> N.
  Variable idx : N -> nat -> nat.
  Variable tophash : N -> N.
  Variable nslots : nat.
  Variable seeds : nat -> N.
  Variable grow_needed : nat -> Z -> bool.
  Variable shrink_policy : nat -> Z -> bool.
  Variable nstripes : nat -> nat.
  Variable minlen : nat.
  Variable grow_only : bool.

  Notation mstate := (@mstate K V).
  Notation spc := (@spc K V).
  Notation slabel := (@slabel K V).
  Notation sstep_pc := (@sstep_pc K V eqd hash idx tophash nslots seeds grow_needed shrink_policy nstripes minlen grow_only).
  Notation sstep := (@sstep K V eqd hash idx tophash nslots seeds grow_needed shrink_policy nstripes minlen grow_only).
  Notation srun := (@srun K V eqd hash idx tophash nslots seeds grow_needed shrink_policy nstripes minlen grow_only).

  (* (saved, current): evaluations of the user function by thread t in its running call *)
  Fixpoint fnc (t : nat) (a : nat * nat) (ls : list slabel) : nat * nat :=
    match ls with
    | [] => a
    | SInv u _ :: r => if Nat.eq_dec u t then fnc t (0, 0) r else fnc t a r
    | SSubInv u _ :: r => if Nat.eq_dec u t then fnc t (snd a, 0) r else fnc t a r
    | SSubRes u _ :: r => if Nat.eq_dec u t then fnc t (0, fst a) r else fnc t a r
    | SFn u _ _ :: r => if Nat.eq_dec u t then fnc t (fst a, S (snd a)) r else fnc t a r
    | _ :: r => fnc t a r
    end.

  Lemma fnc_app t ls1 : forall a ls2, fnc t a (ls1 ++ ls2) = fnc t (fnc t a ls1) ls2.
  Proof.
    induction ls1 as [|l r IH]; intros a ls2; [reflexivity|].
    destruct l; cbn [app fnc]; try apply IH; destruct (Nat.eq_dec _ t); apply IH.
  Qed.

  (* the label is emitted by thread t *)
  Definition lby (t : nat) (l : slabel) : Prop :=
    match l with
    | SInv u _ | SRes u _ | SStep u _ | SFn u _ _ | SVisit u _ _ | SSubInv u _ | SSubRes u _ => u = t
    end.

  Definition nofn_l (l : slabel) : Prop := match l with SFn _ _ _ => False | _ => True end.
  Definition nofn (ls : list slabel) : Prop := Forall nofn_l ls.

  Lemma fnc_other t u ls : u <> t -> Forall (lby t) ls -> forall a, fnc u a ls = a.
  Proof.
    intros Hne H. induction H as [|l r Hl _ IH]; intros a; [reflexivity|].
    destruct l; cbn [fnc lby] in *; try apply IH; (destruct (Nat.eq_dec _ u) as [E|_]; [exfalso; apply Hne; congruence | apply IH]).
  Qed.

  (* without an evaluation neither component grows beyond the larger of the two *)
  Lemma fnc_nofn_max t ls : nofn ls -> forall a m, fst a <= m -> snd a <= m -> fst (fnc t a ls) <= m /\ snd (fnc t a ls) <= m.
  Proof.
    intros H. induction H as [|l r Hl _ IH]; intros a m H1 H2; [cbn; auto|].
    destruct l; cbn [fnc nofn_l] in *; try (apply IH; assumption); try contradiction;
      (destruct (Nat.eq_dec _ t); [apply IH; cbn [fst snd]; lia | apply IH; assumption]).
  Qed.

  (* ---------------- program counters ---------------- *)

  Definition kdone (kt : @scont K V) : bool := match kt with SKReturn _ => true | SKRetry _ => false end.
  Definition ldone (lc : @slcont K V) : bool := match lc with SLPlain => true | SLFast _ => false end.
  Definition lkdone (lk : @lockk K V) : bool :=
    match lk with LKCompute _ => false | LKCopy _ kt _ => kdone kt | LKRange _ => true end.

  (* no decision step of the running call is reachable from p any more *)
  Fixpoint cdone (p : spc) : bool :=
    match p with
    | QW_Table _ | QW_ChkRes _ _ | QW_ChkTab _ _ | QW_Scan _ _ _ _ _ | QW_Sum _ _ _ _ => false
    | QK_Load _ _ lk | QK_Spin _ _ lk | QK_CAS _ _ _ lk | QK_Yield _ _ lk => lkdone lk
    | QU_Load _ _ _ a | QU_Store _ _ _ _ a | QA_Add _ _ _ a => cdone a
    | QL_Table _ lc | QL_Top _ lc _ _ _ | QL_Val _ lc _ _ _ _ | QL_Key _ lc _ _ _ _ _ | QL_Val2 _ lc _ _ _ _ _ _
    | QL_Next _ lc _ _ _ => ldone lc
    | QR_FastSum _ kt _ _ | QR_CAS _ kt | QR_Table _ kt | QR_ShSum kt _ _ _ | QR_Stat _ kt _ | QR_Publish kt _
    | QR_FinLock kt | QR_FinStore kt | QR_FinBcast kt | QR_FinUnlock kt => kdone kt
    | QT_Lock _ kt | QT_Load _ kt | QT_Wait _ kt | QT_Waiting _ kt | QT_Relock _ kt | QT_Unlock _ kt => kdone kt
    | _ => true
    end.

  Definition lkrange (lk : @lockk K V) : bool := match lk with LKRange _ => true | _ => false end.

  (* a program counter of Range itself (between two visits, not inside a visitor's call) *)
  Definition is_some {X} (o : option X) : bool := match o with Some _ => true | None => false end.
  Fixpoint crange (p : spc) : bool :=
    match p with
    | QG_Table _ => true
    | QK_Load _ _ lk | QK_Spin _ _ lk | QK_CAS _ _ _ lk | QK_Yield _ _ lk => lkrange lk
    | QU_Load _ _ rg a | QU_Store _ _ _ rg a => is_some rg || crange a
    | QA_Add _ _ _ a => crange a
    | _ => false
    end.

  (* the count may be 1 here *)
  Definition cnz (p : spc) : bool := cdone p && negb (crange p).

  Lemma cnz_false (p : spc) : cnz p = false <-> cdone p = false \/ crange p = true.
  Proof. unfold cnz. destruct (cdone p), (crange p); cbn; split; auto; intros [H|H]; discriminate. Qed.

  Lemma cnz_wake (p : spc) : cnz (swake p) = cnz p.
  Proof. destruct p; reflexivity. Qed.
  Lemma cdone_cont kt : cdone (@srun_cont K V kt) = kdone kt.
  Proof. destruct kt; reflexivity. Qed.
  Lemma cnz_cont kt : cnz (@srun_cont K V kt) = kdone kt.
  Proof. destruct kt; reflexivity. Qed.
  Lemma start_cx_cdone (cx : @scx K V) : cdone (sstart_cx cx) = false.
  Proof. unfold sstart_cx. destruct (sc_lie cx); reflexivity. Qed.

  Lemma after_lock_cnz (s : mstate) t tab b v lk :
    cnz (QK_CAS tab b v lk) = true -> cnz (snd (after_lock hash idx tophash nslots nstripes s t tab b lk)) = true.
  Proof.
    unfold after_lock. destruct lk; cbv zeta; try (cbn; congruence).
    match goal with |- context [scopy_chain ?a ?b ?c ?d ?e ?f] => destruct (scopy_chain a b c d e f) as [nt cp] end.
    match goal with |- context [Nat.ltb ?x ?y] => destruct (Nat.ltb x y) end; cbn; auto.
  Qed.

  (* ---------------- the visits and the return ---------------- *)

  Lemma svisits_fn (S0 : mstate) t rest vf after : forall ls0,
    exists vs, snd (svisits S0 t rest vf after ls0) = ls0 ++ vs /\ Forall (lby t) vs /\ nofn vs
               /\ fnc t (0, 0) vs = (0, 0).
  Proof.
    induction rest as [|[k v] r IH]; intros ls0; cbn [svisits].
    - destruct after; cbn [snd]; try (exists []; rewrite app_nil_r; repeat split; constructor).
      exists [SRes t r]. repeat split; repeat constructor.
    - destruct (vf k v) as [cx|].
      + cbn [snd]. exists [SVisit t k v; SSubInv t (sc_k cx)]. split; [reflexivity|]. split; [repeat constructor|]. split; [repeat constructor|].
        cbn [fnc]. destruct (Nat.eq_dec t t) as [_|Hc]; [reflexivity | exfalso; apply Hc; reflexivity].
      + destruct (IH (ls0 ++ [SVisit t k v])) as [vs [E [A [B C]]]]. exists (SVisit t k v :: vs).
        split; [rewrite E, <- app_assoc; reflexivity|]. split; [constructor; [reflexivity | exact A]|].
        split; [constructor; [exact I | exact B]|]. cbn [fnc]. exact C.
  Qed.

  Definition is_ret (p : spc) : bool := match p with QRet _ => true | _ => false end.

  (* [sgoto]: either the count of t is unchanged and the program counter is the target (QIdle for a
     return to the caller), or the call was a visitor's and the count is that of the Range again: 0 *)
  Lemma sgoto_fn (S0 : mstate) t q ls0 :
    exists vs, snd (sgoto S0 t q ls0) = ls0 ++ vs /\ Forall (lby t) vs /\ nofn vs
      /\ ((vs = [] /\ h_pc (fst (sgoto S0 t q ls0)) t = q /\ is_ret q = false)
          \/ ((forall a, fnc t a vs = a) /\ h_pc (fst (sgoto S0 t q ls0)) t = QIdle /\ is_ret q = true)
          \/ (forall a, fst a = 0 -> fnc t a vs = (0, 0))).
  Proof.
    destruct q; cbn [sgoto fst snd sset_pc h_pc is_ret];
      try (exists []; rewrite app_nil_r; split; [reflexivity|]; split; [constructor|]; split; [constructor|]; left;
           destruct (Nat.eq_dec t t) as [_|Hc]; [auto | exfalso; apply Hc; reflexivity]).
    destruct (h_frame S0 t) as [fr|].
    - destruct (svisits_fn S0 t (rf_rest fr) (rf_vf fr) (rf_after fr) (ls0 ++ [SSubRes t r])) as [vs [E [A [B C]]]].
      exists (SSubRes t r :: vs). split; [rewrite E, <- app_assoc; reflexivity|].
      split; [constructor; [reflexivity | exact A]|]. split; [constructor; [exact I | exact B]|].
      right; right. intros a Ha. cbn [fnc]. destruct (Nat.eq_dec t t) as [_|Hc]; [|exfalso; apply Hc; reflexivity]. rewrite Ha. exact C.
    - cbn [fst snd sset_pc h_pc]. exists [SRes t r]. split; [reflexivity|]. split; [repeat constructor|]. split; [repeat constructor|].
      right; left. destruct (Nat.eq_dec t t) as [_|Hc]; [auto | exfalso; apply Hc; reflexivity].
  Qed.

  (* ---------------- one step ---------------- *)

  (* what a step of t at p does to t's count *)
  Definition fn_effect (t : nat) (p p' : spc) (ls : list slabel) : Prop :=
    Forall (lby t) ls
    /\ ((nofn ls /\ (((forall a, fnc t a ls = a) /\ (cnz p = true -> cnz p' = true))
                     \/ (forall a, fst a = 0 -> (crange p = true -> snd a = 0) -> fnc t a ls = (0, 0))))
        \/ (exists l0 k old, ls = [l0; SFn t k old] /\ nofn_l l0 /\ (forall a, fnc t a [l0] = a) /\ cdone p = false /\ cnz p' = true)).

  Lemma eff_goto (S0 : mstate) t p q l0 :
    lby t l0 -> nofn_l l0 -> (forall a, fnc t a [l0] = a) ->
    (cnz p = true -> cnz q = true) ->
    fn_effect t p (h_pc (fst (sgoto S0 t q [l0])) t) (snd (sgoto S0 t q [l0])).
  Proof.
    intros Hb Hn Hf Hc. destruct (sgoto_fn S0 t q [l0]) as [vs [E [A [B C]]]]. rewrite E.
    split; [constructor; assumption|]. left. split; [constructor; assumption|].
    destruct C as [[-> [Ep _]]|[[Hv [Ep Hr]]|Hz]].
    - left. split; [exact Hf|]. rewrite Ep. exact Hc.
    - left. split; [intros a; rewrite fnc_app, Hf; apply Hv|]. rewrite Ep. intros _. reflexivity.
    - right. intros a Ha _. rewrite fnc_app, Hf. apply Hz. exact Ha.
  Qed.

  Lemma eff_decide (S0 : mstate) t p q l0 k old :
    lby t l0 -> nofn_l l0 -> (forall a, fnc t a [l0] = a) -> cdone p = false -> cnz q = true -> is_ret q = false ->
    fn_effect t p (h_pc (fst (sgoto S0 t q [l0; SFn t k old])) t) (snd (sgoto S0 t q [l0; SFn t k old])).
  Proof.
    intros Hb Hn Hf Hc Hq Hr. destruct (sgoto_fn S0 t q [l0; SFn t k old]) as [vs [E [A [B C]]]].
    assert (Hq' : vs = [] /\ h_pc (fst (sgoto S0 t q [l0; SFn t k old])) t = q).
    { destruct q; try discriminate Hr; cbn [sgoto fst snd sset_pc h_pc] in *;
        (destruct (Nat.eq_dec t t) as [_|Hx]; [|exfalso; apply Hx; reflexivity]);
        (split; [|reflexivity]); apply (app_inv_head [l0; SFn t k old]); rewrite <- E, app_nil_r; reflexivity. }
    destruct Hq' as [-> Ep]. rewrite E, app_nil_r, Ep.
    split; [constructor; [exact Hb | constructor; [reflexivity | constructor]]|]. right. exists l0, k, old. auto.
  Qed.

  Lemma eff_visits (S0 : mstate) t p snap vf after l0 :
    lby t l0 -> nofn_l l0 -> (forall a, fnc t a [l0] = a) -> crange p = true ->
    fn_effect t p (h_pc (fst (svisits S0 t snap vf after [l0])) t) (snd (svisits S0 t snap vf after [l0])).
  Proof.
    intros Hb Hn Hf Hc. destruct (svisits_fn S0 t snap vf after [l0]) as [vs [E [A [B C]]]]. rewrite E.
    split; [constructor; assumption|]. left. split; [constructor; assumption|]. right.
    intros [a1 a2] H1 H2. cbn [fst snd] in *. rewrite (H2 Hc), H1, fnc_app, Hf. exact C.
  Qed.

  Lemma some_pair5 {A B} (g : A * B) a b : Some g = Some (a, b) -> a = fst g /\ b = snd g.
  Proof. intros H. inversion H. auto. Qed.

  Lemma step_fn s t p s' ls : sstep_pc s t p = Some (s', ls) -> fn_effect t p (h_pc s' t) ls.
  Proof.
    intros Hs.
    destruct p; cbn [XMachineS.sstep_pc] in Hs; cbv zeta in Hs; unfold sfnev in Hs;
      repeat match type of Hs with
             | context [match ?x with _ => _ end] => destruct x eqn:?
             end; try discriminate Hs; apply some_pair5 in Hs; destruct Hs as [-> ->].
    all: try (apply eff_decide; [reflexivity | exact I | intros a9; reflexivity | reflexivity | reflexivity | reflexivity]).
    all: try (apply eff_visits; [reflexivity | exact I | intros a9; reflexivity | reflexivity]).
    all: try (apply eff_goto; [reflexivity | exact I | intros a9; reflexivity |
                               unfold cnz; cbn [cdone crange lkdone lkrange kdone ldone negb andb orb is_some];
                               rewrite ?cdone_cont; try (intros H9; exact H9); try discriminate; try reflexivity]).
    all: try (destruct rg; cbn; intros; congruence).
    all: try (destruct lc; cbn; intros; congruence).
    all: try match goal with
             | Ha : after_lock _ _ _ _ _ ?S1 ?T ?TAB ?B ?LK = (_, ?Q) |- _ -> cdone ?Q && _ = true =>
                 intros H9; pose proof (after_lock_cnz S1 T TAB B v LK H9) as H8; rewrite Ha in H8; exact H8
             end.
    all: try (destruct kt; cbn; intros; congruence).
    - (* QStart *)
      cbn [fst snd sset_pc h_pc]. destruct (Nat.eq_dec t t) as [_|Hc]; [|exfalso; apply Hc; reflexivity].
      split; [repeat constructor|]. left. split; [repeat constructor|]. left. split; [intros a; reflexivity | reflexivity].
  Qed.


  (* ---------------- the invariant over state and trace ---------------- *)

  Definition FN (s : mstate) (ls : list slabel) : Prop :=
    forall t, fst (fnc t (0, 0) ls) = 0 /\ snd (fnc t (0, 0) ls) <= 1 /\ (cnz (h_pc s t) = false -> snd (fnc t (0, 0) ls) = 0).

  (* every prefix of the trace, also those that end inside a scheduling step *)
  Definition FNP (ls : list slabel) : Prop :=
    forall t pre suf, ls = pre ++ suf -> snd (fnc t (0, 0) pre) <= 1.

  Lemma FN_step_pc s ls0 t p s' ls : frames_ok s -> swf p -> FN s ls0 ->
    h_pc s t = p -> sstep_pc s t p = Some (s', ls) -> FN s' (ls0 ++ ls).
  Proof.
    intros HF Hw HN Hp Hs u. rewrite fnc_app.
    destruct (step_fn s t p s' ls Hs) as [Hby He].
    destruct (HN u) as [F1 [F2 F3]].
    destruct (Nat.eq_dec u t) as [->|Hne].
    - rewrite Hp in F3. destruct He as [[Hn [[Hc Hd]|Hz]]|[l0 [k [old [-> [Hn [Hl [Hc Hd]]]]]]]].
      + rewrite Hc. split; [exact F1|]. split; [exact F2|]. intros Hnz. apply F3.
        destruct (cnz p) eqn:E; [|reflexivity]. rewrite (Hd eq_refl) in Hnz. discriminate.
      + rewrite Hz; [cbn; auto | exact F1 |]. intros Hr. apply F3. apply cnz_false. right. exact Hr.
      + assert (F0 : snd (fnc t (0, 0) ls0) = 0) by (apply F3; apply cnz_false; left; exact Hc).
        change [l0; SFn t k old] with ([l0] ++ [SFn t k old]). rewrite fnc_app, Hl. cbn [fnc].
        destruct (Nat.eq_dec t t) as [_|Hx]; [|exfalso; apply Hx; reflexivity]. cbn [fst snd]. rewrite F0.
        split; [exact F1|]. split; [lia|]. intros Hnz. rewrite Hd in Hnz. discriminate.
    - rewrite (fnc_other t u ls Hne Hby). split; [exact F1|]. split; [exact F2|]. intros Hnz. apply F3.
      destruct (sstep_effect eqd hash idx tophash nslots seeds grow_needed shrink_policy nstripes minlen grow_only s t p s' ls HF Hw Hs) as [Ho _].
      rewrite (Ho u Hne) in Hnz. destruct (is_bcast_s p); [rewrite cnz_wake in Hnz|]; exact Hnz.
  Qed.

  Lemma FNP_ext ls0 ls : FNP ls0 -> (forall t, fst (fnc t (0, 0) ls0) <= 1 /\ snd (fnc t (0, 0) ls0) <= 1) ->
    (forall t, snd (fnc t (0, 0) (ls0 ++ ls)) <= 1) ->
    (nofn ls \/ exists l0 l1, ls = [l0; l1] /\ nofn_l l0) -> FNP (ls0 ++ ls).
  Proof.
    intros HP H0 H1 Hs t pre suf E. symmetry in E. destruct (app_eq_app _ _ _ _ E) as [m [[E1 E2]|[E1 E2]]].
    - (* pre = ls0 ++ m, ls = m ++ suf *)
      subst pre. rewrite fnc_app. destruct (H0 t) as [A B].
      assert (Hm : nofn m \/ suf = []).
      { destruct Hs as [Hn|[l0 [l1 [-> Hn]]]].
        - left. rewrite E2 in Hn. apply Forall_app in Hn. apply Hn.
        - destruct m as [|x [|y [|z m]]]; cbn in E2.
          + left. constructor.
          + inversion E2; subst. left. constructor; [exact Hn | constructor].
          + inversion E2; subst. right. reflexivity.
          + inversion E2. }
      destruct Hm as [Hn| ->].
      + apply (fnc_nofn_max t m Hn _ 1 A B).
      + rewrite app_nil_r in E2. subst m. rewrite <- fnc_app. apply H1.
    - (* ls0 = pre ++ m *) apply (HP t pre m E1).
  Qed.

  Lemma step_fn_shape s t p s' ls : sstep_pc s t p = Some (s', ls) -> nofn ls \/ exists l0 l1, ls = [l0; l1] /\ nofn_l l0.
  Proof.
    intros Hs. destruct (step_fn s t p s' ls Hs) as [_ [[Hn _]|[l0 [k [old [-> [Hn _]]]]]]]; [left; exact Hn | right; eauto].
  Qed.

  Lemma FN_le s ls : FN s ls -> forall t, fst (fnc t (0, 0) ls) <= 1 /\ snd (fnc t (0, 0) ls) <= 1.
  Proof. intros H t. destruct (H t) as [A [B _]]. lia. Qed.

  Lemma FN_sstep s ls0 t s' ls : SI s -> FN s ls0 /\ FNP ls0 -> sstep s t = Some (s', ls) -> FN s' (ls0 ++ ls) /\ FNP (ls0 ++ ls).
  Proof.
    intros HS [HN HP] E.
    assert (HF : frames_ok s) by (intros u fr Ef; apply (si_frame s HS u fr Ef)).
    assert (Hgen : forall p, h_pc s t = p -> sstep_pc s t p = Some (s', ls) -> FN s' (ls0 ++ ls) /\ FNP (ls0 ++ ls)).
    { intros p Hp Hs. assert (Hw : swf p) by (rewrite <- Hp; apply (si_wf s HS)).
      pose proof (FN_step_pc s ls0 t p s' ls HF Hw HN Hp Hs) as HN'. split; [exact HN'|].
      apply FNP_ext; [exact HP | apply (FN_le s); exact HN | intros u; apply (HN' u) | apply (step_fn_shape s t p s' ls Hs)]. }
    unfold XMachineS.sstep in E.
    destruct (h_pc s t) eqn:Hp; try (apply (Hgen _ eq_refl E)).
    destruct (h_todo s t) as [|o rest]; [discriminate|].
    set (s1 := {| h_tabs := h_tabs s; h_cur := h_cur s; h_resizing := h_resizing s; h_rmu := h_rmu s;
                  h_growths := h_growths s; h_shrinks := h_shrinks s; h_alloc := h_alloc s;
                  h_pc := fun t' => if Nat.eq_dec t' t then sstart_pc o else h_pc s t';
                  h_todo := fun t' => if Nat.eq_dec t' t then rest else h_todo s t'; h_frame := h_frame s |}) in *.
    assert (HN1 : FN s1 (ls0 ++ [SInv t o])).
    { intros u. rewrite fnc_app. cbn [fnc]. unfold s1. cbn [h_pc].
      destruct (Nat.eq_dec t u) as [->|Hne].
      - cbn. auto.
      - destruct (Nat.eq_dec u t) as [Hc|_]; [exfalso; apply Hne; congruence|]. apply HN. }
    assert (HP1 : FNP (ls0 ++ [SInv t o])).
    { apply FNP_ext; [exact HP | apply (FN_le s); exact HN | intros u; apply (HN1 u) | left; repeat constructor]. }
    assert (Epc : h_pc s1 t = sstart_pc o) by (unfold s1; cbn [h_pc]; destruct (Nat.eq_dec t t); congruence).
    destruct (sstep_pc s1 t (sstart_pc o)) as [[s2 ls1]|] eqn:E2.
    - inversion E; subst s2 ls. change (ls0 ++ SInv t o :: ls1) with (ls0 ++ [SInv t o] ++ ls1). rewrite app_assoc.
      assert (HF1 : frames_ok s1) by exact HF.
      pose proof (FN_step_pc s1 (ls0 ++ [SInv t o]) t (sstart_pc o) s' ls1 HF1 (proj2 (sstart_plain o)) HN1 Epc E2) as HN'.
      split; [exact HN'|].
      apply FNP_ext; [exact HP1 | apply (FN_le s1); exact HN1 | intros u; apply (HN' u) | apply (step_fn_shape s1 t _ s' ls1 E2)].
    - inversion E; subst s' ls. split; assumption.
  Qed.

  Lemma FN_srun sched : forall s ls0, SI s -> FN s ls0 /\ FNP ls0 ->
    FN (fst (srun s sched)) (ls0 ++ snd (srun s sched)) /\ FNP (ls0 ++ snd (srun s sched)).
  Proof.
    induction sched as [|t rest IH]; intros s ls0 HS HN; cbn [XMachineS.srun]; [cbn [fst snd]; rewrite app_nil_r; exact HN|].
    destruct (sstep s t) as [[s' ls]|] eqn:E.
    - pose proof (SI_sstep eqd hash idx tophash nslots seeds grow_needed shrink_policy nstripes minlen grow_only s t s' ls HS E) as HS'.
      specialize (IH s' (ls0 ++ ls) HS' (FN_sstep s ls0 t s' ls HS HN E)).
      destruct (XMachineS.srun _ _ _ _ _ _ _ _ _ _ _ s' rest) as [s'' ls']. cbn [fst snd] in *. rewrite app_assoc. exact IH.
    - apply IH; assumption.
  Qed.

  (* C05 on every schedule of Map.  [fnc t (0,0) trace] = (saved, current):
     - current <= 1: since the last SInv / SSubInv of t (the start of its running call, top-level or a
       Range visitor's) the user function was evaluated at most once;
     - current = 0 while a decision step of that call is still reachable, and at every program counter
       of Range itself;
     - saved = 0: what a Range saves when its visitor calls the map and gets back when that call
       returns is 0 -- Range never evaluates a user function. *)
  Theorem fn_at_most_once len0 todo sched t :
    let r := srun (sinit nslots seeds nstripes len0 todo) sched in
    fst (fnc t (0, 0) (snd r)) = 0 /\ snd (fnc t (0, 0) (snd r)) <= 1
    /\ (cdone (h_pc (fst r) t) = false -> snd (fnc t (0, 0) (snd r)) = 0)
    /\ (crange (h_pc (fst r) t) = true -> snd (fnc t (0, 0) (snd r)) = 0).
  Proof.
    intros r.
    destruct (FN_srun sched (sinit nslots seeds nstripes len0 todo) []) as [H _].
    - apply SI_init.
    - split; [intros u; cbn; auto | intros u pre suf E; symmetry in E; apply app_eq_nil in E; destruct E as [-> _]; cbn; lia].
    - cbn [app] in H. destruct (H t) as [A [B C]]. fold r in A, B, C.
      split; [exact A|]. split; [exact B|]. split; intros Hc; apply C; apply cnz_false; auto.
  Qed.

  (* ... and at every point of the trace, not only at the ends of scheduling steps *)
  Theorem fn_at_most_once_prefix len0 todo sched t pre suf :
    snd (srun (sinit nslots seeds nstripes len0 todo) sched) = pre ++ suf -> snd (fnc t (0, 0) pre) <= 1.
  Proof.
    intros E.
    destruct (FN_srun sched (sinit nslots seeds nstripes len0 todo) []) as [_ H].
    - apply SI_init.
    - split; [intros u; cbn; auto | intros u pre0 suf0 E0; symmetry in E0; apply app_eq_nil in E0; destruct E0 as [-> _]; cbn; lia].
    - cbn [app] in H. apply (H t pre suf E).
  Qed.

End SFnSec.

(* ---------------- the executable instance (XExecS) ---------------- *)
From CacheV Require Import TabExec Exec XExec XExecS.
From CacheV.gen Require Import Params.

Notation s_srun_tr o seeds hint todo sched :=
  (srun zeqd (hash_of o) idx_map tag_map (nslots_of false) (seeds_of seeds) grow_needed_s shrink_policy_s
        nstripes_x (minlen_of_hint false hint) false (s_machine_init seeds hint todo) sched).

(* the extracted Map machine, every oracle, every schedule: at most one evaluation per call *)
Theorem s_machine_fn_at_most_once (o : oracle) (seeds : list N) (hint : Z) (todo : nat -> list sop_z) (sched : list nat) t :
  let r := s_srun_tr o seeds hint todo sched in
  fst (fnc t (0, 0) (snd r)) = 0 /\ snd (fnc t (0, 0) (snd r)) <= 1
  /\ (cdone (h_pc (fst r) t) = false -> snd (fnc t (0, 0) (snd r)) = 0)
  /\ (crange (h_pc (fst r) t) = true -> snd (fnc t (0, 0) (snd r)) = 0).
Proof. unfold s_machine_init. apply fn_at_most_once. Qed.

Theorem s_machine_fn_at_most_once_prefix (o : oracle) (seeds : list N) (hint : Z) (todo : nat -> list sop_z) (sched : list nat) t pre suf :
  snd (s_srun_tr o seeds hint todo sched) = pre ++ suf -> snd (fnc t (0, 0) pre) <= 1.
Proof. unfold s_machine_init. apply fn_at_most_once_prefix. Qed.

(* ---------------- non-vacuity ---------------- *)
(* One slot per bucket, two buckets, grow as soon as a chain is full.
   Thread 0: Store 0 (bucket 0), then Compute 2 with a user function (bucket 0: full -> sumSize() -> grow -> retry in the
   new table): the trace holds ONE SFn of thread 0 although the call went twice through the locked scan.
   Thread 1 then runs a Range whose visitor calls Compute (user function) on every visited key: two nested calls, two SFn of
   thread 1 in the trace, each counted in its own call; the Range's own count is 0 at the end and 1 in the middle of a
   nested call. *)
Definition fex_hash := (fun (k : nat) (_ : N) => N.of_nat k).
Definition fex_idx := (fun (h : N) len => Nat.modulo (N.to_nat h) len).
Definition fex_vis : nat -> nat -> option (@scx nat nat) :=
  fun k v => Some {| sc_k := k; sc_f := fun _ => Some (S v); sc_ev := true; sc_lie := false; sc_co := true |}.
Definition fex_run (sched : list nat) : @mstate nat nat * list (@slabel nat nat) :=
  @srun nat nat Nat.eq_dec fex_hash fex_idx (fun h => h) 1%nat (fun _ => 0%N)
        (fun _ _ => true) (fun _ _ => false) (fun _ => 1%nat) 1%nat false
        (sinit 1%nat (fun _ => 0%N) (fun _ => 1%nat) 2%nat
               (fun t => match t with
                         | 0 => [SCompute 0 (fun _ => Some 10) false false false; SCompute 2 (fun _ => Some 12) true false true]
                         | 1 => [SRange fex_vis]
                         | _ => [] end)%nat)
        sched.

Definition is_fn_of (t : nat) (l : @slabel nat nat) : bool := match l with SFn u _ _ => Nat.eqb u t | _ => false end.
Definition is_scan_of (t : nat) (l : @slabel nat nat) : bool := match l with SStep u (SKLoadI64 _) => Nat.eqb u t | _ => false end.

Example fn_nonvacuous :
  let r0 := fex_run (repeat 0 80)%nat in
  let r := fex_run (repeat 0 80 ++ repeat 1 80)%nat in
  (* thread 0 has returned from both calls; the table was grown once on the way *)
  h_pc (fst r0) 0%nat = QIdle /\ h_todo (fst r0) 0%nat = [] /\ h_growths (fst r0) = 1%Z /\ h_cur (fst r0) = 1%nat
  /\ length (filter (is_fn_of 0%nat) (snd r0)) = 1%nat /\ fnc 0%nat (0, 0)%nat (snd r0) = (0, 1)%nat
  (* thread 1: two nested calls with one evaluation each, back in the Range with count 0 *)
  /\ h_pc (fst r) 1%nat = QIdle /\ length (filter (is_fn_of 1%nat) (snd r)) = 2%nat /\ fnc 1%nat (0, 0)%nat (snd r) = (0, 0)%nat
  (* in the middle of the first nested call: the Range's count saved, the nested call's count 1 *)
  /\ exists n, fnc 1%nat (0, 0)%nat (snd (fex_run (repeat 0 80 ++ repeat 1 n)%nat)) = (0, 1)%nat
               /\ h_frame (fst (fex_run (repeat 0 80 ++ repeat 1 n)%nat)) 1%nat <> None.
Proof.
  repeat split; try (vm_compute; reflexivity).
  exists 14%nat. split; [vm_compute; reflexivity | vm_compute; discriminate].
Qed.
